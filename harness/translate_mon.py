"""Translator (T-tie for "no lost wake-up"): src/nfc/llcp/tco.py, llc.py -> lean/NfcVerif/Gen/Monitor.lean

Every method of the socket classes becomes a term of `NfcVerif.Monitor.Stmt` (see docs/monitor.md):

* `with self.lock:` / `with self.<condition>:` / `with self.llc.lock:`        -> `withLock L body`
* `self.<cv>.wait(...)`                                                        -> `wait m cv guard reads timeout`
  guard = whileG (top-level statement of a `while` body, nothing but side-effect free statements before it),
  ifG (same for an `if` without `else`), exceptG (same for an `except` handler; reads = attributes used by the
  `try` body), noG otherwise; reads = attributes of the object read by the test (properties expanded)
* `self.<cv>.notify()` / `.notify_all()`                                       -> `notify m cv` / `notifyAll m cv`
* assignment / augmented assignment / `del` / item assignment / mutating method call (append, popleft, clear ...)
  on an attribute of the object                                                -> `write m attr`
* `self.m(...)`, `super(C, self).m(...)`, calls on typed fields (`self.llc`, elements of `self.sap`)
                                                                               -> `tryc (call m') skip`
* if / while / for / try / raise / return / assert                             -> branch / loop / tryc / exit
* calls on foreign objects (parameters, locals, modules, `self.mac`, `self.sec`) have no effect on THIS object's
  attributes and conditions (facts about the source that justify this are emitted and proved true in Lean)
* anything else                                                                -> `other "<source>"` (rejected by the checker)

Only `ast` is used; nothing of the repository is imported or executed.  The output is deterministic.
"""
import ast
import os
import sys

# mutating operations that can raise INSTEAD of mutating (IndexError, KeyError, ValueError): `branch (write) exit`
RAISING = {"popleft", "pop", "remove", "popitem", "index"}
MUTATORS = {"append", "appendleft", "popleft", "pop", "clear", "extend", "extendleft", "rotate", "remove", "insert",
            "update", "setdefault", "sort", "reverse", "add", "discard", "popitem"}
PURE_METHODS = {"get", "items", "keys", "values", "index", "count", "copy", "format", "encode", "decode", "match",
                "startswith", "endswith", "join", "lower", "upper"}
BENIGN_NAMES = {"len", "isinstance", "min", "max", "int", "bool", "str", "bytes", "bytearray", "range", "list", "dict",
                "sorted", "filter", "type", "sum", "set", "tuple", "reversed", "enumerate", "repr", "hasattr", "getattr",
                "NotImplementedError", "ValueError", "TypeError", "RuntimeError", "IndexError", "KeyError",
                "AssertionError", "RR_PDU", "RNR_PDU", "ACK", "any", "all", "abs", "id", "zip", "map", "print", "iter",
                "next", "super"}
# module-level names whose attributes / calls never touch a socket or controller object
FOREIGN_ROOTS = {"log", "pdu", "err", "errno", "nfc", "threading", "collections", "logging", "time", "random", "sec",
                 "tco", "re", "struct", "binascii", "os", "wks_map", "service_name_format"}

PROGRAMS = {
    "Tco": {
        "file": "src/nfc/llcp/tco.py",
        "classes": ["TransmissionControlObject", "RawAccessPoint", "LogicalDataLink", "DataLinkConnection"],
        # all four classes describe ONE object (`self`); attributes are not qualified
        "qualify": False,
        # fields that hold foreign objects (their methods cannot reach this object)
        "foreign_fields": {("TransmissionControlObject", "state"), ("TransmissionControlObject", "mode")},
        "field_types": {},
        "lock_owner": ("TransmissionControlObject", "lock"),
        "self_passing_ok": {"from_pdu", "format", "str"},
    },
    "Llc": {
        "file": "src/nfc/llcp/llc.py",
        "classes": ["ServiceAccessPoint", "ServiceDiscovery", "LogicalLinkController"],
        # three kinds of object sharing the controller's lock: attributes are qualified by class
        "qualify": True,
        "foreign_fields": {("LogicalLinkController", "mac"), ("LogicalLinkController", "sec"),
                           ("LogicalLinkController", "pcnt"), ("LogicalLinkController", "link")},
        # (class, field) -> ("obj"|"coll", classes)
        "field_types": {("ServiceAccessPoint", "llc"): ("obj", ("LogicalLinkController",)),
                        ("ServiceDiscovery", "llc"): ("obj", ("LogicalLinkController",)),
                        ("LogicalLinkController", "sap"): ("coll", ("ServiceAccessPoint", "ServiceDiscovery"))},
        "lock_owner": ("LogicalLinkController", "lock"),
        "self_passing_ok": {"ServiceAccessPoint", "ServiceDiscovery", "format", "str"},
    },
}
SHORT = {"TransmissionControlObject": "Tco", "RawAccessPoint": "Raw", "LogicalDataLink": "Ldl",
         "DataLinkConnection": "Dlc", "ServiceAccessPoint": "Sap", "ServiceDiscovery": "Sd",
         "LogicalLinkController": "Llc"}


def lean_str(s):
    s = " ".join(s.split())[:70]
    s = "".join(c if 32 <= ord(c) < 127 else "?" for c in s)
    return '"' + s.replace("\\", "\\\\").replace('"', '\\"') + '"'


def ident(s):
    return "".join(c if c.isalnum() else "_" for c in s)


# ------------------------------------------------------------------ IR helpers
SKIP = ("skip",)
EXIT = ("exit",)


def seq(items):
    out = []
    for i in items:
        if i == SKIP:
            continue
        if i[0] == "seq":
            out += i[1]
        else:
            out.append(i)
    if not out:
        return SKIP
    if len(out) == 1:
        return out[0]
    return ("seq", out)


def walk(t):
    yield t
    k = t[0]
    if k == "seq":
        for x in t[1]:
            yield from walk(x)
    elif k == "withLock":
        yield from walk(t[2])
    elif k in ("branch", "tryc"):
        yield from walk(t[1])
        yield from walk(t[2])
    elif k == "loop":
        yield from walk(t[1])


class Program:
    def __init__(self, name, cfg, repo):
        self.name, self.cfg = name, cfg
        self.path = os.path.join(repo, cfg["file"])
        self.src = open(self.path, encoding="latin-1").read()
        self.tree = ast.parse(self.src)
        self.classes = {}
        for n in self.tree.body:
            if isinstance(n, ast.ClassDef) and n.name in cfg["classes"]:
                self.classes[n.name] = n
        self.missing = [c for c in cfg["classes"] if c not in self.classes]
        self.bases = {}
        for c, n in self.classes.items():
            b = [x.id for x in n.bases if isinstance(x, ast.Name) and x.id in self.classes]
            self.bases[c] = b[0] if b else None
        # methods: (class, name, kind) -> FunctionDef ; kind '' / 'get' / 'set'
        self.methods = {}
        self.order = []
        for c in cfg["classes"]:
            if c not in self.classes:
                continue
            for m in self.classes[c].body:
                if isinstance(m, ast.FunctionDef):
                    kind = ""
                    for d in m.decorator_list:
                        if isinstance(d, ast.Name) and d.id == "property":
                            kind = "get"
                        elif isinstance(d, ast.Attribute) and d.attr == "setter":
                            kind = "set"
                        else:
                            kind = "deco"
                    key = (c, m.name + ("" if kind in ("", "get") else "@" + kind))
                    self.methods[key] = (m, kind)
                    self.order.append(key)
        self.others = []      # (method, line, source)
        self.foreign = []     # (method, line, source) foreign calls skipped
        self.sites = []       # (method, line, kind, detail)
        self.attr_set = {}    # class -> set of attribute names assigned via self.<a> in the class
        for c, n in self.classes.items():
            s = set()
            for x in ast.walk(n):
                if isinstance(x, ast.Attribute) and isinstance(x.value, ast.Name) and x.value.id == "self" \
                        and isinstance(x.ctx, (ast.Store, ast.Del)):
                    s.add(x.attr)
            self.attr_set[c] = s
        # locks and conditions from the constructors
        self.lock = None
        self.reentrant = None
        self.cvs = {}         # qualified cv name -> lock name
        self.cv_fields = {}   # (class, field) -> qualified cv name
        self.facts = {}
        self.scan_init()

    # ---------------------------------------------------------------- class structure
    def mro(self, c):
        out = []
        while c:
            out.append(c)
            c = self.bases.get(c)
        return out

    def find_method(self, c, name, start_after=None):
        """resolve `name` in the MRO of `c` (after class `start_after` for super())"""
        m = self.mro(c)
        if start_after is not None:
            m = m[m.index(start_after) + 1:] if start_after in m else []
        for k in m:
            if (k, name) in self.methods:
                return (k, name)
        return None

    def has_attr(self, c, a):
        return any(a in self.attr_set.get(k, ()) for k in self.mro(c)) or \
            any(a in self.attr_set.get(k, ()) for k in self.classes if c in self.mro(k))

    def qattr(self, c, a):
        if not self.cfg["qualify"]:
            return a
        for k in self.mro(c):
            if a in self.attr_set.get(k, ()):
                return "%s.%s" % (SHORT[k], a)
        return "%s.%s" % (SHORT[c], a)

    def scan_init(self):
        oc, of = self.cfg["lock_owner"]
        locks = []
        for c in self.cfg["classes"]:
            if (c, "__init__") not in self.methods:
                continue
            fn = self.methods[(c, "__init__")][0]
            for s in ast.walk(fn):
                if not isinstance(s, ast.Assign) or len(s.targets) != 1:
                    continue
                t = s.targets[0]
                if not (isinstance(t, ast.Attribute) and isinstance(t.value, ast.Name) and t.value.id == "self"):
                    continue
                v = s.value
                if isinstance(v, ast.Call) and isinstance(v.func, ast.Attribute) and \
                        isinstance(v.func.value, ast.Name) and v.func.value.id == "threading":
                    if v.func.attr in ("RLock", "Lock") and not v.args:
                        locks.append((c, t.attr, v.func.attr))
                    elif v.func.attr == "Condition":
                        lk = self.lock_of_expr(v.args[0], c) if len(v.args) == 1 else None
                        q = self.qattr(c, t.attr)
                        self.cvs[q] = lk if lk else "?"
                        self.cv_fields[(c, t.attr)] = q
        own = [l for l in locks if (l[0], l[1]) == (oc, of)]
        self.facts["one_lock_created_once_in_init"] = len(locks) == 1 and len(own) == 1
        self.lock = "%s.%s" % (SHORT[oc], of)
        self.reentrant = bool(own) and own[0][2] == "RLock"
        # the lock and the conditions are never re-assigned outside __init__, never acquired/released by hand
        bad_assign, manual = [], []
        for (c, mname), (fn, kind) in self.methods.items():
            for x in ast.walk(fn):
                if isinstance(x, ast.Attribute) and isinstance(x.ctx, ast.Store) and \
                        isinstance(x.value, ast.Name) and x.value.id == "self":
                    if ((c, x.attr) in self.cv_fields or (c, x.attr) == (oc, of)) and mname != "__init__":
                        bad_assign.append((c, mname, x.attr))
                if isinstance(x, ast.Attribute) and x.attr in ("acquire", "release", "_release_save", "_acquire_restore"):
                    manual.append((c, mname))
        self.facts["lock_and_conditions_assigned_only_in_init"] = not bad_assign
        self.facts["no_manual_acquire_release"] = not manual
        self.facts["every_condition_is_built_on_a_known_lock"] = all(v != "?" for v in self.cvs.values())

    def lock_of_expr(self, e, c):
        """name of the lock denoted by expression `e` inside class `c`, or None"""
        oc, of = self.cfg["lock_owner"]
        if isinstance(e, ast.Attribute) and e.attr == of:
            t = self.typeof(e.value, {"cls": c, "locals": {}})
            if t and t[0] == "obj" and all(oc in self.mro(k) for k in t[1]):
                return "%s.%s" % (SHORT[oc], of)
        return None

    # ---------------------------------------------------------------- typing of receivers
    def typeof(self, e, ctx):
        """('obj'|'coll', (classes...)) when `e` denotes an object (collection of objects) of this program"""
        if isinstance(e, ast.Name):
            if e.id == "self":
                return ("obj", (ctx["cls"],))
            return ctx["locals"].get(e.id)
        if isinstance(e, ast.Attribute):
            t = self.typeof(e.value, ctx)
            if t and t[0] == "obj":
                res = None
                for c in t[1]:
                    for k in self.mro(c):
                        ft = self.cfg["field_types"].get((k, e.attr))
                        if ft:
                            res = (ft[0], tuple(sorted(set((res[1] if res else ()) + ft[1]))))
                return res
            return None
        if isinstance(e, ast.Subscript):
            t = self.typeof(e.value, ctx)
            if t and t[0] == "coll":
                if isinstance(e.slice, ast.Slice):
                    return t
                return ("obj", t[1])
            return None
        if isinstance(e, ast.IfExp):
            ts = [self.typeof(x, ctx) for x in (e.body, e.orelse)
                  if not (isinstance(x, ast.Constant) and x.value is None)]
            if ts and all(t is not None and t[0] == ts[0][0] for t in ts):
                return (ts[0][0], tuple(sorted({c for t in ts for c in t[1]})))
            return None
        if isinstance(e, ast.Call) and isinstance(e.func, ast.Name) and e.func.id in ("filter", "sorted", "list", "reversed"):
            args = [a for a in e.args]
            cand = args[1] if e.func.id == "filter" and len(args) == 2 else (args[0] if args else None)
            t = self.typeof(cand, ctx) if cand is not None else None
            return t if t and t[0] == "coll" else None
        return None


class MethodTranslator:
    def __init__(self, prog, key):
        self.p = prog
        self.key = key
        self.cls = key[0]
        self.fn, self.kind = prog.methods[key]
        self.mname = "%s.%s" % key

    # ---- reporting
    def other(self, node, why=""):
        src = node if isinstance(node, str) else ast.unparse(node)
        self.p.others.append((self.mname, getattr(node, "lineno", 0), (why + ": " if why else "") + src))
        return ("other", (why + ": " if why else "") + src)

    # ---- attribute access
    def attr_of(self, e, ctx):
        """for an expression rooted at an attribute of a program object: (qualified attr, class, field, rest-depth)
        e.g. self.send_queue -> ('send_queue', cls, 'send_queue', 0); self.llc.snl[name] -> ('Llc.snl', ..., 1)"""
        depth = 0
        while True:
            if isinstance(e, ast.Attribute):
                t = self.p.typeof(e.value, ctx)
                if t and t[0] == "obj":
                    return [(self.p.qattr(c, e.attr), c, e.attr) for c in t[1] if self.p.has_attr(c, e.attr) or
                            self.p.find_method(c, e.attr) is None], depth
                e = e.value
                depth += 1
            elif isinstance(e, ast.Subscript):
                e = e.value
                depth += 1
            elif isinstance(e, ast.Call):
                return None, depth
            else:
                return None, depth

    def reads(self, e, ctx, seen=()):
        """attributes of the object read by expression `e` (properties expanded); None = cannot tell"""
        out = set()
        for x in ast.walk(e):
            if isinstance(x, ast.Call):
                f = x.func
                ok = (isinstance(f, ast.Name) and f.id in BENIGN_NAMES and f.id != "super") or \
                     (isinstance(f, ast.Attribute) and f.attr in PURE_METHODS)
                if not ok:
                    return None
            if isinstance(x, (ast.Lambda, ast.ListComp, ast.GeneratorExp, ast.SetComp, ast.DictComp, ast.Await,
                              ast.Yield, ast.NamedExpr)):
                return None
            if isinstance(x, ast.Attribute):
                t = self.p.typeof(x.value, ctx)
                if t and t[0] == "obj":
                    for c in t[1]:
                        pk = self.p.find_method(c, x.attr)
                        if pk and self.p.methods[pk][1] == "get":
                            if pk in seen:
                                return None
                            body = self.p.methods[pk][0].body
                            rets = [s for s in body if not (isinstance(s, ast.Expr) and isinstance(s.value, ast.Constant))]
                            if len(rets) != 1 or not isinstance(rets[0], ast.Return) or rets[0].value is None:
                                return None
                            r = MethodTranslator(self.p, pk).reads(rets[0].value, {"cls": pk[0], "locals": {}}, seen + (pk,))
                            if r is None:
                                return None
                            out |= r
                        elif pk:
                            return None      # bound method used as a value
                        else:
                            out.add(self.p.qattr(c, x.attr))
        return out

    # ---- expressions: ordered list of effects
    def effects(self, node, ctx):
        if node is None:
            return []
        p = self.p
        if isinstance(node, ast.Lambda):
            # runs later / elsewhere; parameters are untyped, only effects on typed receivers matter
            inner = self.effects(node.body, dict(ctx, locals={k: v for k, v in ctx["locals"].items()
                                                              if k not in {a.arg for a in node.args.args}}))
            return [("loop", seq(inner))] if inner else []
        if isinstance(node, ast.Call):
            return self.call(node, ctx)
        if isinstance(node, ast.Attribute):
            out = self.effects(node.value, ctx)
            t = p.typeof(node.value, ctx)
            if t and t[0] == "obj" and any((k, node.attr) in p.cv_fields or (k, node.attr) == p.cfg["lock_owner"]
                                           for c in t[1] for k in p.mro(c)):
                # only `with`, `.wait()`, `.notify()`, `.notify_all()` may touch a lock or condition
                out.append(self.other(node, "lock or condition used as a value"))
                return out
            if t and t[0] == "obj":
                # property access on a program object = call of the getter (when it does anything)
                cands = []
                for c in t[1]:
                    pk = p.find_method(c, node.attr)
                    if pk and p.methods[pk][1] == "get":
                        cands.append(pk)
                    elif pk and not isinstance(node.ctx, ast.Load):
                        out.append(self.other(node, "method object stored"))
                cands = [k for k in cands if not self.pure(p.translated(k))]
                if cands:
                    out.append(self.call_keys(cands, ctx, node))
            return out
        if isinstance(node, (ast.ListComp, ast.GeneratorExp, ast.SetComp, ast.DictComp)):
            inner = []
            sub = dict(ctx, locals=dict(ctx["locals"]))
            for g in node.generators:
                inner += self.effects(g.iter, sub)
                self.bind_target(g.target, g.iter, sub, elem=True)
                for c in g.ifs:
                    inner += self.effects(c, sub)
            if isinstance(node, ast.DictComp):
                inner += self.effects(node.key, sub) + self.effects(node.value, sub)
            else:
                inner += self.effects(node.elt, sub)
            return [("loop", seq(inner))] if inner else []
        if isinstance(node, ast.BoolOp):
            vals = [seq(self.effects(v, ctx)) for v in node.values]
            r = [vals[0]]
            for v in vals[1:]:
                if v != SKIP:
                    r.append(("branch", v, SKIP))
            return [x for x in r if x != SKIP]
        if isinstance(node, ast.IfExp):
            a, b = seq(self.effects(node.body, ctx)), seq(self.effects(node.orelse, ctx))
            out = self.effects(node.test, ctx)
            if a != SKIP or b != SKIP:
                out.append(("branch", a, b))
            return out
        if isinstance(node, (ast.Yield, ast.YieldFrom, ast.Await, ast.NamedExpr)):
            return [self.other(node)]
        out = []
        for c in ast.iter_child_nodes(node):
            if isinstance(c, ast.expr):
                out += self.effects(c, ctx)
            elif isinstance(c, ast.keyword):
                out += self.effects(c.value, ctx)
            elif isinstance(c, ast.comprehension):
                out.append(self.other(node))
        return out

    def passes_self(self, call, ctx):
        for a in list(call.args) + [k.value for k in call.keywords]:
            a = a.value if isinstance(a, ast.Starred) else a
            t = self.p.typeof(a, ctx)
            if t is not None:
                return True
            if isinstance(a, ast.Attribute):
                t = self.p.typeof(a.value, ctx)
                if t and t[0] == "obj" and any(self.p.find_method(c, a.attr) and
                                               self.p.methods[self.p.find_method(c, a.attr)][1] == "" for c in t[1]):
                    return True     # bound method handed out
        return False

    def call_keys(self, keys, ctx, node):
        """call (by reference) of one of the translated methods `keys`"""
        keys = sorted(set(keys), key=lambda k: self.p.order.index(k))
        self.p.sites.append((self.mname, getattr(node, "lineno", 0), "call", ", ".join("%s.%s" % k for k in keys)))
        alts = [("tryc", ("call", k), SKIP) for k in keys]
        r = alts[-1]
        for a in reversed(alts[:-1]):
            r = ("branch", a, r)
        return r

    def call(self, node, ctx):
        p = self.p
        f = node.func
        out = []
        for a in node.args:
            out += self.effects(a.value if isinstance(a, ast.Starred) else a, ctx)
        for k in node.keywords:
            out += self.effects(k.value, ctx)
        # ---- plain names
        if isinstance(f, ast.Name):
            if f.id in ctx["funcs"]:
                out.append(self.inline(ctx["funcs"][f.id], ctx, f.id))
                return out
            if f.id in ctx["aliases"]:
                out.append(self.call_keys([ctx["aliases"][f.id]], ctx, node))
                return out
            if f.id in p.classes:
                if self.passes_self(node, ctx) and f.id not in p.cfg["self_passing_ok"]:
                    out.append(self.other(node, "object handed to"))
                return out      # constructor of a program class: a new, unshared object
            if f.id in BENIGN_NAMES or f.id in FOREIGN_ROOTS:
                if self.passes_self(node, ctx) and f.id not in ("isinstance", "str", "type", "filter", "sorted", "list",
                                                                 "len", "reversed", "id", "repr", "super"):
                    out.append(self.other(node, "object handed to"))
                return out
            if f.id in ctx["typevars"]:
                p.foreign.append((self.mname, node.lineno, ast.unparse(node)[:60]))   # constructor of type(<foreign>)
                return out
            if f.id in ctx["locals"] or f.id in ctx["params"] or f.id in ctx["names"]:
                # a callable held in a local / parameter: foreign code
                if ctx["depth"] > 0:
                    out.append(self.other(node, "foreign callable under the lock"))
                else:
                    p.foreign.append((self.mname, node.lineno, ast.unparse(node)[:60]))
                return out
            out.append(self.other(node, "unknown function"))
            return out
        if not isinstance(f, ast.Attribute):
            out += self.effects(f, ctx)
            out.append(self.other(node, "computed callee"))
            return out
        base = f.value
        # ---- super(C, self).m(...)
        if isinstance(base, ast.Call) and isinstance(base.func, ast.Name) and base.func.id == "super":
            ok = len(base.args) == 2 and isinstance(base.args[0], ast.Name) and base.args[0].id == self.cls and \
                isinstance(base.args[1], ast.Name) and base.args[1].id == "self"
            k = p.find_method(self.cls, f.attr, start_after=self.cls) if ok else None
            if k is None:
                if ok and f.attr == "__init__":
                    return out
                out.append(self.other(node, "super call not resolved"))
            else:
                out.append(self.call_keys([k], ctx, node))
            return out
        t = p.typeof(base, ctx)
        # ---- method of a program object
        if t and t[0] == "obj":
            keys = []
            unknown = []
            for c in t[1]:
                k = p.find_method(c, f.attr)
                if k and p.methods[k][1] == "":
                    keys.append(k)
                elif len(t[1]) == 1:
                    unknown.append(c)
            if unknown or not keys:
                out.append(self.other(node, "no such method"))
                return out
            out.append(self.call_keys(keys, ctx, node))
            return out
        # ---- method of an attribute of a program object: self.<a>[...].m(...)
        if isinstance(base, ast.Attribute):
            tb = p.typeof(base.value, ctx)
            if tb and tb[0] == "obj":
                cvq = [p.cv_fields[(k, base.attr)] for c in tb[1] for k in p.mro(c) if (k, base.attr) in p.cv_fields]
                if cvq:
                    return out + [self.cv_op(node, cvq[0], f.attr, ctx)]
                if any((k, base.attr) == p.cfg["lock_owner"] for c in tb[1] for k in p.mro(c)):
                    return out + [self.other(node, "lock used by hand")]
        out += self.effects(base, ctx)
        targets, depth = self.attr_of(base, ctx)
        if targets is not None:
            if not targets:
                out.append(self.other(node, "unknown attribute"))
                return out
            foreign = all(any((k, fld) in p.cfg["foreign_fields"] for k in p.mro(c)) for _, c, fld in targets)
            if foreign:
                if self.passes_self(node, ctx) and f.attr not in p.cfg["self_passing_ok"]:
                    out.append(self.other(node, "object handed to"))
                else:
                    p.foreign.append((self.mname, node.lineno, ast.unparse(node)[:60]))
                return out
            if f.attr in MUTATORS:
                out.append(self.alt([self.write(q, node, raising=f.attr in RAISING) for q, c, fld in targets]))
                return out
            if f.attr in PURE_METHODS:
                return out
            out.append(self.other(node, "unknown method on an attribute"))
            return out
        # ---- foreign receiver (parameter, local, module ...)
        root = base
        while isinstance(root, (ast.Attribute, ast.Subscript, ast.Call)):
            root = root.func if isinstance(root, ast.Call) else root.value
        if isinstance(root, ast.Constant) or (isinstance(root, ast.Name) and (
                root.id in FOREIGN_ROOTS or root.id in ctx["params"] or root.id in ctx["names"] or
                root.id in p.classes)):
            if self.passes_self(node, ctx) and f.attr not in p.cfg["self_passing_ok"] and not (
                    isinstance(root, ast.Name) and root.id == "log"):     # logging formats with str(): read only
                out.append(self.other(node, "object handed to"))
            elif not (isinstance(root, ast.Constant) or root.id in FOREIGN_ROOTS):
                p.foreign.append((self.mname, node.lineno, ast.unparse(node)[:60]))
            return out
        out.append(self.other(node, "unknown receiver"))
        return out

    def cv_op(self, node, cv, op, ctx):
        if op == "wait":
            g, reads = ctx.get("guard") or ("noG", set())
            if not reads:
                g, reads = "noG", set()      # a test that reads nothing of the object is no guard
            if ctx.get("guard_used") is not None:
                ctx["guard_used"].append(True)
            timeout = bool(node.args or node.keywords)
            self.p.sites.append((self.mname, node.lineno, "wait", "%s %s [%s]%s" % (
                cv, g, ", ".join(sorted(reads)), " timeout" if timeout else "")))
            return ("wait", self.mname, cv, g, tuple(sorted(reads)), timeout)
        if op == "notify" and not node.args and not node.keywords:
            self.p.sites.append((self.mname, node.lineno, "notify", cv))
            return ("notify", self.mname, cv)
        if op in ("notify_all", "notifyAll") and not node.args:
            self.p.sites.append((self.mname, node.lineno, "notifyAll", cv))
            return ("notifyAll", self.mname, cv)
        return self.other(node, "condition operation")

    @staticmethod
    def alt(items):
        """the receiver is an object of one of several classes: exactly one alternative happens"""
        r = items[-1]
        for a in reversed(items[:-1]):
            r = ("branch", a, r)
        return r

    def write(self, q, node, raising=False):
        self.p.sites.append((self.mname, getattr(node, "lineno", 0), "write", q + (" (may raise)" if raising else "")))
        w = ("write", self.mname, q)
        return ("branch", w, EXIT) if raising else w

    def inline(self, fn, ctx, name):
        if name in ctx["stack"] or len(ctx["stack"]) > 3:
            return self.other("recursive or too deep call of %s" % name)
        sub = dict(ctx, stack=ctx["stack"] + [name], locals=dict(ctx["locals"]), aliases=dict(ctx["aliases"]),
                   funcs=dict(ctx["funcs"]), params=ctx["params"] | {a.arg for a in fn.args.args}, guard=None,
                   typevars=set(ctx["typevars"]), names=set(ctx["names"]),
                   guard_used=None)
        return ("tryc", self.block(fn.body, sub), SKIP)

    # ---- assignment targets
    def bind_target(self, target, value, ctx, elem=False):
        """record what a local name denotes after `target = value` (or `for target in value`)"""
        if isinstance(target, ast.Name):
            t = self.p.typeof(value, ctx) if value is not None else None
            if t and elem:
                t = ("obj", t[1]) if t[0] == "coll" else None
            ctx["aliases"].pop(target.id, None)
            ctx["funcs"].pop(target.id, None)
            ctx["typevars"].discard(target.id)
            if isinstance(value, ast.Call) and isinstance(value.func, ast.Name) and value.func.id == "type" and \
                    len(value.args) == 1 and self.p.typeof(value.args[0], ctx) is None:
                ctx["typevars"].add(target.id)
            if t:
                ctx["locals"][target.id] = t
            else:
                ctx["locals"].pop(target.id, None)
                ctx["names"].add(target.id)
            # alias of a super method: poll = super(C, self).poll
            if isinstance(value, ast.Attribute) and isinstance(value.value, ast.Call) and \
                    isinstance(value.value.func, ast.Name) and value.value.func.id == "super":
                k = self.p.find_method(self.cls, value.attr, start_after=self.cls)
                if k:
                    ctx["aliases"][target.id] = k
        elif isinstance(target, (ast.Tuple, ast.List)):
            for e in target.elts:
                self.bind_target(e, None, ctx)
        elif isinstance(target, ast.Starred):
            self.bind_target(target.value, None, ctx)

    def store(self, target, ctx, node):
        """effects of storing into `target`"""
        if isinstance(target, ast.Name):
            return []
        if isinstance(target, (ast.Tuple, ast.List)):
            return [e for x in target.elts for e in self.store(x, ctx, node)]
        if isinstance(target, ast.Starred):
            return self.store(target.value, ctx, node)
        out = []
        # index / inner expressions are evaluated
        if isinstance(target, ast.Subscript):
            out += self.effects(target.slice, ctx)
        targets, depth = self.attr_of(target, ctx)
        if targets is None:
            # foreign object (parameter, local): not an attribute of this object
            root = target
            while isinstance(root, (ast.Attribute, ast.Subscript)):
                root = root.value
            if isinstance(root, ast.Name) and root.id != "self":
                self.p.foreign.append((self.mname, node.lineno, "store " + ast.unparse(target)[:50]))
                return out
            return out + [self.other(node, "store target")]
        if not targets:
            return out + [self.other(node, "unknown attribute")]
        alts = []
        for q, c, fld in targets:
            if (c, fld) in self.p.cv_fields or (c, fld) == self.p.cfg["lock_owner"]:
                alts.append(self.other(node, "lock or condition re-assigned"))
            else:
                # a store through a subscript can raise (KeyError on del, TypeError on None) instead of storing
                alts.append(self.write(q, node, raising=isinstance(target, ast.Subscript) or depth > 0 and
                                       isinstance(node, ast.Delete)))
        return out + [self.alt(alts)]

    # ---- statements
    def block(self, stmts, ctx):
        return seq([self.stmt(s, ctx) for s in stmts])

    def guarded_block(self, stmts, ctx, kind, reads):
        """block in which a top-level `cv.wait()` preceded only by effect-free statements gets guard (kind, reads)"""
        items = []
        clean = True
        for s in stmts:
            is_wait = isinstance(s, ast.Expr) and isinstance(s.value, ast.Call) and \
                isinstance(s.value.func, ast.Attribute) and s.value.func.attr == "wait"
            if is_wait and clean and reads is not None:
                t = self.stmt(s, dict(ctx, guard=(kind, reads)))
            else:
                t = self.stmt(s, dict(ctx, guard=None))
            if not self.pure(t):
                clean = False
            items.append(t)
        return seq(items)

    def pure(self, t, seen=()):
        """no write / wait / notify / other (through calls)"""
        for x in walk(t):
            if x[0] in ("write", "wait", "notify", "notifyAll", "other", "withLock"):
                return False
            if x[0] == "call":
                if x[1] in seen:
                    return False
                if not self.pure(self.p.translated(x[1]), seen + (x[1],)):
                    return False
        return True

    def stmt(self, s, ctx):
        p = self.p
        if isinstance(s, ast.Expr):
            if isinstance(s.value, ast.Constant):
                return SKIP
            return seq(self.effects(s.value, ctx))
        if isinstance(s, ast.Pass):
            return SKIP
        if isinstance(s, ast.FunctionDef):
            ctx["funcs"][s.name] = s
            return SKIP
        if isinstance(s, ast.With):
            if len(s.items) != 1 or s.items[0].optional_vars is not None:
                return self.other(s, "with")
            e = s.items[0].context_expr
            lk = p.lock_of_expr(e, self.cls)
            if lk is None and isinstance(e, ast.Attribute):
                t = p.typeof(e.value, ctx)
                if t and t[0] == "obj":
                    cvq = [p.cv_fields[(k, e.attr)] for c in t[1] for k in p.mro(c) if (k, e.attr) in p.cv_fields]
                    if cvq and p.cvs.get(cvq[0], "?") != "?":
                        lk = p.cvs[cvq[0]]
            if lk is None:
                return self.other(s, "with")
            p.sites.append((self.mname, s.lineno, "withLock", ast.unparse(e)))
            return ("withLock", lk, self.block(s.body, dict(ctx, depth=ctx["depth"] + 1, guard=None)))
        if isinstance(s, ast.If):
            test = self.effects(s.test, ctx)
            if not s.orelse:
                body = self.guarded_block(s.body, ctx, "ifG", self.reads(s.test, ctx))
            else:
                body = self.block(s.body, dict(ctx, guard=None))
            return seq(test + [("branch", body, self.block(s.orelse, dict(ctx, guard=None)))])
        if isinstance(s, ast.While):
            test = self.effects(s.test, ctx)
            sub = dict(ctx, locals=dict(ctx["locals"]))
            body = self.guarded_block(s.body, sub, "whileG", self.reads(s.test, ctx))
            inner = seq(test + [body])
            return seq(test + [("loop", ("tryc", inner, SKIP)), self.block(s.orelse, dict(ctx, guard=None))])
        if isinstance(s, ast.For):
            head = self.effects(s.iter, ctx)
            self.bind_target(s.target, s.iter, ctx, elem=True)
            st = self.store(s.target, ctx, s)
            body = self.block(s.body, dict(ctx, guard=None))
            return seq(head + [("loop", ("tryc", seq(st + [body]), SKIP)), self.block(s.orelse, dict(ctx, guard=None))])
        if isinstance(s, ast.Try):
            body = seq([self.block(s.body, dict(ctx, guard=None)), self.block(s.orelse, dict(ctx, guard=None))])
            r = set()
            ok = True
            for b in s.body:
                x = self.reads_stmt(b, ctx)
                if x is None:
                    ok = False
                else:
                    r |= x
            hs = []
            for h in s.handlers:
                hctx = dict(ctx, guard=None)
                if h.name:
                    hctx["names"].add(h.name)
                hs.append(self.guarded_block(h.body, hctx, "exceptG", r if ok else None))
            t = body
            if hs:
                h = hs[-1]
                for x in reversed(hs[:-1]):
                    h = ("branch", x, h)
                t = ("tryc", body, h)
            if s.finalbody:
                fin = self.block(s.finalbody, dict(ctx, guard=None))
                t = seq([("tryc", t, seq([fin, EXIT])), fin])
            return t
        if isinstance(s, ast.Return):
            return seq(self.effects(s.value, ctx) + [EXIT])
        if isinstance(s, ast.Raise):
            return seq(self.effects(s.exc, ctx) + self.effects(s.cause, ctx) + [EXIT])
        if isinstance(s, (ast.Break, ast.Continue)):
            return EXIT
        if isinstance(s, ast.Assert):
            return seq(self.effects(s.test, ctx) + self.effects(s.msg, ctx) + [("branch", SKIP, EXIT)])
        if isinstance(s, ast.Assign):
            eff = self.effects(s.value, ctx)
            for t in s.targets:
                eff += self.store(t, ctx, s)
                self.bind_target(t, s.value, ctx)
            return seq(eff)
        if isinstance(s, ast.AugAssign):
            eff = self.effects(s.value, ctx) + self.effects(s.target, ctx) if not isinstance(s.target, ast.Name) \
                else self.effects(s.value, ctx)
            eff += self.store(s.target, ctx, s)
            if isinstance(s.target, ast.Name):
                self.bind_target(s.target, None, ctx)
            return seq(eff)
        if isinstance(s, ast.AnnAssign):
            eff = self.effects(s.value, ctx) + self.store(s.target, ctx, s)
            self.bind_target(s.target, s.value, ctx)
            return seq(eff)
        if isinstance(s, ast.Delete):
            return seq([e for t in s.targets for e in self.store(t, ctx, s)])
        if isinstance(s, (ast.Import, ast.ImportFrom, ast.Global, ast.Nonlocal)):
            return SKIP
        return self.other(s, "statement")

    def reads_stmt(self, s, ctx):
        if isinstance(s, (ast.Return, ast.Expr)):
            return self.reads_mut(s.value, ctx) if s.value is not None else set()
        if isinstance(s, ast.Assign):
            return self.reads_mut(s.value, ctx)
        return None

    def reads_mut(self, e, ctx):
        """like reads(), but a mutating call on an attribute counts as a read of that attribute"""
        calls = [x for x in ast.walk(e) if isinstance(x, ast.Call)]
        out = set()
        for x in calls:
            f = x.func
            if isinstance(f, ast.Attribute) and f.attr in MUTATORS:
                targets, _ = self.attr_of(f.value, ctx)
                if not targets:
                    return None
                out |= {q for q, _, _ in targets}
            elif isinstance(f, ast.Name) and f.id in BENIGN_NAMES and f.id != "super":
                pass
            elif isinstance(f, ast.Attribute) and f.attr in PURE_METHODS:
                pass
            else:
                return None
        return out

    def translate(self):
        fn = self.fn
        if fn.name == "__init__":
            return SKIP
        params = {a.arg for a in fn.args.args + fn.args.kwonlyargs} - {"self"}
        if fn.args.vararg:
            params.add(fn.args.vararg.arg)
        if fn.args.kwarg:
            params.add(fn.args.kwarg.arg)
        ctx = {"cls": self.cls, "locals": {}, "aliases": {}, "funcs": {}, "params": params, "names": set(),
               "typevars": set(),
               "depth": 0, "stack": [], "guard": None}
        if self.kind == "deco":
            return self.other(fn.name, "decorated method")
        return self.block(fn.body, ctx)


def _translated(self, key):
    if key not in self._cache:
        self._cache[key] = SKIP      # recursion guard
        self._cache[key] = MethodTranslator(self, key).translate()
    return self._cache[key]


Program.translated = _translated


def translate_program(name, repo):
    p = Program(name, PROGRAMS[name], repo)
    # two passes: guard detection asks whether callees are effect free, which needs their translation
    p._cache = {}
    for key in p.order:
        p.translated(key)
    p.others, p.foreign, p.sites = [], [], []
    res = {}
    for key in p.order:
        res[key] = MethodTranslator(p, key).translate()
    # calls that close a cycle of the call graph are not inlined by the checker: `reenter`
    graph = {k: sorted({x[1] for x in walk(t) if x[0] == "call"}, key=p.order.index) for k, t in res.items()}

    def reaches(a, b, seen=None):
        seen = set() if seen is None else seen
        for n in graph.get(a, ()):
            if n == b or (n not in seen and not seen.add(n) and reaches(n, b, seen)):
                return True
        return False

    def fix(t, me):
        k = t[0]
        if k == "call" and (t[1] == me or reaches(t[1], me)):
            return ("reenter", t[1])
        if k == "seq":
            return ("seq", [fix(x, me) for x in t[1]])
        if k == "withLock":
            return ("withLock", t[1], fix(t[2], me))
        if k in ("branch", "tryc"):
            return (k, fix(t[1], me), fix(t[2], me))
        if k == "loop":
            return ("loop", fix(t[1], me))
        return t
    res = {k: fix(t, k) for k, t in res.items()}
    p.recursive = sorted({("%s.%s" % k, "%s.%s" % x[1]) for k, t in res.items() for x in walk(t) if x[0] == "reenter"})
    p._cache = res
    # ---- facts
    # a method called through `self` from a base class must not be overridden below (calls are resolved lexically)
    ok = True
    for (c, m), (fn, kind) in p.methods.items():
        for x in ast.walk(fn):
            if isinstance(x, ast.Attribute) and isinstance(x.value, ast.Name) and x.value.id == "self":
                k = p.find_method(c, x.attr)
                if k:
                    for d in p.classes:
                        if d != c and c in p.mro(d) and p.find_method(d, x.attr) != k:
                            ok = False
    p.facts["self_calls_resolve_lexically"] = ok
    tops = [n for n in p.tree.body if isinstance(n, ast.ClassDef)]
    p.facts["all_top_level_classes_translated"] = all(n.name in p.classes for n in tops)
    p.facts["no_module_level_functions"] = not any(isinstance(n, (ast.FunctionDef, ast.AsyncFunctionDef)) for n in p.tree.body)
    p.facts["all_classes_found"] = not p.missing
    return p, res


def collect_tables(p, res):
    attrs = set()
    for t in res.values():
        for x in walk(t):
            if x[0] == "write":
                attrs.add(x[2])
            if x[0] == "wait":
                attrs |= set(x[4])
    return sorted(attrs), sorted(p.cvs), [p.lock]


def class_groups(p, res):
    """[(short name, classes, entry points, reachable methods)]: for tco.py one group per class (what can be called ON
    an object of the class: each name resolved through the MRO), for llc.py one group for the three classes"""
    def closure(start):
        seen, todo = [], list(start)
        while todo:
            k = todo.pop(0)
            if k in seen:
                continue
            seen.append(k)
            todo += [x[1] for x in walk(res[k]) if x[0] in ("call", "reenter")]
        return sorted(seen, key=p.order.index)
    groups = [(SHORT[c], [c]) for c in p.cfg["classes"] if c in p.classes] if not p.cfg["qualify"] else \
        [("All", [c for c in p.cfg["classes"] if c in p.classes])]
    out = []
    for short, cls in groups:
        vis = []
        for c in cls:
            names = []
            for k in p.order:
                if k[0] in p.mro(c) and k[1] != "__init__" and k[1] not in names:
                    names.append(k[1])
            vis += [p.find_method(c, n) for n in names]
        vis = sorted(set(vis), key=p.order.index)
        out.append((short, cls, vis, closure(vis)))
    return out


def render(t, ids):
    k = t[0]
    if k == "skip":
        return "skip"
    if k == "exit":
        return "exit"
    if k == "other":
        return "(other %s)" % lean_str(t[1])
    if k == "seq":
        items = [render(x, ids) for x in t[1]]
        r = items[-1]
        for i in reversed(items[:-1]):
            r = "(seq %s %s)" % (i, r)
        return r
    if k == "withLock":
        return "(withLock %s %s)" % (ids["lock"][t[1]], render(t[2], ids))
    if k == "wait":
        return "(wait %s %s .%s [%s] %s)" % (ids["meth"][t[1]], ids["cv"][t[2]], t[3],
                                             ", ".join(ids["attr"][a] for a in t[4]), "true" if t[5] else "false")
    if k == "notify":
        return "(notify %s %s)" % (ids["meth"][t[1]], ids["cv"][t[2]])
    if k == "notifyAll":
        return "(notifyAll %s %s)" % (ids["meth"][t[1]], ids["cv"][t[2]])
    if k == "write":
        return "(write %s %s)" % (ids["meth"][t[1]], ids["attr"][t[2]])
    if k == "call":
        return "(call %s)" % ids["meth"]["%s.%s" % t[1]]
    if k == "reenter":
        return "(reenter %s)" % ids["meth"]["%s.%s" % t[1]]
    if k == "branch":
        return "(branch %s %s)" % (render(t[1], ids), render(t[2], ids))
    if k == "tryc":
        return "(tryc %s %s)" % (render(t[1], ids), render(t[2], ids))
    if k == "loop":
        return "(loop %s)" % render(t[1], ids)
    raise ValueError(k)


def cross_facts(repo, progs):
    """facts that tie the two programs together (foreign calls have no effect on the other object)"""
    facts = {}
    tco = progs["Tco"][0]
    llc = progs["Llc"][0]
    # tco.py never reaches into controller objects
    names = {x.attr for x in ast.walk(tco.tree) if isinstance(x, ast.Attribute)}
    facts["tco_never_touches_controller_objects"] = not (names & {"llc", "snl", "sap", "resp", "sdreq", "sdres", "dmpdu"}) \
        and not any("llc" in parts for x in ast.walk(tco.tree) if isinstance(x, (ast.Import, ast.ImportFrom))
                    for parts in [[q for a in x.names for q in a.name.split(".")] +
                                  ((x.module or "").split(".") if isinstance(x, ast.ImportFrom) else [])])
    # llc.py stores into socket objects only attributes no socket guard reads, and never uses socket conditions
    guard_reads = set()
    for t in progs["Tco"][1].values():
        for x in walk(t):
            if x[0] == "wait":
                guard_reads |= set(x[4])
    stored = set()
    for x in ast.walk(llc.tree):
        if isinstance(x, ast.Attribute) and isinstance(x.ctx, (ast.Store, ast.Del)):
            root = x.value
            while isinstance(root, (ast.Attribute, ast.Subscript)):
                root = root.value
            if isinstance(root, ast.Name) and root.id != "self":
                stored.add(x.attr)
    facts["controller_stores_no_socket_guard_attribute"] = not (stored & guard_reads)
    cvnames = {c.split(".")[-1] for c in tco.cvs}
    used = {x.attr for x in ast.walk(llc.tree) if isinstance(x, ast.Attribute)}
    facts["controller_never_uses_socket_conditions_or_lock"] = not (used & cvnames) and not any(
        isinstance(x, ast.Attribute) and x.attr == "lock" and not (
            (isinstance(x.value, ast.Name) and x.value.id == "self") or
            (isinstance(x.value, ast.Attribute) and x.value.attr == "llc")) for x in ast.walk(llc.tree))
    # no other module of the package touches the conditions or the socket / controller locks
    names = {c.split(".")[-1] for c in list(tco.cvs) + list(llc.cvs)}
    bad = []
    base = os.path.join(repo, "src", "nfc")
    for root, _, files in sorted(os.walk(base)):
        for fn in sorted(files):
            if not fn.endswith(".py"):
                continue
            path = os.path.join(root, fn)
            if os.path.abspath(path) in (os.path.abspath(tco.path), os.path.abspath(llc.path)):
                continue
            try:
                tree = ast.parse(open(path, encoding="latin-1").read())
            except SyntaxError:
                bad.append(path)
                continue
            for x in ast.walk(tree):
                if isinstance(x, ast.Attribute) and x.attr in names and isinstance(x.value, ast.Attribute):
                    bad.append("%s:%d" % (os.path.relpath(path, repo), x.lineno))
    facts["no_other_module_uses_the_conditions"] = not bad
    return facts, sorted(stored)


def translate(repo):
    progs = {}
    for name in ("Tco", "Llc"):
        progs[name] = translate_program(name, repo)
    xf, stored = cross_facts(repo, progs)
    return progs, xf, stored


def emit_text(repo):
    progs, xf, stored = translate(repo)
    L = ["import NfcVerif.Model.Monitor",
         "/-! GENERATED by harness/translate_mon.py from src/nfc/llcp/tco.py and llc.py - do not edit. -/",
         "namespace NfcVerif.Gen.Monitor", "open NfcVerif.Monitor NfcVerif.Monitor.Stmt", ""]
    report = {}
    for name in ("Tco", "Llc"):
        p, res = progs[name]
        attrs, cvs, locks = collect_tables(p, res)
        meths = ["%s.%s" % k for k in p.order]
        ids = {"attr": {a: "a_" + ident(a) for a in attrs}, "cv": {c: "cv_" + ident(c) for c in cvs},
               "lock": {l: "lk_" + ident(l) for l in locks},
               "meth": {m: "m_" + ident(m.replace("@", "_at_")) for m in meths}}
        L.append("namespace %s" % name)
        for i, a in enumerate(attrs):
            L.append("def %s : Attr := %d" % (ids["attr"][a], i))
        L.append("def attrNames : List (Attr × String) := [%s]" % ", ".join('(%d, "%s")' % (i, a) for i, a in enumerate(attrs)))
        for i, c in enumerate(cvs):
            L.append("def %s : Cv := %d" % (ids["cv"][c], i))
        L.append("def cvNames : List (Cv × String) := [%s]" % ", ".join('(%d, "%s")' % (i, c) for i, c in enumerate(cvs)))
        for i, l in enumerate(locks):
            L.append("def %s : LockId := %d" % (ids["lock"][l], i))
        L.append("def lock : LockId := %s" % ids["lock"][p.lock])
        L.append("def reentrant : Bool := %s" % ("true" if p.reentrant else "false"))
        L.append("/-- `threading.Condition(<lock>)` objects and the lock each is built on -/")
        L.append("def cvs : List (Cv × LockId) := [%s]" % ", ".join(
            "(%s, %s)" % (ids["cv"][c], ids["lock"].get(p.cvs[c], "999")) for c in cvs))
        for i, m in enumerate(meths):
            L.append("def %s : Meth := %d" % (ids["meth"][m], i))
        L.append("def methNames : List (Meth × String) := [%s]" % ", ".join('(%d, "%s")' % (i, m) for i, m in enumerate(meths)))
        L.append("")
        for key in p.order:
            m = "%s.%s" % key
            fn = p.methods[key][0]
            L.append("/-- `%s` (line %d) -/" % (m, fn.lineno))
            L.append("def s_%s : Stmt :=\n  %s\n" % (ids["meth"][m][2:], render(res[key], ids)))
        L.append("def program : List Stmt := [%s]\n" % ", ".join("s_" + ids["meth"]["%s.%s" % k][2:] for k in p.order))
        entries = [k for k in p.order if k[1] != "__init__"]
        L.append("/-- entry points: every method except the constructors -/")
        L.append("def entries : List Meth := [%s]" % ", ".join(ids["meth"]["%s.%s" % k] for k in entries))

        groups = class_groups(p, res)
        for short, cls, vis, reach in groups:
            L.append("/-- methods callable on an object of %s (names resolved through the MRO) -/" % " / ".join(cls))
            L.append("def entries%s : List Meth := [%s]" % (short, ", ".join(ids["meth"]["%s.%s" % k] for k in vis)))
            L.append("/-- methods reachable from them (through `self.m()` / `super().m()`) -/")
            L.append("def reach%s : List Meth := [%s]" % (short, ", ".join(ids["meth"]["%s.%s" % k] for k in reach)))
            gl = []
            for k in reach:
                for x in walk(res[k]):
                    if x[0] == "wait":
                        gl.append("(%s, [%s])" % (ids["cv"][x[2]], ", ".join(ids["attr"][a] for a in x[4])))
            L.append("/-- guard table of these methods: (condition, attributes read) per wait site -/")
            L.append("def guards%s : List (Cv × List Attr) := [%s]" % (short, ", ".join(gl)))
        facts = dict(p.facts)
        if name == "Llc":
            facts.update(xf)
        L.append("/-- source facts the translation relies on (true = holds) -/")
        L.append("def facts : List (String × Bool) := [%s]" % ", ".join(
            '("%s", %s)' % (k, "true" if v else "false") for k, v in sorted(facts.items())))
        L.append("end %s\n" % name)
        report[name] = {"attrs": attrs, "cvs": cvs, "meths": meths, "facts": facts, "ids": ids}
    L.append("end NfcVerif.Gen.Monitor")
    return "\n".join(L) + "\n", progs, report, stored


def emit(repo, out_path):
    text, progs, report, stored = emit_text(repo)
    old = open(out_path).read() if os.path.exists(out_path) else None
    if old != text:
        with open(out_path, "w") as f:
            f.write(text)
    return progs, report


if __name__ == "__main__":
    repo = sys.argv[1] if len(sys.argv) > 1 and not sys.argv[1].startswith("-") else os.environ.get("NFCPY_REPO", "/repo")
    args = [a for a in sys.argv[1:] if not a.startswith("-")]
    out = args[1] if len(args) > 1 else os.path.join(os.path.dirname(os.path.dirname(os.path.abspath(__file__))),
                                                     "lean", "NfcVerif", "Gen", "Monitor.lean")
    progs, report = emit(repo, out)
    for name, (p, res) in progs.items():
        print("==", name, "lock", p.lock, "reentrant", p.reentrant, "cvs", p.cvs)
        for s in p.sites:
            if s[2] != "call" or "-v" in sys.argv:
                print("  site", s)
        for o in p.others:
            print("  OTHER", o)
        print("  foreign calls skipped:", len(p.foreign))
        if "-v" in sys.argv:
            for f in p.foreign:
                print("   foreign", f)
        print("  facts", report[name]["facts"])
