#!/venv/bin/python
"""Self-test of the function translator (harness/translate_fn.py).  Run: /venv/bin/python harness/translate_fn_selftest.py

Part 1 (translator validation): for every translated function, run the REAL Python function (for a
translated slice of a method: the real statements of that slice, compiled in the namespace of the real
module) and the regenerated Lean function (line-protocol driver `drv_fn`) on boundary and random inputs and
compare the canonical results including the exception class.  Must show zero differences.

Part 2 (mutations): small source mutations in translated functions, applied to a copy of the source files;
the translator is run on the copy, the bridge module is built against the mutated `Gen/` output in a scratch
copy of `lean/`; reports for each mutation whether the bridge proof broke, and (measured by running original
and mutated Python on the part-1 inputs) whether the mutation changes behaviour.

Options: --part 1|2|all (default all), --seed N, --n N (random inputs per function), --json FILE
"""
import argparse
import ast
import importlib
import importlib.util
import json
import os
import random
import shutil
import subprocess
import sys
import time
import types

HERE = os.path.dirname(os.path.abspath(__file__))
sys.path.insert(0, HERE)
import common                     # noqa: E402  (puts /repo/src on sys.path)
import translate_fn as T          # noqa: E402
import fnbridge                   # noqa: E402
from common import Model, hx, exc_name   # noqa: E402

import logging                    # noqa: E402
logging.disable(logging.CRITICAL)

TMP = "/tmp/w1-selftest-%d" % os.getpid()


# ----------------------------------------------------------------------------- canonical forms
REC_FIELDS = {}     # class name -> [(parameter, type, attribute)] of the function under test


def canon(v):
    rec = [c.__name__ for c in type(v).__mro__ if c.__name__ in REC_FIELDS]
    if rec and not isinstance(v, (int, bytes, bytearray, tuple, list, set, str)):
        fl = REC_FIELDS[rec[0]]
        return "(" + ", ".join(canon(getattr(v, a or p)) for (p, _t, a) in fl) + ")"
    if isinstance(v, bool):
        return "True" if v else "False"
    if isinstance(v, int):
        return str(v)
    if isinstance(v, (bytes, bytearray)):
        return hx(v)
    if v is None:
        return "None"
    if isinstance(v, slice):
        return "(%s, %s)" % (canon(v.start), canon(v.stop))
    if isinstance(v, tuple):
        return "(" + ", ".join(canon(x) for x in v) + ")"
    if isinstance(v, (set, frozenset)):
        return "{" + ",".join(str(x) for x in sorted(v)) + "}"
    if isinstance(v, (list, range)):
        return "[" + ", ".join(canon(x) for x in v) + "]"
    if isinstance(v, str):
        return v
    raise TypeError("no canonical form for %r" % (v,))


def arg_text(t, v, depth=0):
    if t == T.INT:
        return str(v)
    if t == T.BOOL:
        return "1" if v else "0"
    if t == T.BYTES:
        return hx(v)
    if t == T.STR:
        return v if v != "" else "<empty>"        # the empty string has its own token (pStr)
    if t == T.SET:
        return ",".join(str(x) for x in sorted(v)) if v else "-"
    if t == T.LIST(T.INT):
        return ",".join(str(x) for x in v) if v else "-"
    if isinstance(t, tuple) and t[0] == "list":
        return "|".join(arg_text(t[1], x, depth) for x in v) if v else "[]"
    if isinstance(t, tuple) and t[0] == "opt":
        return "None" if v is None else arg_text(t[1], v, depth)
    if isinstance(t, tuple) and t[0] == "tuple":
        return T.TUPLE_SEPS[depth].join(arg_text(ct, c, depth + 1) for ct, c in zip(t[1:], v))
    if isinstance(t, tuple) and t[0] == "rec":       # the field values in constructor order (translate_fn.parse_code)
        fl = REC_FIELDS[t[1]]
        if len(fl) == 0:
            return "()"
        if len(fl) == 1:
            return arg_text(fl[0][1], v[0], depth)
        return T.TUPLE_SEPS[depth].join(arg_text(ft, c, depth + 1) for (_p, ft, _a), c in zip(fl, v))
    raise TypeError(t)


class PyList(list):
    """list-typed inputs: a list that also answers the deque methods (the translator gives both the list meaning)"""
    def appendleft(self, x):
        self.insert(0, x)

    def popleft(self):
        if not self:
            raise IndexError("pop from an empty deque")
        return self.pop(0)


def py_value(t, v):
    """the Python object handed to the real function"""
    if t == T.BYTES:
        return bytearray(v)
    if t == T.SET:
        return set(v)
    if t == T.LIST(T.INT):
        return PyList(v)
    if isinstance(t, tuple) and t[0] == "opt":
        return None if v is None else py_value(t[1], v)
    if isinstance(t, tuple) and t[0] == "tuple":
        return tuple(py_value(ct, c) for ct, c in zip(t[1:], v))
    if isinstance(t, tuple) and t[0] == "list":
        return PyList(py_value(t[1], x) for x in v)
    if isinstance(t, tuple) and t[0] == "rec":
        return rec_value(t[1], v)
    return v


# ----------------------------------------------------------------------------- running the real code
def load_module(sp, src_root=None, tag=""):
    name = "nfc." + sp.file[:-3].replace("/", ".")
    if name.endswith(".__init__"):
        name = name[:-9]
    if src_root is None:
        return importlib.import_module(name)
    path = os.path.join(src_root, "src", "nfc", sp.file)
    mname = name + "_mut" + tag
    spec = importlib.util.spec_from_file_location(mname, path)
    mod = importlib.util.module_from_spec(spec)
    # relative imports of the mutated copy resolve against the real package: for a package file (`clf/__init__.py`)
    # that is the package itself, for a module its parent
    mod.__package__ = name if sp.file.endswith("__init__.py") else name.rsplit(".", 1)[0]
    sys.modules[mname] = mod
    spec.loader.exec_module(mod)
    return mod


class Dummy(object):
    """stand-in for everything a translated slice does not model: a context manager (locks), callable
    (notify, log), any attribute is again a Dummy"""
    def __enter__(self):
        return self

    def __exit__(self, *a):
        return False

    def __call__(self, *a, **kw):
        return None

    def __getattr__(self, name):
        return Dummy()


def stub_hash(seed, args):
    h = seed * 1009 % 65521
    for x in args:
        h = (h * 31 + (x % 65521) + 7) % 65521
    return h


def make_stub(seed, rty, mon, atys=None):
    """the Python side of `stubBytes` / `stubInt` in Gen/FnDispatch.lean"""
    def flat(a):
        out = []
        for i, v in enumerate(a):
            opt = atys is not None and len(atys) == len(a) and isinstance(atys[i], tuple) and atys[i][0] == "opt"
            if opt:                        # translate_fn.STUB_ARGS: None -> 65000, some v -> 65001 then v
                out.append(65000 if v is None else 65001)
                if v is None:
                    continue
            if isinstance(v, bool):
                out.append(1 if v else 0)
            elif isinstance(v, int):
                out.append(v)
            elif isinstance(v, (bytes, bytearray, list, tuple)):
                out += list(bytes(v))
            # anything else is the object itself (`self` handed to the callee, declared NONE): contributes nothing
        return out

    def f(*a, **kw):
        args = flat(list(a) + list(kw.values()))
        h = stub_hash(seed, args)
        if mon and h % 11 == 0:
            raise IndexError("stub")
        if mon and rty in (T.BYTES, T.OPT(T.BYTES), T.TUP(T.BYTES, T.BYTES)) and h % 11 == 1:
            import nfc.tag
            raise nfc.tag.TagCommandError(1)

        def bs(hh):
            return bytearray((hh // (i + 1)) % 256 for i in range(hh % 5))
        if rty == T.BYTES:
            return bs(h)
        if rty == T.OPT(T.BYTES):
            return None if h % 3 == 0 else bs(h)
        if rty == T.OPT(T.INT):
            return None if h % 3 == 0 else h % 300 - 20
        if rty == T.TUP(T.BYTES, T.BYTES):
            return (bs(h), bs(stub_hash(seed + 100, args)))
        if rty == T.BOOL:
            return h % 2 == 0
        if rty == T.OPT(T.BOOL):
            return None if h % 3 == 0 else h % 3 == 1
        return h % 300 - 20
    return f


class Truthy(types.SimpleNamespace):
    """an object that is bound both as a value (its truth value / comparison) and through its attributes"""
    def __init__(self, value):
        self.__dict__["_value"] = value

    def __bool__(self):
        return bool(self.__dict__["_value"])

    def __getattr__(self, name):
        return Dummy()


class TimeoutStandIn(Exception):
    pass


class SliceSelf(types.SimpleNamespace):
    """`self` of a translated slice: bound attributes are set explicitly, class constants come from the real
    class, everything else is a Dummy"""
    def __getattr__(self, name):
        cls = self.__dict__.get("_cls")
        if cls is not None and hasattr(cls, name):
            v = getattr(cls, name)
            if not callable(v) and not isinstance(v, property):
                return v
            if name in self.__dict__.get("_calls", ()):
                # a method the spec maps to a translated function (calls=): the real one, bound to this object
                raw = [c.__dict__[name] for c in cls.__mro__ if name in c.__dict__][0]
                if isinstance(raw, staticmethod):
                    return raw.__func__
                if isinstance(raw, classmethod):
                    return types.MethodType(raw.__func__, cls)
                return types.MethodType(raw, self)
        return Dummy()


def odd_bind(sp, src):
    """binds that the slice executor replaces by a parameter: call / subscript / comparison texts
    (translate_fn.is_odd_bind) and attribute texts whose root is a local the function itself assigns
    (`ndef = self.NDEF(self)` .. `ndef.has_changed`: the object is not one the harness can prepare)"""
    if T.is_odd_bind(src):
        return True
    root = src.split(".")[0]
    if "." not in src or root in ("self", "cls"):
        return False
    if not hasattr(sp, "_assigned_locals"):
        try:
            src_path = getattr(sp, "_src_path", None) or os.path.join(common.REPO, "src", "nfc", sp.file)
            node = T.find_def_node(ast.parse(open(src_path).read()), sp.qual)
            sp._assigned_locals = {x.id for x in ast.walk(node) if isinstance(x, ast.Name) and isinstance(x.ctx, ast.Store)}
        except Exception:      # noqa: BLE001
            sp._assigned_locals = set()
    return root in sp._assigned_locals


class SuperStub(object):
    """stand-in for the builtin `super` inside a slice: every `super(..)` is one object carrying the stubs"""
    def __init__(self):
        self.obj = SliceSelf()

    def __call__(self, *a):
        return self.obj


class Tok(int):
    """an object token: a parameter declared INT (the Lean side sees only the number) that the real code uses as an
    object - it carries the attributes the spec binds under `<param>.attr`; everything else is a Dummy"""
    def __getattr__(self, name):
        if name.startswith("__"):
            raise AttributeError(name)
        return Dummy()


def seed_param_roots(sp, pv, roots):
    """parameters that are the root of a bind (`target.brty` with parameter `target`): an int becomes a Tok so that
    make_self can hang the bound attributes on it; None stays None"""
    bind_roots = {src.split(".")[0] for (src, _pn, _t) in sp.binds if "." in src and not T.is_odd_bind(src)}
    for (pn, t), v in zip(sp.params, pv):
        if pn in bind_roots and isinstance(v, int) and not isinstance(v, bool) and t in (T.INT, T.OPT(T.INT)):
            roots[pn] = Tok(v)


def param_values(sp, pv, roots):
    return [roots[pn] if isinstance(roots.get(pn), Tok) else py_value(t, v) for (pn, t), v in zip(sp.params, pv)]


def install_stubs(sp, obj, roots):
    for k, (text, (pname, atys, rty, mon)) in enumerate(sorted(sp.opaque.items())):
        parts = text.split(".")
        if parts[0].startswith("super("):        # `super(Cls, self).m(..)` as an opaque call: `super` of the slice
            sup = roots.setdefault("super", SuperStub())
            parts = ["super"] + parts[1:]
            o = sup.obj
        else:
            o = obj if parts[0] in ("self", "cls") else roots.setdefault(parts[0], SliceSelf())
        for p in parts[1:-1]:
            if p not in getattr(o, "__dict__", {}):
                o.__dict__[p] = SliceSelf()
            o = o.__dict__[p]
        if len(parts) > 1:
            o.__dict__[parts[-1]] = make_stub(k + 1, rty, mon, atys)
        else:
            roots[parts[0]] = make_stub(k + 1, rty, mon, atys)


def make_self(sp, cls, bind_vals, roots=None):
    """an object of the real class (no __init__) carrying the bound attributes; for a translated slice a
    plain namespace (the slice only reads the bound attributes).  Attribute chains that do not start at
    self (`target.sensb_res`) are put into `roots`."""
    if cls is not None and not sp.cut:
        sub = type(cls.__name__, (cls,), {"__getattr__": lambda self, name: Dummy()})    # locks, logs, .. not modelled
        try:
            obj = object.__new__(sub)
        except TypeError:          # exception classes and other built-in bases: their own allocator, still no __init__
            obj = sub.__new__(sub)
    else:
        obj = SliceSelf()
        obj.__dict__["_cls"] = cls
        obj.__dict__["_calls"] = {k.split(".", 1)[1] for k in sp.calls if k.startswith(("self.", "cls.")) and k.count(".") == 1}
    for (src, pname, ty), v in zip(sp.binds, bind_vals):
        if odd_bind(sp, src):
            continue       # a call/subscript/comparison text: replaced by a parameter in the compiled slice
        parts = src.split(".")
        if parts[0] not in ("self", "cls"):
            if roots is None:
                continue
            o = roots.setdefault(parts[0], SliceSelf())
        else:
            o = obj
        if False:
            pass
        for p in parts[1:-1]:
            cur = getattr(o, "__dict__", {}).get(p, None)
            if p not in getattr(o, "__dict__", {}) or cur is None:
                setattr(o, p, SliceSelf())
            elif not isinstance(cur, (SliceSelf, types.SimpleNamespace)):
                setattr(o, p, Truthy(cur))       # `self.sec` bound as a bool and `self.sec.icv_size` as well
            o = getattr(o, p)
        setattr(o, parts[-1], py_value(ty, v))
    return obj


def real_callable(sp, mod, path):
    """-> f(param values, bind values) running the real code of spec sp in module mod"""
    f = _real_callable(sp, mod, path)

    def run(pv, bv):
        REC_CTX["mod"], REC_CTX["fields"] = mod, sp.rec_fields      # for record-typed parameters (py_value)
        return f(pv, bv)
    return run


REC_CTX = {"mod": None, "fields": {}}


def find_class(mod, name):
    """the class `name` of module mod: top level, or nested in a top level class"""
    if isinstance(getattr(mod, name, None), type):
        return getattr(mod, name)
    for o in vars(mod).values():
        if isinstance(o, type) and getattr(o, "__module__", None) == mod.__name__:
            stack = [o]
            while stack:
                c = stack.pop()
                for k, v in vars(c).items():
                    if isinstance(v, type):
                        if k == name:
                            return v
                        stack.append(v)
    return None


def rec_value(name, vals):
    """an instance of the record class `name` (real class of the module when it can be built from its
    constructor parameters, else an object with the attributes)"""
    fl = REC_CTX["fields"][name]
    kw = {pn: py_value(t, v) for (pn, t, _a), v in zip(fl, vals)}
    cls = find_class(REC_CTX["mod"], name) if REC_CTX["mod"] is not None else None
    if cls is not None:
        try:
            return cls(**kw)
        except Exception:      # noqa: BLE001
            pass
    o = types.SimpleNamespace()
    for (pn, _t, a) in fl:
        setattr(o, a or pn, kw[pn])
    return o


def _real_callable(sp, mod, path):
    sp._src_path = path            # for odd_bind: the file this run takes the function from
    if hasattr(sp, "_assigned_locals"):
        del sp._assigned_locals
    parts = sp.qual.split(".")
    owner = mod
    for p in parts[:-1]:
        owner = getattr(owner, p)
    cls = owner if len(parts) > 1 else None
    if sp.via:
        cls = getattr(mod, sp.via)      # the subclass through which the base-class method is run
    setter = parts[-1].endswith("@setter")
    if setter:
        parts[-1] = parts[-1][:-7]
    sp._src_path = path
    if not sp.cut and not any(odd_bind(sp, b[0]) for b in sp.binds):
        raw = getattr(mod, parts[-1]) if cls is None else \
            [c.__dict__[parts[-1]] for c in cls.__mro__ if parts[-1] in c.__dict__][0]
        if setter:
            def run_setter(pv, bv):
                me = make_self(sp, cls, bv)
                install_stubs(sp, me, {})
                return raw.fset(me, *[py_value(t, v) for (_, t), v in zip(sp.params, pv)])
            return run_setter
        if isinstance(raw, staticmethod) or cls is None:
            fn = raw.__func__ if isinstance(raw, staticmethod) else raw

            def run_function(pv, bv):
                roots = {}
                seed_param_roots(sp, pv, roots)
                if sp.binds or sp.opaque:
                    me = make_self(sp, None, bv, roots)
                    install_stubs(sp, me, roots)
                g = fn
                extra_globals = {k: v for k, v in roots.items() if k not in [pn for pn, _ in sp.params]}
                if extra_globals and isinstance(fn, types.FunctionType):
                    # module-level names the spec declares opaque / binds: the same code with those globals replaced
                    g = types.FunctionType(fn.__code__, dict(fn.__globals__, **extra_globals), fn.__name__,
                                           fn.__defaults__, fn.__closure__)
                    g.__kwdefaults__ = fn.__kwdefaults__
                return g(*param_values(sp, pv, roots))
            return run_function
        if isinstance(raw, property):
            def run_getter(pv, bv):
                me = make_self(sp, cls, bv)
                install_stubs(sp, me, {})
                return raw.fget(me)
            return run_getter
        if isinstance(raw, classmethod):
            return lambda pv, bv: raw.__func__(cls, *[py_value(t, v) for (_, t), v in zip(sp.params, pv)])
        def run_method(pv, bv):
            roots = {}
            seed_param_roots(sp, pv, roots)
            me = make_self(sp, cls, bv, roots)
            install_stubs(sp, me, roots)
            fn = raw
            if "super" in roots and isinstance(raw, types.FunctionType):
                # `super(Cls, self).m(..)` declared opaque: the same code object with `super` bound to the stand-in
                fn = types.FunctionType(raw.__code__, dict(raw.__globals__, super=roots["super"]), raw.__name__,
                                        raw.__defaults__, raw.__closure__)
                fn.__kwdefaults__ = raw.__kwdefaults__
            return fn(me, *param_values(sp, pv, roots))
        return run_method
    # a slice of the method: compile exactly those statements in the namespace of the real module
    tree = ast.parse(open(path).read())
    node = T.find_def_node(tree, sp.qual)
    body = T.select_stmts(node, sp)
    if sp.result is not None:
        elts = [ast.parse(n, mode="eval").body for n in sp.result]
        ret = ast.Return(value=ast.Tuple(elts=elts, ctx=ast.Load()) if len(elts) > 1 else elts[0])
        body = body + [ret]
    odd = [(src, pname, ty) for (src, pname, ty) in sp.binds if odd_bind(sp, src)]

    class Repl(ast.NodeTransformer):
        def generic_visit(self, node):
            if isinstance(node, ast.expr):
                for (src, pname, ty) in odd:
                    if ast.unparse(node) == src:
                        return ast.copy_location(ast.Name(id="_b_" + pname, ctx=getattr(node, "ctx", ast.Load())), node)
            return super().generic_visit(node)

    def result_value():
        elts = [ast.parse(n, mode="eval").body for n in sp.result]
        return ast.Tuple(elts=elts, ctx=ast.Load()) if len(elts) > 1 else elts[0]

    class Cut(ast.NodeTransformer):
        """the same reading of the cut as the translator: dropped statements vanish, a bare `return` inside a
        `result=` cut (without `ret=`) returns the result variables"""
        def visit_Expr(self, node):
            t = ast.unparse(node)
            if T.FnT.is_log_call(None, node.value):
                # logging: only the index expressions of the arguments are evaluated (for their exception)
                subs = [x for a in node.value.args for x in ast.walk(a)
                        if isinstance(x, ast.Subscript) and not isinstance(x.slice, ast.Slice)]
                new = ast.Expr(value=ast.Tuple(elts=subs, ctx=ast.Load())) if subs else ast.Pass()
                return ast.fix_missing_locations(ast.copy_location(new, node))
            if isinstance(node.value, ast.Call) and ast.unparse(node.value.func) in sp.drop:
                return ast.copy_location(ast.Pass(), node)
            if any(t.startswith(d) for d in sp.drop):
                return ast.copy_location(ast.Pass(), node)
            return node

        def visit_Assign(self, node):
            if any(ast.unparse(node).startswith(d) for d in sp.drop):
                if all(isinstance(t, ast.Name) for t in node.targets):
                    new = ast.Assign(targets=node.targets, value=ast.Constant(value=None))     # value not modelled
                else:
                    new = ast.Pass()
                return ast.fix_missing_locations(ast.copy_location(new, node))
            return node

        def visit_Return(self, node):
            if sp.result is not None and sp.ret is None and (
                    node.value is None or (isinstance(node.value, ast.Constant) and node.value.value is None)):
                return ast.copy_location(ast.Return(value=result_value()), node)
            return node

        def visit_FunctionDef(self, node):
            return node

    body = [Cut().visit(x) for x in body]
    if odd:
        body = [Repl().visit(x) for x in body]
    names = ["self"] + [p for p, _ in sp.params] + ["_b_" + pname for (_, pname, _) in odd]
    fdef = ast.FunctionDef(name="_slice", args=ast.arguments(posonlyargs=[], args=[ast.arg(arg=n) for n in names],
                                                             kwonlyargs=[], kw_defaults=[], defaults=[]),
                           body=body, decorator_list=[], type_params=[])
    m = ast.Module(body=[fdef], type_ignores=[])
    ast.fix_missing_locations(m)
    ns = dict(mod.__dict__)
    if "cls" in [a.arg for a in node.args.args]:
        ns["cls"] = cls
    exec(compile(m, path, "exec"), ns)
    f = ns["_slice"]

    def run(pv, bv):
        roots = {}
        seed_param_roots(sp, pv, roots)
        me = make_self(sp, cls, bv, roots)
        install_stubs(sp, me, roots)
        for text in sp.stores:                   # stored attributes of objects other than self: a fresh stand-in
            r = text.split(".")[0]
            if r not in ("self", "cls") and r not in roots:
                roots[r] = SliceSelf()
        for name, term in sp.reraise.items():     # `raise error` of a caught exception: a real exception object
            old = roots.get(name)
            attrs = dict(getattr(old, "__dict__", {}))
            if "Exc.io" in term:
                exc = IOError(attrs.get("errno", 0), "scripted")
            elif "Exc.llcp" in term:
                import nfc.llcp
                exc = nfc.llcp.Error(attrs.get("errno", 0))
            else:
                exc = {"Exc.index": IndexError, "Exc.value": ValueError, "Exc.timeout": TimeoutStandIn}.get(term, Exception)()
            for k_, v_ in attrs.items():
                if k_ not in ("errno", "_cls"):
                    setattr(exc, k_, v_)
            roots[name] = exc
        for r, o in roots.items():
            ns[r] = o
        extra = [py_value(ty, v) for (src, pname, ty), v in zip(sp.binds, bv) if odd_bind(sp, src)]
        return f(me, *(param_values(sp, pv, roots) + extra))
    return run


def exc_canon(e):
    """common.exc_name plus the driver-internal classes as NfcVerif.Exc.name prints them"""
    t = type(e)
    mod = getattr(t, "__module__", "")
    if mod.startswith("nfc.clf.rcs380") and t.__name__ in ("StatusError", "CommunicationError"):
        return "rcs380." + t.__name__
    if t.__qualname__.endswith("Chipset.Error") or (t.__name__ == "Error" and mod.startswith("nfc.clf.pn53")):
        return "Chipset.Error(%s)" % getattr(e, "errno", 0)
    return exc_name(e)


class RealTimeout(BaseException):
    """the real code did not return within REAL_TIMEOUT seconds (reported as its own outcome, never equal to Lean's)"""


REAL_TIMEOUT = 10.0


def _alarm(_sig, _frm):
    raise RealTimeout()


def run_real(f, pv, bv, sp=None):
    import signal
    if sp is not None:
        REC_FIELDS.clear()
        REC_FIELDS.update(sp.rec_fields)
    old = signal.signal(signal.SIGALRM, _alarm)
    signal.setitimer(signal.ITIMER_REAL, REAL_TIMEOUT)
    try:
        return "ok " + canon(f(pv, bv))
    except RealTimeout:
        return "exc <no result within %gs>" % REAL_TIMEOUT
    except RecursionError:
        return "exc RecursionError"
    except Exception as e:     # noqa: BLE001  the class is what is compared
        return "exc " + exc_canon(e)
    finally:
        signal.setitimer(signal.ITIMER_REAL, 0)
        signal.signal(signal.SIGALRM, old)


# ----------------------------------------------------------------------------- input generation
SPECIAL = [0, 1, 2, 3, 4, 5, 6, 7, 8, 9, 10, 11, 0x0F, 0x10, 0x7F, 0x80, 0xD4, 0xD5, 0xF0, 0xFE, 0xFF]
LENGTHS = [0, 1, 2, 3, 4, 5, 6, 8, 15, 16, 17, 31, 40, 254, 255, 256, 300]
INTS = [-300, -17, -2, -1, 0, 1, 2, 3, 7, 8, 15, 16, 17, 63, 64, 127, 128, 254, 255, 256, 257, 1023, 2047, 2048,
        65535, 65536, 70000, 2 ** 32]
STRS = ["106A", "212F", "424F", "106B"]


def gen_value(rng, t, k, small=False):
    if t == T.INT and small:
        return [-5, -1, 0, 1, 2, 16, 17, 100, 255, 256, 257, 258, 259, 260, 300, 600, 2048][k % 17] if k < 17 else rng.randrange(-5, 700)
    if t == T.INT:
        return INTS[k % len(INTS)] if k < len(INTS) else rng.choice([rng.randrange(-5, 300), rng.randrange(0, 70000)])
    if t == T.BOOL:
        return bool(k % 2)
    if t == T.BYTES:
        n = LENGTHS[k % len(LENGTHS)] if k < len(LENGTHS) else rng.randrange(0, 24)
        return bytes(rng.choice(SPECIAL) if rng.random() < 0.5 else rng.randrange(256) for _ in range(n))
    if t == T.STR:
        return STRS[k % len(STRS)]
    if t == T.SET:
        lo = rng.randrange(0, 200)
        return sorted(set(rng.sample(range(0, 600), rng.randrange(0, 40))) | set(range(lo, lo + rng.randrange(0, 60))))
    if t == T.LIST(T.INT):
        return [rng.choice([0, 1, 2, 255, 256, rng.randrange(0, 70000)]) for _ in range(rng.randrange(0, 6) if k > 2 else k)]
    if isinstance(t, tuple) and t[0] == "list":
        return [gen_value(rng, t[1], rng.randrange(0, 60)) for _ in range(rng.randrange(0, 4))]
    if isinstance(t, tuple) and t[0] == "opt":
        return None if k % 4 == 0 else gen_value(rng, t[1], k)
    if isinstance(t, tuple) and t[0] == "tuple":
        return tuple(gen_value(rng, ct, k if i == 0 else rng.randrange(0, 60)) for i, ct in enumerate(t[1:]))
    if isinstance(t, tuple) and t[0] == "rec":       # a record: the tuple of its field values in constructor order
        return tuple(gen_value(rng, ft, k if i == 0 else rng.randrange(0, 60), small)
                     for i, (_p, ft, _a) in enumerate(REC_FIELDS[t[1]]))
    raise TypeError(t)


SPEC_MODULES = T.load_spec_modules()
GROUP_MODULE = {m.GROUP: m for m in SPEC_MODULES}


def custom_inputs(rng, sp):
    """extra, function specific inputs from the group's spec file: [(param values, bind values)]"""
    f = getattr(GROUP_MODULE[sp.group], "inputs", None)
    try:
        return f(rng, sp) if f else []
    except Exception as e:      # noqa: BLE001  a spec file under construction must not stop the other groups
        print("  WARNING: inputs() of group %s failed for %s: %s %s" % (sp.group, sp.lean, type(e).__name__, e))
        return []


def small_ints(sp):
    return sp.lean in getattr(GROUP_MODULE[sp.group], "SMALL_INT", ())


def inputs_for(sp, rng, n):
    REC_FIELDS.clear()
    REC_FIELDS.update(sp.rec_fields)
    ptys = [t for _, t in sp.params]
    btys = [t for (_, _, t) in sp.binds]
    seen, out = set(), []

    accept = getattr(GROUP_MODULE[sp.group], "accept", None)     # optional veto of the spec file: accept(sp, pv, bv)

    def add(pv, bv):
        for (name, _t), v in list(zip(sp.params, pv)) + [((pn, t), v) for (_s, pn, t), v in zip(sp.binds, bv)]:
            if name in sp.nonneg and isinstance(v, int) and v < 0:
                return          # declared precondition of the cut
        none_srcs = [src for (src, _pn, _t), v in zip(sp.binds, bv) if v is None]
        if any(src2.startswith(src + ".") for src in none_srcs for (src2, _pn, _t) in sp.binds):
            return              # `self.x` bound to None together with a bound `self.x.y`: no such object state
        if accept is not None and not accept(sp, pv, bv):
            return              # precondition declared by the spec file (must be said in the spec's note)
        key = repr((pv, bv))
        if key not in seen:
            seen.add(key)
            out.append((pv, bv))

    for k in range(n):
        ks = [k] + [rng.randrange(0, 40) for _ in ptys[1:]] if k < 40 else [1000 + k] * max(1, len(ptys))
        small = small_ints(sp)
        pv = [gen_value(rng, t, ks[i] if i < len(ks) else k, small) for i, t in enumerate(ptys)]
        bv = [gen_value(rng, t, rng.randrange(0, 40)) for t in btys]
        add(pv, bv)
    for pv, bv in custom_inputs(rng, sp):
        add(pv, bv)
    return out


def request_line(sp, pv, bv):
    toks = [sp.lean] + [arg_text(t, v) for (_, t), v in zip(sp.params, pv)] + \
        [arg_text(t, v) for (_, _, t), v in zip(sp.binds, bv)]
    return " ".join(toks)


# ----------------------------------------------------------------------------- part 1
ONLY_GROUPS = None


def part1(seed, n, verbose=True):
    rng = random.Random(seed)
    specs = fnbridge.regenerate()
    model = Model("drv_fn")
    rows, total, diffs = [], 0, 0
    for sp in specs:
        if ONLY_GROUPS is not None and sp.group not in ONLY_GROUPS:
            continue
        if sp.refused:
            rows.append((sp.lean, "refused", 0, 0, sp.refused))
            continue
        if sp.opaque and not all(set(a) <= set(T.STUB_ARGS) and r in T.STUB_RESULTS for (_, a, r, _) in sp.opaque.values()):
            rows.append((sp.lean, "not-run", 0, 0, "function-valued parameters of unsupported types"))
            continue
        mod = load_module(sp)
        path = os.path.join(common.REPO, "src", "nfc", sp.file)
        f = real_callable(sp, mod, path)
        ins = inputs_for(sp, rng, n)
        lines = [request_line(sp, pv, bv) for pv, bv in ins]
        try:
            lean = model.ask_many(lines)
        except common.Infra as e:
            # the driver died on this function (memory / time: e.g. `range(n)` for a huge n): every input counts as
            # a difference, the other functions are still run
            print("  WARNING: the Lean driver died on %s: %s" % (sp.lean, str(e)[:160]))
            lean = ["<driver died>"] * len(lines)
        bad, excs = [], {}
        for (pv, bv), line, lo in zip(ins, lines, lean):
            po = run_real(f, pv, bv, sp)
            k = po.split(" ")[1] if po.startswith("exc") else "ok"
            excs[k] = excs.get(k, 0) + 1
            if po != lo:
                bad.append((line, po, lo))
        total += len(ins)
        diffs += len(bad)
        rows.append((sp.lean, "ok" if not bad else "DIFF", len(ins), len(bad), excs))
        if verbose:
            print("  %-30s %5d inputs  %3d differences  %s" % (sp.lean, len(ins), len(bad), excs))
            for line, po, lo in bad[:5]:
                print("      %s\n        python: %s\n        lean:   %s" % (line[:200], po[:200], lo[:200]))
    print("part 1: %d functions, %d inputs, %d differences" % (len([r for r in rows if r[1] in ("ok", "DIFF")]), total, diffs))
    return rows, total, diffs


# ----------------------------------------------------------------------------- part 0
TOY = os.path.join(HERE, "fnspecs", "_toy")


def part0(seed, n, verbose=True):
    """constructs of the subset that the real functions may not exercise: toy functions
    (harness/fnspecs/_toy) are translated into a scratch workspace and compared like part 1"""
    global SPEC_MODULES, GROUP_MODULE
    rng = random.Random(seed + 7)
    saved = (T.SPEC_DIR, SPEC_MODULES, GROUP_MODULE)
    dst = scratch_lean()
    try:
        T.SPEC_DIR = os.path.join(TOY, "specs")
        SPEC_MODULES = T.load_spec_modules()
        GROUP_MODULE = {m.GROUP: m for m in SPEC_MODULES}
        specs = T.emit(TOY, os.path.join(dst, "NfcVerif", "Gen"))
        rc, out = lake_scratch(dst, ["drv_fn"])
        if rc != 0:
            raise RuntimeError("toy build failed:\n" + out[-3000:])
        exe = os.path.join(dst, ".lake", "build", "bin", "drv_fn")
        total = diffs = 0
        for sp in specs:
            if sp.refused:
                print("  %-30s REFUSED %s" % (sp.lean, sp.refused))
                diffs += 1
                continue
            f = real_callable(sp, load_module(sp, TOY, "toy"), os.path.join(TOY, "src", "nfc", sp.file))
            ins = inputs_for(sp, rng, n)
            lines = [request_line(sp, pv, bv) for pv, bv in ins]
            p = subprocess.run([exe], input="\n".join(lines) + "\n", stdout=subprocess.PIPE, text=True, timeout=600)
            lean = p.stdout.split("\n")
            bad = [(l, run_real(f, pv, bv, sp), lo) for (pv, bv), l, lo in zip(ins, lines, lean) if run_real(f, pv, bv, sp) != lo]
            total += len(ins)
            diffs += len(bad)
            if verbose:
                print("  %-30s %5d inputs  %3d differences" % (sp.lean, len(ins), len(bad)))
                for l, po, lo in bad[:3]:
                    print("      %s\n        python: %s\n        lean:   %s" % (l[:160], po[:160], lo[:160]))
    finally:
        T.SPEC_DIR, SPEC_MODULES, GROUP_MODULE = saved
    print("part 0: %d toy functions, %d inputs, %d differences" % (len(specs), total, diffs))
    return total, diffs


# ----------------------------------------------------------------------------- part 2
def all_mutations():
    """(group, lean name, description, old text | function on the segment, new text) from the spec files"""
    out = []
    for m in SPEC_MODULES:
        for (lean, desc, old, new) in getattr(m, "MUTATIONS", []):
            out.append((m.GROUP, lean, desc, old, new))
    return out


def fn_segment(text, qual):
    node = T.find_def_node(ast.parse(text), qual)
    first = min([node.lineno] + [d.lineno for d in node.decorator_list])
    return first - 1, node.end_lineno     # [start, end) line indices, decorators included


def apply_mutation(text, sp, old, new, desc):
    a, b = fn_segment(text, sp.qual)
    lines = text.split("\n")
    seg = "\n".join(lines[a:b])
    if callable(old):
        seg2 = old(seg)
    else:
        if seg.count(old) < 1:
            raise RuntimeError("mutation %r: text %r not found in %s" % (desc, old, sp.qual))
        seg2 = seg.replace(old, new, 1)
    return "\n".join(lines[:a] + [seg2] + lines[b:])


def scratch_lean():
    dst = os.path.join(TMP, "lean")
    os.makedirs(TMP, exist_ok=True)
    p = subprocess.run(["rsync", "-a", "--delete", "--exclude", ".lake/build/bin", "--exclude", ".lake/audit",
                        "--exclude", "NfcVerif/Gen/FnToy.lean", "--exclude", ".lake.lock", common.LEAN + "/", dst + "/"])
    if p.returncode not in (0, 24):      # 24: files vanished while copying (another worker is building)
        raise RuntimeError("rsync of the lean workspace failed (%d)" % p.returncode)
    return dst


def lake_scratch(dst, targets, timeout=1500):
    p = subprocess.run(["lake", "build"] + targets, cwd=dst, stdout=subprocess.PIPE, stderr=subprocess.STDOUT,
                       text=True, timeout=timeout)
    return p.returncode, p.stdout


def part2(seed, n, verbose=True, only=None):
    rng = random.Random(seed + 1)
    base_specs = fnbridge.regenerate()
    by_name = {sp.lean: sp for sp in base_specs}
    dst = scratch_lean()
    gen_dir = os.path.join(dst, "NfcVerif", "Gen")
    base_text = {g: open(os.path.join(gen_dir, "Fn%s.lean" % g)).read() for g in {sp.group for sp in base_specs}}
    modules = sorted({info["module"] for g, info in fnbridge.GROUPS.items()
                      if (ONLY_GROUPS is None or g in ONLY_GROUPS) and info["theorems"]})
    rc, out = lake_scratch(dst, modules)
    if rc != 0:
        raise RuntimeError("baseline build in the scratch copy failed:\n" + out[-3000:])
    files = sorted({sp.file for sp in base_specs})
    rows = []
    for idx, (group, lean, desc, old, new) in enumerate(all_mutations()):
        if only is not None and idx not in only:
            continue
        if ONLY_GROUPS is not None and group not in ONLY_GROUPS:
            continue
        sp = by_name[lean]
        root = os.path.join(TMP, "mut%02d" % idx)
        shutil.rmtree(root, ignore_errors=True)
        shutil.copytree(os.path.join(common.REPO, "src", "nfc"), os.path.join(root, "src", "nfc"),
                        ignore=shutil.ignore_patterns("__pycache__", "*.pyc"))
        path = os.path.join(root, "src", "nfc", sp.file)
        mutated = apply_mutation(open(path).read(), sp, old, new, desc)
        with open(path, "w") as fh:
            fh.write(mutated)
        # does the mutation change behaviour? (original vs mutated Python on the part-1 inputs)
        forig = real_callable(sp, load_module(sp), os.path.join(common.REPO, "src", "nfc", sp.file))
        ins = inputs_for(sp, rng, n)
        try:
            fmut = real_callable(sp, load_module(sp, root, "%02d" % idx), path)
            changed = sum(1 for pv, bv in ins if run_real(forig, pv, bv, sp) != run_real(fmut, pv, bv, sp))
        except (T.Refuse, IndexError, KeyError, AttributeError, SyntaxError) as e:
            changed = len(ins)       # the cut is no longer present in the mutated source
            print("      (mutated source no longer has the cut: %s)" % e)
        # translate the mutated tree into the scratch workspace and build the bridge
        mspecs = T.load_specs()
        T.emit(root, gen_dir, specs=mspecs, only={group})
        refused = [s.refused for s in mspecs if s.lean == lean and s.refused]
        new_text = open(os.path.join(gen_dir, "Fn%s.lean" % group)).read()
        if new_text == base_text[group]:
            verdict = "generated text unchanged"
        else:
            t0 = time.time()
            rc, out = lake_scratch(dst, [fnbridge.GROUPS[group]["module"]])
            verdict = "bridge BROKEN" if rc != 0 else "bridge still proved"
            if refused:
                verdict += " (translator refused: %s)" % refused[0][:60]
            verdict += " [%.0fs]" % (time.time() - t0)
        rows.append((group, lean, desc, changed, len(ins), verdict))
        if verbose:
            print("  m%02d %-4s %-26s %-48s behaviour differs on %4d/%d inputs -> %s"
                  % (idx, group, lean, desc[:48], changed, len(ins), verdict))
        # restore the unmutated generated file for the next mutation
        open(os.path.join(gen_dir, "Fn%s.lean" % group), "w").write(base_text[group])
        shutil.rmtree(root, ignore_errors=True)
    missed = [r for r in rows if r[3] > 0 and "BROKEN" not in r[5]]
    print("part 2: %d mutations, %d change behaviour on the sampled inputs, %d of those NOT caught by a bridge"
          % (len(rows), len([r for r in rows if r[3] > 0]), len(missed)))
    return rows, missed


def main():
    ap = argparse.ArgumentParser()
    ap.add_argument("--part", default="all")
    ap.add_argument("--seed", type=int, default=1)
    ap.add_argument("--n", type=int, default=200)
    ap.add_argument("--json")
    ap.add_argument("--keep", action="store_true")
    ap.add_argument("--only", help="comma separated mutation indices (part 2)")
    ap.add_argument("--group", help="comma separated groups: restrict parts 1 and 2 to them")
    a = ap.parse_args()
    global ONLY_GROUPS
    ONLY_GROUPS = set(a.group.split(",")) if a.group else None
    res, rc = {}, 0
    if a.part in ("0", "all"):
        total, diffs = part0(a.seed, a.n)
        res["part0"] = {"inputs": total, "differences": diffs}
        rc = rc or (1 if diffs else 0)
    if a.part in ("1", "all"):
        rows, total, diffs = part1(a.seed, a.n)
        res["part1"] = {"rows": rows, "inputs": total, "differences": diffs}
        rc = rc or (1 if diffs else 0)
    if a.part in ("2", "all"):
        only = {int(x) for x in a.only.split(",")} if a.only else None
        rows, missed = part2(a.seed, min(a.n, 200), only=only)
        res["part2"] = {"rows": rows, "missed": missed}
        rc = rc or (1 if missed else 0)
    if a.json:
        json.dump(res, open(a.json, "w"), indent=1, default=str)
    if not a.keep:
        shutil.rmtree(TMP, ignore_errors=True)
    return rc


if __name__ == "__main__":
    sys.exit(main())
