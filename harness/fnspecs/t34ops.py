"""group T34Ops: operations of nfc/tag/tt3.py and nfc/tag/tt4.py as WHOLE command sequences (the tag command is a
function parameter) and the decisions the seeded regressions of round 5 changed
-> Model/FnT34OpsRef.lean (new reference definitions + the property facts), Model/IsoDep.lean, Model/T4.lean
(C01, C02, C03, C07, C08, C12, C16)

Groups T3 / T4 / IsoSm / TagCmd have the arithmetic slices in front of and behind each tag command.  This group adds
what lies between them: the method with its I/O call as an opaque function parameter (one call, where, with which
arguments, what is done with the answer), and a few decisions as complete expressions.
"""
from translate_fn import Spec, INT, BOOL, BYTES, LIST, TUP, OPT, ANY, NONE

GROUP = "T34Ops"
ORDER = 66
T3, T4 = "tag/tt3.py", "tag/tt4.py"
XCHG = ("xchg", [INT, BYTES, INT], BYTES, True)

SPECS = [
    # ------------------------------------------------------------------ tt3 reader side
    Spec(GROUP, "ops_t3_polling_bad_len", T3, "Type3Tag.polling", [("request_code", INT), ("data", BYTES)],
         whole=True, expr="len(data) != (16 if request_code == 0 else 18)",
         note="cut: the complete test that refuses a polling response"),
    Spec(GROUP, "ops_t3_read", T3, "Type3Tag.read_without_encryption",
         [("block_list", LIST(INT)), ("data", BYTES), ("timeout", INT)], stmts=(4, 7),
         opaque={"self.send_cmd_recv_rsp": XCHG},
         note="cut: from the tag command to the end; `data` is the encoded service / block list, `timeout` (float "
              "arithmetic) a token, only the length of `block_list` is used; the command is a function parameter"),
    Spec(GROUP, "ops_t3_write", T3, "Type3Tag.write_without_encryption", [("data", BYTES), ("timeout", INT)], stmts=(4, 5),
         opaque={"self.send_cmd_recv_rsp": XCHG}, ret=OPT(INT),
         note="cut: the tag command (its answer is not looked at)"),
    Spec(GROUP, "ops_t3_attr_unverified", T3, "Type3Tag.NDEF._read_attribute_data", [("data", OPT(BYTES))], stmts=[1],
         drop=["self._attribute_error ="], result=["data"], ret=OPT(BYTES),
         note="cut: the exit for an attribute block that could not be verified"),
    Spec(GROUP, "ops_t3_attr_errno_unverified", T3, "Type3Tag.NDEF._read_attribute_data", [], expr="DATA_SIZE_ERROR", nth=0,
         note="partial cut: the error number left in `_attribute_error` by the 'not verified' exit"),
    Spec(GROUP, "ops_t3_attr_errno_checksum", T3, "Type3Tag.NDEF._read_attribute_data", [], expr="DATA_SIZE_ERROR", nth=1,
         note="partial cut: the error number left in `_attribute_error` by the checksum exit"),
    Spec(GROUP, "ops_t3_write_plan", T3, "Type3Tag.NDEF._write_ndef_data", [("data", BYTES)], stmts=[5, 7],
         result=["last_block_number", "data"], note="cut: block count and padding"),
    Spec(GROUP, "ops_t3_write_starts", T3, "Type3Tag.NDEF._write_ndef_data", [("last_block_number", INT)],
         binds=[("attributes['nbw']", "nbw", INT)], whole=True, expr="range(1, last_block_number, attributes['nbw'])",
         note="cut: the iterable of the write loop: first block of every Write Without Encryption command"),
    Spec(GROUP, "ops_t3_read_starts", T3, "Type3Tag.NDEF._read_ndef_data", [("last_block_number", INT), ("nbr", INT)],
         whole=True, expr="range(1, last_block_number, nbr)",
         note="cut: the iterable of the read loop: first block of every Read Without Encryption command"),
    # ------------------------------------------------------------------ tt3 emulation
    Spec(GROUP, "ops_t3e_rd_too_many", T3, "Type3TagEmulation.read_without_encryption", [("service_block_list", LIST(INT))],
         whole=True, expr="len(service_block_list) > 15", note="cut: the limit of blocks per read command"),
    Spec(GROUP, "ops_t3e_rd_flag_a3", T3, "Type3TagEmulation.read_without_encryption", [("i", INT)], nonneg=["i"],
         expr="1 << (i % 8)", nth=0, note="partial cut: status flag 1 of the A3 answer"),
    Spec(GROUP, "ops_t3e_rd_flag_a2", T3, "Type3TagEmulation.read_without_encryption", [("i", INT)], nonneg=["i"],
         expr="1 << (i % 8)", nth=1, note="partial cut: status flag 1 of the A2 answer"),
    Spec(GROUP, "ops_t3e_wr_flag_a3", T3, "Type3TagEmulation.write_without_encryption", [("i", INT)], nonneg=["i"],
         expr="1 << (i % 8)", nth=0, note="partial cut: status flag 1 of the A3 answer"),
    Spec(GROUP, "ops_t3e_wr_flag_a2", T3, "Type3TagEmulation.write_without_encryption", [("i", INT)], nonneg=["i"],
         expr="1 << (i % 8)", nth=1, note="partial cut: status flag 1 of the A2 answer"),
    # ------------------------------------------------------------------ tt4
    Spec(GROUP, "ops_t4_send_apdu", T4, "Type4Tag.send_apdu",
         [("cla", INT), ("ins", INT), ("p1", INT), ("p2", INT), ("data", BYTES), ("mrl", INT), ("check_status", BOOL)],
         binds=[("self._extended_length_support", "ext", BOOL)],
         opaque={"self.transceive": ("trx", [BYTES], BYTES, True)},
         note="whole function, `self.transceive` is a function parameter; `data` is a byte string"),
    Spec(GROUP, "ops_t4_read_binary", T4, "Type4Tag.NDEF._read_binary", [("offset", INT), ("size", INT)],
         binds=[("self._max_le", "max_le", INT)],
         opaque={"self.tag.send_apdu": ("apdu", [INT, INT, INT, INT, INT], BYTES, True)}, stmts=(0, 6),
         note="the whole body (as a statement range, so that the self-test runs it on a plain object: `tag` is a property of "
              "the real class); `self.tag.send_apdu` is a function parameter, its keyword argument `mrl` the fifth argument"),
    Spec(GROUP, "ops_t4_update_binary", T4, "Type4Tag.NDEF._update_binary", [("offset", INT), ("data", BYTES)],
         binds=[("self._max_lc", "max_lc", INT)],
         opaque={"self.tag.send_apdu": ("apdu", [INT, INT, INT, INT, BYTES], BYTES, True)}, stmts=(0, 5),
         note="the whole body (as a statement range, see ops_t4_read_binary); `self.tag.send_apdu` is a function parameter"),
    Spec(GROUP, "ops_t4_write_ndef", T4, "Type4Tag.NDEF._write_ndef_data", [("data", BYTES)],
         binds=[("self._nlen_size", "nlen_size", INT), ("self._max_lc", "max_lc", INT)],
         opaque={"self._update_binary": ("upd", [INT, BYTES], INT, True)},
         note="whole function (two UPDATE BINARY loops: `fuel`), `self._update_binary` is a function parameter; self-test precondition (`accept`): the stubbed `_update_binary` lets both loops end within 200 rounds"),
    Spec(GROUP, "ops_t4_single_update", T4, "Type4Tag.NDEF._write_ndef_data", [("nlen", BYTES), ("data", BYTES)],
         binds=[("self._max_lc", "max_lc", INT)], whole=True, expr="len(nlen) + len(data) <= self._max_lc",
         note="cut: the complete test that chooses one UPDATE BINARY for NLEN and message"),
    Spec(GROUP, "ops_t4_capacity", T4, "Type4Tag.NDEF._discover_ndef", [("mfs", INT), ("tag", INT)],
         whole=True, expr="min(mfs, 0x10000) - tag + 2", note="cut: the capacity stored"),
    Spec(GROUP, "ops_t4_nlen_size", T4, "Type4Tag.NDEF._discover_ndef", [("tag", INT)],
         whole=True, expr="tag - 2", note="cut: the NLEN size stored"),
    Spec(GROUP, "ops_t4a_rats_cmd", T4, "Type4ATag.__init__", [], binds=[("self.clf.max_recv_data_size", "max_recv", INT)],
         stmts=[3], result=["rats_cmd"], note="cut: the RATS command"),
    Spec(GROUP, "ops_t4a_has_t0", T4, "Type4ATag.__init__", [("rats_res", BYTES)], whole=True, expr="len(rats_res) > 1",
         note="cut: the complete test that decides whether the ATS is evaluated (TL and the format byte T0 suffice)"),
    Spec(GROUP, "ops_t4b_attrib_cmd", T4, "Type4BTag.__init__", [],
         binds=[("self.clf.max_recv_data_size", "max_recv", INT), ("self._nfcid", "nfcid", BYTES)],
         stmts=[3], result=["attrib_cmd"], note="cut: the ATTRIB command"),
    Spec(GROUP, "ops_t4b_nfcid", T4, "Type4BTag.__init__", [], binds=[("target.sensb_res", "sensb_res", BYTES)],
         whole=True, expr="bytearray(target.sensb_res[1:5])", note="cut: NFCID0 from SENSB_RES"),
    Spec(GROUP, "ops_iso_latched", T4, "IsoDepInitiator.exchange", [("command", OPT(BYTES))],
         binds=[("self.errno", "errno", OPT(INT))], whole=True, expr="command is not None and self.errno is not None",
         note="cut: the complete latch test"),
    Spec(GROUP, "ops_iso_first_inf", T4, "IsoDepInitiator._exchange_command", [("command", BYTES), ("offset", INT)],
         binds=[("self.miu", "miu", INT)], expr="command[offset:offset+self.miu]", nth=0,
         note="partial cut: INF field of the I-block as first sent"),
    Spec(GROUP, "ops_iso_resend_inf", T4, "IsoDepInitiator._exchange_command", [("command", BYTES), ("offset", INT)],
         binds=[("self.miu", "miu", INT)], expr="command[offset:offset+self.miu]", nth=1,
         note="partial cut: INF field of the I-block retransmitted after R(ACK)"),
]
P = "NfcVerif.FnBridge.T34Ops."
BRIDGE = {
    "module": "NfcVerif.Props.FnBridgeT34Ops",
    "theorems": [P + t for t in (
        "t3_polling_bad_len_bridge", "gen_polling_pair", "t3_read_bridge", "gen_read_blocks", "gen_read_empty_answer",
        "t3_write_bridge", "t3_attr_unverified_bridge", "t3_attr_errno_bridge", "t3_write_plan_bridge",
        "gen_write_plan_blocks", "gen_write_plan_exact", "t3_write_starts_bridge", "t3_read_starts_bridge",
        "gen_write_starts_cover", "t3e_rd_too_many_bridge", "gen_reader_batch_served", "t3e_flags_bridge",
        "gen_status_is_bytes", "t4_send_apdu_glue", "t4_send_apdu_bridge", "t4_read_binary_bridge",
        "t4_update_binary_bridge", "gen_update_binary_le", "gen_read_binary_le", "whileM_updLoop", "t4_write_ndef_bridge", "gen_write_ndef_first_zero", "t4_single_update_bridge",
        "gen_single_update_fits", "t4_capacity_bridge", "gen_capacity_sound", "t4a_rats_cmd_bridge", "t4a_has_t0_bridge",
        "gen_ats_t0_only", "t4b_attrib_cmd_bridge", "t4b_nfcid_bridge", "iso_latched_bridge", "gen_latched_timeout",
        "iso_inf_bridge", "gen_resend_same_inf")],
    "properties": ["C01", "C02", "C03", "C07", "C08", "C12", "C16"],
}
SMALL_INT = ("ops_t3_write_starts", "ops_t3_read_starts")


def _b(rng, n):
    return bytes(rng.choice([0, 1, 0x90, 0xFF, rng.randrange(256)]) for _ in range(n))


def inputs(rng, sp):
    out = []
    n = sp.lean
    if n == "ops_t3_polling_bad_len":
        out += [([rc, _b(rng, k)], []) for rc in (0, 1, 2, -1, 3) for k in (0, 15, 16, 17, 18, 19)]
    if n == "ops_t3_read":
        for _ in range(150):
            out.append(([[0] * rng.choice([0, 0, 0, 1, 2, 15]), _b(rng, rng.randrange(0, 8)), rng.randrange(0, 5)], []))
    if n == "ops_t3_write":
        out += [([_b(rng, rng.randrange(0, 40)), rng.randrange(0, 5)], []) for _ in range(60)]
    if n == "ops_t3_attr_unverified":
        out += [([None], []), ([b""], []), ([_b(rng, 16)], [])]
    if n == "ops_t3_write_plan":
        out += [([_b(rng, k)], []) for k in (0, 1, 15, 16, 17, 31, 32, 33, 48, 208, 209)]
        out += [([_b(rng, rng.randrange(0, 300))], []) for _ in range(60)]
    if n in ("ops_t3_write_starts", "ops_t3_read_starts"):
        for last in (0, 1, 2, 3, 5, 14, 15, 16, 31, 301):
            for step in (0, 1, 2, 3, 12, 13, 15, 16, 255):
                out.append(([last], [step]) if n == "ops_t3_write_starts" else ([last, step], []))
    if n == "ops_t3e_rd_too_many":
        out += [([[0] * k], []) for k in (0, 1, 14, 15, 16, 17, 255)]
    if n.startswith("ops_t3e_") and "flag" in n:
        out += [([i], []) for i in range(0, 40)]
    if n == "ops_t4_send_apdu":
        for _ in range(250):
            hdr = [rng.choice([0, 0xA4, 0xB0, 0xD6, 255, rng.randrange(256)]) if rng.random() < 0.95 else rng.choice([-1, 256]) for _ in range(4)]
            k = rng.choice([0, 0, 1, 2, 7, 254, 255, 256, 300]) if rng.random() < 0.8 else rng.randrange(0, 40)
            mrl = rng.choice([0, 1, 2, 15, 255, 256, 257, 65535, 65536, 65537, -1])
            out.append((hdr + [_b(rng, k), mrl, bool(rng.randrange(2))], [bool(rng.randrange(2))]))
    if n == "ops_t4_read_binary":
        for _ in range(150):
            off = rng.choice([0, 1, 255, 256, 65535, 65536, -1, rng.randrange(70000)])
            out.append(([off, rng.choice([-3, 0, 1, 2, 3, 4, 15, 255, 256, 257, 70000])], [rng.choice([0, 1, 2, 3, 15, 255, 256, 65535])]))
    if n == "ops_t4_update_binary":
        for _ in range(150):
            off = rng.choice([0, 1, 255, 256, 65535, 65536, -1, rng.randrange(70000)])
            out.append(([off, _b(rng, rng.choice([0, 1, 2, 20, 300]))], [rng.choice([0, 1, 2, 15, 255])]))
    if n == "ops_t4_write_ndef":
        for _ in range(200):
            out.append(([_b(rng, rng.choice([0, 1, 2, 11, 12, 13, 14, 15, 16, 40, 300]))], [rng.choice([2, 2, 4]), rng.choice([1, 2, 15, 255])]))
    if n == "ops_t4_single_update":
        for mlc in (1, 2, 13, 15, 255):
            for k in range(max(0, mlc - 6), mlc + 3):
                for nl in (2, 4):
                    out.append(([_b(rng, nl), _b(rng, k)], [mlc]))
    if n == "ops_t4_capacity":
        out += [([mfs, tag], []) for mfs in (0, 5, 4094, 65535, 65536, 65537, 65540, 131072, 2 ** 32 - 1) for tag in (4, 6)]
    if n == "ops_t4_nlen_size":
        out += [([t], []) for t in (4, 6, 0, 255)]
    if n == "ops_t4a_rats_cmd":
        out += [([], [m]) for m in (0, 64, 255, 256, 257, 1024)]
    if n == "ops_t4a_has_t0":
        out += [([_b(rng, k)], []) for k in (0, 1, 2, 3, 5, 20)]
    if n == "ops_t4b_attrib_cmd":
        out += [([], [m, _b(rng, k)]) for m in (0, 255, 256, 1024) for k in (0, 4)]
    if n == "ops_t4b_nfcid":
        out += [([], [_b(rng, k)]) for k in (0, 1, 2, 4, 5, 6, 12, 13)]
    if n == "ops_iso_latched":
        out += [([c], [e]) for c in (None, b"", b"\x00\xa4") for e in (None, 0, -1, -2, 5)]
    if n in ("ops_iso_first_inf", "ops_iso_resend_inf"):
        for _ in range(80):
            c = _b(rng, rng.randrange(0, 40))
            miu = rng.choice([1, 13, 29, 253])
            out.append(([c, rng.choice([0, miu, 2 * miu, rng.randrange(0, 45)])], [miu]))
    return out


def _stub_upd(offset, chunk):
    """`translate_fn_selftest.make_stub(1, INT, True)` (the only opaque parameter of ops_t4_write_ndef): None = raises"""
    h = 1 * 1009 % 65521
    for x in [offset] + list(chunk):
        h = (h * 31 + (x % 65521) + 7) % 65521
    return None if h % 11 == 0 else h % 300 - 20


def accept(sp, pv, bv):
    if sp.lean != "ops_t4_write_ndef":
        return True
    import struct
    data, (nlen_size, max_lc) = bytes(pv[0]), bv
    nlen = struct.pack(">I" if nlen_size == 4 else ">H", len(data))
    single = len(nlen) + len(data) <= max_lc
    for buf in ([nlen + data] if single else [bytes(len(nlen)) + data, nlen]):
        offset, rounds = 0, 0
        while offset < len(buf):
            rounds += 1
            if rounds > 200:
                return False
            r = _stub_upd(offset, buf[offset:] if offset >= 0 else buf[offset:])
            if r is None:
                return True
            offset += r
    return True


MUTATIONS = [
    ("ops_t3_polling_bad_len", "any of the two lengths accepted (seed C08-r2m3)",
     "if len(data) != (16 if request_code == 0 else 18):", "if len(data) not in (16, 18):"),
    ("ops_t3_read", "fewer blocks than requested accepted (seed C20-r5m1)",
     "if len(data) != 1 + len(block_list) * 16:", "if len(data) % 16 != 1 or len(data) > 1 + len(block_list) * 16:"),
    ("ops_t3_read", "count octet kept in the result", "return data[1:]", "return data[0:]"),
    ("ops_t3_read", "wrong command code", "self.send_cmd_recv_rsp(0x06, data, timeout)", "self.send_cmd_recv_rsp(0x08, data, timeout)"),
    ("ops_t3_write", "wrong command code", "self.send_cmd_recv_rsp(0x08, data, timeout)", "self.send_cmd_recv_rsp(0x06, data, timeout)"),
    ("ops_t3_write_plan", "extra block for whole-block messages (seed C03-r5m3)",
     "data = data + bytearray(-len(data) % 16)  # adjust to block size", "data = data + bytearray(16 - len(data) % 16)"),
    ("ops_t3_write_plan", "block count rounds down", "last_block_number = 1 + (len(data) + 15) // 16\n            attributes['ln'] = len(data)",
     "last_block_number = 1 + (len(data) + 14) // 16\n            attributes['ln'] = len(data)"),
    ("ops_t3_write_starts", "write loop starts at block 0 (attribute block)", "for i in range(1, last_block_number, attributes['nbw']):",
     "for i in range(0, last_block_number, attributes['nbw']):"),
    ("ops_t3_read_starts", "read loop skips a block per batch", "for i in range(1, last_block_number, nbr):", "for i in range(1, last_block_number, nbr + 1):"),
    ("ops_t3e_rd_too_many", "15 blocks refused (seed C01-r5m3)", "if len(service_block_list) > 15:", "if len(service_block_list) >= 15:"),
    ("ops_t3e_rd_flag_a2", "flag not reduced mod 8 (seed C07-r5m2)", "return bytearray([1 << (i % 8), 0xA2])\n            block_data.extend",
     "return bytearray([1 << i, 0xA2])\n            block_data.extend"),
    ("ops_t4_send_apdu", "status word compared before the length check", "if not apdu or len(apdu) < 2:", "if not apdu or len(apdu) < 1:"),
    ("ops_t4_send_apdu", "command sent twice", "apdu = self.transceive(apdu)\n", "apdu = self.transceive(self.transceive(apdu))\n"),
    ("ops_t4_read_binary", "surplus data accepted", "if len(data) > max(max_data, 0):", "if len(data) > max(max_data, 0) + 1:"),
    ("ops_t4_read_binary", "wrong instruction", "self.tag.send_apdu(0, 0xB0, p1, p2, mrl=max_data)", "self.tag.send_apdu(0, 0xB1, p1, p2, mrl=max_data)"),
    ("ops_t4_update_binary", "whole rest sent", "self.tag.send_apdu(0, 0xD6, p1, p2, data[:max_data])", "self.tag.send_apdu(0, 0xD6, p1, p2, data)"),
    ("ops_t4_single_update", "NLEN not counted (seed C02-r5m1)", "if len(nlen) + len(data) <= self._max_lc:", "if len(data) <= self._max_lc:"),
    ("ops_t4_write_ndef", "final NLEN written first although it does not fit (torn write)", "data = bytearray(len(nlen)) + data",
     "data = bytearray(nlen) + data"),
    ("ops_t4_write_ndef", "second loop restarts behind the length field", "if nlen:\n                offset = 0", "if nlen:\n                offset = 1"),
    ("ops_t4_capacity", "NLEN subtracted before the clamp (seed C01-r5m2)", "self._capacity = min(mfs, 0x10000) - tag + 2",
     "self._capacity = min(mfs - tag + 2, 0x10000)"),
    ("ops_t4a_has_t0", "TL + T0 not evaluated (seed C12-r5m2)", "if len(rats_res) > 1:", "if len(rats_res) > 2:"),
    ("ops_t4a_rats_cmd", "FSDI for small devices", 'rats_cmd = bytearray.fromhex("E0 70")', 'rats_cmd = bytearray.fromhex("E0 60")'),
    ("ops_t4b_attrib_cmd", "frame size code", "b'\\x00\\x08\\x01\\x00'", "b'\\x00\\x09\\x01\\x00'"),
    ("ops_t4b_nfcid", "NFCID0 position", "bytearray(target.sensb_res[1:5])", "bytearray(target.sensb_res[0:4])"),
    ("ops_iso_latched", "errno 0 does not latch (seed C12-r5m1)", "if command is not None and self.errno is not None:",
     "if command is not None and self.errno:"),
    ("ops_iso_resend_inf", "retransmission slice (seed C12-r5m3)", "log.debug(\"ISO-DEP retransmit after ack\")\n                        data = pfb + command[offset:offset+self.miu]",
     "log.debug(\"ISO-DEP retransmit after ack\")\n                        data = pfb + command[offset:self.miu]"),
]
