"""group Vendor: vendor specific arithmetic of nfc/tag/tt2_nxp.py, tt3_sony.py, tt1_broadcom.py
-> Model/Auth.lean, Model/Mac.lean, Model/AuthHist.lean, Model/CtlC03.lean, Model/T1Format.lean, Model/FnVendorRef.lean
(C01, C03, C20)

The `protect` / `authenticate` / `format` methods of the vendor classes interleave tag commands (`self.read`,
`self.write`, `read_without_mac`, ...) with byte arithmetic; the arithmetic is cut out by statement range or by
sub-expression.  Not translated: the commands themselves, the triple DES calls, `os.urandom`."""
from translate_fn import Spec, INT, BOOL, BYTES, OPT

GROUP = "Vendor"
ORDER = 61
NXP, SONY, BCM = "tag/tt2_nxp.py", "tag/tt3_sony.py", "tag/tt1_broadcom.py"

SPECS = [
    # ---- NTAG21x (tt2_nxp.py)
    Spec(GROUP, "ntag_auth_key", NXP, "NTAG21x._authenticate", [("password", BYTES)], stmts=(0, 2), result=["key"],
         note="cut: password length check and key selection (PWD + PACK) in front of the PWD_AUTH command"),
    Spec(GROUP, "ntag_auth_cmd", NXP, "NTAG21x._authenticate", [("key", BYTES)], expr='b"\\x1B" + key[0:4]',
         note="partial cut (not `whole`): the complete argument of `self.transceive(..)`; cut: the PWD_AUTH command"),
    Spec(GROUP, "ntag_auth_ok", NXP, "NTAG21x._authenticate", [("rsp", BYTES), ("key", BYTES)], whole=True, expr="rsp == key[4:6]",
         note="cut: comparison of the answer with PACK"),
    Spec(GROUP, "ntag_protect_key", NXP, "NTAG21x._protect_with_password",
         [("password", BYTES), ("read_protect", BOOL), ("protect_from", INT)], stmts=(0, 2), result=["key"],
         note="cut: password length check and key selection"),
    Spec(GROUP, "ntag_protect_cfg34", NXP, "NTAG21x._protect_with_password",
         [("cfg", BYTES), ("read_protect", BOOL), ("protect_from", INT)], stmts=[5, 6], result=["cfg"],
         note="cut: AUTH0 and the PROT bit of ACCESS in the configuration pages read from the tag (`cfg` after "
              "`cfg[8:14] = key`)"),
    Spec(GROUP, "ntag_protect_page", NXP, "NTAG21x._protect_with_password", [("cfg", BYTES), ("i", INT)], expr="cfg[i*4:(i+1)*4]",
         note="partial cut (not `whole`): second argument of the effectful call `self.write(..)`; cut: the data of the i-th WRITE"),
    Spec(GROUP, "ntag_protect_pageno", NXP, "NTAG21x._protect_with_password", [("i", INT)], binds=[("self._cfgpage", "cfgpage", INT)],
         expr="self._cfgpage + i", note="partial cut (not `whole`): first argument of the effectful call `self.write(..)`; cut: the page number of the i-th WRITE"),
    Spec(GROUP, "ntag_cc_valid_pw", NXP, "NTAG21x._protect_with_password", [("ndef_cc", BYTES)],
         whole=True, expr="ndef_cc[0] == 0xE1 and ndef_cc[1] & 0xF0 == 0x10", note="cut: capability container test before the access byte is changed"),
    Spec(GROUP, "ntag_cc_flags", NXP, "NTAG21x._protect_with_password", [("read_protect", BOOL)], whole=True, expr="0x88 if read_protect else 0x08",
         note="cut: proprietary access flags OR-ed into CC byte 3"),
    Spec(GROUP, "ntag_cc_valid", NXP, "NTAG21x._protect_with_lockbits", [("ndef_cc", BYTES)],
         whole=True, expr="ndef_cc[0] == 0xE1 and ndef_cc[1] >> 4 == 1", note="cut: capability container test of the lock bit protection"),
    Spec(GROUP, "ntag_cfglck", NXP, "NTAG21x._protect_with_lockbits", [("cfgdata", BYTES)], whole=True, expr="cfgdata[4] & 0x40 == 0",
         note="cut: CFGLCK bit test"),
    Spec(GROUP, "ntag_dynlock_page", NXP, "NTAG21x._protect_with_lockbits", [], binds=[("self._cfgpage", "cfgpage", INT)],
         expr="self._cfgpage - 1", note="partial cut (not `whole`): first argument of the effectful call `self.write(..)`; cut: page of the dynamic lock bytes"),
    # ---- Mifare Ultralight C
    Spec(GROUP, "ulc_auth_key", NXP, "MifareUltralightC._authenticate", [("password", BYTES)], stmts=(0, 2), result=["key"],
         note="cut: key selection and length check in front of the AUTHENTICATE command"),
    Spec(GROUP, "ulc_protect_key", NXP, "MifareUltralightC._protect_with_password",
         [("password", BYTES), ("read_protect", BOOL), ("protect_from", INT)], stmts=(0, 2), result=["key"]),
    Spec(GROUP, "ulc_auth0", NXP, "MifareUltralightC._protect_with_password", [("protect_from", INT)],
         expr='bytearray([max(3, min(protect_from, 0x30))]) + b"\\0\\0\\0"', note="partial cut (not `whole`): the complete second argument of the effectful call `self.write(42, ..)`; cut: data of the AUTH0 page write"),
    Spec(GROUP, "ulc_auth1", NXP, "MifareUltralightC._protect_with_password", [("read_protect", BOOL)],
         expr='b"\\0\\0\\0\\0" if read_protect else b"\\x01\\0\\0\\0"', note="partial cut (not `whole`): the complete second argument of the effectful call `self.write(43, ..)`; cut: data of the AUTH1 page write"),
    # ---- FeliCa Lite / Lite-S (tt3_sony.py)
    Spec(GROUP, "lite_mac_key", SONY, "FelicaLite.generate_mac",
         [("data", BYTES), ("key", BYTES), ("iv", BYTES), ("flip_key", BOOL)], stmts=(0, 2), result=["key"],
         note="cut: the argument assertion and the key flip; the 8-byte group reversal (a comprehension) and the "
              "triple DES call are not translated"),
    Spec(GROUP, "lite_auth_key", SONY, "FelicaLite._authenticate", [("password", BYTES)], stmts=(0, 2), result=["key"],
         note="cut: password length check and card key selection"),
    Spec(GROUP, "lite_protect_key", SONY, "FelicaLite._protect", [("password", BYTES)], whole=True, expr='password[0:16] if password else b"\\0"*16',
         note="cut: card key selection (password is not None)"),
    Spec(GROUP, "lite_mc_mask", SONY, "FelicaLite._protect", [("protect_from", INT)], nonneg=["protect_from"],
         whole=True, expr='pack("<H", 0x7FFF ^ (2**14 - 2**protect_from))',
         note="cut: read/write permission word of the MC block; precondition protect_from >= 0 (checked at the top of `_protect`)"),
    Spec(GROUP, "lites_mc_mask", SONY, "FelicaLiteS._protect", [("protect_from", INT)], nonneg=["protect_from"],
         whole=True, expr='pack("<H", 2**14 - 2**protect_from)', nth=0,
         note="cut: read protection mask written to MC bytes 6..7 (first occurrence); precondition protect_from >= 0"),
    Spec(GROUP, "lites_mc_mask_wr", SONY, "FelicaLiteS._protect", [("protect_from", INT)], nonneg=["protect_from"],
         whole=True, expr='pack("<H", 2**14 - 2**protect_from)', nth=1,
         note="cut: write protection mask written to MC bytes 8..11 (second occurrence); precondition protect_from >= 0"),
    Spec(GROUP, "lites_ckv", SONY, "FelicaLiteS._protect", [("ckv", BYTES)], whole=True, expr='min(unpack("<H", ckv[0:2])[0] + 1, 0xffff)',
         note="cut: next card key version"),
    Spec(GROUP, "lite_format_nmaxb", SONY, "FelicaLite._format", [("mc", BYTES)], stmts=[6, 7], result=["nmaxb"],
         note="cut: number of writeable data blocks from the MC permission bits"),
    Spec(GROUP, "lite_format_mc0", SONY, "FelicaLite._format", [("mc", BYTES)], whole=True, expr="mc[0] & 0x01 != 0x01"),
    Spec(GROUP, "lite_format_ver_cond", SONY, "FelicaLite._format", [("version", INT)], ret=BOOL, whole=True,
         expr="version and version >> 4 != 1", note="cut: the complete version test (truth value of the `if` test)"),
    Spec(GROUP, "lite_format_version", SONY, "FelicaLite._format", [("version", INT)], expr="version >> 4 != 1",
         note="partial cut (not `whole`): second operand of the version test; the complete test is lite_format_ver_cond"),
    Spec(GROUP, "lites_flip", SONY, "FelicaLiteS.write_with_mac", [("sk", BYTES)], whole=True, expr="sk[8:16] + sk[0:8]",
         note="cut: body of the nested function `flip`"),
    Spec(GROUP, "lites_mac_data", SONY, "FelicaLiteS.write_with_mac", [("wcnt", BYTES), ("block", INT), ("data", BYTES)],
         whole=True, expr='wcnt + b"\\x00" + bytearray([block]) + b"\\x00\\x91\\x00" + data', note="cut: the octets the write MAC is computed over"),
    Spec(GROUP, "lites_rw_bits", SONY, "FelicaLiteS.NDEF._read_attribute_data", [("rw_bits", INT)], whole=True, expr="bool(rw_bits & 0x3ff == 0x3ff)"),
    Spec(GROUP, "lite_nbr", SONY, "FelicaLite.NDEF._read_attribute_data", [], binds=[("attributes['nbr']", "nbr", INT)],
         whole=True, expr="min(attributes['nbr'], 3)", note="cut: blocks per read when a MAC block is appended"),
    # ---- Broadcom Topaz (tt1_broadcom.py)
    Spec(GROUP, "topaz_wipe", BCM, "Topaz._format", [("wipe", INT)], whole=True, expr="bytearray([wipe & 0xFF]) * 90"),
    Spec(GROUP, "topaz_version", BCM, "Topaz._format", [("version", INT)], whole=True, expr="version >> 4 == 1"),
    Spec(GROUP, "topaz512_wipe1", BCM, "Topaz512._format", [("wipe", INT)], whole=True, expr="bytearray([wipe & 0xFF]) * 80"),
    Spec(GROUP, "topaz512_wipe2", BCM, "Topaz512._format", [("wipe", INT)], whole=True, expr="bytearray([wipe & 0xFF]) * 384"),
    Spec(GROUP, "topaz_hrom", BCM, "activate", [], binds=[("target.rid_res", "rid_res", BYTES)], stmts=[0], result=["hrom"],
         note="cut: the header ROM octets that select the class"),
    # ---- functions that needed slice assignment / step -1 slices
    Spec(GROUP, "ntag_protect_cfg", NXP, "NTAG21x._protect_with_password",
         [("cfg", BYTES), ("key", BYTES), ("read_protect", BOOL), ("protect_from", INT)], stmts=[4, 5, 6], result=["cfg"],
         note="cut: PWD/PACK, AUTH0 and PROT written into the configuration pages read from the tag"),
    Spec(GROUP, "ulc_key_split", NXP, "MifareUltralightC._protect_with_password", [("key", BYTES)], stmts=[3], result=["key1", "key2"],
         note="cut: the key halves as the tag stores them (each reversed)"),
    Spec(GROUP, "lite_rev_halves", SONY, "FelicaLite._protect", [("key", BYTES)], expr="key[7::-1] + key[15:7:-1]",
         note="partial cut (not `whole`): the complete first argument of `self.write_without_mac(.., 0x87)`; cut: card key block (CK1 | CK2, each half reversed)"),
    Spec(GROUP, "lite_chal", SONY, "FelicaLite._authenticate", [("rc", BYTES)], expr="rc[7::-1] + rc[15:7:-1]",
         note="partial cut (not `whole`): the complete first argument of `self.write_without_mac(.., 0x80)`; cut: random challenge block (RC1 | RC2, each half reversed)"),
    Spec(GROUP, "lites_key_block", SONY, "FelicaLiteS._protect", [("key", BYTES)], expr="key[7::-1] + key[15:7:-1]",
         note="partial cut (not `whole`): the complete first argument of `self.write_without_mac(.., 0x87)`"),
    Spec(GROUP, "lites_ckv_block", SONY, "FelicaLiteS._protect", [("ckv", INT)], expr='pack("<H", ckv) + b"\\0" * 14',
         note="partial cut (not `whole`): the complete first argument of `self.write_without_mac(.., 0x86)`; cut: card key version block"),
    Spec(GROUP, "lite_format_attr", SONY, "FelicaLite._format", [("version", INT), ("nmaxb", INT)], stmts=[8, 9, 10],
         result=["attribute_data"], note="cut: the attribute block written by `format()` (Nbr 4, Nbw 1, RWFlag 1)"),
    Spec(GROUP, "topaz_format", BCM, "Topaz._format", [("tag_memory", BYTES), ("wipe", OPT(INT))], stmts=[1, 3], result=["tag_memory"],
         note="cut: capability container + empty NDEF TLV and the optional wipe on the cached image (a bytearray); "
              "the `version` branch (statement 2) and `synchronize()` are not translated"),
    Spec(GROUP, "topaz512_format", BCM, "Topaz512._format", [("tag_memory", BYTES), ("wipe", OPT(INT))], stmts=[1, 2, 4],
         result=["tag_memory"], note="cut: as topaz_format, for the Topaz-512 layout"),
]
P = "NfcVerif.FnBridge.Vendor."
BRIDGE = {
    "module": "NfcVerif.Props.FnBridgeVendor",
    "theorems": [P + t for t in (
        "ntag_auth_key_bridge", "ntag_protect_key_bridge", "ntag_auth_cmd_bridge", "ntag_auth_ok_bridge",
        "gen_ntag_authenticate", "gen_ntag_response_exact", "ntag_protect_cfg34_bridge", "ntag_protect_page_bridge",
        "ntag_protect_pageno_bridge", "gen_ntag_protect_pages", "ntag_cc_valid_bridge", "ntag_cc_valid_pw_bridge",
        "gen_cc_tests_agree", "ntag_cc_flags_bridge", "ntag_cfglck_bridge", "ntag_dynlock_page_bridge",
        "ulc_protect_key_bridge", "ulc_auth_key_bridge", "gen_ulc_keys_agree", "ulc_auth0_bridge",
        "gen_ulc_auth0_range", "ulc_auth1_bridge", "lite_mac_key_bridge", "lite_auth_key_bridge",
        "lite_protect_key_bridge", "gen_lite_keys_agree", "lite_mc_mask_bridge", "lite_mc_mask_beyond",
        "lites_mc_mask_bridge", "lites_mc_mask_wr_bridge", "gen_mask_bits", "lites_ckv_bridge",
        "lite_format_nmaxb_bridge", "gen_lite_format_nmaxb_sound", "lite_format_mc0_bridge",
        "lite_format_ver_cond_bridge", "lite_format_version_bridge", "lites_flip_bridge", "lites_mac_data_bridge",
        "lites_rw_bits_bridge", "lite_nbr_bridge", "topaz_wipe_bridge", "topaz512_wipe1_bridge",
        "topaz512_wipe2_bridge", "gen_formatTopaz", "topaz_version_bridge", "topaz_hrom_bridge",
        "lite_rev_halves_bridge", "lite_chal_bridge", "lites_key_block_bridge", "ulc_key_split_bridge",
        "gen_key_block_words", "lites_ckv_block_bridge", "ntag_protect_cfg_bridge", "gen_ntag_protect",
        "lite_format_attr_bridge", "topaz_format_bridge", "topaz512_format_bridge")],
    "properties": ["C01", "C03", "C20"],
}
SMALL_INT = ("lite_mc_mask", "lites_mc_mask", "lites_mc_mask_wr")      # 2**protect_from is materialised


def _b(rng, n):
    return bytes(rng.choice([0, 1, 0x40, 0xE1, 0xFF, rng.randrange(256)]) for _ in range(n))


def inputs(rng, sp):
    out = []
    n = sp.lean
    if n in ("ntag_auth_key", "ulc_auth_key", "lite_auth_key", "lite_protect_key"):
        out += [([_b(rng, k)], []) for k in (0, 1, 5, 6, 7, 15, 16, 17, 32) for _ in range(3)]
    if n in ("ntag_protect_key", "ulc_protect_key"):
        out += [([_b(rng, k), rng.random() < 0.5, rng.randrange(-2, 60)], []) for k in (0, 1, 5, 6, 7, 15, 16, 17, 32) for _ in range(3)]
    if n == "ntag_auth_ok":
        for _ in range(60):
            key = _b(rng, rng.choice([6, 6, 6, 4, 5, 0]))
            out.append(([key[4:6] if rng.random() < 0.5 else _b(rng, rng.choice([0, 1, 2, 3])), key], []))
    if n == "ntag_protect_cfg34":
        for _ in range(120):
            out.append(([_b(rng, rng.choice([16, 16, 16, 16, 4, 5, 0])), rng.random() < 0.5,
                         rng.choice([-1, 0, 2, 3, 4, 41, 255, 256, 1000])], []))
    if n == "ntag_protect_page":
        out += [([_b(rng, k), i], []) for k in (16, 16, 12, 0) for i in (0, 1, 2, 3, 4, -1)]
    if n in ("ntag_protect_pageno", "ntag_dynlock_page"):
        out += [([i], [p]) if n == "ntag_protect_pageno" else ([], [p]) for p in (16, 37, 41, 131, 227) for i in (0, 1, 2, 3)]
    if n in ("ntag_cc_valid", "ntag_cc_valid_pw"):
        out += [([bytes([a, b, 0x12, 0])], []) for a in (0xE1, 0xE0, 0) for b in (0x10, 0x11, 0x1F, 0x20, 0x00, 0x01, 0xF0)]
        out += [([_b(rng, k)], []) for k in (0, 1, 2, 4)]
    if n == "ntag_cfglck":
        out += [([bytes([0, 0, 0, 0, v, 0, 0, 0])], []) for v in (0, 0x40, 0x3F, 0xBF, 0xC0, 0xFF, 0x80)] + [([_b(rng, k)], []) for k in (0, 4, 5)]
    if n == "ulc_auth0":
        out += [([v], []) for v in (-5, 0, 2, 3, 4, 40, 47, 48, 49, 255, 256, 1000)]
    if n == "lite_mac_key":
        for _ in range(80):
            out.append(([_b(rng, rng.choice([0, 8, 16, 24, 32, 7, 9])), _b(rng, rng.choice([16, 16, 16, 15, 17, 0])),
                         _b(rng, rng.choice([8, 8, 8, 7, 9])), rng.random() < 0.5], []))
    if n in ("lite_mc_mask", "lites_mc_mask", "lites_mc_mask_wr"):
        out += [([v], []) for v in range(0, 20)]
    if n == "lites_ckv":
        out += [([bytes([a, b]) + _b(rng, 14)], []) for a in (0, 1, 0xFE, 0xFF) for b in (0, 1, 0xFE, 0xFF)] + [([_b(rng, k)], []) for k in (0, 1, 2)]
    if n == "lite_format_nmaxb":
        for v in (0xFFFF, 0x7FFF, 0x3FFF, 0x001F, 0x0001, 0x0000, 0x7FEF, 0x0003, 0xFFFE, 0x5555, 0x2AAB):
            out.append(([bytes([v & 255, v >> 8, 0xFF, 1]) + _b(rng, 12)], []))
        out += [([_b(rng, 16)], []) for _ in range(60)] + [([_b(rng, k)], []) for k in (0, 1, 2)]
    if n == "lite_format_mc0":
        out += [([bytes([v])], []) for v in range(0, 8)] + [([b""], [])]
    if n in ("lite_format_version", "topaz_version", "lite_format_ver_cond"):
        out += [([v], []) for v in (0, 1, 0x0F, 0x10, 0x11, 0x1F, 0x20, 0xFF, 0x100, 0x110)]
    if n == "lites_flip":
        out += [([_b(rng, k)], []) for k in (16, 16, 16, 0, 8, 15, 17, 24)]
    if n == "lites_mac_data":
        out += [([_b(rng, 3), blk, _b(rng, 16)], []) for blk in (-1, 0, 5, 0x92, 255, 256, 300)]
    if n == "lites_rw_bits":
        out += [([v], []) for v in (0, 0x3FF, 0x7FF, 0x3FE, 0x7FFF, 0xFFFF, 0x1FF, 0x43FF)]
    if n == "lite_nbr":
        out += [([], [v]) for v in (0, 1, 2, 3, 4, 15, 255)]
    if n in ("topaz_wipe", "topaz512_wipe1", "topaz512_wipe2"):
        out += [([v], []) for v in (-256, -1, 0, 1, 0x5A, 255, 256, 257, 0x1FF, 65535)]
    if n in ("lite_rev_halves", "lite_chal", "lites_key_block", "ulc_key_split"):
        out += [([_b(rng, k)], []) for k in (0, 1, 7, 8, 9, 15, 16, 16, 16, 17, 24)]
    if n == "lites_ckv_block":
        out += [([v], []) for v in (-1, 0, 1, 255, 256, 65534, 65535, 65536)]
    if n == "ntag_protect_cfg":
        for _ in range(100):
            out.append(([_b(rng, rng.choice([16, 16, 16, 16, 8, 4, 0])), _b(rng, rng.choice([6, 6, 6, 5, 7, 0])), rng.random() < 0.5,
                         rng.choice([-1, 0, 3, 4, 41, 255, 256])], []))
    if n == "lite_format_attr":
        out += [([v, m], []) for v in (0, 0x10, 0x11, 255, 256) for m in (0, 1, 13, 255, 256, 65535, 65536)]
    if n in ("topaz_format", "topaz512_format"):
        for _ in range(40):
            size = rng.choice([120, 128, 512, 512, 64, 16, 0])
            out.append(([_b(rng, size), rng.choice([None, 0, 0x5A, 255, 256, -1])], []))
    if n == "topaz_hrom":
        out += [([], [bytes([0x11, 0x48, 1, 2, 3, 4])]), ([], [bytes([0x12, 0x4C, 1, 2, 3, 4])]), ([], [b"\x11"]), ([], [b""])]
    return out


MUTATIONS = [
    ("ntag_auth_key", "minimum password length", "len(password) < 6", "len(password) < 5"),
    ("ntag_auth_key", "default PACK", 'b"\\xFF\\xFF\\xFF\\xFF\\0\\0"', 'b"\\xFF\\xFF\\xFF\\xFF\\0\\1"'),
    ("ntag_auth_cmd", "PWD length", 'b"\\x1B" + key[0:4]', 'b"\\x1B" + key[0:3]'),
    ("ntag_auth_ok", "PACK position", "rsp == key[4:6]", "rsp == key[3:5]"),
    ("ntag_protect_cfg34", "lowest protected page", "max(3, min(protect_from, 255))", "max(4, min(protect_from, 255))"),
    ("ntag_protect_cfg34", "PROT bit polarity", "cfg[4] | 0x80 if read_protect else cfg[4] & 0x7F",
     "cfg[4] & 0x7F if read_protect else cfg[4] | 0x80"),
    ("ntag_protect_page", "page slice", "cfg[i*4:(i+1)*4]", "cfg[i*4:(i+1)*4+1]"),
    ("ntag_cfglck", "CFGLCK bit", "cfgdata[4] & 0x40 == 0", "cfgdata[4] & 0x20 == 0"),
    ("ntag_cc_valid", "CC magic", "ndef_cc[0] == 0xE1 and ndef_cc[1] >> 4 == 1", "ndef_cc[0] == 0xE0 and ndef_cc[1] >> 4 == 1"),
    ("ulc_auth0", "upper clamp of AUTH0", "min(protect_from, 0x30)", "min(protect_from, 0x31)"),
    ("ulc_auth1", "read protection polarity", 'b"\\0\\0\\0\\0" if read_protect else b"\\x01\\0\\0\\0"',
     'b"\\x01\\0\\0\\0" if read_protect else b"\\0\\0\\0\\0"'),
    ("ulc_protect_key", "minimum password length", "len(password) < 16", "len(password) < 15"),
    ("ulc_auth_key", "factory key", 'b"IEMKAERB!NACUOYF"', 'b"IEMKAERB!NACUOYG"'),
    ("lite_mac_key", "key flip halves", "bytes(key[8:] + key[:8]) if flip_key", "bytes(key[:8] + key[8:]) if flip_key"),
    ("lite_mac_key", "assertion on the key length", "len(key) == 16 and", "len(key) >= 16 and"),
    ("lite_auth_key", "factory key length", 'b"\\0" * 16 if not password', 'b"\\0" * 15 if not password'),
    ("lite_mc_mask", "permission word", "0x7FFF ^ (2**14 - 2**protect_from)", "0x7FFF ^ (2**13 - 2**protect_from)"),
    ("lites_mc_mask", "mask base", 'pack("<H", 2**14 - 2**protect_from)\n                mc[6:8]', 'pack("<H", 2**15 - 2**protect_from)\n                mc[6:8]'),
    ("lites_mc_mask_wr", "write mask base", 'pack("<H", 2**14 - 2**protect_from)\n            mc[8:10]', 'pack("<H", 2**13 - 2**protect_from)\n            mc[8:10]'),
    ("lites_ckv", "version saturation", "0xffff)", "0xfffe)"),
    ("lite_format_nmaxb", "first permission bit", "rw_bits >> (nmaxb + 1) & 1 == 0", "rw_bits >> nmaxb & 1 == 0"),
    ("lite_format_nmaxb", "loop bound", "for nmaxb in range(14):", "for nmaxb in range(15):"),
    ("lites_flip", "flip halves", "sk[8:16] + sk[0:8]", "sk[0:8] + sk[8:16]"),
    ("lites_mac_data", "MAC block number", 'b"\\x00\\x91\\x00"', 'b"\\x00\\x90\\x00"'),
    ("topaz_wipe", "wipe length", "* 90", "* 91"),
    ("ntag_cfglck", "condition gains an operand", "if cfgdata[4] & 0x40 == 0:", "if cfgdata[4] & 0x40 == 0 or cfgdata[4] & 0x80:"),
    ("lite_format_mc0", "condition gains an operand", "if mc[0] & 0x01 != 0x01:", "if mc[0] & 0x01 != 0x01 and mc[1] != 0xFF:"),
    ("lite_format_ver_cond", "truthiness test changed", "if version and version >> 4 != 1:", "if version is not None and version >> 4 != 1:"),
    ("topaz_version", "condition gains an operand", "if version >> 4 == 1:", "if version >> 4 == 1 or version == 0:"),
    ("ntag_protect_cfg", "PWD/PACK position", "cfg[8:14] = key", "cfg[8:13] = key"),
    ("lite_rev_halves", "second half not reversed", "key[7::-1] + key[15:7:-1], 0x87)", "key[7::-1] + key[8:16], 0x87)"),
    ("lite_chal", "challenge halves swapped", "rc[7::-1] + rc[15:7:-1]", "rc[15:7:-1] + rc[7::-1]"),
    ("ulc_key_split", "first key half", "key[7::-1], key[15:7:-1]", "key[8::-1], key[15:7:-1]"),
    ("lites_ckv_block", "padding of the version block", 'b"\\0" * 14, 0x86)', 'b"\\0" * 13, 0x86)'),
    ("lite_format_attr", "Nbw of the Lite", "version, 4, 1, nmaxb, 1)", "version, 4, 2, nmaxb, 1)"),
    ("topaz_format", "capability container size byte", 'b"\\xE1\\x10\\x0E\\x00\\x03\\x00"', 'b"\\xE1\\x10\\x0F\\x00\\x03\\x00"'),
    ("topaz512_format", "wipe start of the dynamic memory", "tag_memory[128:512] =", "tag_memory[120:512] ="),
    ("topaz_hrom", "NEUTRAL slice start written explicitly", "target.rid_res[0:2]", "target.rid_res[:2]"),
]
