"""group Snep: pure slices of nfc/snep/client.py, nfc/snep/server.py, nfc/handover/client.py ->
Model/Snep.lean, Model/SnepChannel.lean, Model/Handover.lean (C06, C07).

SNEP and handover are sequential programs that block in socket calls; the models cut them at the blocking points
(`Model/SnepChannel.lean`).  Translated are the pure statement ranges between the socket calls:

* header pack / unpack (`>BBL`, `>BBLL`, `>BxL`, `>L`), the GET acceptable-length field, the ExcessData rule,
  the response header - as `path=`/`stmts=` cuts, every cut named in the `note`;
* `send_request` and `HandoverClient.send_octets` as whole functions over an ORACLE socket: `socket.send` /
  `socket.recv` are function parameters (`send : Bytes -> Bool`, `recv : Bytes`); the bridge theorems hold for every
  oracle, which pins the sequence of fragments offered to the socket (not the socket's state, which a pure
  function cannot have: every `recv()` of one run returns the same value).  These two are not run by part 1 of
  the self-test (function-valued parameters).

Not translated (the D-tie of C06/C07 stays their only tie): the reassembly loops (`while len(..) - 6 < length`
around `recv()`), `SnepServer._serve` response fragmentation and `HandoverServer.serve` (socket calls as
statements), `recv_octets` (ndef decoder), the conditions `version >> 4 > 1`, `length > max_acceptable_length`,
`request_data[1] == 1 and len(request_data) >= 10` (they sit in `if` heads in front of socket calls; the bridge
restates them by hand next to the translated slices, see `Lemmas/FnBridgeSnep.lean`), `raise SnepError(..)`.
"""
from translate_fn import Spec, INT, BOOL, BYTES, OPT

GROUP = "Snep"
ORDER = 60
SC, SS, HC, HS = "snep/client.py", "snep/server.py", "handover/client.py", "handover/server.py"
_CSOCK = {"client_socket.send": ("send", [BYTES], BOOL, False), "client_socket.recv": ("recv", [], BYTES, False)}
_SOCK = {"socket.send": ("send", [BYTES], BOOL, False), "socket.recv": ("recv", [], BYTES, False)}

SPECS = [
    Spec(GROUP, "snep_send_request", SC, "send_request", [("snep_request", BYTES), ("send_miu", INT)], opaque=_SOCK,
         stmts=(0, 5), note="whole function body (the parameter `socket` is only used by the oracle calls); `socket.send` / `socket.recv` are the oracle parameters `send`, `recv`"),
    Spec(GROUP, "snep_recv_header", SC, "recv_response", [("snep_response", BYTES), ("acceptable_length", INT)],
         path=[(0, "body")], stmts=(1, 4), result=["length"], ret=OPT(INT),
         note="cut: the checks of the first response fragment (statements after `snep_response = socket.recv()` up to "
              "the acceptable-length check); result: `length`, None where the source returns None"),
    Spec(GROUP, "snep_recv_unpack", SC, "recv_response", [("snep_response", BYTES)],
         path=[(0, "body")], stmts=[2], result=["version", "status", "length"],
         note="cut: the statement `version, status, length = struct.unpack('>BBL', snep_response[:6])`"),
    Spec(GROUP, "snep_get_request", SC, "SnepClient.get_octets", [("octets", BYTES)],
         binds=[("self.acceptable_length", "acceptable_length", INT)], path=[(2, "body")], stmts=[0], result=["request"],
         note="cut: the statement that builds the GET request octets"),
    Spec(GROUP, "snep_put_request", SC, "SnepClient.put_octets", [("octets", BYTES)],
         path=[(1, "body")], stmts=[0], result=["request"],
         note="cut: the statement that builds the PUT request octets"),
    Spec(GROUP, "snep_serve_header", SS, "SnepServer._serve", [("data", BYTES)],
         path=[(3, "body"), (0, "body")], stmts=[3], result=["version", "length"],
         note="cut: the statement `version, length = struct.unpack_from('>BxL', data)`"),
    Spec(GROUP, "snep_get_fields", SS, "SnepServer.process_snep_request", [("request_data", BYTES)],
         path=[(2, "body"), (0, "body")], stmts=(0, 2), result=["acceptable_length", "octets"],
         note="cut: GET branch, the acceptable-length field and the NDEF octets"),
    Spec(GROUP, "snep_get_excess", SS, "SnepServer.process_snep_request",
         [("response_code", INT), ("response_data", BYTES), ("acceptable_length", INT)],
         path=[(2, "body"), (0, "body")], stmts=[5], result=["response_code", "response_data"],
         note="cut: GET branch, the ExcessData rule"),
    Spec(GROUP, "snep_put_fields", SS, "SnepServer.process_snep_request", [("request_data", BYTES)],
         path=[(2, "body"), (0, "orelse"), (0, "body")], stmts=[0], result=["octets"],
         note="cut: PUT branch, the NDEF octets"),
    Spec(GROUP, "snep_response_pack", SS, "SnepServer.process_snep_request",
         [("response_code", INT), ("response_data", BYTES)], stmts=[3, 4], result=["response_data"],
         note="cut: the two statements that put the header in front of the response data"),
    Spec(GROUP, "ho_send_octets", HC, "HandoverClient.send_octets", [("octets", BYTES), ("miu", INT)],
         opaque={"self.socket.send": ("send", [BYTES], BOOL, False)}, stmts=(2, 4),
         note="cut: the fragment loop and the return value; `miu` is `self.socket.getsockopt(SO_SNDMIU)` (>= 1), "
              "`self.socket.send` the oracle parameter `send`"),
    # ---- conditions, slices and protocol constants that sit between the socket calls (`expr=` cuts, pinned to the statement of the source they sit in by `path=`/`stmts=`)
    Spec(GROUP, "snep_srv_empty", SS, "SnepServer._serve", [("data", BYTES)], path=[(3, "body"), (0, "body")], stmts=[1], whole=True, expr="not data",
         note="cut: the condition `not data` (connection closed)"),
    Spec(GROUP, "snep_srv_short", SS, "SnepServer._serve", [("data", BYTES)], path=[(3, "body"), (0, "body")], stmts=[2], whole=True, expr="len(data) < 6",
         note="cut: the condition `len(data) < 6`"),
    Spec(GROUP, "snep_srv_bad_version", SS, "SnepServer._serve", [("version", INT)], path=[(3, "body"), (0, "body")], stmts=[4], whole=True, expr="(version >> 4) > 1",
         note="cut: the condition `(version >> 4) > 1`"),
    Spec(GROUP, "snep_srv_too_long", SS, "SnepServer._serve", [("length", INT)],
         path=[(3, "body"), (0, "body")], stmts=[5], whole=True, expr="length > self.max_acceptable_length",
         binds=[("self.max_acceptable_length", "max_acceptable_length", INT)],
         note="cut: the condition `length > self.max_acceptable_length`"),
    Spec(GROUP, "snep_srv_more", SS, "SnepServer._serve", [("data", BYTES), ("length", INT)],
         path=[(3, "body"), (0, "body")], stmts=[6], whole=True, expr="len(data) - 6 < length", nth=0, note="cut: the condition `len(data) - 6 < length` (if)"),
    Spec(GROUP, "snep_srv_more_loop", SS, "SnepServer._serve", [("data", BYTES), ("length", INT)],
         path=[(3, "body"), (0, "body")], stmts=[6], whole=True, expr="len(data) - 6 < length", nth=1, note="cut: the condition `len(data) - 6 < length` (while)"),
    Spec(GROUP, "snep_srv_fits", SS, "SnepServer._serve", [("data", BYTES), ("send_miu", INT)],
         path=[(3, "body"), (0, "body")], stmts=[8], whole=True, expr="len(data) <= send_miu", note="cut: the condition `len(data) <= send_miu`"),
    Spec(GROUP, "snep_srv_first", SS, "SnepServer._serve", [("data", BYTES), ("send_miu", INT)],
         path=[(3, "body"), (0, "body")], stmts=[8], expr="data[0:send_miu]", note="cut: the first response fragment (sub-expression: argument of `client_socket.send`; the whole call is `snep_srv_first_send`)"),
    Spec(GROUP, "snep_srv_frag", SS, "SnepServer._serve", [("data", BYTES), ("offset", INT), ("send_miu", INT)],
         path=[(3, "body"), (0, "body")], stmts=[8], expr="data[offset:offset + send_miu]", note="cut: a further response fragment (sub-expression: argument of `client_socket.send`; the whole call is `snep_srv_frag_send`)"),
    Spec(GROUP, "snep_srv_unsup_rsp", SS, "SnepServer._serve", [], path=[(3, "body"), (0, "body")], stmts=[4], expr='b"\\x10\\xE1\\x00\\x00\\x00\\x00"',
         note="cut: the Unsupported Version response (sub-expression: argument of `client_socket.send`; the whole call is `snep_srv_unsup_send`)"),
    Spec(GROUP, "snep_srv_reject_rsp", SS, "SnepServer._serve", [], path=[(3, "body"), (0, "body")], stmts=[5], expr='b"\\x10\\xFF\\x00\\x00\\x00\\x00"',
         note="cut: the Reject response (sub-expression: argument of `client_socket.send`; the whole call is `snep_srv_reject_send`)"),
    Spec(GROUP, "snep_srv_cont_rsp", SS, "SnepServer._serve", [], path=[(3, "body"), (0, "body")], stmts=[6], expr='b"\\x10\\x80\\x00\\x00\\x00\\x00"',
         note="cut: the Continue response (sub-expression: argument of `client_socket.send`; the whole call is `snep_srv_cont_send`)"),
    Spec(GROUP, "snep_srv_cont_req", SS, "SnepServer._serve", [], path=[(3, "body"), (0, "body")], stmts=[8], expr='b"\\x10\\x00\\x00\\x00\\x00\\x00"',
         note="cut: the Continue request the server waits for (sub-expression of the test; the whole test is `snep_srv_cont_test`)"),
    Spec(GROUP, "snep_srv_is_get", SS, "SnepServer.process_snep_request", [("request_data", BYTES)],
         path=[(2, "body")], stmts=[0], whole=True, expr="request_data[1] == 1 and len(request_data) >= 10", note="cut: the GET dispatch condition"),
    Spec(GROUP, "snep_srv_is_put", SS, "SnepServer.process_snep_request", [("request_data", BYTES)],
         path=[(2, "body"), (0, "orelse")], stmts=[0], whole=True, expr="request_data[1] == 2", note="cut: the PUT dispatch condition"),
    Spec(GROUP, "snep_cli_more", SC, "recv_response", [("snep_response", BYTES), ("length", INT)],
         path=[(0, "body")], stmts=[4], whole=True, expr="len(snep_response) - 6 < length", nth=0, note="cut: the condition `len(snep_response) - 6 < length` (if)"),
    Spec(GROUP, "snep_cli_more_loop", SC, "recv_response", [("snep_response", BYTES), ("length", INT)],
         path=[(0, "body")], stmts=[4], whole=True, expr="len(snep_response) - 6 < length", nth=1, note="cut: the condition `len(snep_response) - 6 < length` (while)"),
    Spec(GROUP, "snep_cli_cont_req", SC, "recv_response", [], path=[(0, "body")], stmts=[4], expr='b"\\x10\\x00\\x00\\x00\\x00\\x00"',
         note="cut: the Continue request the client sends (sub-expression: argument of `socket.send`; the whole call is `snep_cli_cont_send`)"),
    Spec(GROUP, "snep_cli_fits", SC, "send_request", [("snep_request", BYTES), ("send_miu", INT)],
         stmts=[0], whole=True, expr="len(snep_request) <= send_miu", note="cut: the condition `len(snep_request) <= send_miu`"),
    Spec(GROUP, "snep_cli_first", SC, "send_request", [("snep_request", BYTES), ("send_miu", INT)],
         stmts=[1], expr="snep_request[0:send_miu]", note="cut: the first request fragment (sub-expression of the test `not socket.send(..)`; the whole test is `snep_cli_first_test`)"),
    Spec(GROUP, "snep_cli_frag", SC, "send_request", [("snep_request", BYTES), ("offset", INT), ("send_miu", INT)],
         stmts=[3], whole=True, expr="snep_request[offset:offset+send_miu]", note="cut: a further request fragment"),
    Spec(GROUP, "snep_cli_cont_rsp", SC, "send_request", [], stmts=[2], expr='b"\\x10\\x80\\x00\\x00\\x00\\x00"',
         note="cut: the Continue response the client waits for (sub-expression of the test; the whole test is `snep_cli_cont_test`)"),
    Spec(GROUP, "snep_cli_get_status", SC, "SnepClient.get_octets", [("response", BYTES)], path=[(2, "body"), (3, "body")], stmts=[0], whole=True, expr="response[1] != 0x81",
         note="cut: the condition `response[1] != 0x81` of get_octets"),
    Spec(GROUP, "snep_cli_get_data", SC, "SnepClient.get_octets", [("response", BYTES)], path=[(2, "body"), (3, "body")], stmts=[1], whole=True, expr="response[6:]",
         note="cut: the returned octets of get_octets"),
    Spec(GROUP, "snep_cli_put_status", SC, "SnepClient.put_octets", [("response", BYTES)], path=[(1, "body"), (3, "body")], stmts=[0], whole=True, expr="response[1] != 0x81",
         note="cut: the condition `response[1] != 0x81` of put_octets"),
    Spec(GROUP, "ho_srv_frag", HS, "HandoverServer.serve", [("response", BYTES), ("offset", INT), ("send_miu", INT)],
         whole=True, expr="response[offset:offset + send_miu]", note="cut: a response fragment of the handover server"),
    # ---- the enclosing socket calls / tests of the sub-expression cuts above, as `whole=True` cuts over oracle sockets
    Spec(GROUP, "snep_srv_unsup_send", SS, "SnepServer._serve", [], path=[(3, "body"), (0, "body")], stmts=[4], whole=True,
         expr='client_socket.send(b"\\x10\\xE1\\x00\\x00\\x00\\x00")', opaque=_CSOCK,
         note="cut: the whole statement that sends the Unsupported Version response; `client_socket.send` is `send`"),
    Spec(GROUP, "snep_srv_reject_send", SS, "SnepServer._serve", [], path=[(3, "body"), (0, "body")], stmts=[5], whole=True,
         expr='client_socket.send(b"\\x10\\xFF\\x00\\x00\\x00\\x00")', opaque=_CSOCK,
         note="cut: the whole statement that sends the Reject response; `client_socket.send` is `send`"),
    Spec(GROUP, "snep_srv_cont_send", SS, "SnepServer._serve", [], path=[(3, "body"), (0, "body")], stmts=[6], whole=True,
         expr='client_socket.send(b"\\x10\\x80\\x00\\x00\\x00\\x00")', opaque=_CSOCK,
         note="cut: the whole statement that sends the Continue response; `client_socket.send` is `send`"),
    Spec(GROUP, "snep_srv_first_send", SS, "SnepServer._serve", [("data", BYTES), ("send_miu", INT)], path=[(3, "body"), (0, "body")], stmts=[8],
         whole=True, expr="client_socket.send(data[0:send_miu])", opaque=_CSOCK,
         note="cut: the whole statement that sends the first response fragment; `client_socket.send` is `send`"),
    Spec(GROUP, "snep_srv_frag_send", SS, "SnepServer._serve", [("data", BYTES), ("offset", INT), ("send_miu", INT)],
         path=[(3, "body"), (0, "body")], stmts=[8], whole=True, expr="client_socket.send(data[offset:offset + send_miu])", opaque=_CSOCK,
         note="cut: the whole statement that sends a further response fragment; `client_socket.send` is `send`"),
    Spec(GROUP, "snep_srv_cont_test", SS, "SnepServer._serve", [], path=[(3, "body"), (0, "body")], stmts=[8], whole=True,
         expr='client_socket.recv() == b"\\x10\\x00\\x00\\x00\\x00\\x00"', opaque=_CSOCK,
         note="cut: the whole test for the client's Continue request; `client_socket.recv` is `recv`"),
    Spec(GROUP, "snep_cli_cont_send", SC, "recv_response", [], path=[(0, "body")], stmts=[4], whole=True,
         expr='socket.send(b"\\x10\\x00\\x00\\x00\\x00\\x00")', opaque=_SOCK,
         note="cut: the whole statement that sends the Continue request; `socket.send` is `send`"),
    Spec(GROUP, "snep_cli_first_test", SC, "send_request", [("snep_request", BYTES), ("send_miu", INT)], stmts=[1],
         whole=True, expr="not socket.send(snep_request[0:send_miu])", opaque=_SOCK,
         note="cut: the whole test that sends the first request fragment; `socket.send` is `send`"),
    Spec(GROUP, "snep_cli_cont_test", SC, "send_request", [], stmts=[2], whole=True,
         expr='socket.recv() != b"\\x10\\x80\\x00\\x00\\x00\\x00"', opaque=_SOCK,
         note="cut: the whole test for the server's Continue response; `socket.recv` is `recv`"),
]
P = "NfcVerif.FnBridge.Snep."
BRIDGE = {
    "module": "NfcVerif.Props.FnBridgeSnep",
    "theorems": [P + t for t in (
        "response_pack_bridge", "put_request_bridge", "get_request_bridge", "get_request_neg", "serve_header_bridge",
        "recv_unpack_bridge", "get_fields_bridge", "put_fields_bridge", "get_excess_bridge", "response_pack_ok",
        "process_mid", "srv_idle_mid", "cli_await_mid", "recv_header_bridge", "cli_await_hdr_mid",
        "gen_recv_oversize_dropped", "process_bridge", "respond_bridge", "srv_finish_bridge", "srv_on_recv_bridge",
        "cli_finish_bridge", "cli_await_bridge", "cli_on_recv_bridge", "cli_send_bridge", "cli_start_bridge",
        "send_request_bridge", "send_request_offers_every_fragment", "whole_calls_bridge", "serve_header_peer", "recv_unpack_peer",
        "get_fields_peer", "response_pack_peer", "ho_send_octets_bridge", "ho_send_offers_every_chunk", "ho_send_all_accepted",
        "ho_srv_frags_bridge", "gen_serve_header_total", "gen_response_pack_shape", "gen_oversize_rejected", "gen_excess_never_partial")],
    "properties": ["C06", "C07"],
}


def _msg(rng, n):
    return bytes(rng.randrange(256) for _ in range(n))


def accept(sp, pv, bv):
    """precondition of the fragment loops: a send MIU >= 1 (LLCP guarantees >= 128); with `miu <= 0` the real
    `send_octets` loop does not terminate when the socket accepts the empty fragment"""
    if sp.lean == "ho_send_octets":
        return pv[1] >= 1
    return True


def inputs(rng, sp):
    out = []
    if sp.lean in ("snep_recv_unpack", "snep_serve_header", "snep_get_fields", "snep_put_fields"):
        for n in list(range(0, 14)) + [20, 40]:
            for _ in range(6):
                d = bytearray(_msg(rng, n))
                if n >= 6 and rng.random() < 0.7:
                    d[2:6] = rng.choice([0, 1, n - 6, n, 255, 256, 65536, 2 ** 32 - 1]).to_bytes(4, "big")
                if n >= 2 and rng.random() < 0.7:
                    d[0:2] = bytes([rng.choice([0x10, 0x20, 0x1F, 0x00]), rng.choice([1, 2, 0x81, 0xC0, 0])])
                out.append(([bytes(d)], []))
    if sp.lean == "snep_recv_header":
        for n in list(range(0, 12)) + [20]:
            for acc in (0, 1, 5, 14, 1024, 2 ** 32):
                d = bytearray(_msg(rng, n))
                if n >= 6:
                    d[2:6] = (rng.choice([0, acc, acc + 1, max(acc - 1, 0), n - 6]) % 2 ** 32).to_bytes(4, "big")
                out.append(([bytes(d), acc], []))
    if sp.lean in ("snep_srv_first", "snep_srv_fits", "snep_cli_first", "snep_cli_fits"):
        for n in (0, 1, 5, 6, 7, 128, 129, 300):
            for miu in (1, 6, 7, 128, 2175, 0, -1):
                out.append(([_msg(rng, n), miu], []))
    if sp.lean in ("snep_srv_frag", "snep_cli_frag", "ho_srv_frag"):
        for n in (0, 1, 10, 128, 129, 300):
            for miu in (1, 6, 128):
                for off in (0, miu, 2 * miu, n - 1, n, n + 3):
                    out.append(([_msg(rng, n), off, miu], []))
    if sp.lean in ("snep_srv_more", "snep_srv_more_loop", "snep_cli_more", "snep_cli_more_loop"):
        for n in (0, 3, 5, 6, 7, 20):
            for length in (0, 1, n - 7, n - 6, n - 5, 2 ** 32 - 1):
                out.append(([_msg(rng, n), length], []))
    if sp.lean in ("snep_srv_is_get", "snep_srv_is_put", "snep_cli_get_status", "snep_cli_put_status", "snep_cli_get_data"):
        for n in (0, 1, 2, 6, 9, 10, 11):
            for c in (0, 1, 2, 3, 0x81, 0xC0, 0xFF):
                d = bytearray(_msg(rng, n))
                if n >= 2:
                    d[1] = c
                out.append(([bytes(d)], []))
    if sp.lean == "snep_srv_bad_version":
        for v in list(range(0, 64)) + [0x7F, 0x80, 0xFF]:
            out.append(([v], []))
    if sp.lean == "snep_srv_too_long":
        for length in (0, 1, 0xFFFFF, 0x100000, 0x100001, 2 ** 32 - 1):
            for mx in (0, 0x100000, 2 ** 32 - 1):
                out.append(([length], [mx]))
    if sp.lean == "snep_get_request":
        for n in (0, 1, 3, 100):
            for acc in (0, 1, 1024, 2 ** 32 - 1, 2 ** 32, -1):
                out.append(([_msg(rng, n)], [acc]))
    if sp.lean == "snep_put_request":
        for n in (0, 1, 3, 100, 300):
            out.append(([_msg(rng, n)], []))
    if sp.lean == "snep_get_excess":
        for n in (0, 1, 5, 6, 7):
            for acc in (0, 5, 6, 7, 2 ** 32 - 1):
                for code in (0x81, 0xC0, 0xE0):
                    out.append(([code, _msg(rng, n), acc], []))
    if sp.lean == "snep_response_pack":
        for n in (0, 1, 6, 300):
            for code in (0, 0x81, 0xC1, 255, 256, -1):
                out.append(([code, _msg(rng, n)], []))
    return out


def _move_maxlen_check(seg):
    """lead seed: the max_acceptable_length check only in the more-fragments branch of `_serve`"""
    l = seg.split("\n")
    i = [k for k, x in enumerate(l) if "if length > self.max_acceptable_length:" in x][0]
    block = l[i:i + 4]                       # if / log.debug / send / continue
    rest = l[:i] + l[i + 5:]                 # drop the block and the blank line behind it
    j = [k for k, x in enumerate(rest) if "if len(data) - 6 < length:" in x][0]
    return "\n".join(rest[:j + 1] + ["    " + x for x in block] + rest[j + 1:])


MUTATIONS = [
    ("snep_srv_too_long", "lead seed: max_acceptable_length checked only in the more-fragments branch", _move_maxlen_check, None),
    ("snep_cli_more_loop", "lead seed: received count without the 6 octet header", "while len(snep_response) - 6 < length:", "while len(snep_response) < length:"),
    ("snep_recv_unpack", "length field read as 16 bit", '">BBL", snep_response[:6]', '">BBH", snep_response[:4]'),
    ("snep_recv_unpack", "little endian length", '">BBL"', '"<BBL"'),
    ("snep_recv_header", "acceptable length comparison", "if length > acceptable_length:", "if length >= acceptable_length:"),
    ("snep_recv_header", "minimum length of the first fragment", "if len(snep_response) < 6:", "if len(snep_response) < 5:"),
    ("snep_get_request", "length does not count the acceptable-length field", "4 + len(octets)", "len(octets)"),
    ("snep_get_request", "request code", "0x10, 0x01, 4", "0x10, 0x02, 4"),
    ("snep_put_request", "version octet", "'>BBL', 0x10, 0x02", "'>BBL', 0x11, 0x02"),
    ("snep_serve_header", "pad octet dropped", '">BxL"', '">BL"'),
    ("snep_get_fields", "acceptable length offset", "request_data[6:10]", "request_data[5:9]"),
    ("snep_get_fields", "NDEF octets offset", "request_data[10:]", "request_data[9:]"),
    ("snep_get_excess", "ExcessData comparison", "len(response_data) > acceptable_length", "len(response_data) >= acceptable_length"),
    ("snep_get_excess", "ExcessData code", "response_code = 0xC1", "response_code = 0xC2"),
    ("snep_put_fields", "NDEF octets offset", "octets = request_data[6:]", "octets = request_data[5:]"),
    ("snep_response_pack", "header after the data", "response_data = header + response_data", "response_data = response_data + header"),
    ("snep_response_pack", "length of header + data", "len(response_data))", "len(response_data) + 6)"),
    ("snep_send_request", "fragment loop starts at offset 0 (first fragment sent twice)", "range(send_miu, len(snep_request), send_miu)", "range(0, len(snep_request), send_miu)"),
    ("snep_send_request", "wrong Continue accepted", 'if socket.recv() != b"\\x10\\x80\\x00\\x00\\x00\\x00":\n        return False', 'if socket.recv() != b"\\x10\\x80\\x00\\x00\\x00\\x00":\n        pass'),
    ("ho_send_octets", "fragment one octet short", "octets[0:miu]", "octets[0:miu-1]"),
    ("ho_send_octets", "result when a send failed", "return len(octets) == 0", "return len(octets) >= 0"),
    ("snep_srv_bad_version", "version check accepts major version 2", "(version >> 4) > 1", "(version >> 4) > 2"),
    ("snep_srv_too_long", "limit off by one", "if length > self.max_acceptable_length:", "if length >= self.max_acceptable_length:"),
    ("snep_srv_more", "header not subtracted", "if len(data) - 6 < length:", "if len(data) < length:"),
    ("snep_srv_fits", "single fragment limit", "if len(data) <= send_miu:", "if len(data) < send_miu:"),
    ("snep_srv_reject_rsp", "Reject response code", 'b"\\x10\\xFF\\x00\\x00\\x00\\x00"', 'b"\\x10\\xC1\\x00\\x00\\x00\\x00"'),
    ("snep_srv_is_get", "minimum GET length", "len(request_data) >= 10", "len(request_data) >= 6"),
    ("snep_cli_fits", "single fragment limit", "if len(snep_request) <= send_miu:", "if len(snep_request) < send_miu:"),
    ("snep_cli_cont_rsp", "Continue code", 'b"\\x10\\x80\\x00\\x00\\x00\\x00"', 'b"\\x10\\x81\\x00\\x00\\x00\\x00"'),
    ("snep_cli_get_status", "success code", "if response[1] != 0x81:\n                    raise SnepError(response[1])\n\n                return", "if response[1] != 0x80:\n                    raise SnepError(response[1])\n\n                return"),
    ("snep_srv_empty", "condition gains an operand", "if not data:", "if not data or data[0] == 0:"),
    ("snep_srv_too_long", "condition gains an operand", "if length > self.max_acceptable_length:", "if length > self.max_acceptable_length and version:"),
    ("snep_cli_fits", "truthiness test changed", "if len(snep_request) <= send_miu:", "if (len(snep_request) <= send_miu) is True:"),
    ("snep_srv_first_send", "sent fragment gains an operand", "client_socket.send(data[0:send_miu])", "client_socket.send(data[0:send_miu] + b'\\0')"),
    ("snep_cli_cont_test", "Continue test gains an operand", 'if socket.recv() != b"\\x10\\x80\\x00\\x00\\x00\\x00":', 'if socket.recv() != b"\\x10\\x80\\x00\\x00\\x00\\x00" and send_miu > 128:'),
    ("snep_get_excess", "NEUTRAL hex constant in decimal", "0xC1", "193"),
]
