"""group Tco: nfc/llcp/tco.py window / sequence / MIU arithmetic -> Model/Dlc.lean, Model/Collect.lean, Model/Sap.lean (C05, C10; the
connection-less socket checks also C17)

Cuts common to all entries: the objects (`self`, `rcvd_pdu`, `send_pdu`) are not modelled, every attribute the
translated statements read is a parameter (`binds`); queues, condition variables and the PDU constructors are
outside the translated slices.
"""
from translate_fn import Spec, INT, BOOL, BYTES, STR, ANY, OPT

GROUP = "Tco"
ORDER = 60
F = "llcp/tco.py"
DLC = "DataLinkConnection."
_SOCKOPT = [("self.send_miu", "send_miu", INT), ("self.recv_miu", "recv_miu", INT),
            ("self.send_buf", "send_buf", INT), ("self.recv_buf", "recv_buf", INT)]

_CONF = [("self.recv_ack", "recv_ack", INT), ("self.recv_confs", "recv_confs", INT)]
_CONF_ST = ["self.recv_ack", "self.recv_confs"]

SPECS = [
    Spec(GROUP, "tco_send_window_slots", F, DLC + "send_window_slots", [],
         binds=[("self.send_win", "send_win", INT), ("self.send_cnt", "send_cnt", INT),
                ("self.send_ack", "send_ack", INT)],
         note="property getter; `send_win` is an int (it is None only before CC/CONNECT set it)"),
    Spec(GROUP, "tco_recv_window_slots", F, DLC + "recv_window_slots", [],
         binds=[("self.recv_win", "recv_win", INT), ("self.recv_cnt", "recv_cnt", INT),
                ("self.recv_ack", "recv_ack", INT)], note="property getter"),
    Spec(GROUP, "tco_getsockopt", F, "TransmissionControlObject.getsockopt", [("option", INT)], binds=_SOCKOPT,
         ret=ANY, note="whole method; an unknown option falls through to None"),
    Spec(GROUP, "tco_dlc_getsockopt", F, DLC + "getsockopt", [("option", INT)],
         binds=[("self.recv_win", "recv_win", INT), ("self.mode.SEND_BUSY", "send_busy", BOOL),
                ("self.mode.RECV_BUSY", "recv_busy", BOOL)] + _SOCKOPT,
         calls={"super(DataLinkConnection, self).getsockopt": "tco_getsockopt"}, ret=ANY, note="whole method"),
    Spec(GROUP, "tco_ldl_enqueue_check", F, "LogicalDataLink.enqueue", [],
         binds=[("rcvd_pdu.name", "name", STR), ("rcvd_pdu.data", "data", BYTES), ("self.recv_miu", "recv_miu", INT)],
         stmts=(0, 2), ret=ANY,
         note="cut: the two filters in front of `super().enqueue(rcvd_pdu)`; False = PDU ignored, None = handed on"),
    # --- DataLinkConnection.send (C05 window / sequence numbers, C10 EMSGSIZE)
    Spec(GROUP, "tco_dlc_send_check", F, DLC + "send", [("message", BYTES)], binds=[("self.send_miu", "send_miu", INT)],
         path=[(0, "body")], stmts=[1],
         note="cut: statement 1 inside `with self.send_token`: the MIU test `len(message) > self.send_miu` -> EMSGSIZE"),
    Spec(GROUP, "tco_dlc_send_seq", F, DLC + "send", [], binds=[("self.send_cnt", "send_cnt", INT)],
         stores=["send_pdu.ns", "self.send_cnt"], path=[(0, "body"), (4, "body")], stmts=(1, 3),
         result=["send_pdu.ns", "self.send_cnt"],
         note="cut: inside `if self.state.ESTABLISHED`: N(S) := V(S); V(S) := V(S) + 1 mod 16; result (N(S), V(S))"),
    # --- DataLinkConnection._enqueue_state_established
    Spec(GROUP, "tco_est_acks", F, DLC + "_enqueue_state_established", [],
         binds=[("rcvd_pdu.nr", "nr", INT), ("self.send_ack", "send_ack", INT)],
         path=[(3, "body"), (0, "body")], stmts=[0], result=["acks"],
         note="cut: `acks = (rcvd_pdu.nr - self.send_ack) % 16` of the N(R) processing of I / RR / RNR PDUs"),
    Spec(GROUP, "tco_est_recv_cnt", F, DLC + "_enqueue_state_established", [],
         binds=[("self.recv_cnt", "recv_cnt", INT)], stores=["self.recv_cnt"],
         path=[(4, "body"), (0, "body")], stmts=[0], result=["self.recv_cnt"],
         note="cut: V(R) := V(R) + 1 mod 16 for an accepted I PDU"),
    # --- acknowledgement generation: the same two statements at three places
    Spec(GROUP, "tco_sendack_confirm", F, DLC + "sendack", [], binds=_CONF, stores=_CONF_ST,
         path=[(0, "body"), (0, "body"), (0, "body")], stmts=(1, 3), result=_CONF_ST,
         note="cut: voluntary ack: V(RA) := V(RA) + recv_confs mod 16; recv_confs := 0; result (V(RA), recv_confs)"),
    Spec(GROUP, "tco_deq_piggyback", F, DLC + "dequeue", [],
         binds=[("self.recv_confs", "recv_confs", INT), ("self.recv_cnt", "recv_cnt", INT), ("self.recv_ack", "recv_ack", INT)],
         stores=["self.recv_ack", "self.recv_confs", "send_pdu.nr"], drop=["self.log"],
         path=[(0, "body"), (2, "body"), (2, "body")], stmts=(0, 2),
         result=["send_pdu.nr", "self.recv_ack", "self.recv_confs"],
         note="cut: inside `if send_pdu.name == 'I' and self.state.ESTABLISHED`: the piggy-backed acknowledgement "
              "and N(R) of the outgoing I PDU; `self.log(..)` dropped; result (N(R), V(RA), recv_confs)"),
    Spec(GROUP, "tco_deq_necessary_confirm", F, DLC + "dequeue", [], binds=_CONF, stores=_CONF_ST,
         path=[(0, "body"), (2, "orelse"), (0, "body")], stmts=(1, 3), result=_CONF_ST,
         note="cut: necessary ack (receive window exhausted), same two statements"),
    # --- LogicalDataLink.sendto (C10, C17)
    Spec(GROUP, "tco_ldl_sendto_check", F, "LogicalDataLink.sendto", [("message", BYTES), ("dest", INT)],
         binds=[("self.state.SHUTDOWN", "shutdown", BOOL), ("self.peer", "peer", INT), ("self.send_miu", "send_miu", INT)],
         path=[(0, "body")], stmts=(0, 3),
         note="cut: the three checks in front of the UI PDU constructor; `self.peer is None` is passed as 0 "
              "(both are falsy and `dest != self.peer` is not evaluated then)"),
    # --- batch 2
    Spec(GROUP, "tco_dlc_send_state", F, DLC + "send", [("message", BYTES)],
         binds=[("self.state.ESTABLISHED", "established", BOOL), ("self.state.CLOSE_WAIT", "close_wait", BOOL),
                ("self.send_miu", "send_miu", INT)],
         path=[(0, "body")], stmts=(0, 2), drop=["self.err"],
         note="cut: statements 0-1 inside `with self.send_token`: state check (ENOTCONN / EPIPE) and MIU test; "
              "`self.err(..)` (logging) dropped"),
    Spec(GROUP, "tco_dlc_send_wait_cond", F, DLC + "send", [],
         binds=[("self.send_window_slots", "slots", INT), ("self.state.ESTABLISHED", "established", BOOL)],
         expr="self.send_window_slots == 0 and self.state.ESTABLISHED", whole=True,
         note="cut: the condition of the `while` that waits for a free send window slot; the property "
              "`send_window_slots` is a parameter (tco_send_window_slots)"),
    Spec(GROUP, "tco_dlc_send_dontwait", F, DLC + "send", [("flags", INT)],
         path=[(0, "body"), (2, "body")], stmts=[0],
         note="cut: first statement of that loop: MSG_DONTWAIT -> EWOULDBLOCK"),
    Spec(GROUP, "tco_est_nr", F, DLC + "_enqueue_state_established", [],
         binds=[("rcvd_pdu.name", "name", STR), ("rcvd_pdu.nr", "nr", INT), ("self.send_ack", "send_ack", INT),
                ("self.acks_recvd", "acks_recvd", INT), ("self.mode.SEND_BUSY", "send_busy", BOOL)],
         stores=["self.acks_recvd", "self.send_ack", "self.mode.SEND_BUSY"],
         drop=["self.acks_ready.notify_all", "self.send_token.notify"],
         stmts=[3], result=["self.acks_recvd", "self.send_ack", "self.mode.SEND_BUSY"],
         note="cut: statement 3, the N(R) processing of I / RR / RNR; notify calls dropped; "
              "result (acks_recvd, V(SA), SEND_BUSY)"),
    Spec(GROUP, "tco_est_check", F, DLC + "_enqueue_state_established", [],
         binds=[("rcvd_pdu.data", "data", BYTES), ("rcvd_pdu.ns", "ns", INT), ("self.recv_miu", "recv_miu", INT),
                ("self.recv_cnt", "recv_cnt", INT),
                ("pdu.FrameReject.from_pdu(rcvd_pdu, flags='I', dlc=self)", "frmr_i", INT),
                ("pdu.FrameReject.from_pdu(rcvd_pdu, flags='S', dlc=self)", "frmr_s", INT)],
         path=[(0, "body")], stmts=(0, 2), result=["frmr"], ret=OPT(INT),
         note="cut: inside `if rcvd_pdu.name == 'I'`: which frame reject (if any) an I PDU provokes; the two "
              "`FrameReject.from_pdu` calls are parameters (markers for the I and the S flag); result frmr"),
    Spec(GROUP, "tco_dlc_recv_confs", F, DLC + "recv", [],
         binds=[("self.recv_confs", "recv_confs", INT), ("self.recv_win", "recv_win", INT)], stores=["self.recv_confs"],
         path=[(0, "body"), (2, "body")], stmts=(0, 2), drop=["self.err"], result=["self.recv_confs"],
         note="cut: inside `if rcvd_pdu.name == 'I'`: confirmation counting of recv(); result recv_confs"),
    Spec(GROUP, "tco_dequeue_fit", F, "TransmissionControlObject.dequeue", [("miu_size", OPT(INT)), ("icv_size", INT)],
         binds=[("send_pdu.name", "name", STR), ("len(send_pdu)", "pdu_len", INT),
                ("send_pdu.header_size", "header_size", INT)],
         path=[(0, "body")], stmts=(1, 3), drop=["self.send_queue.appendleft"], result=["pdu_size"], ret=OPT(INT),
         note="cut: statements 1-2 inside `with self.lock`: size of the popped PDU and the MIU test; "
              "`len(send_pdu)` is a parameter; None = requeued (`return None`), else pdu_size"),
    Spec(GROUP, "tco_enqueue_room", F, "TransmissionControlObject.enqueue", [],
         binds=[("len(self.recv_queue)", "queued", INT), ("self.recv_buf", "recv_buf", INT)],
         path=[(0, "body")], drop=["self.recv_queue.append", "self.recv_ready.notify"],
         note="cut: the body of `with self.lock`; `len(self.recv_queue)` is a parameter, append/notify dropped"),
    Spec(GROUP, "tco_dlc_setsockopt", F, DLC + "setsockopt", [("option", INT), ("value", INT)],
         binds=[("self.state.CLOSED", "closed", BOOL), ("self.recv_miu", "recv_miu", INT),
                ("self.recv_win", "recv_win", INT), ("self.recv_buf", "recv_buf", INT),
                ("self.mode.RECV_BUSY", "recv_busy", BOOL)],
         stores=["self.recv_miu", "self.recv_win", "self.recv_buf", "self.mode.RECV_BUSY"],
         path=[(0, "body")], stmts=(0, 3),
         result=["self.recv_miu", "self.recv_win", "self.recv_buf", "self.mode.RECV_BUSY"],
         note="cut: statements 0-2 inside `with self.lock` (SO_RCVMIU, SO_RCVBUF, SO_RCVBSY); the fall-through "
              "to `super().setsockopt` is not translated; result (recv_miu, recv_win, recv_buf, RECV_BUSY)"),
    Spec(GROUP, "tco_sendack_cond", F, DLC + "sendack", [],
         binds=[("self.recv_confs", "recv_confs", INT), ("self.recv_cnt", "recv_cnt", INT), ("self.recv_ack", "recv_ack", INT)],
         expr="self.recv_confs and self.recv_cnt != self.recv_ack", whole=True, ret=BOOL,
         note="cut: truth value of the test for a voluntary acknowledgement"),
    Spec(GROUP, "tco_deq_necessary_cond", F, DLC + "dequeue", [],
         binds=[("self.state.ESTABLISHED", "established", BOOL), ("self.recv_confs", "recv_confs", INT),
                ("self.recv_window_slots", "slots", INT)],
         expr="self.state.ESTABLISHED and self.recv_confs and (self.recv_window_slots == 0)", whole=True, ret=BOOL,
         note="cut: truth value of the test for a necessary acknowledgement; the property `recv_window_slots` "
              "is a parameter (tco_recv_window_slots)"),
    # --- state checks of the socket calls and poll()
    Spec(GROUP, "tco_poll_send_ready", F, "TransmissionControlObject.poll", [],
         binds=[("len(self.send_queue)", "queued", INT), ("self.send_buf", "send_buf", INT)],
         expr="len(self.send_queue) < self.send_buf", whole=True, note="cut: result of poll('send'); the queue length is a parameter"),
    Spec(GROUP, "tco_poll_acks", F, DLC + "_poll", [], binds=[("self.acks_recvd", "acks_recvd", INT)],
         stores=["self.acks_recvd"], path=[(1, "orelse"), (0, "orelse"), (0, "body"), (0, "body")], stmts=(1, 3),
         note="cut: poll('acks') after the wait: statements 1-2 inside `with self.acks_ready`; the bool result"),
    Spec(GROUP, "tco_poll_acks_dec", F, DLC + "_poll", [], binds=[("self.acks_recvd", "acks_recvd", INT)],
         stores=["self.acks_recvd"], path=[(1, "orelse"), (0, "orelse"), (0, "body"), (0, "body"), (1, "body")],
         stmts=[0], result=["self.acks_recvd"], note="cut: the decrement of acks_recvd in that branch"),
    Spec(GROUP, "tco_dlc_listen", F, DLC + "listen", [("backlog", INT)],
         binds=[("self.state.SHUTDOWN", "shutdown", BOOL), ("self.state.CLOSED", "closed", BOOL),
                ("self.recv_buf", "recv_buf", INT)],
         stores=["self.state.LISTEN", "self.recv_buf"], drop=["self.err"], path=[(0, "body")],
         result=["self.recv_buf"], note="cut: body of `with self.lock`: ESHUTDOWN / ENOTSUP, then recv_buf := backlog"),
    Spec(GROUP, "tco_dlc_connect_state", F, DLC + "connect", [],
         binds=[("self.state.CLOSED", "closed", BOOL), ("self.state.ESTABLISHED", "established", BOOL),
                ("self.state.CONNECT", "connecting", BOOL)],
         drop=["self.err"], path=[(0, "body")], stmts=[0],
         note="cut: statement 0 inside `with self.lock`: EISCONN / EALREADY / EPIPE unless CLOSED"),
    Spec(GROUP, "tco_dlc_accept_state", F, DLC + "accept", [],
         binds=[("self.state.SHUTDOWN", "shutdown", BOOL), ("self.state.LISTEN", "listening", BOOL)],
         drop=["self.err"], path=[(0, "body")], stmts=(0, 2),
         note="cut: statements 0-1 inside `with self.lock`: ESHUTDOWN / EINVAL unless LISTEN"),
    Spec(GROUP, "tco_dlc_recv_state", F, DLC + "recv", [],
         binds=[("self.state.ESTABLISHED", "established", BOOL), ("self.state.CLOSE_WAIT", "close_wait", BOOL)],
         drop=["self.err"], path=[(0, "body")], stmts=[0],
         note="cut: statement 0 inside `with self.lock`: ENOTCONN unless ESTABLISHED or CLOSE_WAIT"),
]
P = "NfcVerif.FnBridge.Tco."
BRIDGE = {
    "module": "NfcVerif.Props.FnBridgeTco",
    "theorems": [P + t for t in (
        "send_window_slots_bridge", "recv_window_slots_bridge", "recv_window_slots_collect",
        "getsockopt_bridge", "dlc_getsockopt_bridge", "ldl_enqueue_check_bridge",
        "dlc_send_check_bridge", "dlc_send_seq_bridge", "dlc_send_bridge", "est_acks_bridge", "est_recv_cnt_bridge",
        "sendack_confirm_bridge", "deq_piggyback_bridge", "deq_necessary_confirm_bridge",
        "ldl_sendto_check_bridge", "gen_emsgsize", "gen_payload_bound",
        "dlc_send_state_bridge", "dlc_send_wait_cond_bridge", "dlc_send_dontwait_bridge", "gen_collect_send",
        "est_nr_bridge", "est_check_bridge", "gen_enqEst_i", "dlc_recv_confs_bridge", "dequeue_fit_bridge",
        "enqueue_room_bridge", "dlc_setsockopt_bridge", "sendack_bridge", "deq_necessary_bridge",
        "poll_bridge", "dlc_listen_bridge", "dlc_connect_state_bridge", "dlc_accept_state_bridge",
        "dlc_recv_state_bridge", "gen_raw_dequeue_always", "gen_window", "gen_wakeup_rechecks",
        "gen_ldl_enqueue_sap", "gen_ldl_sendto_saplink", "gen_appendRecv")],
    "properties": ["C05", "C10", "C17"],
}


def inputs(rng, sp):
    out = []
    if sp.lean.endswith("window_slots"):
        for _ in range(80):
            out.append(([], [rng.randrange(0, 16), rng.randrange(0, 16), rng.randrange(0, 16)]))
    if sp.lean.endswith("getsockopt"):
        for o in range(-1, 9):
            bv = [rng.randrange(0, 16), bool(rng.randrange(2)), bool(rng.randrange(2))] if "dlc" in sp.lean else []
            out.append(([o], bv + [rng.randrange(128, 2176), rng.randrange(128, 2176), 1, rng.randrange(0, 16)]))
    if sp.lean == "tco_ldl_enqueue_check":
        for n in (0, 1, 127, 128, 129, 247, 248, 249):
            for name in ("UI", "I", "SYMM"):
                for miu in (128, 248):
                    out.append(([], [name, bytes(n), miu]))
    if sp.lean == "tco_ldl_sendto_check":
        for n in (0, 1, 127, 128, 129, 300):
            for dest in (0, 1, 16, 32):
                for peer in (0, 16, 32):
                    for sd in (False, False, True):
                        out.append(([bytes(n), dest], [sd, peer, rng.choice([128, 248])]))
    if sp.lean == "tco_dlc_send_check":
        for n in (0, 127, 128, 129, 2175, 2176):
            for miu in (128, 129, 2175):
                out.append(([bytes(n)], [miu]))
    if sp.lean in ("tco_dlc_send_seq", "tco_est_recv_cnt"):
        out += [([], [v]) for v in range(16)]
    if sp.lean == "tco_dlc_send_state":
        for n in (0, 127, 128, 129):
            for est, cw in ((True, False), (False, True), (False, False)):
                out.append(([bytes(n)], [est, cw, 128]))
    if sp.lean == "tco_dlc_send_wait_cond":
        out += [([], [sl, e]) for sl in range(-1, 17) for e in (True, False)]
    if sp.lean == "tco_dlc_send_dontwait":
        out += [([f], []) for f in range(0, 8)]
    if sp.lean == "tco_est_nr":
        for name in ("I", "RR", "RNR", "DM", "UI"):
            for nr in range(16):
                out.append(([], [name, nr, rng.randrange(16), rng.randrange(0, 100), bool(rng.randrange(2))]))
    if sp.lean == "tco_est_check":
        for n in (0, 127, 128, 129, 130):
            for ns in range(0, 16, 3):
                out.append(([], [bytes(n), ns, 128, rng.choice([ns, ns, (ns + 1) % 16]), 4, 1]))
    if sp.lean == "tco_dlc_recv_confs":
        out += [([], [c, w]) for c in range(0, 17) for w in range(0, 17)]
    if sp.lean == "tco_deq_piggyback":
        out += [([], [c, v, a]) for c in range(0, 4) for v in range(16) for a in range(16)]
    if sp.lean == "tco_dequeue_fit":
        for name, hs in (("UI", 2), ("I", 3), ("RR", 3), ("DM", 2), ("SNL", 2)):
            for ln in (hs, hs + 1, hs + 127, hs + 128, hs + 129):
                for miu in (None, 0, 1, 124, 127, 128, 129):
                    for icv in (0, 4):
                        out.append(([miu, icv], [name, ln, hs]))
    if sp.lean == "tco_enqueue_room":
        out += [([], [q, b]) for q in range(0, 18) for b in range(0, 18)]
    if sp.lean == "tco_dlc_setsockopt":
        for opt in range(0, 8):
            for v in (-1, 0, 1, 14, 15, 16, 127, 128, 2174, 2175, 2176, 5000):
                for cl in (True, False):
                    out.append(([opt, v], [cl, 128, 1, 1, bool(rng.randrange(2))]))
    if sp.lean == "tco_sendack_cond":
        out += [([], [c, v, a]) for c in range(0, 3) for v in range(0, 16, 3) for a in range(0, 16, 3)]
    if sp.lean == "tco_deq_necessary_cond":
        out += [([], [e, c, sl]) for e in (True, False) for c in range(0, 3) for sl in range(0, 3)]
    if sp.lean == "tco_poll_send_ready":
        out += [([], [q, b]) for q in range(0, 4) for b in range(0, 4)]
    if sp.lean in ("tco_poll_acks", "tco_poll_acks_dec"):
        out += [([], [a]) for a in range(-1, 5)]
    if sp.lean == "tco_dlc_listen":
        out += [([b], [sd, cl, 1]) for b in (0, 1, 16) for sd in (False, True) for cl in (False, True)]
    if sp.lean == "tco_dlc_connect_state":
        out += [([], [a, b, c]) for a in (False, True) for b in (False, True) for c in (False, True)]
    if sp.lean in ("tco_dlc_accept_state", "tco_dlc_recv_state"):
        out += [([], [a, b]) for a in (False, True) for b in (False, True)]
    if sp.lean == "tco_est_acks" or sp.lean.endswith("_confirm"):
        out += [([], [a, b]) for a in range(16) for b in range(16)]
    return out


def _ns_after_increment(seg):
    a = "                send_pdu.ns = self.send_cnt\n"
    b = "                self.send_cnt = (self.send_cnt + 1) % 16\n"
    assert a + b in seg
    return seg.replace(a + b, b + a)


def _nth_replace(seg, old, new, n):
    parts = seg.split(old)
    assert len(parts) > n + 1, (old, len(parts))
    return old.join(parts[:n + 1]) + new + old.join(parts[n + 1:])


def _piggyback_no_reset(seg):
    """first `self.recv_confs = 0` of dequeue (the piggy-back branch)"""
    return _nth_replace(seg, "self.recv_confs = 0", "self.recv_confs = self.recv_confs", 0)


def _necessary_no_mod(seg):
    """second `(self.recv_ack + self.recv_confs) % 16` of dequeue (the necessary ack)"""
    return _nth_replace(seg, "(self.recv_ack + self.recv_confs) % 16", "(self.recv_ack + self.recv_confs)", 1)


MUTATIONS = [
    ("tco_send_window_slots", "modulus of the send window", "self.send_win - self.send_cnt + self.send_ack) % 16",
     "self.send_win - self.send_cnt + self.send_ack) % 15"),
    ("tco_send_window_slots", "V(S) and V(SA) swapped", "self.send_win - self.send_cnt + self.send_ack",
     "self.send_win - self.send_ack + self.send_cnt"),
    ("tco_recv_window_slots", "V(RA) dropped", "self.recv_win - self.recv_cnt + self.recv_ack",
     "self.recv_win - self.recv_cnt"),
    ("tco_getsockopt", "SNDMIU answers the receive MIU", "return self.send_miu", "return self.recv_miu"),
    ("tco_dlc_getsockopt", "RCVBUF answers recv_buf instead of RW(L)", "return self.recv_win", "return self.recv_buf"),
    ("tco_ldl_enqueue_check", "MIU test off by one", "len(rcvd_pdu.data) > self.recv_miu",
     "len(rcvd_pdu.data) >= self.recv_miu"),
    ("tco_ldl_enqueue_check", "PDU type filter dropped", 'if not rcvd_pdu.name == "UI":', 'if rcvd_pdu.name == "SYMM":'),
    ("tco_dlc_send_check", "MIU test of send() off by one", "len(message) > self.send_miu", "len(message) >= self.send_miu"),
    ("tco_dlc_send_seq", "V(S) modulus", "(self.send_cnt + 1) % 16", "(self.send_cnt + 1) % 8"),
    ("tco_dlc_send_seq", "N(S) taken after the increment", _ns_after_increment, None),
    ("tco_est_acks", "acks off by one", "(rcvd_pdu.nr - self.send_ack) % 16", "(rcvd_pdu.nr - self.send_ack + 1) % 16"),
    ("tco_est_acks", "acks operands swapped", "(rcvd_pdu.nr - self.send_ack) % 16", "(self.send_ack - rcvd_pdu.nr) % 16"),
    ("tco_est_recv_cnt", "V(R) increment", "(self.recv_cnt + 1) % 16", "(self.recv_cnt + 2) % 16"),
    ("tco_sendack_confirm", "voluntary ack acknowledges one PDU only",
     "(self.recv_ack + self.recv_confs) % 16", "(self.recv_ack + 1) % 16"),
    ("tco_deq_piggyback", "piggy-backed ack does not reset recv_confs", _piggyback_no_reset, None),
    ("tco_deq_piggyback", "piggy-back condition: or instead of and", "if self.recv_confs and self.recv_cnt != self.recv_ack:\n                        self.log(\"piggyback",
     "if self.recv_confs or self.recv_cnt != self.recv_ack:\n                        self.log(\"piggyback"),
    ("tco_sendack_cond", "voluntary ack also without consumed messages", "if self.recv_confs and self.recv_cnt != self.recv_ack:\n                    self.log(\"voluntary", "if self.recv_cnt != self.recv_ack:\n                    self.log(\"voluntary"),
    ("tco_deq_necessary_cond", "necessary ack one slot early", "and self.recv_window_slots == 0", "and self.recv_window_slots <= 1"),
    ("tco_poll_send_ready", "send readiness off by one", "return len(self.send_queue) < self.send_buf", "return len(self.send_queue) <= self.send_buf"),
    ("tco_poll_acks", "acks poll true without acknowledgements", "if self.acks_recvd > 0:\n                    self.acks_recvd = self.acks_recvd - 1", "if self.acks_recvd >= 0:\n                    self.acks_recvd = self.acks_recvd - 1"),
    ("tco_poll_acks_dec", "acks not consumed", "self.acks_recvd = self.acks_recvd - 1", "self.acks_recvd = self.acks_recvd - 0"),
    ("tco_dlc_listen", "listen on a socket that is not CLOSED", "if not self.state.CLOSED:\n                self.err(\"listen()", "if False:\n                self.err(\"listen()"),
    ("tco_dlc_connect_state", "EISCONN / EALREADY swapped", "raise err.Error(errno.EISCONN)", "raise err.Error(errno.EALREADY)"),
    ("tco_dlc_accept_state", "errno of accept() on a non-listening socket", "raise err.Error(errno.EINVAL)", "raise err.Error(errno.ENOTSUP)"),
    ("tco_dlc_recv_state", "recv() refused in CLOSE_WAIT", "if not (self.state.ESTABLISHED or self.state.CLOSE_WAIT):\n                self.err(\"recv()", "if not (self.state.ESTABLISHED):\n                self.err(\"recv()"),
    ("tco_sendack_cond", "voluntary-ack condition gains an operand",
     "if self.recv_confs and self.recv_cnt != self.recv_ack:\n                    self.log(\"voluntary",
     "if self.recv_confs and self.recv_cnt != self.recv_ack or self.mode.RECV_BUSY:\n                    self.log(\"voluntary"),
    ("tco_dlc_send_wait_cond", "wait condition gains an operand",
     "while self.send_window_slots == 0 and self.state.ESTABLISHED:",
     "while self.send_window_slots == 0 and self.state.ESTABLISHED and not self.mode.SEND_BUSY:"),
    ("tco_deq_necessary_cond", "necessary-ack condition gains an operand", "and self.recv_window_slots == 0)):",
     "and self.recv_window_slots == 0) or self.mode.RECV_BUSY):"),
    ("tco_poll_send_ready", "truthiness of the poll result changed", "return len(self.send_queue) < self.send_buf",
     "return (len(self.send_queue) < self.send_buf) is True or None"),
    ("tco_dlc_send_state", "EPIPE / ENOTCONN swapped", "if self.state.CLOSE_WAIT:", "if not self.state.CLOSE_WAIT:"),
    ("tco_dlc_send_wait_cond", "window test off by one", "while self.send_window_slots == 0 and", "while self.send_window_slots <= 1 and"),
    ("tco_dlc_send_dontwait", "EWOULDBLOCK replaced by EAGAIN alias check inverted", "if flags & nfc.llcp.MSG_DONTWAIT:", "if not flags & nfc.llcp.MSG_DONTWAIT:"),
    ("tco_est_nr", "V(SA) not updated", "self.send_ack = rcvd_pdu.nr  # V(SA) := N(R)", "self.send_ack = self.send_ack"),
    ("tco_est_nr", "RNR / RR busy flags swapped", 'if rcvd_pdu.name == "RNR":\n                    self.mode.SEND_BUSY = True', 'if rcvd_pdu.name == "RNR":\n                    self.mode.SEND_BUSY = False'),
    ("tco_est_check", "N(S) check dropped", "elif rcvd_pdu.ns != self.recv_cnt:", "elif False:"),
    ("tco_est_check", "MIU check of a received I PDU off by one", "if len(rcvd_pdu.data) > self.recv_miu:\n                frmr", "if len(rcvd_pdu.data) >= self.recv_miu:\n                frmr"),
    ("tco_dlc_recv_confs", "window overrun test off by one", "if self.recv_confs > self.recv_win:", "if self.recv_confs >= self.recv_win:"),
    ("tco_dequeue_fit", "ICV not counted for I PDUs", 'if send_pdu.name in ("UI", "I"):', 'if send_pdu.name in ("UI",):'),
    ("tco_dequeue_fit", "header not subtracted", "pdu_size - send_pdu.header_size > miu_size", "pdu_size > miu_size"),
    ("tco_enqueue_room", "receive buffer test off by one", "if len(self.recv_queue) < self.recv_buf:", "if len(self.recv_queue) <= self.recv_buf:"),
    ("tco_dlc_setsockopt", "receive window clamp", "min(value, 15)", "min(value, 16)"),
    ("tco_dlc_setsockopt", "recv MIU clamp", "min(value, 2175)", "min(value, 2176)"),
    ("tco_dlc_setsockopt", "recv_buf not following recv_win", "self.recv_buf = self.recv_win\n                return", "self.recv_buf = self.recv_buf\n                return"),
    ("tco_deq_necessary_confirm", "necessary ack without the modulus", _necessary_no_mod, None),
    ("tco_ldl_sendto_check", "peer check dropped", "if self.peer and dest != self.peer:", "if False and dest != self.peer:"),
    ("tco_ldl_sendto_check", "MIU test of sendto() off by one", "len(message) > self.send_miu", "len(message) > self.send_miu + 1"),
    ("tco_recv_window_slots", "NEUTRAL reordered sum", "self.recv_win - self.recv_cnt + self.recv_ack",
     "self.recv_win + self.recv_ack - self.recv_cnt"),
]
