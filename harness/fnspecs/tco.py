"""group Tco: nfc/llcp/tco.py window / sequence / MIU arithmetic -> Model/Dlc.lean, Model/Collect.lean, Model/Sap.lean (C05, C10)

Cuts common to all entries: the objects (`self`, `rcvd_pdu`, `send_pdu`) are not modelled, every attribute the
translated statements read is a parameter (`binds`); queues, condition variables and the PDU constructors are
outside the translated slices.
"""
from translate_fn import Spec, INT, BOOL, BYTES, STR, ANY

GROUP = "Tco"
ORDER = 60
F = "llcp/tco.py"
DLC = "DataLinkConnection."
_SOCKOPT = [("self.send_miu", "send_miu", INT), ("self.recv_miu", "recv_miu", INT),
            ("self.send_buf", "send_buf", INT), ("self.recv_buf", "recv_buf", INT)]

SPECS = [
    Spec(GROUP, "tco_send_window_slots", F, DLC + "send_window_slots", [],
         binds=[("self.send_win", "send_win", INT), ("self.send_cnt", "send_cnt", INT),
                ("self.send_ack", "send_ack", INT)],
         note="property getter; `send_win` is an int (it is None only before CC/CONNECT set it)"),
    Spec(GROUP, "tco_recv_window_slots", F, DLC + "recv_window_slots", [],
         binds=[("self.recv_win", "recv_win", INT), ("self.recv_cnt", "recv_cnt", INT),
                ("self.recv_ack", "recv_ack", INT)], note="property getter"),
    Spec(GROUP, "tco_getsockopt", F, "TransmissionControlObject.getsockopt", [("option", INT)], binds=_SOCKOPT,
         ret=ANY, note="whole method; an unknown option falls through to None"),
    Spec(GROUP, "tco_dlc_getsockopt", F, DLC + "getsockopt", [("option", INT)],
         binds=[("self.recv_win", "recv_win", INT), ("self.mode.SEND_BUSY", "send_busy", BOOL),
                ("self.mode.RECV_BUSY", "recv_busy", BOOL)] + _SOCKOPT,
         calls={"super(DataLinkConnection, self).getsockopt": "tco_getsockopt"}, ret=ANY, note="whole method"),
    Spec(GROUP, "tco_ldl_enqueue_check", F, "LogicalDataLink.enqueue", [],
         binds=[("rcvd_pdu.name", "name", STR), ("rcvd_pdu.data", "data", BYTES), ("self.recv_miu", "recv_miu", INT)],
         stmts=(0, 2), ret=ANY,
         note="cut: the two filters in front of `super().enqueue(rcvd_pdu)`; False = PDU ignored, None = handed on"),
]
P = "NfcVerif.FnBridge.Tco."
BRIDGE = {
    "module": "NfcVerif.Props.FnBridgeTco",
    "theorems": [P + t for t in (
        "send_window_slots_bridge", "recv_window_slots_bridge", "recv_window_slots_collect",
        "getsockopt_bridge", "dlc_getsockopt_bridge", "ldl_enqueue_check_bridge")],
    "properties": ["C05", "C10"],
}


def inputs(rng, sp):
    out = []
    if sp.lean.endswith("window_slots"):
        for _ in range(80):
            out.append(([], [rng.randrange(0, 16), rng.randrange(0, 16), rng.randrange(0, 16)]))
    if sp.lean.endswith("getsockopt"):
        for o in range(-1, 9):
            bv = [rng.randrange(0, 16), bool(rng.randrange(2)), bool(rng.randrange(2))] if "dlc" in sp.lean else []
            out.append(([o], bv + [rng.randrange(128, 2176), rng.randrange(128, 2176), 1, rng.randrange(0, 16)]))
    if sp.lean == "tco_ldl_enqueue_check":
        for n in (0, 1, 127, 128, 129, 247, 248, 249):
            for name in ("UI", "I", "SYMM"):
                for miu in (128, 248):
                    out.append(([], [name, bytes(n), miu]))
    return out


MUTATIONS = [
    ("tco_send_window_slots", "modulus of the send window", "self.send_win - self.send_cnt + self.send_ack) % 16",
     "self.send_win - self.send_cnt + self.send_ack) % 15"),
    ("tco_send_window_slots", "V(S) and V(SA) swapped", "self.send_win - self.send_cnt + self.send_ack",
     "self.send_win - self.send_ack + self.send_cnt"),
    ("tco_recv_window_slots", "V(RA) dropped", "self.recv_win - self.recv_cnt + self.recv_ack",
     "self.recv_win - self.recv_cnt"),
    ("tco_getsockopt", "SNDMIU answers the receive MIU", "return self.send_miu", "return self.recv_miu"),
    ("tco_dlc_getsockopt", "RCVBUF answers recv_buf instead of RW(L)", "return self.recv_win", "return self.recv_buf"),
    ("tco_ldl_enqueue_check", "MIU test off by one", "len(rcvd_pdu.data) > self.recv_miu",
     "len(rcvd_pdu.data) >= self.recv_miu"),
    ("tco_ldl_enqueue_check", "PDU type filter dropped", 'if not rcvd_pdu.name == "UI":', 'if rcvd_pdu.name == "SYMM":'),
    ("tco_recv_window_slots", "NEUTRAL reordered sum", "self.recv_win - self.recv_cnt + self.recv_ack",
     "self.recv_win + self.recv_ack - self.recv_cnt"),
]
