"""group TagBase: the tag base classes of nfc/tag/__init__.py (`Tag`, `Tag.NDEF`, `TagCommandError`, `activate`,
`emulate`) and every override of format / protect / authenticate / dump / _is_present / _format / _protect in
tt1.py, tt1_broadcom.py, tt2.py, tt2_nxp.py, tt3.py, tt3_sony.py, tt4.py that must go through them
-> Model/AuthNdef.lean (`TagCache.cstep`: the NDEF cache of `nfc.tag.Tag`, C20), Model/Tlv.lean / T3.lean / T4.lean
(`setOctets`, C01), Model/AdvOps.lean (`step`, `readStep`, presence checks, C08), Model/Retry.lean (`stepOp`, C16),
Model/Connect.lean (`activateBody`, C18), Model/FnTagBaseRef.lean (reference semantics of the cache, new)
(C01, C03, C08, C16, C20)

What is cut (every cut is also in the `note` of its spec):
* the tag type specific private methods (`_read_ndef_data`, `_write_ndef_data`, `_format`, `_protect`, `_authenticate`,
  `_is_present`, `_dump`, `read_byte`, `write_byte`, `transceive`, `polling`, ...) are FUNCTION PARAMETERS (opaque): the
  wrappers are translated with the callee abstract, so the regenerated text says what is called, with which arguments, in
  which order relative to the checks, and what happens to `self._ndef` afterwards;
* an override that only delegates (`return super(Topaz, self).format(version, wipe)`) is an `expr=` / `whole=True` cut
  of the delegating call with the callee as parameter: when the source calls `self._format(...)` instead of the
  wrapper the text is gone and the definition is refused (seeded/C03-r3m4, seeded/C20-r3m3);
* `Tag.format` / `protect` / `authenticate`: the body of `if hasattr(self, "_format"):` behind the logging (the
  `hasattr` test and the `return None` of the other branch are not translated); the cached NDEF object `self._ndef` is
  an optional token (its identity is all the wrappers use);
* `nfc.tag.activate`: the `if` chain inside the `try:`; the handler `except nfc.clf.CommunicationError: return None`
  is not translated (exception-flow tie); the type specific `activate_ttN` are parameters;
* string formatting, logging, `__str__`, `dump` bodies: not translated.
"""
from translate_fn import Spec, INT, BOOL, BYTES, STR, OPT, TUP, NONE

GROUP = "TagBase"
ORDER = 62
F = "tag/__init__.py"
T1, BCM, T2, NXP, T3, SONY, T4 = ("tag/tt1.py", "tag/tt1_broadcom.py", "tag/tt2.py", "tag/tt2_nxp.py", "tag/tt3.py",
                                  "tag/tt3_sony.py", "tag/tt4.py")
N = "Tag.NDEF."
TOK = OPT(BYTES)          # `Tag._ndef`: the cached NDEF object, as the model sees it (the `_data` it holds) or None

SPECS = [
    # ---------------------------------------------------------------- Tag.NDEF
    Spec(GROUP, "tb_ndef_length", F, N + "length", [], binds=[("self._data", "data", OPT(BYTES))]),
    Spec(GROUP, "tb_ndef_capacity", F, N + "capacity", [], binds=[("self._capacity", "capacity", INT)]),
    Spec(GROUP, "tb_ndef_is_readable", F, N + "is_readable", [], binds=[("self._readable", "readable", BOOL)]),
    Spec(GROUP, "tb_ndef_is_writeable", F, N + "is_writeable", [], binds=[("self._writeable", "writeable", BOOL)]),
    Spec(GROUP, "tb_ndef_has_changed", F, N + "has_changed", [],
         binds=[("self._data", "data", OPT(BYTES)), ("self._tag._ndef", "cached", TOK)],
         opaque={"self._read_ndef_data": ("rd", [], OPT(BYTES), True)},
         stores=["self._tag._ndef", "self._data"], stmts=(0, 4), result=["different", "self._tag._ndef", "self._data"],
         note="cut: the body up to `return different`, the result is (different, tag._ndef, self._data); "
              "`_read_ndef_data` is a parameter"),
    Spec(GROUP, "tb_ndef_octets_get", F, N + "octets", [], binds=[("self._data", "data", BYTES)],
         note="`self._data` is not None (an NDEF object handed out by `Tag.ndef` has read data)"),
    Spec(GROUP, "tb_ndef_octets_set", F, N + "octets@setter", [("data", BYTES)],
         binds=[("self._writeable", "writeable", BOOL), ("self.capacity", "capacity", INT)],
         opaque={"self._write_ndef_data": ("wr", [BYTES], INT, True)},
         stores=["self._data"], stmts=(0, 5), result=["self._data"],
         note="cut: the whole body, the result is the new `self._data`; `_write_ndef_data` is a parameter (its value "
              "is ignored), `self.capacity` (a property returning `_capacity`) is bound"),
    Spec(GROUP, "tb_ndef_records_get", F, N + "records", [], binds=[("self.octets", "octets", BYTES)], expr="self.octets",
         note="partial cut (not `whole`): the argument of `message_decoder(.., errors='relax')`: the records are decoded "
              "from the `octets` property (ndeflib is not translated)"),
    Spec(GROUP, "tb_ndef_records_set", F, N + "records@setter", [("value", INT)],
         binds=[("b''.join(message_encoder(value))", "encoded", BYTES)], stores=["self.octets"], stmts=[0],
         result=["self.octets"],
         note="cut: the encoded message (ndeflib, a parameter) is ASSIGNED TO THE `octets` PROPERTY, i.e. written through "
              "the checked setter `tb_ndef_octets_set`, not stored into `_data`"),
    # ---------------------------------------------------------------- Tag
    Spec(GROUP, "tb_tag_ndef", F, "Tag.ndef", [],
         binds=[("self._ndef", "cached", OPT(INT)), ("ndef.has_changed", "changed", BOOL)],
         opaque={"self.NDEF": ("mk", [NONE], INT, False)}, stores=["self._ndef"],
         note="the constructor `self.NDEF` is a parameter (object token), the effectful property read "
              "`ndef.has_changed` on the new object is bound (`tb_ndef_has_changed` is its translation)"),
    Spec(GROUP, "tb_tag_is_present", F, "Tag.is_present", [], opaque={"self._is_present": ("present", [], BOOL, True)}),
    Spec(GROUP, "tb_tag_format", F, "Tag.format", [("version", OPT(INT)), ("wipe", OPT(INT))],
         binds=[("self._ndef", "cached", TOK)],
         opaque={"self._format": ("fmt", [OPT(INT), OPT(INT)], OPT(BOOL), True)},
         path=[(0, "body")], stmts=(3, 5), result=["status", "self._ndef"], stores=["self._ndef"],
         note="cut: inside `if hasattr(self, '_format'):` the call of `_format` and the cache reset; result (status, _ndef)"),
    Spec(GROUP, "tb_tag_protect", F, "Tag.protect", [("password", OPT(BYTES)), ("read_protect", BOOL), ("protect_from", INT)],
         binds=[("self._ndef", "cached", TOK)],
         opaque={"self._protect": ("prot", [OPT(BYTES), BOOL, INT], OPT(BOOL), True)},
         path=[(0, "body")], stmts=(3, 5), result=["status", "self._ndef"], stores=["self._ndef"],
         note="cut: inside `if hasattr(self, '_protect'):` the call of `_protect` and the cache reset"),
    Spec(GROUP, "tb_tag_authenticate", F, "Tag.authenticate", [("password", BYTES)],
         binds=[("self._ndef", "cached", TOK)],
         opaque={"self._authenticate": ("auth", [BYTES], OPT(BOOL), True)},
         path=[(0, "body")], stmts=(2, 4), result=["self._authenticated", "self._ndef"],
         stores=["self._authenticated", "self._ndef"],
         note="cut: inside `if hasattr(self, '_authenticate'):` the call of `_authenticate`, the cache reset; "
              "result (_authenticated = the returned value, _ndef)"),
    # ---------------------------------------------------------------- TagCommandError
    Spec(GROUP, "tb_tce_init", F, "TagCommandError.__init__", [("errno", INT)], stores=["self._errno"], stmts=[3],
         result=["self._errno"], note="cut: the stored reason code (the message lookup is not translated)"),
    Spec(GROUP, "tb_tce_table", F, "TagCommandError.__init__", [("errno", INT)], whole=True, expr="errno > 0",
         note="cut: which message table is used (class specific for errno > 0)"),
    Spec(GROUP, "tb_tce_errno", F, "TagCommandError.errno", [], binds=[("self._errno", "errno", INT)]),
    Spec(GROUP, "tb_tce_int", F, "TagCommandError.__int__", [], binds=[("self._errno", "errno", INT)]),
    # ---------------------------------------------------------------- activate / emulate
    Spec(GROUP, "tb_activate", F, "activate", [("clf", INT), ("target", INT)],
         binds=[("target.brty", "brty", STR), ("target.sens_res", "sens_res", OPT(BYTES)),
                ("target.sel_res", "sel_res", BYTES), ("target.sensb_res", "sensb_res", OPT(BYTES)),
                ("target.sensf_res", "sensf_res", OPT(BYTES))],
         opaque={"activate_tt1": ("a1", [INT, INT], OPT(INT), True), "activate_tt2": ("a2", [INT, INT], OPT(INT), True),
                 "activate_tt3": ("a3", [INT, INT], OPT(INT), True), "activate_tt4": ("a4", [INT, INT], OPT(INT), True)},
         path=[(1, "body")], stmts=[1], ret=OPT(INT),
         note="cut: the dispatch inside `try:`; `clf`, `target` and the tag objects are tokens, the type specific "
              "activation functions are parameters; not translated: `except nfc.clf.CommunicationError: return None`"),
    Spec(GROUP, "tb_emulate_cond", F, "emulate", [], binds=[("target.tt3_cmd", "tt3_cmd", OPT(BYTES))], ret=BOOL,
         whole=True, expr="target.tt3_cmd", note="cut: the test that selects Type 3 Tag emulation (truth value)"),
]

# ---------------------------------------------------------------- overrides: delegation cuts
VW = [("version", OPT(INT)), ("wipe", OPT(INT))]
PRP = [("password", OPT(BYTES)), ("read_protect", BOOL), ("protect_from", INT)]
PW = [("password", BYTES)]
T_VW = [OPT(INT), OPT(INT)]
T_PRP = [OPT(BYTES), BOOL, INT]
DELEGATIONS = []       # lean names, for the bridge / mutation tables


def _deleg(lean, file, qual, params, callee, args, atys, rty=OPT(BOOL), mon=True, ret=None, note=""):
    DELEGATIONS.append(lean)
    return Spec(GROUP, lean, file, qual, params, whole=True, expr="%s(%s)" % (callee, args), ret=ret,
                opaque={callee: ("callee", atys, rty, mon)},
                note=note or "cut: the delegating call; the callee `%s` is a function parameter" % callee)


def _fmt(lean, file, cls):
    return _deleg(lean, file, cls + ".format", VW, "super(%s, self).format" % cls, "version, wipe", T_VW)


def _prot(lean, file, cls, sup=None):
    return _deleg(lean, file, cls + ".protect", PRP, "super(%s, self).protect" % (sup or cls),
                  "password, read_protect, protect_from", T_PRP)


def _auth(lean, file, cls):
    return _deleg(lean, file, cls + ".authenticate", PW, "super(%s, self).authenticate" % cls, "password", [BYTES])


def _dump(lean, file, qual, callee, args, atys, params=()):
    return _deleg(lean, file, qual, list(params), callee, args, atys, rty=INT,
                  note="cut: the delegating call of the dump helper (the list of lines is a token)")


def _pformat(lean, cls):
    """`_format` of the NTAG classes: factory defaults when there is no NDEF management data, then the generic format"""
    return Spec(GROUP, lean, NXP, cls + "._format", VW, binds=[("self.ndef", "ndef", TOK)], stmts=(0, 2),
                opaque={"self.write": ("wr", [INT, BYTES], INT, True),
                        "super(%s, self)._format" % cls: ("callee", T_VW, OPT(BOOL), True)},
                note="cut: the whole body; `self.ndef` (property, reads the tag when nothing is cached) is bound, "
                     "`self.write` and the generic `Type2Tag._format` are parameters")


SPECS += [
    # tt1.py
    _dump("tb_t1_dump", T1, "Type1Tag.dump", "self._dump", "stop=None", [NONE]),
    _prot("tb_t1_protect", T1, "Type1Tag"),
    Spec(GROUP, "tb_t1_protect_priv", T1, "Type1Tag._protect", PRP, binds=[("self.ndef", "ndef", TOK)], stmts=(0, 2),
         opaque={"self.write_byte": ("wb", [INT, INT, BOOL], INT, True)},
         note="cut: the whole body; `self.ndef` is bound, `write_byte` is a parameter"),
    Spec(GROUP, "tb_t1_is_present", T1, "Type1Tag._is_present", [], binds=[("self.uid", "uid", BYTES)],
         whole=True, expr="self.read_byte(0) == self.uid[0]", opaque={"self.read_byte": ("rb", [INT], INT, True)},
         note="cut: the value returned inside `try:`; not translated: `except Type1TagCommandError: return False`"),
    # tt1_broadcom.py
    _dump("tb_topaz_dump", BCM, "Topaz.dump", "super(Topaz, self)._dump", "stop=15", [INT]),
    _fmt("tb_topaz_format", BCM, "Topaz"),
    _prot("tb_topaz_protect", BCM, "Topaz"),
    Spec(GROUP, "tb_topaz_protect_priv", BCM, "Topaz._protect", PRP,
         opaque={"super(Topaz, self)._protect": ("callee", T_PRP, BOOL, True), "self.write_byte": ("wb", [INT, INT, BOOL], INT, True)},
         note="the generic `Type1Tag._protect` and `write_byte` are parameters"),
    _dump("tb_topaz512_dump", BCM, "Topaz512.dump", "super(Topaz512, self)._dump", "stop=64", [INT]),
    _fmt("tb_topaz512_format", BCM, "Topaz512"),
    _prot("tb_topaz512_protect", BCM, "Topaz512"),
    Spec(GROUP, "tb_topaz512_protect_priv", BCM, "Topaz512._protect", PRP,
         opaque={"super(Topaz512, self)._protect": ("callee", T_PRP, BOOL, True), "self.write_byte": ("wb", [INT, INT, BOOL], INT, True)},
         note="the generic `Type1Tag._protect` and `write_byte` are parameters"),
    # tt2.py
    _dump("tb_t2_dump", T2, "Type2Tag.dump", "self._dump", "stop=None", [NONE]),
    _fmt("tb_t2_format", T2, "Type2Tag"),
    _prot("tb_t2_protect", T2, "Type2Tag"),
    Spec(GROUP, "tb_t2_is_present_cmd", T2, "Type2Tag._is_present", [], whole=True, expr="self.transceive(b'0\\x00')",
         opaque={"self.transceive": ("trx", [BYTES], BYTES, True)},
         note="cut: the command of the presence check (READ page 0)"),
    Spec(GROUP, "tb_t2_is_present_val", T2, "Type2Tag._is_present", [("data", BYTES)], whole=True,
         expr="bool(data and len(data) == 16)", note="cut: the value returned in the `else:` of the try statement"),
    Spec(GROUP, "tb_t2_format_cond", T2, "Type2Tag._format", [], ret=BOOL,
         binds=[("self.ndef", "ndef", TOK), ("self.ndef.is_writeable", "writeable", BOOL)],
         whole=True, expr="self.ndef and self.ndef.is_writeable",
         note="cut: the test that guards the generic Type 2 format (truth value); precondition: the token of an NDEF object is not empty"),
    # tt2_nxp.py
    _dump("tb_ul_dump", NXP, "MifareUltralight.dump", "super(MifareUltralight, self)._dump", "stop=16", [INT]),
    _dump("tb_ulc_dump", NXP, "MifareUltralightC.dump", "super(MifareUltralightC, self)._dump", "stop=40", [INT]),
    _auth("tb_ulc_authenticate", NXP, "MifareUltralightC"),
    _dump("tb_ntag203_dump", NXP, "NTAG203.dump", "super(NTAG203, self)._dump", "40", [INT]),
    _prot("tb_ntag203_protect", NXP, "NTAG203"),
    _pformat("tb_ntag203_format_priv", "NTAG203"),
    _auth("tb_ntag21x_authenticate", NXP, "NTAG21x"),
    _dump("tb_ntag21x_dump", NXP, "NTAG21x._dump", "super(NTAG21x, self)._dump", "stop", [INT], [("stop", INT)]),
    _pformat("tb_ntag210_format_priv", "NTAG210"),
    _pformat("tb_ntag212_format_priv", "NTAG212"),
    _pformat("tb_ntag213_format_priv", "NTAG213"),
    _pformat("tb_ntag215_format_priv", "NTAG215"),
    _pformat("tb_ntag216_format_priv", "NTAG216"),
    # tt2_nxp.py: `args = (password, read_protect, protect_from)`, then `f(*args)`
    Spec(GROUP, "tb_ulc_protect", NXP, "MifareUltralightC.protect", PRP, stmts=(0, 2),
         opaque={"super(MifareUltralightC, self).protect": ("callee", T_PRP, OPT(BOOL), True)},
         note="cut: the whole body (the argument tuple and the delegating call); the callee is a function parameter"),
    Spec(GROUP, "tb_ntag21x_protect", NXP, "NTAG21x.protect", PRP, stmts=(0, 2),
         opaque={"super(NTAG21x, self).protect": ("callee", T_PRP, OPT(BOOL), True)},
         note="cut: the whole body (the argument tuple and the delegating call); the callee is a function parameter"),
    Spec(GROUP, "tb_ulc_protect_priv", NXP, "MifareUltralightC._protect", PRP, stmts=(0, 1),
         opaque={"self._protect_with_lockbits": ("lockbits", [], BOOL, True),
                 "self._protect_with_password": ("withpw", [BYTES, BOOL, INT], BOOL, True)},
         note="cut: the whole body; lock bits without password, else the password protection (parameters)"),
    Spec(GROUP, "tb_ntag21x_protect_priv", NXP, "NTAG21x._protect", PRP, stmts=(0, 1),
         opaque={"self._protect_with_lockbits": ("lockbits", [], BOOL, True),
                 "self._protect_with_password": ("withpw", [BYTES, BOOL, INT], BOOL, True)},
         note="cut: the whole body; lock bits without password, else the password protection (parameters)"),
    # tt3.py
    _fmt("tb_t3_format", T3, "Type3Tag"),
    Spec(GROUP, "tb_t3_is_present", T3, "Type3Tag._is_present", [], path=[(0, "body")], stmts=(0, 2),
         binds=[("self.sys", "sys", INT), ("self.identifier", "identifier", BYTES)],
         opaque={"self.polling": ("poll", [INT], TUP(BYTES, BYTES), True)},
         note="cut: the body of `try:`; `polling` is a parameter; not translated: `except Type3TagCommandError: return False`"),
    # tt3_sony.py
    Spec(GROUP, "tb_felica_is_present", SONY, "FelicaStandard._is_present", [], whole=True,
         expr="self.request_response() in (0, 1, 2, 3)", opaque={"self.request_response": ("rr", [], INT, True)},
         note="cut: the value returned inside `try:`"),
    _deleg("tb_felica_is_present_fallback", SONY, "FelicaStandard._is_present", [], "super(FelicaStandard, self)._is_present", "",
           [], rty=BOOL, note="cut: the fall-back in the handler `except tt3.Type3TagCommandError:`"),
    _prot("tb_lite_protect", SONY, "FelicaLite"),
    _auth("tb_lite_authenticate", SONY, "FelicaLite"),
    _deleg("tb_lite_format", SONY, "FelicaLite.format", [("version", INT), ("wipe", OPT(INT))], "super(FelicaLite, self).format",
           "version, wipe", [INT, OPT(INT)]),
    _prot("tb_lites_protect", SONY, "FelicaLiteS", sup="FelicaLite"),
    _deleg("tb_lites_authenticate", SONY, "FelicaLiteS.authenticate", PW, "super(FelicaLiteS, self).authenticate", "password",
           [BYTES], rty=BOOL, note="cut: the test of the first `if`: the internal authentication goes through "
                                             "`Tag.authenticate` (its result taken as a bool)"),
    _dump("tb_lites_dump", SONY, "FelicaLiteS.dump", "super(FelicaLiteS, self).dump", "", []),
    # tt4.py
    _fmt("tb_t4_format", T4, "Type4Tag"),
    _dump("tb_t4_dump", T4, "Type4Tag.dump", "self._dump", "", []),
    Spec(GROUP, "tb_t4_format_cond", T4, "Type4Tag._format", [], ret=BOOL,
         binds=[("self.ndef", "ndef", TOK), ("self.ndef.is_writeable", "writeable", BOOL)],
         whole=True, expr="not self.ndef or not self.ndef.is_writeable",
         note="cut: the test that refuses the Type 4 format (truth value); precondition: the token of an NDEF object is not empty"),
    Spec(GROUP, "tb_t4_dump_cond", T4, "Type4Tag._dump", [], ret=BOOL,
         binds=[("self.ndef", "ndef", TOK), ("self.ndef.is_readable", "readable", BOOL)],
         whole=True, expr="self.ndef and self.ndef.is_readable", note="cut: the test that guards the Type 4 dump; precondition: the token of an NDEF object is not empty"),
]

TRUTH_OF_TOKEN = ("tb_t2_format_cond", "tb_t4_format_cond", "tb_t4_dump_cond")


def accept(sp, pv, bv):
    """precondition of the truth-value cuts: the token that stands for an NDEF object is truthy (a `Tag.NDEF` object
    always is), i.e. not the empty octet string"""
    if sp.lean in TRUTH_OF_TOKEN:
        # ... and the flag of a missing object is never read (`None and ..`): only (None, False) is a meaningful input
        return (bv[0] is None and not bv[1]) or (bv[0] is not None and len(bv[0]) > 0)
    return True


P = "NfcVerif.FnBridge.TagBase."
BRIDGE = {
    "module": "NfcVerif.Props.FnBridgeTagBase",
    "theorems": [P + t for t in (
        # Tag.NDEF
        "ndef_length_bridge", "ndef_getters_bridge", "ndef_has_changed_bridge", "ndef_has_changed_ref",
        "ndef_has_changed_fresh", "ndef_octets_set_bridge", "gen_setter_rejects_before_command",
        "gen_setter_always_writes", "setOctets_tlv_bridge", "setOctets_tlv_no_command", "setOctets_t3_bridge",
        "setOctets_t4_bridge", "ndef_records_bridge",
        # Tag: cache and wrappers
        "tag_ndef_bridge", "tag_ndef_ref", "tag_ndef_cached", "tag_is_present_bridge", "tag_format_bridge",
        "tag_protect_bridge", "tag_authenticate_bridge", "tag_wrappers_cstep", "gen_cache_dropped_after_format",
        "gen_cache_dropped_after_protect", "gen_cache_dropped_after_authenticate", "gen_ndef_rereads_after_success",
        "gen_ndef_read_again_after_authenticate",
        # overrides
        "format_overrides_bridge", "lite_format_bridge", "protect_overrides_bridge", "protect_star_overrides_bridge",
        "nxp_protect_priv_bridge", "authenticate_overrides_bridge", "dump_overrides_bridge", "gen_override_format_drops",
        "gen_topaz_format_drops", "gen_lites_authenticate_drops", "t1_protect_priv_bridge", "topaz_protect_priv_bridge",
        "ntag_format_priv_bridge", "ntag_format_priv_present",
        # presence checks, guards, TagCommandError
        "t1_is_present_bridge", "t1_is_present_adv", "t2_is_present_bridge", "t3_is_present_bridge",
        "felica_is_present_bridge", "ndef_guards_bridge", "tce_bridge",
        # activate / emulate
        "activate_bridge", "gen_activate_no_sens_res", "adv_activate_tagType", "adv_activate_kind",
        "connect_activateBody_tagType", "connect_activateBody_no_sens", "emulate_cond_bridge",
        # the reference semantics Model/FnTagBaseRef.lean and its agreement with the existing models (Lemmas file)
        "cache_dropped_after_format", "setter_rejects_before_command", "setter_always_writes", "setter_fails_with_write",
        "wrapper_drops", "wrapper_keeps", "cstep_format", "cstep_protect", "cstep_auth", "cstep_ndef", "adv_step_ndef",
        "adv_step_ndef_cached", "adv_step_changed", "stepOp_cached", "wrapper_isSome", "tlv_setOctets_res",
        "tlv_setOctets_cmds")],
    "properties": ["C01", "C03", "C08", "C16", "C18", "C20"],
}


def _b(rng, n):
    return bytes(rng.choice([0, 1, 0x0C, 0x20, 0x40, 0xE1, 0xFF, rng.randrange(256)]) for _ in range(n))


def _ob(rng, lens=(0, 1, 3, 16)):
    return None if rng.random() < 0.3 else _b(rng, rng.choice(lens))


def inputs(rng, sp):
    out = []
    n = sp.lean
    if n == "tb_ndef_octets_set":
        for _ in range(150):
            k = rng.choice([0, 1, 2, 15, 16, 17, 48])
            out.append(([_b(rng, k)], [rng.random() < 0.7, rng.choice([k - 1, k, k + 1, 0, -1, 46, 255])]))
    if n == "tb_ndef_has_changed":
        for _ in range(150):
            d = _ob(rng)
            out.append(([], [d, rng.choice([d, _ob(rng)])]))
    if n == "tb_ndef_length":
        out += [([], [v]) for v in (None, b"", b"\x00", b"\xd1\x01\x00")]
    if n == "tb_tag_ndef":
        out += [([], [c, ch]) for c in (None, 0, 1, 7) for ch in (False, True)]
    if n in ("tb_tag_format", "tb_tag_protect", "tb_tag_authenticate"):
        for _ in range(120):
            if n == "tb_tag_format":
                pv = [rng.choice([None, 0x10, 0x12, 0x20]), rng.choice([None, 0, 0x5A, 255, 256])]
            elif n == "tb_tag_protect":
                pv = [_ob(rng, (0, 6, 16)), rng.random() < 0.5, rng.choice([0, 1, 4, 255])]
            else:
                pv = [_b(rng, rng.choice([0, 6, 16]))]
            out.append((pv, [_ob(rng)]))
    if n == "tb_activate":
        for brty in ("106A", "106B", "212F", "424F", "106", "", "A", "848A"):
            for _ in range(40):
                sens = rng.choice([None, b"", b"\x44", bytes([rng.randrange(256), rng.choice([0x00, 0x0C, 0x1C, 0xFC, 0x0D])])])
                sel = rng.choice([b"", bytes([rng.choice([0x00, 0x08, 0x20, 0x40, 0x60, 0x18, 0x28, rng.randrange(256)])])])
                out.append(([rng.randrange(5), rng.randrange(5)], [brty, sens, sel, _ob(rng, (0, 12)), _ob(rng, (0, 18))]))
    if n == "tb_emulate_cond":
        out += [([], [v]) for v in (None, b"", b"\x00", b"\x12\x06")]
    if n == "tb_t1_is_present":
        out += [([], [_b(rng, k)]) for k in (0, 1, 4, 4, 4, 7) for _ in range(8)]
    if n == "tb_t2_is_present_val":
        out += [([_b(rng, k)], []) for k in (0, 1, 4, 15, 16, 17, 32)]
    if n == "tb_t3_is_present":
        out += [([], [rng.choice([0x12FC, 0xFFFF, 0, 0x88B4]), _b(rng, k)]) for k in (0, 2, 8, 8, 8) for _ in range(8)]
    if n in TRUTH_OF_TOKEN:
        out += [([], [c, f]) for c in (None, b"\x00", b"\xd1\x01") for f in (False, True)]
    if n in ("tb_t1_protect_priv", "tb_topaz_protect_priv", "tb_topaz512_protect_priv", "tb_ulc_protect_priv",
             "tb_ntag21x_protect_priv", "tb_ulc_protect", "tb_ntag21x_protect"):
        for _ in range(60):
            pv = [_ob(rng, (0, 6, 16)), rng.random() < 0.5, rng.choice([0, 1, 4])]
            out.append((pv, [_ob(rng)] if n == "tb_t1_protect_priv" else []))
    if n.endswith("_format_priv"):
        for _ in range(60):
            out.append(([rng.choice([None, 0x10]), rng.choice([None, 0, 255])], [_ob(rng)]))
    return out


MUTATIONS = [
    # the two kinds of seeded regressions this group is for
    ("tb_topaz_format", "seeded C03-r3m4: Topaz.format calls the private method, not the Tag wrapper",
     "return super(Topaz, self).format(version, wipe)", "return self._format(version, wipe)"),
    ("tb_topaz512_format", "seeded C03-r3m4: Topaz512.format calls the private method",
     "return super(Topaz512, self).format(version, wipe)", "return self._format(version, wipe)"),
    ("tb_lites_authenticate", "seeded C20-r3m3: FelicaLiteS.authenticate calls the private method",
     "if super(FelicaLiteS, self).authenticate(password):", "if self._authenticate(password):"),
    ("tb_ndef_octets_set", "seeded C01-r3m4: no write when the data equal the cached data",
     "            self._write_ndef_data(data)", "            if data == self._data:\n                return\n            self._write_ndef_data(data)"),
    ("tb_ndef_octets_set", "capacity check off by one", "len(data) > self.capacity", "len(data) >= self.capacity"),
    ("tb_ndef_octets_set", "capacity check after the write",
     "            if len(data) > self.capacity:\n                raise ValueError(\"data length exceeds tag capacity\")\n            self._write_ndef_data(data)",
     "            self._write_ndef_data(data)\n            if len(data) > self.capacity:\n                raise ValueError(\"data length exceeds tag capacity\")"),
    ("tb_ndef_octets_set", "writeable check dropped", "if not self._writeable:", "if False:"),
    ("tb_tag_format", "cache not dropped after format", "            if status is True:\n                self._ndef = None\n            return status\n        else:\n            log.debug",
     "            return status\n        else:\n            log.debug"),
    ("tb_tag_protect", "cache dropped on any truthy status only", "status = self._protect(password, read_protect, protect_from)\n            if status is True:",
     "status = self._protect(password, read_protect, protect_from)\n            if status is False:"),
    ("tb_tag_authenticate", "cache kept after authenticate", "            if self._authenticated is True:\n                self._ndef = None\n", ""),
    ("tb_tag_ndef", "NDEF object kept although nothing was read", "if ndef.has_changed:", "if ndef.has_changed or True:"),
    ("tb_tag_ndef", "cache ignored: every access reads", "if self._ndef is None:", "if True:"),
    ("tb_ndef_has_changed", "stale object kept when the tag has no NDEF any more", "if ndef_data is None:", "if False:"),
    ("tb_ndef_has_changed", "data not stored", "            self._data = ndef_data\n", ""),
    ("tb_ndef_length", "length of an empty message", "return len(self._data) if self._data else 0", "return len(self._data) if self._data else 1"),
    ("tb_activate", "Type 1 platform nibble", "target.sens_res[1] & 0x0F == 0x0C", "target.sens_res[1] & 0x0F == 0x0D"),
    ("tb_activate", "SEL_RES Type 2 bits", "target.sel_res[0] >> 5 & 3 == 0", "target.sel_res[0] >> 5 & 3 == 1"),
    ("tb_activate", "the sens_res guard is dropped (C18 repair reverted)",
     "            if target.sens_res is None:\n                log.debug(\"no SENS_RES, this is not a tag\")\n            elif target.sens_res[1]",
     "            if target.sens_res[1]"),
    ("tb_activate", "Type B activates Type 3", "            else:\n                return activate_tt4(clf, target)\n        elif target.brty.endswith('F')",
     "            else:\n                return activate_tt3(clf, target)\n        elif target.brty.endswith('F')"),
    ("tb_t1_protect", "Type1Tag.protect bypasses the wrapper", "return super(Type1Tag, self).protect(\n            password, read_protect, protect_from)",
     "return self._protect(\n            password, read_protect, protect_from)"),
    ("tb_lites_protect", "FelicaLiteS.protect bypasses the wrapper", "return super(FelicaLite, self).protect(", "return self._protect("),
    ("tb_ntag21x_authenticate", "NTAG21x.authenticate bypasses the wrapper", "return super(NTAG21x, self).authenticate(password)",
     "return self._authenticate(password)"),
    ("tb_ulc_protect", "argument order of the tuple", "args = (password, read_protect, protect_from)\n        return super(MifareUltralightC",
     "args = (password, protect_from, read_protect)\n        return super(MifareUltralightC"),
    ("tb_t1_protect_priv", "CC access byte value", "self.write_byte(11, 0x0F, erase=False)", "self.write_byte(11, 0x0E, erase=False)"),
    ("tb_topaz512_protect_priv", "one lock byte forgotten", "            self.write_byte(121, 0xFF, erase=False)\n", ""),
    ("tb_ntag213_format_priv", "factory page 4 of the NTAG213", "b'\\x01\\x03\\xA0\\x0C'", "b'\\x01\\x03\\xA0\\x0D'"),
    ("tb_t1_is_present", "compares with the wrong UID byte", "self.read_byte(0) == self.uid[0]", "self.read_byte(0) == self.uid[1]"),
    ("tb_t2_is_present_val", "accepts any non-empty answer", "bool(data and len(data) == 16)", "bool(data and len(data) >= 1)"),
    ("tb_felica_is_present", "mode range", "in (0, 1, 2, 3)", "in (0, 1, 2)"),
    ("tb_t4_format_cond", "NEUTRAL: De Morgan", "if not self.ndef or not self.ndef.is_writeable:", "if not (self.ndef and self.ndef.is_writeable):"),
    ("tb_ndef_records_set", "records setter stores the data without the checked write", "self.octets = b''.join(message_encoder(value))",
     "self._data = b''.join(message_encoder(value))"),
    ("tb_tce_init", "errno not stored", "self._errno = errno", "self._errno = 0"),
]
