"""group HoClient: what groups Snep left of the handover client / server and the SNEP client: nfc/handover/server.py
(`HandoverServer.serve`, `_process_request_data`), nfc/handover/client.py (`recv_octets`, `recv_records`),
nfc/snep/client.py (`get_octets`, `put_octets`, `get_records`, the reassembly statement of `recv_response`)
-> Model/Handover.lean, Model/Snep.lean, Model/Term.lean (C06, C07).

Group Snep (harness/fnspecs/snep.py) has `send_request`, the header checks of `recv_response`, the request builders,
`HandoverClient.send_octets` and the response fragment slice of `HandoverServer.serve`.  Here: the reassembly
statements (`+=` of what `recv()` returned - the received octets are a parameter), the completeness / emptiness tests
around them, the offsets of the handover response fragments, the record type tests, the defaults of the SNEP client.
`Lemmas/FnBridgeHoClient.lean` restates `Handover.srvOnRecv`, `Handover.cliOnRecv` and the reassembly step of
`Snep.cliOnRecv` with the regenerated pieces.
Condition cuts are `whole=True`: the expression must be the COMPLETE test of its `if` / `while` / conditional
expression / assert (or the whole value of its statement, the iterable of its `for`), so wrapping it (`c is True`,
`c or x`) breaks the bridge; the few cuts that are operands of a larger test say so in their note.
Not translated: `ndef.message_decoder` / `message_encoder` (the parameters `complete` / `handler` of the model),
`socket.poll` / `recv` / `send` themselves, timeouts (floats).
"""
from translate_fn import Spec, INT, BOOL, BYTES, STR, OPT, LIST
GROUP = "HoClient"
ORDER = 72
HC, HS, SC = "handover/client.py", "handover/server.py", "snep/client.py"
SPECS = [
    Spec(GROUP, "hc_srv_new_request", HS, "HandoverServer.serve", [], path=[(3, "body"), (0, "body")], stmts=[0], whole=True, expr="bytearray()", note='cut: the reassembly buffer is a fresh bytearray for every request (first statement of the outer loop)'),
    Spec(GROUP, "hc_srv_append", HS, "HandoverServer.serve", [("request", BYTES)], binds=[("socket.recv()", "received", BYTES)],
         path=[(3, "body"), (0, "body"), (1, "body")], stmts=[0], result=["request"], note='cut: the statement `request += socket.recv()`; the received octets are the parameter `received`; result: request'),
    Spec(GROUP, "hc_srv_need_data", HS, "HandoverServer.serve", [("request", BYTES)], whole=True, expr="len(request) == 0", note='cut: nothing received yet: poll again'),
    Spec(GROUP, "hc_srv_offsets", HS, "HandoverServer.serve", [("response", BYTES), ("send_miu", INT)],
         whole=True, expr="range(0, len(response), send_miu)", note='cut: the offsets of the response fragments (ValueError for a send MIU 0; the fragment slice is `ho_srv_frag` of group Snep)'),
    Spec(GROUP, "hc_srv_send_failed", HS, "HandoverServer.serve", [], binds=[("socket.send(fragment)", "sent", BOOL)],
         whole=True, expr="not socket.send(fragment)", note='cut: the serve thread returns when a fragment could not be sent; the result of `socket.send` is a bool parameter'),
    Spec(GROUP, "hc_srv_is_hr", HS, "HandoverServer._process_request_data", [], binds=[("records[0].type", "rtype", STR)],
         whole=True, expr="records[0].type == 'urn:nfc:wkt:Hr'", note='cut: only a message whose first record is a Handover Request is processed; `records[0].type` is the parameter'),
    Spec(GROUP, "hc_cli_append", HC, "HandoverClient.recv_octets", [("octets", BYTES)], binds=[("self.socket.recv()", "received", BYTES)],
         path=[(2, "body"), (0, "body")], stmts=[0], result=["octets"], note='cut: the statement `octets += self.socket.recv()` of the `try`; result: octets'),
    Spec(GROUP, "hc_cli_result", HC, "HandoverClient.recv_octets", [("octets", BYTES)], whole=True, expr="bytes(octets)", note='cut: the returned message'),
    Spec(GROUP, "hc_cli_octets_default", HC, "HandoverClient.recv_records", [], binds=[("self.recv_octets(timeout)", "rcvd", OPT(BYTES))],
         whole=True, expr="self.recv_octets(timeout) or b''", note='cut: None / empty from recv_octets() is the empty message; the call is the parameter'),
    Spec(GROUP, "hc_cli_is_hs", HC, "HandoverClient.recv_records", [("records", LIST(INT))], binds=[("records[0].type", "rtype", STR)],
         whole=True, expr="records and records[0].type == 'urn:nfc:wkt:Hs'", ret=BOOL, note='cut: only a message whose first record is a Handover Select is returned (truth value); `records` as a list of markers'),
    Spec(GROUP, "hc_snep_default_octets", SC, "SnepClient.get_octets", [("octets", OPT(BYTES))], stmts=[0], result=["octets"], note='cut: statement 0: GET without a message sends one empty NDEF record; result: octets'),
    Spec(GROUP, "hc_snep_put_acceptable", SC, "SnepClient.put_octets", [], path=[(1, "body")], stmts=[2], expr="0", note='cut: the acceptable length `put_octets` hands to recv_response (the constant 0 of statement 2 of the `try`)'),
    Spec(GROUP, "hc_snep_get_usable", SC, "SnepClient.get_records", [("octets", BYTES)], whole=True, expr="octets and len(octets) >= 3", ret=BOOL, note='cut: get_records decodes a response of at least 3 octets (truth value); None behaves like the empty string'),
    Spec(GROUP, "hc_snep_append", SC, "recv_response", [("snep_response", BYTES)], binds=[("socket.recv()", "received", BYTES)],
         path=[(0, "body"), (4, "body"), (1, "body"), (0, "body")], stmts=[0], result=["snep_response"], note='cut: the statement `snep_response += socket.recv()` of the reassembly loop; result: snep_response'),
    Spec(GROUP, "hc_snep_result", SC, "recv_response", [("snep_response", BYTES)], whole=True, expr="bytearray(snep_response)", note='cut: the returned response'),
]
P = "NfcVerif.FnBridge.HoClient."
BRIDGE = {
    "module": "NfcVerif.Props.FnBridgeHoClient",
    "theorems": [P + t for t in (
        "offsets_bridge", "response_frags_bridge", "srv_on_recv_bridge", "cli_on_recv_bridge", "snep_reasm_bridge",
        "put_acceptable_bridge", "default_octets_bridge", "get_usable_bridge", "record_type_bridge",
        "octets_default_bridge", "send_failed_bridge", "gen_response_frags_concat", "gen_server_buffer_reset")],
    "properties": ["C06", "C07"],
}
SMALL_INT = ("hc_srv_offsets",)      # the offset range is materialised


def _b(rng, n):
    return bytes(rng.randrange(256) for _ in range(n))


def accept(sp, pv, bv):
    """the offset range is materialised by the test driver: a send MIU of at least -5 and responses below 400 octets"""
    if sp.lean == "hc_srv_offsets":
        return pv[1] >= -5
    return True


def inputs(rng, sp):
    out = []
    n = sp.lean
    if n in ("hc_srv_append", "hc_cli_append", "hc_snep_append"):
        out += [([_b(rng, a)], [_b(rng, b)]) for a in (0, 1, 5, 128) for b in (0, 1, 6, 128)]
    if n in ("hc_srv_need_data", "hc_cli_result", "hc_snep_result", "hc_snep_get_usable"):
        out += [([_b(rng, a)], []) for a in (0, 1, 2, 3, 4, 128)]
    if n == "hc_srv_offsets":
        out += [([_b(rng, a), m], []) for a in (0, 1, 5, 127, 128, 129, 256, 300) for m in (0, 1, 2, 127, 128, 129, 2175)]
    if n == "hc_srv_send_failed":
        out += [([], [False]), ([], [True])]
    if n == "hc_srv_is_hr":
        out += [([], [t]) for t in ("urn:nfc:wkt:Hr", "urn:nfc:wkt:Hs", "urn:nfc:wkt:T", "x")]
    if n == "hc_cli_is_hs":
        out += [([l], [t]) for l in ([], [0], [0, 0]) for t in ("urn:nfc:wkt:Hr", "urn:nfc:wkt:Hs", "x")]
    if n == "hc_cli_octets_default":
        out += [([], [v]) for v in (None, b"", b"\xd0\x00\x00")]
    if n == "hc_snep_default_octets":
        out += [([v], []) for v in (None, b"", b"\xd0\x00\x00", b"\xd1\x01\x01T\x00")]
    if n in ("hc_srv_new_request", "hc_snep_put_acceptable"):
        out += [([], [])]
    return out


MUTATIONS = [
    ("hc_srv_new_request", "defect F29 reintroduced: the request buffer is created once per connection",
     "while socket.poll(\"recv\"):\n                request = bytearray()\n                while socket.poll(\"recv\"):",
     "request = bytearray()\n            while socket.poll(\"recv\"):\n                while socket.poll(\"recv\"):"),
    ("hc_srv_append", "received fragment put in front of the buffer", "request += socket.recv()", "request = socket.recv() + request"),
    ("hc_srv_need_data", "one octet treated as no data", "if len(request) == 0:", "if len(request) <= 1:"),
    ("hc_srv_offsets", "first fragment skipped", "for offset in range(0, len(response), send_miu):", "for offset in range(send_miu, len(response), send_miu):"),
    ("hc_srv_offsets", "last fragment lost", "for offset in range(0, len(response), send_miu):", "for offset in range(0, len(response) - send_miu, send_miu):"),
    ("hc_srv_send_failed", "serve goes on after a failed send", "if not socket.send(fragment):\n                            return", "if socket.send(fragment) is None:\n                            return"),
    ("hc_srv_is_hr", "Handover Select accepted as request", "records[0].type == 'urn:nfc:wkt:Hr'", "records[0].type == 'urn:nfc:wkt:Hs'"),
    ("hc_cli_append", "only the last fragment kept", "octets += self.socket.recv()", "octets = self.socket.recv()"),
    ("hc_cli_is_hs", "record type test dropped", "if records and records[0].type == \"urn:nfc:wkt:Hs\":", "if records:"),
    ("hc_snep_default_octets", "default GET message", "octets = b'\\xd0\\x00\\x00'", "octets = b'\\xd0\\x00'"),
    ("hc_snep_put_acceptable", "PUT accepts response data", "response = recv_response(self.socket, 0, timeout)", "response = recv_response(self.socket, 1, timeout)"),
    ("hc_snep_get_usable", "minimum response length", "if octets and len(octets) >= 3:", "if octets and len(octets) > 3:"),
    ("hc_snep_append", "reassembly drops the earlier fragments", "snep_response += socket.recv()", "snep_response = socket.recv()"),
    ("hc_cli_result", "NEUTRAL log text", "log.debug(\"<<< %s\"", "log.debug(\"<-- %s\""),
]
