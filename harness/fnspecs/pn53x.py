"""group Pn53x: nfc/clf/pn53x.py `Chipset.command` host-link frames -> Model/HostFrame.lean `pn*` (C14, C13)

Cuts (documented in the notes): `Chipset.command` writes the frame, waits for the ACK and reads the response
between building and checking; translated are the pure slice that builds `head`, `data`, `tail` (the frame is
`head + data + tail`, the argument of `self.write_frame`) and the response validation behind the
`while frame == self.ACK` loop, whose parameter `frame` is the value `self.read_frame` returned.  Not
translated: the `assert` on the payload size and the `log.log` call in front of the construction (it
evaluates `self.CMD[cmd_code]`), the ACK handling, the timeouts.
"""
from translate_fn import Spec, INT, BYTES, OPT

GROUP = "Pn53x"
ORDER = 60
F = "clf/pn53x.py"
_EX = {"Chipset.Error": "chipsetError"}
_CE = {"self.chipset_error": "pn53x_chipset_error_int"}
SPECS = [
    # `chipset_error(cause)`, once per argument type the callers use (`type(cause) is int` is decided statically);
    # `strerr = self.ERR.get(errno, ..)` only feeds the exception constructor and is dropped
    Spec(GROUP, "pn53x_chipset_error_int", F, "Chipset.chipset_error", [("cause", INT)], excs=_EX, drop=["strerr ="],
         nonneg=["cause"], note="instance for an int cause; the message lookup `self.ERR.get(errno, ..)` is dropped"),
    Spec(GROUP, "pn53x_chipset_error_bytes", F, "Chipset.chipset_error", [("cause", BYTES)], excs=_EX, drop=["strerr ="],
         note="instance for a byte string cause (the response payload); the message lookup is dropped"),
    Spec(GROUP, "pn53x_chipset_error_opt", F, "Chipset.chipset_error", [("cause", OPT(INT))], excs=_EX, drop=["strerr ="],
         nonneg=["cause"], note="instance for `int | None` (`data[0] & 0x3f if data else None`; also covers `chipset_error(None)` of "
              "`get_general_status` - a parameter of type None alone cannot be fed by the self-test); the message lookup is dropped"),
    Spec(GROUP, "pn53x_build", F, "Chipset.command", [("cmd_code", INT), ("cmd_data", BYTES)],
         path=[(0, "body")], stmts=(2, 5), result=["head", "data", "tail"],
         note="cut: inside `if cmd_data is not None:` the statements that build head, data and tail of the "
              "command frame; `self.write_frame(head + data + tail)` follows; result (head, data, tail)"),
    Spec(GROUP, "pn53x_strip", F, "Chipset.command", [("frame", BYTES)], stmts=(3, 4), result=["frame"],
         note="cut: the statement behind the `while frame == self.ACK` loop that validates start code, length and "
              "length checksum and removes them (`del frame[0:8]` / `del frame[0:5]`); parameter `frame` is the "
              "value `self.read_frame` returned; result: `frame` after the deletion"),
    Spec(GROUP, "pn53x_body", F, "Chipset.command", [("frame", BYTES), ("cmd_code", INT)], stmts=(4, 10), calls=_CE,
         note="cut: the statements behind the header removal (postamble, data checksum, error frame, TFI, response "
              "code, payload); parameter `frame` is the value left by the header removal"),
    Spec(GROUP, "pn53x_accept", F, "Chipset.command", [("frame", BYTES), ("cmd_code", INT)], stmts=(3, 10), calls=_CE,
         note="cut: the whole response validation behind the `while frame == self.ACK` loop; parameter `frame` is "
              "the value `self.read_frame` returned"),
]
# the two tests of the ACK handling that are pure: start code of the first frame read, `while frame == self.ACK`
SPECS += [
    Spec(GROUP, "pn53x_ack_sof_check", F, "Chipset.command", [("frame", BYTES)], path=[(0, "body")], stmts=(6, 8),
         note="cut: inside `if cmd_data is not None:` the statements behind the try block that wrote the command and read "
              "the first frame: start code test (the `missing ack frame` test only logs)"),
    Spec(GROUP, "pn53x_is_ack", F, "Chipset.command", [("frame", BYTES)], expr="frame == self.ACK", whole=True,
         note="cut: the condition of the `while frame == self.ACK` loop"),
]
# hand-built frames of the serial-line bring-up in pn532.init (no Chipset object yet)
SPECS += [
    Spec(GROUP, "pn532_init_frames", "clf/pn532.py", "init", [], path=[(0, "body")], stmts=[6, 7, 12, 13],
         result=["get_version_cmd", "get_version_rsp", "sam_configuration_cmd", "sam_configuration_rsp"],
         note="cut: the four constant frames of the UART bring-up (GetFirmwareVersion, SAMConfiguration and the expected "
              "responses); the transport calls between them are not translated"),
    Spec(GROUP, "pn532_set_baudrate_frame", "clf/pn532.py", "init", [("baudrate", INT)],
         path=[(0, "body"), (18, "body")], stmts=(0, 4), result=["set_baudrate_cmd", "set_baudrate_rsp"],
         note="cut: inside `if baudrate > 115200:` the SetSerialBaudRate frame patched with the rate code and its "
              "checksum, and the expected response; `baudrate` is the loop variable of the stty probe"),
]
P = "NfcVerif.FnBridge.Pn53x."
BRIDGE = {
    "module": "NfcVerif.Props.FnBridgePn53x",
    "theorems": [P + t for t in (
        "chipset_error_int_bridge", "chipset_error_bytes_bridge", "chipset_error_opt_bridge",
        "build_bridge", "build_value", "strip_bridge", "body_bridge", "accept_split", "accept_bridge", "gen_build_valid",
        "gen_accept_sound", "gen_accept_complete", "gen_accept_documented", "ack_sof_check_bridge", "is_ack_bridge",
        "init_frames_bridge", "set_baudrate_frame_bridge", "set_baudrate_frame_value", "gen_uart_frames_valid")],
    "properties": ["C14", "C13"],
}


def _resp(rng, cmd):
    """a response frame, well formed or with one defect"""
    n = rng.choice([0, 1, 2, 5, 20, 252, 253, 254, 255, 256, 300]) if rng.random() < 0.5 else rng.randrange(0, 30)
    body = bytes([0xD5 if rng.random() < 0.85 else rng.choice([0x7F, 0xD4, rng.randrange(256)]),
                  (cmd + 1) % 256 if rng.random() < 0.85 else rng.randrange(256)]) + \
        bytes(rng.randrange(256) for _ in range(n))
    if rng.random() < 0.15:
        body = body[:rng.randrange(0, 3)]
    dcs = (256 - sum(body)) % 256 if rng.random() < 0.85 else rng.randrange(256)
    tail = bytes([dcs, 0 if rng.random() < 0.9 else rng.randrange(256)])
    ln = len(body) if rng.random() < 0.85 else rng.randrange(0, 300)
    if len(body) > 255 or rng.random() < 0.25:
        hi, lo = (ln >> 8) & 255, ln & 255
        lcs = (256 - hi - lo) % 256 if rng.random() < 0.9 else rng.randrange(256)
        head = b"\x00\x00\xff\xff\xff" + bytes([hi, lo, lcs])
    else:
        ln &= 255
        head = b"\x00\x00\xff" + bytes([ln, (256 - ln) % 256 if rng.random() < 0.9 else rng.randrange(256)])
    f = head + body + tail
    if rng.random() < 0.1:
        f = f[:rng.randrange(0, len(f) + 1)]
    if rng.random() < 0.05:
        f = bytes([rng.randrange(256)]) + f[1:]
    return f


def inputs(rng, sp):
    out = []
    if sp.lean == "pn53x_build":
        for n in (0, 1, 252, 253, 254, 255, 256, 263, 300, 509, 510, 511):
            out.append(([rng.randrange(256), bytes(rng.randrange(256) for _ in range(n))], []))
        for c in (-1, 0, 255, 256):
            out.append(([c, b"\x01\x02"], []))
    if sp.lean == "pn532_set_baudrate_frame":
        for b in (9600, 115200, 230400, 460800, 921600, 1288000, 0):
            out.append(([b], []))
    if sp.lean in ("pn53x_ack_sof_check", "pn53x_is_ack"):
        for f in (b"\x00\x00\xff\x00\xff\x00", b"\x00\x00\xff\x00\xff", b"\x00\x00\xff\x00\xff\x00\x00", b"\x00\x00\xff", b"\x00\x00",
                  b"\x00\x00\xfe\x00\xff\x00", b"\x00\x00\xff\xff\x00\x00"):
            out.append(([f], []))
    if sp.lean in ("pn53x_strip", "pn53x_accept", "pn53x_body"):
        for _ in range(150):
            cmd = rng.randrange(0, 255)
            f = _resp(rng, cmd)
            if sp.lean == "pn53x_strip":
                out.append(([f], []))
            elif sp.lean == "pn53x_accept":
                out.append(([f, cmd], []))
            else:
                k = 8 if f.startswith(b"\x00\x00\xff\xff\xff") else 5
                out.append(([f[k:], cmd], []))
    return out


MUTATIONS = [
    ("pn53x_build", "normal/extended switch", "len(cmd_data) < 254", "len(cmd_data) < 255"),
    ("pn53x_build", "LEN without TFI and command code", "bytearray([len(cmd_data)+2])", "bytearray([len(cmd_data)+1])"),
    ("pn53x_build", "LCS off by one", "bytearray([254-len(cmd_data)])", "bytearray([255-len(cmd_data)])"),
    ("pn53x_build", "byte order of the extended length", 'pack(">H", len(cmd_data)+2)', 'pack("<H", len(cmd_data)+2)'),
    ("pn53x_build", "extended LCS over one octet only", "sum(head[-2:])", "sum(head[-1:])"),
    ("pn53x_build", "TFI constant", "bytearray([0xD4, cmd_code])", "bytearray([0xD5, cmd_code])"),
    ("pn53x_build", "DCS not negated", "(256 - sum(data)) & 0xFF, 0", "sum(data) & 0xFF, 0"),
    ("pn53x_build", "postamble", "& 0xFF, 0])", "& 0xFF, 1])"),
    ("pn53x_strip", "extended length checksum over two octets", "sum(frame[5:8])", "sum(frame[5:7])"),
    ("pn53x_strip", "extended length off by one", "len(frame) - 10", "len(frame) - 9"),
    ("pn53x_strip", "extended header removal", "del frame[0:8]", "del frame[0:7]"),
    ("pn53x_strip", "normal LCS dropped", "if sum(frame[3:5]) & 0xFF != 0:", "if sum(frame[3:4]) & 0x00 != 0:"),
    ("pn53x_strip", "normal length compared to wrong constant", "frame[3] != len(frame) - 7", "frame[3] != len(frame) - 6"),
    ("pn53x_strip", "normal length check relaxed to an upper bound", "frame[3] != len(frame) - 7", "frame[3] > len(frame) - 7"),
    ("pn53x_strip", "minimum length of a normal frame", "len(frame) < 7", "len(frame) < 6"),
    ("pn532_init_frames", "GetFirmwareVersion checksum", '"0000ff02fed4022a00"', '"0000ff02fed4022b00"'),
    ("pn532_init_frames", "SAMConfiguration mode", '"0000ff05fbd4140100001700"', '"0000ff05fbd4140200001600"'),
    ("pn532_set_baudrate_frame", "rate code base", "5 + (230400, 460800, 921600)", "4 + (230400, 460800, 921600)"),
    ("pn532_set_baudrate_frame", "rate table order", "(230400, 460800, 921600).index", "(460800, 230400, 921600).index"),
    ("pn532_set_baudrate_frame", "checksum over two octets", "sum(set_baudrate_cmd[5:8])", "sum(set_baudrate_cmd[6:8])"),
    ("pn532_set_baudrate_frame", "checksum written into the postamble", "set_baudrate_cmd[8] = 256", "set_baudrate_cmd[9] = 256"),
    ("pn53x_body", "postamble check dropped", "if len(frame) < 3 or frame[-1] != 0:", "if len(frame) < 3:"),
    ("pn53x_body", "data checksum mask", "if not sum(frame) & 0xFF == 0:", "if not sum(frame) & 0x7F == 0:"),
    ("pn53x_body", "error frame TFI", "if frame[0] == 0x7F:", "if frame[0] == 0x7E:"),
    ("pn53x_body", "response code not incremented", "frame[1] == cmd_code + 1", "frame[1] == cmd_code"),
    ("pn53x_body", "payload keeps the checksum", "return frame[2:-2]", "return frame[2:-1]"),
    ("pn53x_accept", "TFI of a response", "not frame[0] == 0xD5", "not frame[0] == 0xD4"),
    ("pn53x_accept", "error code reported by the error frame", "self.chipset_error(0x7F)", "self.chipset_error(0x7E)"),
    ("pn53x_chipset_error_opt", "errno for a missing response", "errno = 0xff", "errno = 0xfe"),
    ("pn53x_chipset_error_bytes", "status octet position", "errno = cause[0]", "errno = cause[1]"),
    ("pn53x_ack_sof_check", "start code test dropped for short frames", "if not frame.startswith(self.SOF):", "if len(frame) > 3 and not frame.startswith(self.SOF):"),
    ("pn53x_is_ack", "ACK compared by prefix", "while frame == self.ACK:", "while frame.startswith(self.ACK):"),
    ("pn53x_is_ack", "ACK loop condition gains an operand", "while frame == self.ACK:", "while frame == self.ACK or len(frame) < 6:"),
    ("pn53x_is_ack", "ACK loop condition gains a conjunct", "while frame == self.ACK:", "while frame == self.ACK and timeout < 60:"),
    ("pn53x_strip", "NEUTRAL mask spelling", "sum(frame[5:8]) & 0xFF", "sum(frame[5:8]) & 255"),
]
