"""group Transport: nfc/clf/transport.py `TTY.read/write/find`, `USB.read/write/find` -> Model/FnTransportRef.lean (C14, C13)

No model existed for this file (the C13 / C14 models start at `transport.read` / `transport.write`).  The reference
`Model/FnTransportRef.lean` is a program over `tty.read(n)` with two interpretations: every read answered by a pure
function (what the translator produces: pyserial / libusb1 methods are function parameters) and the serial line as the
list of octets still to come (what the property theorems are about).

The reference models the REPAIRED `TTY.read` (fixes/C13/0004, finding `tty-short-read-internal-error`); on the unrepaired
source `tty_read_bridge` / `tty_read_chunks_bridge` fail.

Cuts (every one named in the spec's note): the tests `if self.tty is not None:` / `if self.usb_inp is not None:` /
`if self.usb_out is not None:` around every method body (the attribute holds a pyserial / libusb1 object), the float
arithmetic `self.tty.timeout = max(timeout/1E3, 0.05)`, the `try` statements whose handlers name pyserial / libusb1
exception classes (their flow is the exception-flow group `transport`; translated are the bodies of the `try`
statements and the statements behind them), in `find` everything that touches the file system, the libusb1 device list
or formats a regular expression; the regular expression tests themselves are Boolean parameters.
"""
import ast

from translate_fn import Spec, INT, BYTES, BOOL, STR

GROUP = "Transport"
ORDER = 65
F = "clf/transport.py"


def _n(text):
    """the source text of an expression as `ast.unparse` prints it (raw string literals, quotes)"""
    return ast.unparse(ast.parse(text, mode="eval").body)


_G2 = "match.group(2)"
SPECS = [
    Spec(GROUP, "tty_read", F, "TTY.read", [], path=[(0, "body")], stmts=(1, 10),
         opaque={"self.tty.read": ("rd", [INT], BYTES, True)},
         note="cut: inside `if self.tty is not None:` everything behind `self.tty.timeout = max(timeout/1E3, 0.05)` "
              "(float): the three `tty.read` calls, the ACK shortcut, the header length tests of fixes/C13/0004, LEN / "
              "extended LEN, the assembly of the frame; "
              "pyserial's `read` is the function parameter `rd` (pure: consecutive calls are not tied to one line, "
              "see Model/FnTransportRef.lean `RdProg`)"),
    Spec(GROUP, "tty_read_chunks", F, "TTY.read", [], path=[(0, "body")], stmts=(1, 10),
         binds=[("self.tty.read(6)", "c6", BYTES), ("self.tty.read(3)", "c3", BYTES), ("self.tty.read(LEN + 1)", "cn", BYTES)],
         note="cut: the same statements with the RESULTS of the three `tty.read` calls as parameters (the counts 6, 3, "
              "`LEN + 1` are part of the bound texts; `tty_read` has them as arguments of `rd`)"),
    Spec(GROUP, "tty_write_flush", F, "TTY.write", [("frame", BYTES)], path=[(0, "body")], stmts=(1, 2),
         opaque={"self.tty.flushInput": ("flush", [], INT, True)},
         note="cut: inside `if self.tty is not None:` the statement in front of the `try`: `self.tty.flushInput()`"),
    Spec(GROUP, "tty_write_body", F, "TTY.write", [("frame", BYTES)], path=[(0, "body"), (2, "body")],
         opaque={"self.tty.write": ("wr", [BYTES], INT, True)},
         note="cut: the body of the `try` statement: `self.tty.write(frame)`; the handler `except "
              "serial.SerialTimeoutException: raise IOError(EIO)` is exception flow (group transport of translate_exc)"),
    Spec(GROUP, "usb_read_xfer", F, "USB.read", [("timeout", INT)], path=[(0, "body"), (0, "body")], result=["frame"],
         opaque={"self.usb_inp.getAddress": ("addr", [], INT, True), "self.usb_dev.bulkRead": ("br", [INT, INT, INT], BYTES, True)},
         note="cut: the body of the `try` statement (endpoint address, `bulkRead(ep_addr, 300, timeout)`); the three "
              "libusb1 handlers are exception flow; result: `frame`"),
    Spec(GROUP, "usb_read_check", F, "USB.read", [("frame", BYTES)], path=[(0, "body")], stmts=(1, 5),
         note="cut: the statements behind the `try` statement: zero-length bulk read -> IOError(EIO), else the frame; "
              "parameter `frame` is what `bulkRead` returned"),
    Spec(GROUP, "usb_write", F, "USB.write", [("frame", BYTES), ("timeout", INT)], path=[(0, "body"), (1, "body")],
         opaque={"self.usb_out.getAddress": ("addr", [], INT, True), "self.usb_dev.bulkWrite": ("bw", [INT, BYTES, INT], INT, True),
                 "self.usb_out.getMaxPacketSize": ("mps", [], INT, True)},
         note="cut: the body of the `try` statement (the frame, then the zero-length packet after a multiple of the "
              "packet size); the three libusb1 handlers are exception flow"),
    Spec(GROUP, "usb_write_zlp", F, "USB.write", [("frame", BYTES)], expr="len(frame) % self.usb_out.getMaxPacketSize() == 0",
         whole=True, binds=[("self.usb_out.getMaxPacketSize()", "mps", INT)],
         note="cut: the condition of the zero-length packet, the packet size as an int parameter"),
    Spec(GROUP, "tty_find_guard", F, "TTY.find", [("path", STR)],
         expr='not (path.startswith("tty") or path.startswith("com"))', whole=True,
         note="cut: the condition of the first `if` (a path for another transport: `return` None)"),
    Spec(GROUP, "tty_find_sel_tty", F, "TTY.find", [("match", BOOL)], expr='match and match.group(1) == "tty"', whole=True,
         binds=[("match.group(1)", "g1", STR)],
         note="cut: the condition that selects the `tty` branch; the match object is its truth value (parameter `match`) and `group(1)`"),
    Spec(GROUP, "tty_find_sel_com", F, "TTY.find", [("match", BOOL)], expr='match and match.group(1) == "com"', whole=True,
         binds=[("match.group(1)", "g1", STR)],
         note="cut: the condition that selects the `com` branch"),
    Spec(GROUP, "tty_find_glob", F, "TTY.find", [], path=[(2, "body")], stmts=(0, 1), result=["glob"], drop=["TTYS ="],
         binds=[(_n(r"re.match(r'^(S|ACM|AMA|USB)\d+$', %s)" % _G2), "m_num", BOOL),
                (_n(r"re.match(r'^(S|ACM|AMA|USB)$', %s)" % _G2), "m_cls", BOOL),
                (_n(r"re.match(r'^usbserial-\w+$', %s)" % _G2), "m_usbn", BOOL),
                (_n(r"re.match(r'^usbserial$', %s)" % _G2), "m_usb", BOOL),
                (_n(r"re.match(r'^.+$', %s)" % _G2), "m_any", BOOL)],
         note="cut: inside the `tty` branch the if / elif chain over the second path component; the five regular "
              "expression tests are Boolean parameters (their truth values), the `TTYS = re.compile(..)` assignments are "
              "dropped; result: `glob` (an IOError on opening a node is propagated only when `glob` is false)"),
    Spec(GROUP, "usb_find_guard", F, "USB.find", [("path", STR)], expr='not path.startswith("usb")', whole=True,
         note="cut: the condition of the first `if` (a path for another transport: `return` None)"),
]
P = "NfcVerif.FnBridge.Transport."
BRIDGE = {
    "module": "NfcVerif.Props.FnBridgeTransport",
    "theorems": [P + t for t in (
        "tty_read_bridge", "tty_read_chunks_bridge", "tty_write_bridge", "usb_read_xfer_bridge", "usb_read_check_bridge",
        "usb_write_bridge", "usb_write_zlp_bridge", "tty_find_guard_bridge", "tty_find_sel_bridge", "tty_find_glob_bridge",
        "usb_find_guard_bridge",
        "read_splits", "read_errors", "read_returns_frame_partial",
        "read_normal255_counterexample", "read_short_rejected", "read_then_accept", "usb_write_transfers",
        "usb_write_terminated", "usb_read_nonempty")],
    "properties": ["C14", "C13"],
}


def _frame(rng, n=None):
    """a response frame (normal or extended), well formed"""
    n = rng.choice([0, 1, 2, 5, 20, 250, 251, 252, 253, 254, 255, 256, 300]) if n is None else n
    body = bytes([0xD5, rng.randrange(256)]) + bytes(rng.randrange(256) for _ in range(n))
    tail = bytes([(256 - sum(body)) % 256, 0])
    ln = len(body)
    if ln > 255 or rng.random() < 0.25:
        hi, lo = ln >> 8, ln & 255
        head = b"\x00\x00\xff\xff\xff" + bytes([hi, lo, (256 - hi - lo) % 256])
    else:
        head = b"\x00\x00\xff" + bytes([ln, (256 - ln) % 256])
    return head + body + tail


def _line_chunks(s):
    """what the three reads of `TTY.read` deliver from a line that holds the octets `s`"""
    c6, s = s[:6], s[6:]
    c3, cn = b"", b""
    if len(c6) >= 4 and not c6.startswith(b"\x00\x00\xff\x00\xff\x00"):
        ln = c6[3]
        if ln == 0xFF:
            c3, s = s[:3], s[3:]
            f = c6 + c3
            ln = (f[5] << 8 | f[6]) if len(f) >= 7 else 0
        cn = s[:ln + 1]
    return [c6, c3, cn]


def inputs(rng, sp):
    out = []
    if sp.lean == "tty_read_chunks":
        ack = b"\x00\x00\xff\x00\xff\x00"
        for s in (b"", ack, ack + b"\x00\x00\xff", ack[:5], b"\x00", b"\x00\x00\xff", b"\x00\x00\xff\x05", b"\x00\x00\xff\xff\xff",
                  b"\x00\x00\xff\xff\xff\x00", b"\x00\x00\xff\xff\xff\x00\x01", b"\x00\x00\xff\xff\x01\xd5\x03"):
            out.append(([], _line_chunks(s)))
        for _ in range(150):
            s = _frame(rng) + (_frame(rng, 3) if rng.random() < 0.5 else b"")
            if rng.random() < 0.3:
                s = s[:rng.randrange(0, len(s) + 1)]
            if rng.random() < 0.1:
                s = bytes([rng.randrange(256)]) + s[1:]
            ch = _line_chunks(s)
            if rng.random() < 0.2:          # chunks that are not consecutive octets of one line
                ch[rng.randrange(3)] = bytes(rng.randrange(256) for _ in range(rng.randrange(0, 9)))
            out.append(([], ch))
    if sp.lean in ("usb_write", "usb_write_zlp"):
        for n in (0, 1, 7, 8, 9, 63, 64, 65, 128, 255, 256, 300, 512):
            f = bytes(rng.randrange(256) for _ in range(n))
            if sp.lean == "usb_write":
                out += [([f, t], []) for t in (0, 100)]
            else:
                out += [([f], [m]) for m in (64, 8, 1, 512, 0, 7, -8, -7)]
    if sp.lean == "usb_read_check":
        out += [([f], []) for f in (b"", b"\x00", b"\x00\x00\xff\x00\xff\x00", bytes(300))]
    if sp.lean == "usb_read_xfer":
        out += [([t], []) for t in (0, 1, 100, 1000, -1)]
    if sp.lean in ("tty_find_guard", "usb_find_guard"):
        out += [([p], []) for p in ("tty", "tty:USB0", "com", "com:3", "usb", "usb:054c:02e1", "udp", "", "t", "ty", "co", "us",
                                    "ttx", "xtty", "usbx", "tt", "Tty", "comx", "ttyS")]
    if sp.lean in ("tty_find_sel_tty", "tty_find_sel_com"):
        out += [([m], [g]) for m in (False, True) for g in ("tty", "com", "usb", "", "ttyx")]
    if sp.lean == "tty_find_glob":
        out += [([], [bool(k >> 4 & 1), bool(k >> 3 & 1), bool(k >> 2 & 1), bool(k >> 1 & 1), bool(k & 1)]) for k in range(32)]
    return out


MUTATIONS = [
    ("tty_read", "header length test dropped (reverts fixes/C13/0004: IndexError on a short header)",
     "if len(frame) < 6:", "if len(frame) < 0:"),
    ("tty_read", "extended header length test dropped (reverts fixes/C13/0004)", "if len(frame) < 9:", "if len(frame) < 0:"),
    ("tty_read", "extended header length test one octet short (frame[6] still read)", "if len(frame) < 9:", "if len(frame) < 6:"),
    ("tty_read_chunks", "short header reported as a timeout", "if len(frame) < 6:\n                raise IOError(errno.EIO, os.strerror(errno.EIO))",
     "if len(frame) < 6:\n                raise IOError(errno.ETIMEDOUT, os.strerror(errno.ETIMEDOUT))"),
    ("tty_read", "first read one octet short", "self.tty.read(6)", "self.tty.read(5)"),
    ("tty_read", "LEN taken from the LCS position", "LEN = frame[3]", "LEN = frame[4]"),
    ("tty_read", "DCS and postamble: one octet missing", "self.tty.read(LEN + 1)", "self.tty.read(LEN)"),
    ("tty_read", "reads one octet beyond the frame", "self.tty.read(LEN + 1)", "self.tty.read(LEN + 2)"),
    ("tty_read", "extended header read short", "frame += self.tty.read(3)", "frame += self.tty.read(2)"),
    ("tty_read", "extended length byte order", "LEN = frame[5] << 8 | frame[6]", "LEN = frame[6] << 8 | frame[5]"),
    ("tty_read", "extended length from the wrong octets", "LEN = frame[5] << 8 | frame[6]", "LEN = frame[6] << 8 | frame[7]"),
    ("tty_read", "extended marker constant", "if LEN == 0xFF:", "if LEN == 0xFE:"),
    ("tty_read", "ACK shortcut dropped", 'if frame.startswith(b"\\x00\\x00\\xff\\x00\\xff\\x00"):',
     'if frame.startswith(b"\\x00\\x00\\xff\\x00\\xff\\x00\\x00"):'),
    ("tty_read", "ACK literal", 'b"\\x00\\x00\\xff\\x00\\xff\\x00"', 'b"\\x00\\x00\\xff\\xff\\x00\\x00"'),
    ("tty_read", "silent line reported as EIO", "raise IOError(errno.ETIMEDOUT, os.strerror(errno.ETIMEDOUT))\n            if frame.startswith",
     "raise IOError(errno.EIO, os.strerror(errno.EIO))\n            if frame.startswith"),
    ("tty_read", "last chunk replaces the frame", "frame += self.tty.read(LEN + 1)", "frame = self.tty.read(LEN + 1)"),
    ("tty_read_chunks", "chunk variant: LEN position", "LEN = frame[3]", "LEN = frame[2]"),
    ("usb_read_check", "zero-length read returned", "if len(frame) == 0:\n                log.error(\"bulk read", "if len(frame) < 0:\n                log.error(\"bulk read"),
    ("usb_read_check", "zero-length read reported as timeout", "raise IOError(errno.EIO, os.strerror(errno.EIO))\n\n            frame = bytearray(frame)",
     "raise IOError(errno.ETIMEDOUT, os.strerror(errno.ETIMEDOUT))\n\n            frame = bytearray(frame)"),
    ("usb_read_xfer", "bulk read size", "bulkRead(ep_addr, 300, timeout)", "bulkRead(ep_addr, 256, timeout)"),
    ("usb_read_xfer", "timeout not passed on", "bulkRead(ep_addr, 300, timeout)", "bulkRead(ep_addr, 300, 0)"),
    ("usb_write", "zero-length packet dropped", "if len(frame) % self.usb_out.getMaxPacketSize() == 0:",
     "if len(frame) % self.usb_out.getMaxPacketSize() == 1:"),
    ("usb_write", "zero-length packet sent always", "if len(frame) % self.usb_out.getMaxPacketSize() == 0:",
     "if len(frame) % self.usb_out.getMaxPacketSize() >= 0:"),
    ("usb_write", "terminator is not empty", "self.usb_dev.bulkWrite(ep_addr, b'', timeout)", "self.usb_dev.bulkWrite(ep_addr, b'\\x00', timeout)"),
    ("usb_write", "frame written twice", "self.usb_dev.bulkWrite(ep_addr, b'', timeout)", "self.usb_dev.bulkWrite(ep_addr, bytes(frame), timeout)"),
    ("usb_write_zlp", "packet size off by one", "len(frame) % self.usb_out.getMaxPacketSize() == 0", "(len(frame) + 1) % self.usb_out.getMaxPacketSize() == 0"),
    ("tty_write_body", "frame truncated", "self.tty.write(frame)", "self.tty.write(frame[:-1])"),
    ("tty_write_flush", "output flushed instead of input", "self.tty.flushInput()\n            try:", "self.tty.flushOutput()\n            try:"),
    ("tty_find_guard", "com paths not recognised", 'path.startswith("tty") or path.startswith("com")', 'path.startswith("tty") or path.startswith("con")'),
    ("tty_find_glob", "class of nodes not a glob", "TTYS = re.compile(r'^tty{}\\d+$'.format(match.group(2)))\n                glob = True",
     "TTYS = re.compile(r'^tty{}\\d+$'.format(match.group(2)))\n                glob = False"),
    ("tty_find_glob", "NEUTRAL pattern of the default case", "r'^(tty(S|ACM|AMA|USB)\\d+|cu\\.usbserial.*)$'", "r'^(tty(S|ACM|AMA|USB)\\d+|cu\\.usbserial-.*)$'"),
    ("usb_find_guard", "prefix test inverted", 'if not path.startswith("usb"):', 'if path.startswith("usb"):'),
]
