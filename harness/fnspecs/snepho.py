"""group SnepHo: the control skeletons of SNEP and connection handover that groups Snep / HoClient left to hand-written
compositions: nfc/snep/client.py (`recv_response` whole, `SnepClient.put_octets` / `get_octets` connection decision,
`release_connection` bookkeeping and `finally`, `connect`, `close`), nfc/snep/server.py (`_listen` accept loop, `_serve`
response fragmentation / first statement of the more-fragments branch / reassembly `+=`, `process_snep_request` dispatch
and handlers), nfc/handover/server.py (`listen` accept loop, `serve`: position of the empty-buffer guard, decoder modes,
response fragment loop), nfc/handover/client.py (`close`, the closed-connection result of `recv_octets`)
-> Model/FnSnepHoRef.lean (reference definitions + property facts), Model/SnepObj.lean (`request`), Model/Snep.lean,
Model/SnepChannel.lean (`chunks`, `fragments`) (C06, C07, C09).

Groups Snep and HoClient have the conditions, slices, constants and `+=` statements one by one (`expr=` cuts) and
`send_request` / `send_octets` over pure oracles.  Here whole statements / loops / functions are translated with
MONADIC oracle sockets (`send : Bytes -> Py Bool`, `recv : Py Bytes`, `poll : str -> int -> Py Bool`, `accept : Py Int`:
an answer or any exception), so the bridge theorems - which hold for every oracle - pin the nesting and order of the
decisions and socket calls: where the acceptable-length test sits relative to the Continue request, that the accept
loop has no handler of its own, which branch sets `release_connection` to what.
A pure oracle cannot have state: every call of one run gets the same answer (so `recv()` twice yields the same octets);
the state machines of C06 (`Model/Snep.lean`) remain tied through groups Snep / HoClient and the differential runs.

Not translated (translator refuses; cut around as documented in the notes): the `while` of `_serve` / `serve` /
`recv_octets` as a whole (`try .. except ..: break|continue|return` inside), `try .. finally`, `try .. except ConnectRefused:
return ..` of put_octets / get_octets (cut into test, the two `release_connection` assignments and the `finally` body),
`raise SnepError(response[1])` (`SnepError.__init__` builds a tuple from a dict lookup; the status test is
`snep_cli_put_status` / `snep_cli_get_status` of group Snep), keyword arguments of `ndef.message_decoder` (bound as a
parameter), `threading.Thread(target=.., args=..)` (bound as a parameter).
"""
from translate_fn import Spec, INT, BOOL, BYTES, STR, OPT, LIST, NONE
GROUP = "SnepHo"
ORDER = 73
SC, SS, HC, HS = "snep/client.py", "snep/server.py", "handover/client.py", "handover/server.py"
_CSOCKM = {"client_socket.send": ("send", [BYTES], BOOL, True), "client_socket.recv": ("recv", [], BYTES, True)}
_SOCKM = {"socket.send": ("send", [BYTES], BOOL, True), "socket.recv": ("recv", [], BYTES, True),
          "socket.poll": ("poll", [STR, INT], BOOL, True)}
_REQ = {"send_request": ("send_request", [INT, BYTES, INT], BOOL, True), "recv_response": ("recv_response", [INT, INT, INT], OPT(BYTES), True)}
LOOP = [(3, "body"), (0, "body")]
SPECS = [
    Spec(GROUP, "sh_recv_response", SC, "recv_response", [("acceptable_length", INT), ("timeout", INT)], opaque=_SOCKM, ret=OPT(BYTES), stmts=(0, 1),
         note='whole function body (the parameter `socket` is only the receiver of the oracle calls); `socket.poll` / `socket.recv` / `socket.send` are monadic oracle parameters (any answer or exception; one run gets the same answer from every call), `socket` itself is only their receiver; `timeout` (a float in real use) as an int token handed through to `poll`'),
    Spec(GROUP, "sh_srv_respond", SS, "SnepServer._serve", [("data", BYTES), ("send_miu", INT)], path=LOOP, stmts=[8], opaque=_CSOCKM,
         note='cut: statement 8 of the serve loop body (the response fragmentation `if len(data) <= send_miu: .. else: ..`); `client_socket.send` / `client_socket.recv` are monadic oracle parameters'),
    Spec(GROUP, "sh_srv_append", SS, "SnepServer._serve", [("data", BYTES)], binds=[("client_socket.recv()", "received", BYTES)],
         path=LOOP + [(6, "body"), (1, "body"), (0, "body")], stmts=[0], result=["data"], note='cut: the statement `data += client_socket.recv()` of the `try` inside the reassembly loop (path: serve loop body -> statement 6 (`if len(data) - 6 < length`) -> statement 1 (`while`) -> statement 0 (`try`) body); the received octets are the parameter `received`; result: data. The enclosing `try .. except TypeError: break` and the `while` are not translated (handler is a `break`)'),
    Spec(GROUP, "sh_srv_more_first", SS, "SnepServer._serve", [], path=LOOP + [(6, "body")], stmts=[0], whole=True,
         expr='client_socket.send(b"\\x10\\x80\\x00\\x00\\x00\\x00")', opaque=_CSOCKM, note='cut: the FIRST statement of the more-fragments branch (`if len(data) - 6 < length:` = statement 6 of the serve loop body) is the Continue response; with `snep_srv_too_long` (group Snep, pinned to statement 5) this fixes that the acceptable-length test sits in front of, not inside, that branch'),
    Spec(GROUP, "sh_listen_loop", SS, "SnepServer._listen", [], path=[(0, "body")],
         opaque={"listen_socket.accept": ("accept", [], INT, True), "client_thread.start": ("start", [], NONE, True)},
         binds=[("threading.Thread(target=self._serve, args=(client_socket,))", "client_thread", INT)],
         note='cut: the `try` body of `_listen` (the `while True` accept loop; the `except nfc.llcp.Error` / `finally` around it are the exception-flow tie); `listen_socket.accept` and `client_thread.start` are monadic oracle parameters, the `threading.Thread(..)` constructor call is the parameter `client_thread`'),
    Spec(GROUP, "sh_ho_listen_loop", HS, "HandoverServer.listen", [], path=[(1, "body")],
         opaque={"socket.accept": ("accept", [], INT, True), "client_thread.start": ("start", [], NONE, True)},
         binds=[("threading.Thread(target=self.serve, args=(client_socket,))", "client_thread", INT)],
         note='cut: the `try` body of `HandoverServer.listen` (statement 1; same shape as `sh_listen_loop`)'),
    Spec(GROUP, "sh_listen_debug", SS, "SnepServer._listen", [], binds=[("error.errno", "err", INT)], expr="error.errno == errno.EPIPE", note='cut: the condition of the handler of `_listen` that selects the log level (EPIPE = 32 is logged at debug level, every other errno as an error; both END the thread); `error.errno` is the parameter'),
    Spec(GROUP, "sh_put_need_connect", SC, "SnepClient.put_octets", [], binds=[("self.socket", "sock", OPT(INT))], stmts=[0], whole=True, expr="not self.socket", note='cut: the test `not self.socket` of statement 0 of `put_octets`; `self.socket` as None / a truthy marker'),
    Spec(GROUP, "sh_put_release_opened", SC, "SnepClient.put_octets", [], stores=["self.release_connection"], path=[(0, "body"), (0, "orelse")], result=["self.release_connection"], note='cut: the `else` clause of the `try` around `self.connect(..)` in `put_octets` (the connection was opened by this call); result: self.release_connection'),
    Spec(GROUP, "sh_put_release_kept", SC, "SnepClient.put_octets", [], stores=["self.release_connection"], path=[(0, "orelse")], result=["self.release_connection"], note='cut: the `else` clause of `if not self.socket:` in `put_octets` (the client was already connected); result: self.release_connection'),
    Spec(GROUP, "sh_put_finally", SC, "SnepClient.put_octets", [], binds=[("self.release_connection", "release", BOOL)], path=[(1, "finalbody")],
         opaque={"self.close": ("close", [], NONE, True)}, note='cut: the `finally` clause of `put_octets`; `self.close` is a monadic oracle parameter, `self.release_connection` the parameter `release`'),
    Spec(GROUP, "sh_close", SC, "SnepClient.close", [], binds=[("self.socket", "sock", OPT(INT))], stores=["self.socket"],
         opaque={"self.socket.close": ("sclose", [], NONE, True)}, result=["self.socket"], note='whole method `SnepClient.close`; `self.socket` as None / marker (read and stored), `self.socket.close` a monadic oracle parameter; result: self.socket'),
    Spec(GROUP, "sh_ho_guard", HS, "HandoverServer.serve", [("request", BYTES)], path=LOOP + [(1, "body")], stmts=[1], whole=True, expr="len(request) == 0", note='cut: the test of statement 1 of the inner loop body of `serve` (directly behind `request += socket.recv()`, in front of the completeness test): `len(request) == 0`'),
    Spec(GROUP, "sh_ho_complete_mode", HS, "HandoverServer.serve", [], path=LOOP + [(1, "body")], stmts=[2], expr="'strict'", note="cut: the decoder mode string in statement 2 of the inner loop body of `serve` (the completeness test decodes 'strict')"),
    Spec(GROUP, "sh_ho_process_mode", HS, "HandoverServer._process_request_data", [], stmts=[1], expr="'relax'", note="cut: the decoder mode string in statement 1 of `_process_request_data` ('relax')"),
    Spec(GROUP, "sh_ho_respond", HS, "HandoverServer.serve", [("response", BYTES), ("send_miu", INT)], path=LOOP + [(1, "body")], stmts=[4],
         opaque={"socket.send": ("send", [BYTES], BOOL, True)}, ret=OPT(INT), note='cut: statement 4 of the inner loop body of `serve` (the response fragment loop with its `return` on a refused send; both exits yield None); `socket.send` is a monadic oracle parameter'),
    Spec(GROUP, "sh_process", SS, "SnepServer.process_snep_request", [("request_data", BYTES)], path=[(2, "body")], stmts=[0],
         binds=[("list(ndef.message_decoder(octets, known_types={}))", "records", INT), ("isinstance(response, int)", "is_int", BOOL),
                ("b''.join(ndef.message_encoder(response))", "encoded", BYTES)],
         opaque={"self.process_get_request": ("on_get", [INT], INT, True), "self.process_put_request": ("on_put", [INT], INT, True)},
         result=["response_code", "response_data"], note="cut: the `try` body of `process_snep_request` (GET / PUT / bad request dispatch, acceptable length of the GET response); `list(ndef.message_decoder(..))`, `isinstance(response, int)` and `b''.join(ndef.message_encoder(response))` are the parameters `records` (a token), `is_int`, `encoded`; `self.process_get_request` / `self.process_put_request` monadic oracle parameters; the ndef exceptions are the handlers `sh_process_bad` / `sh_process_notfound`; result: response_code, response_data"),
    Spec(GROUP, "sh_get_need_connect", SC, "SnepClient.get_octets", [], binds=[("self.socket", "sock", OPT(INT))], stmts=[1], whole=True, expr="not self.socket", note='cut: the test `not self.socket` of statement 1 of `get_octets`'),
    Spec(GROUP, "sh_get_release_opened", SC, "SnepClient.get_octets", [], stores=["self.release_connection"], path=[(1, "body"), (0, "orelse")], result=["self.release_connection"], note='cut: the `else` clause of the `try` around `self.connect(..)` in `get_octets`; result: self.release_connection'),
    Spec(GROUP, "sh_get_release_kept", SC, "SnepClient.get_octets", [], stores=["self.release_connection"], path=[(1, "orelse")], result=["self.release_connection"], note='cut: the `else` clause of `if not self.socket:` in `get_octets`; result: self.release_connection'),
    Spec(GROUP, "sh_get_finally", SC, "SnepClient.get_octets", [], binds=[("self.release_connection", "release", BOOL)], path=[(2, "finalbody")],
         opaque={"self.close": ("close", [], NONE, True)}, note='cut: the `finally` clause of `get_octets`; `self.close` is a monadic oracle parameter'),
    Spec(GROUP, "sh_connect", SC, "SnepClient.connect", [("service_name", STR)], binds=[("self.llc", "llc", INT), ("nfc.llcp.DATA_LINK_CONNECTION", "dlc", INT), ("nfc.llcp.SO_SNDMIU", "so_sndmiu", INT)],
         stores=["self.socket", "self.send_miu"], result=["self.send_miu"],
         opaque={"self.close": ("close", [], NONE, True), "nfc.llcp.Socket": ("mksock", [INT, INT], INT, True),
                 "self.socket.connect": ("sconnect", [STR], NONE, True), "self.socket.getsockopt": ("getsockopt", [INT], INT, True)}, note='whole method `SnepClient.connect`: close first, new socket, connect, then `send_miu` from the socket; all socket calls are monadic oracle parameters, `self.llc`, `nfc.llcp.DATA_LINK_CONNECTION` / `SO_SNDMIU` int tokens; result: self.send_miu'),
    Spec(GROUP, "sh_ho_recv_closed", HC, "HandoverClient.recv_octets", [], path=[(2, "body"), (0, ("handlers", 0))], note='cut: the `except TypeError` handler of `recv_octets` (recv() returned None: the empty message)'),
    Spec(GROUP, "sh_ho_close", HC, "HandoverClient.close", [], binds=[("self.socket", "sock", OPT(INT))], stores=["self.socket"],
         opaque={"self.socket.close": ("sclose", [], NONE, True)}, result=["self.socket"], note='whole method `HandoverClient.close` (as `sh_close`)'),
    Spec(GROUP, "sh_process_bad", SS, "SnepServer.process_snep_request", [], path=[(2, ("handlers", 0))], result=["response_code", "response_data"], note='cut: the handler `except (ndef.DecodeError, ValueError)` of `process_snep_request`: BadRequest, no data'),
    Spec(GROUP, "sh_process_notfound", SS, "SnepServer.process_snep_request", [], path=[(2, ("handlers", 1))], result=["response_code", "response_data"], note='cut: the handler `except ndef.EncodeError` of `process_snep_request`: NotFound, no data'),
    Spec(GROUP, "sh_srv_first", SS, "SnepServer._serve", [], path=LOOP, stmts=[0], opaque=_CSOCKM, result=["data"], note='cut: statement 0 of the serve loop body `data = bytearray(client_socket.recv())`; `client_socket.recv` is a monadic oracle parameter; result: data'),
    Spec(GROUP, "sh_put_send_test", SC, "SnepClient.put_octets", [("request", BYTES)], binds=[("self.socket", "sock", INT), ("self.send_miu", "send_miu", INT)],
         whole=True, expr="not send_request(self.socket, request, self.send_miu)", opaque=_REQ, note='cut: the whole test `not send_request(self.socket, request, self.send_miu)` of `put_octets`; `self.socket` is an int token; `send_request` / `recv_response` are monadic oracle parameters (translated on their own: `snep_send_request`, `sh_recv_response`)'),
    Spec(GROUP, "sh_get_send_test", SC, "SnepClient.get_octets", [("request", BYTES)], binds=[("self.socket", "sock", INT), ("self.send_miu", "send_miu", INT)],
         whole=True, expr="not send_request(self.socket, request, self.send_miu)", opaque=_REQ, note='cut: the same test in `get_octets`'),
    Spec(GROUP, "sh_put_recv_call", SC, "SnepClient.put_octets", [("timeout", INT)], binds=[("self.socket", "sock", INT)],
         whole=True, expr="recv_response(self.socket, 0, timeout)", opaque=_REQ, note='cut: the whole value `recv_response(self.socket, 0, timeout)` of `put_octets` (acceptable length 0)'),
    Spec(GROUP, "sh_get_recv_call", SC, "SnepClient.get_octets", [("timeout", INT)], binds=[("self.socket", "sock", INT), ("self.acceptable_length", "acceptable_length", INT)],
         whole=True, expr="recv_response(self.socket, self.acceptable_length, timeout)", opaque=_REQ, note='cut: the whole value `recv_response(self.socket, self.acceptable_length, timeout)` of `get_octets`'),
]
P = "NfcVerif.FnBridge.SnepHo."
BRIDGE = {
    "module": "NfcVerif.Props.FnBridgeSnepHo",
    "theorems": [P + t for t in (
        "recv_response_bridge", "srv_respond_bridge", "ho_respond_bridge", "listen_loop_bridge", "ho_listen_loop_bridge",
        "put_release_bridge", "get_release_bridge", "request_release_bridge", "finally_bridge", "close_bridge",
        "connect_bridge", "ho_guard_bridge", "ho_step_bridge", "ho_modes_bridge", "serve_pieces_bridge", "handlers_bridge",
        "exchange_calls_bridge", "process_bridge", "gen_recv_oversize_dropped", "gen_listen_ends_on_any_error",
        "gen_listen_only_exception", "gen_release_iff", "gen_ho_empty_never_processed", "gen_respond_offers_fragments",
        "gen_process_excess")],
    "properties": ["C06", "C07", "C09"],
}


def _b(rng, n):
    return bytes(rng.randrange(256) for _ in range(n))


def _rsp(rng, n, length):
    d = bytearray(_b(rng, n))
    if n >= 6:
        d[0:2] = b"\x10\x81"
        d[2:6] = (length % 2 ** 32).to_bytes(4, "big")
    return bytes(d)


def inputs(rng, sp):
    """functions with oracle (function-valued) parameters are driven by the self-test's deterministic stubs"""
    out = []
    n = sp.lean
    if n == "sh_recv_response":
        out += [([acc, 1], []) for acc in (0, 1, 5, 1024, 2 ** 32)]
    if n == "sh_srv_respond":
        out += [([_b(rng, a), m], []) for a in (0, 1, 6, 7, 128, 129, 300) for m in (1, 6, 7, 128, 2175)]
    if n == "sh_ho_respond":
        out += [([_b(rng, a), m], []) for a in (0, 1, 5, 127, 128, 129, 300) for m in (1, 2, 127, 128, 129, 2175)]
    if n == "sh_srv_append":
        out += [([_b(rng, a)], [_b(rng, b)]) for a in (0, 1, 6, 128) for b in (0, 1, 6, 128)]
    if n == "sh_ho_guard":
        out += [([_b(rng, a)], []) for a in (0, 1, 2, 3, 128)]
    if n == "sh_listen_debug":
        out += [([], [e]) for e in (0, 9, 22, 32, 107, 108)]
    if n in ("sh_put_need_connect", "sh_get_need_connect", "sh_close", "sh_ho_close"):
        out += [([], [v]) for v in (None, 1, 7)]
    if n in ("sh_put_finally", "sh_get_finally"):
        out += [([], [False]), ([], [True])]
    if n == "sh_process":
        for ln in (0, 1, 2, 5, 6, 9, 10, 11, 14):
            for code in (0, 1, 2, 3, 0x81):
                for acc in (0, 2, 3, 2 ** 32 - 1):
                    d = bytearray(_b(rng, ln))
                    if ln >= 2:
                        d[1] = code
                    if ln >= 10:
                        d[6:10] = acc.to_bytes(4, "big")
                    for is_int in (False, True):
                        out.append(([bytes(d)], [7, is_int, _b(rng, 3)]))
    if n in ("sh_put_send_test", "sh_get_send_test"):
        out += [([_b(rng, a)], [5, m]) for a in (0, 1, 128) for m in (1, 128)]
    if n == "sh_put_recv_call":
        out += [([1], [5])]
    if n == "sh_get_recv_call":
        out += [([1], [5, a]) for a in (0, 1024)]
    if n in ("sh_put_release_opened", "sh_put_release_kept", "sh_get_release_opened", "sh_get_release_kept", "sh_ho_complete_mode",
             "sh_ho_process_mode", "sh_ho_recv_closed", "sh_process_bad", "sh_process_notfound", "sh_srv_more_first", "sh_srv_first"):
        out += [([], [])]
    return out


def _seed_c06_r5m1(seg):
    """seed C06-r5m1: the max_acceptable_length check only in the more-fragments branch of `_serve`"""
    l = seg.split("\n")
    i = [k for k, x in enumerate(l) if "if length > self.max_acceptable_length:" in x][0]
    block = l[i:i + 4]
    rest = l[:i] + l[i + 5:]
    j = [k for k, x in enumerate(rest) if "if len(data) - 6 < length:" in x][0]
    return "\n".join(rest[:j + 1] + ["    " + x for x in block] + rest[j + 1:])


MUTATIONS = [
    ("sh_srv_more_first", "seed C06-r5m1: max_acceptable_length checked only in the more-fragments branch", _seed_c06_r5m1, None),
    ("sh_listen_loop", "seed C09-r5m3: accept() errors other than EPIPE are swallowed inside the loop",
     "                client_socket = listen_socket.accept()\n",
     "                try:\n                    client_socket = listen_socket.accept()\n                except nfc.llcp.Error as error:\n"
     "                    if error.errno == errno.EPIPE:\n                        break\n                    continue\n"),
    ("sh_put_release_kept", "seed C06-r4m1: release_connection is never reset (put_octets)",
     "                return False\n            else:\n                self.release_connection = True\n        else:\n            self.release_connection = False\n",
     "                return False\n            self.release_connection = True\n"),
    ("sh_get_release_kept", "seed C06-r4m1: release_connection is never reset (get_octets)",
     "                return None\n            else:\n                self.release_connection = True\n        else:\n            self.release_connection = False\n",
     "                return None\n            self.release_connection = True\n"),
    ("sh_ho_guard", "seed C07-r5m3: the empty-buffer guard of HandoverServer.serve removed",
     "                    if len(request) == 0:\n                        continue  # need some data\n\n", ""),
    ("sh_ho_complete_mode", "seed C06-r5m2: completeness test decodes 'relax'",
     "list(ndef.message_decoder(request, 'strict', {}))", "list(ndef.message_decoder(request, 'relax', {}))"),
    ("sh_recv_response", "acceptable length checked only for fragmented responses",
     "        if length > acceptable_length:\n            log.debug(\"snep response exceeds acceptable length\")\n            return None\n\n        if len(snep_response) - 6 < length:\n",
     "        if len(snep_response) - 6 < length:\n            if length > acceptable_length:\n                return None\n"),
    ("sh_recv_response", "acceptable length off by one", "if length > acceptable_length:", "if length >= acceptable_length:"),
    ("sh_recv_response", "reassembly counts the header", "while len(snep_response) - 6 < length:", "while len(snep_response) < length:"),
    ("sh_recv_response", "Continue request not sent", "            socket.send(b\"\\x10\\x00\\x00\\x00\\x00\\x00\")\n", ""),
    ("sh_srv_respond", "remaining fragments sent without waiting for Continue",
     "if client_socket.recv() == b\"\\x10\\x00\\x00\\x00\\x00\\x00\":", "if client_socket.recv() is not None:"),
    ("sh_srv_respond", "first fragment sent twice", "parts = range(send_miu, len(data), send_miu)", "parts = range(0, len(data), send_miu)"),
    ("sh_ho_respond", "serve goes on after a refused fragment", "                        if not socket.send(fragment):\n                            return  # connection closed\n",
     "                        socket.send(fragment)\n"),
    ("sh_ho_listen_loop", "handover listen loop swallows accept errors",
     "                client_socket = socket.accept()\n",
     "                try:\n                    client_socket = socket.accept()\n                except nfc.llcp.Error:\n                    continue\n"),
    ("sh_put_finally", "connection always closed after put", "            if self.release_connection:\n                self.close()", "            self.close()"),
    ("sh_process", "ExcessData comparison", "if len(response_data) > acceptable_length:", "if len(response_data) >= acceptable_length:"),
    ("sh_process", "PUT accepted for every non-GET code", "elif request_data[1] == 2:", "elif request_data[1] >= 2:"),
    ("sh_close", "socket kept after close", "            self.socket.close()\n            self.socket = None", "            self.socket.close()"),
    ("sh_connect", "connect without closing the old connection", "        self.close()\n        self.socket = nfc.llcp.Socket", "        self.socket = nfc.llcp.Socket"),
    ("sh_get_recv_call", "GET response accepted up to any length", "self.socket, self.acceptable_length, timeout)", "self.socket, 0xFFFFFFFF, timeout)"),
    ("sh_process", "NEUTRAL hex constant in decimal", "response_code = 0xC1", "response_code = 193"),
]
