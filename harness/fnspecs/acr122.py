"""group Acr122: nfc/clf/acr122.py CCID envelope and pseudo APDU -> Model/HostFrame.lean `acr*`/`ccid*` (C14, C13)

Cuts (all documented in the notes): `Chipset.ccid_xfr_block` and `Chipset.command` talk to the transport
between building and checking; the pure slices in front of `transport.write` and behind `transport.read`
are translated, the parameter `frame` of an accept slice is the value the transport returned.  The first
statement of `command` (a `log.log` call that evaluates `self.CMD[cmd_code]`, KeyError for an unknown
command code) is not translated.
"""
from translate_fn import Spec, INT, BYTES

GROUP = "Acr122"
ORDER = 62
F = "clf/acr122.py"
SPECS = [
    Spec(GROUP, "acr122_ccid_build", F, "Chipset.ccid_xfr_block", [("data", BYTES)], stmts=(0, 1), result=["frame"],
         note="cut: the statement in front of `self.transport.write(bytearray(frame))`; result: `frame`"),
    Spec(GROUP, "acr122_cmd_build", F, "Chipset.command", [("cmd_code", INT), ("cmd_data", BYTES)], stmts=(1, 3),
         result=["frame"],
         note="cut: the two statements that build the pseudo APDU handed to `self.ccid_xfr_block`; the logging "
              "statement in front (it evaluates `self.CMD[cmd_code]`) is not translated"),
    Spec(GROUP, "acr122_ccid_accept", F, "Chipset.ccid_xfr_block", [("frame", BYTES)], stmts=(3, 7),
         note="cut: the statements behind `frame = self.transport.read(..)`; parameter `frame` is that value "
              "(a byte string; `None` is not modelled)"),
    Spec(GROUP, "acr122_cmd_accept", F, "Chipset.command", [("frame", BYTES), ("cmd_code", INT)], stmts=(4, 8),
         note="cut: the statements behind `frame = self.ccid_xfr_block(frame, timeout)`; parameter `frame` is that value"),
]
P = "NfcVerif.FnBridge.Acr122."
BRIDGE = {
    "module": "NfcVerif.Props.FnBridgeAcr122",
    "theorems": [P + t for t in (
        "ccid_build_bridge", "cmd_build_bridge", "cmd_build_value", "gen_build_valid",
        "ccid_accept_bridge", "cmd_accept_bridge", "accept_bridge", "gen_accept_sound", "gen_accept_documented")],
    "properties": ["C14", "C13"],
}


def inputs(rng, sp):
    out = []
    if sp.lean == "acr122_cmd_build":
        for n in (252, 253, 254, 255, 256):
            out.append(([rng.randrange(256), bytes(rng.randrange(256) for _ in range(n))], []))
        for c in (-1, 0, 255, 256):
            out.append(([c, b"\x01\x02"], []))
    if sp.lean == "acr122_ccid_accept":
        for _ in range(120):
            body = bytes(rng.randrange(256) for _ in range(rng.randrange(0, 12)))
            n = len(body) if rng.random() < 0.8 else rng.randrange(0, 2 ** 32)
            f = bytes([0x80 if rng.random() < 0.9 else rng.randrange(256)]) + n.to_bytes(4, "little") + \
                bytes(rng.randrange(256) for _ in range(5)) + body
            out.append(([f[:rng.randrange(0, len(f) + 1)] if rng.random() < 0.1 else f], []))
        for k in (1, 2, 256, 65535):      # dwLength right in the low 16 bits only
            body = bytes(rng.randrange(256) for _ in range(3))
            out.append(([b"\x80" + (len(body) + 65536 * k).to_bytes(4, "little") + bytes(5) + body], []))
    if sp.lean == "acr122_cmd_accept":
        for _ in range(120):
            cmd = rng.randrange(0, 255)
            f = bytes([0xD5 if rng.random() < 0.9 else rng.randrange(256), cmd + 1 if rng.random() < 0.9 else rng.randrange(256)]) + \
                bytes(rng.randrange(256) for _ in range(rng.randrange(0, 6))) + \
                bytes([0x90 if rng.random() < 0.9 else 0x63, 0 if rng.random() < 0.9 else rng.randrange(256)])
            out.append(([f[:rng.randrange(0, len(f) + 1)] if rng.random() < 0.15 else f, cmd], []))
    return out


MUTATIONS = [
    ("acr122_ccid_build", "CCID message type", "0x6F", "0x6B"),
    ("acr122_ccid_build", "byte order of dwLength", '"<BI5B"', '">BI5B"'),
    ("acr122_ccid_build", "one RFU octet less", '"<BI5B", 0x6F, len(data), 0, 0, 0, 0, 0', '"<BI4B", 0x6F, len(data), 0, 0, 0, 0'),
    ("acr122_ccid_build", "length off by one", "len(data), 0", "len(data) + 1, 0"),
    ("acr122_cmd_build", "TFI constant", "0xD4", "0xD5"),
    ("acr122_cmd_build", "APDU class byte", "bytearray([0xFF, 0x00, 0x00, 0x00, len(frame)])",
     "bytearray([0xFE, 0x00, 0x00, 0x00, len(frame)])"),
    ("acr122_cmd_build", "Lc without the two header octets", "0x00, len(frame)])", "0x00, len(cmd_data)])"),
    ("acr122_cmd_build", "header appended instead of prepended",
     "bytearray([0xFF, 0x00, 0x00, 0x00, len(frame)]) + frame", "frame + bytearray([0xFF, 0x00, 0x00, 0x00, len(frame)])"),
    ("acr122_ccid_accept", "minimum length", "len(frame) < 10", "len(frame) < 9"),
    ("acr122_ccid_accept", "message type", "frame[0] != 0x80", "frame[0] != 0x81"),
    ("acr122_ccid_accept", "length field position", "memoryview(frame)[1:5]", "memoryview(frame)[2:6]"),
    ("acr122_ccid_accept", "dwLength unpacked as 16 bit", 'struct.unpack("<I", memoryview(frame)[1:5])', 'struct.unpack("<H", memoryview(frame)[1:3])'),
    ("acr122_ccid_accept", "header size in the length check", "10 + struct.unpack", "9 + struct.unpack"),
    ("acr122_ccid_accept", "payload offset", "return frame[10:]", "return frame[9:]"),
    ("acr122_cmd_accept", "response code check dropped", "frame[0] == 0xD5 and frame[1] == cmd_code + 1", "frame[0] == 0xD5"),
    ("acr122_cmd_accept", "status word", "frame[-2] == 0x90 and frame[-1] == 0x00", "frame[-2] == 0x90 or frame[-1] == 0x00"),
    ("acr122_cmd_accept", "payload bounds", "return frame[2:-2]", "return frame[2:-1]"),
    ("acr122_ccid_accept", "message type test gains an operand", "if frame[0] != 0x80:", "if frame[0] != 0x80 and len(frame) > 10:"),
    ("acr122_cmd_accept", "status word test gains an operand", "if not (frame[-2] == 0x90 and frame[-1] == 0x00):", "if not (frame[-2] == 0x90 and frame[-1] == 0x00 or len(frame) == 4):"),
    ("acr122_cmd_build", "NEUTRAL hex literal spelling", "0x00, 0x00, 0x00, len(frame)", "0, 0, 0, len(frame)"),
]
