"""group DepPdu: nfc/dep.py PDU classes (ATR/PSL/DEP/DSL/RLS encode, decode, properties), the integer arithmetic of
Initiator.activate / Target.activate and the pure pieces of the exchange loops -> Model/NfcDep.lean, Model/PeerDep.lean,
Model/Activate.lean, Model/FnDepPduRef.lean (C04, C07, C19).

Cuts (every one is repeated in the `note` of the spec and so in the doc comment of the generated definition):
* objects are records (tuples) of their constructor arguments, `__init__` is not translated (`PSL_REQ.__init__` maps a
  falsy `did` to 0, `DEP_REQ_RES.__init__` maps `data=None` to an empty bytearray); a `decode` that does not recognise
  the code octets returns None (`Option`);
* methods of the base classes DSL_REQ_RES / DEP_REQ_RES are translated once per subclass (`via=`): `cls.PDU_CODE`,
  `cls.PDU_NAME`, `self.PDU_CODE` are read from that subclass;
* `PSL_REQ_RES.decode` (`cls(*data[2:])`, argument-count TypeError) is not translated: the D-tie of C04/C07 stays its
  only tie; `decode_frame`'s `eval(name).decode(frame)` dispatch is hand-written in `Lemmas/FnBridgeDepPdu.lean: genTail`;
* `activate()`: only the integer statements; `rwt = 4096/13.56E6 * 2**wt` is float arithmetic - the exponents
  (`wt if wt < 15 else 14`, the `rwt` clamp) are translated, the float product is not; `options.get`, `os.urandom` are
  function parameters; `atr_res.lr` / `atr_req.lr` / `atr_req.did` are parameters of the miu slices (the property `lr` is
  translated separately as `dep_atr_lr`, the bridge theorems compose them); the target search (`clf.sense`) and
  `self.target.brty = ('212F', '424F')[self.brs-1]` (tuple of strings) are not translated;
* `exchange()` / `send_dep_*`: the statements between the blocking calls - chunking, the PDU type checks, packet number
  check/increment (as statement cuts, so that their ORDER is tied), the RTOX values, the DEP_REQ branch of the Target's
  dispatch chain with PDU objects as opaque tokens; the local PDU builders (INF, ACK, NAK, ATN, RTOX) are function
  parameters of call-site cuts (their argument order is tied, their bodies - keyword arguments - are not translated);
  the retry loops around `clf.exchange`, deadlines and `for/else` RTOX loops are not translated.
"""
from translate_fn import Spec, INT, BOOL, BYTES, STR, OPT, REC, TUP

GROUP = "DepPdu"
ORDER = 32
F = "dep.py"

_ATRQ = [("self.nfcid3", "nfcid3", BYTES), ("self.did", "did", INT), ("self.bs", "bs", INT), ("self.br", "br", INT),
         ("self.pp", "pp", INT), ("self.gb", "gb", BYTES)]
_ATRS = [("self.nfcid3", "nfcid3", BYTES), ("self.did", "did", INT), ("self.bs", "bs", INT), ("self.br", "br", INT),
         ("self.to", "to", INT), ("self.pp", "pp", INT), ("self.gb", "gb", BYTES)]
_OPTGET = {"options.get": ("optget", [STR, INT], INT, False)}
_OPTGETB = {"options.get": ("optgetb", [STR, BYTES], BYTES, False)}

SPECS = [
    # ---- ATR
    Spec(GROUP, "dep_atr_lr", F, "ATR_REQ_RES.lr", [], binds=[("self.pp", "pp", INT)]),
    Spec(GROUP, "dep_atr_req_len", F, "ATR_REQ.__len__", [], binds=[("self.gb", "gb", BYTES)]),
    Spec(GROUP, "dep_atr_req_encode", F, "ATR_REQ.encode", [], binds=_ATRQ),
    Spec(GROUP, "dep_atr_req_decode", F, "ATR_REQ.decode", [("data", BYTES)],
         records={"ATR_REQ": {"nfcid3": BYTES, "did": INT, "bs": INT, "br": INT, "pp": INT, "gb": BYTES}},
         ret=OPT(REC("ATR_REQ")),
         note="the result is the tuple of constructor arguments (None: the code octets do not match)"),
    Spec(GROUP, "dep_atr_res_len", F, "ATR_RES.__len__", [], binds=[("self.gb", "gb", BYTES)]),
    Spec(GROUP, "dep_atr_res_encode", F, "ATR_RES.encode", [], binds=_ATRS),
    Spec(GROUP, "dep_atr_res_decode", F, "ATR_RES.decode", [("data", BYTES)],
         records={"ATR_RES": {"nfcid3": BYTES, "did": INT, "bs": INT, "br": INT, "to": INT, "pp": INT, "gb": BYTES}},
         ret=OPT(REC("ATR_RES")),
         note="the result is the tuple of constructor arguments (None: the code octets do not match)"),
    Spec(GROUP, "dep_atr_res_wt", F, "ATR_RES.wt", [], binds=[("self.to", "to", INT)]),
    # ---- PSL
    Spec(GROUP, "dep_psl_req_encode", F, "PSL_REQ.encode", [],
         binds=[("self.did", "did", INT), ("self.brs", "brs", INT), ("self.fsl", "fsl", INT)]),
    Spec(GROUP, "dep_psl_req_dsi", F, "PSL_REQ.dsi", [], binds=[("self.brs", "brs", INT)]),
    Spec(GROUP, "dep_psl_req_dri", F, "PSL_REQ.dri", [], binds=[("self.brs", "brs", INT)]),
    Spec(GROUP, "dep_psl_req_lr", F, "PSL_REQ.lr", [], binds=[("self.fsl", "fsl", INT)]),
    Spec(GROUP, "dep_psl_res_encode", F, "PSL_RES.encode", [], binds=[("self.did", "did", INT)]),
    # ---- DSL / RLS
    # ---- activation arithmetic, Initiator.activate
    Spec(GROUP, "dep_ini_opts", F, "Initiator.activate", [], stmts=[4, 5], opaque=_OPTGET,
         stores=["self.brs", "self.lri"], result=["self.brs", "self.lri"],
         note="cut: the clamps `self.brs = min(max(0, options.get('brs', 2)), 2)`, `self.lri = ..`; "
              "`options.get` is the function parameter `optget`; result (brs, lri)"),
    Spec(GROUP, "dep_ini_ppi", F, "Initiator.activate", [], stmts=[9, 10],
         binds=[("self.lri", "lri", INT), ("self.gbi", "gbi", BYTES), ("self.nad", "nad", OPT(INT)),
                ("self.did", "did", OPT(INT))], result=["ppi", "did"],
         note="cut: the PP octet and the DID octet of the ATR_REQ; result (ppi, did)"),
    Spec(GROUP, "dep_ini_psl_req", F, "Initiator.activate", [("did", INT)], stmts=[12],
         binds=[("self.brs", "brs", INT), ("self.lri", "lri", INT)],
         records={"PSL_REQ": {"did": INT, "brs": INT, "fsl": INT}}, result=["psl_req"],
         note="cut: `psl_req = PSL_REQ(did, (0, 9, 18)[self.brs], self.lri)`; result: the constructor arguments"),
    Spec(GROUP, "dep_ini_wt", F, "Initiator.activate", [], expr="atr_res.wt if atr_res.wt < 15 else 14",
         binds=[("atr_res.wt", "wt", INT)],
         note="cut: the integer exponent of `self.rwt = 4096/13.56E6 * 2**(..)`; the float product is not translated - "
              "deliberately a SUB-expression cut (not `whole=`): the enclosing assignment value is float arithmetic"),
    Spec(GROUP, "dep_ini_miu", F, "Initiator.activate", [], path=[(19, "body")], stmts=[2],
         binds=[("atr_res.lr", "lr", INT), ("self.did", "did", OPT(INT)), ("self.nad", "nad", OPT(INT))],
         stores=["self.miu"], result=["self.miu"],
         note="cut: the statement `self.miu = atr_res.lr-3 - int(self.did is not None) - int(self.nad is not None)`; "
              "`atr_res.lr` is the parameter `lr`"),
    # ---- activation arithmetic, Target.activate
    Spec(GROUP, "dep_tgt_opts", F, "Target.activate", [], stmts=[2, 3], opaque=_OPTGET, result=["lrt", "rwt"],
         note="cut: the clamps of `lrt` and `rwt` (the integer exponent of `self.rwt = 4096/13.56E6 * pow(2, rwt)`); "
              "`options.get` is the function parameter `optget`"),
    Spec(GROUP, "dep_tgt_pp", F, "Target.activate", [("lrt", INT), ("gbt", BYTES)], stmts=[4],
         binds=[("self.nad", "nad", OPT(INT))], result=["pp"],
         note="cut: the PP octet of the ATR_RES"),
    Spec(GROUP, "dep_tgt_miu", F, "Target.activate", [], path=[(15, "body")], stmts=[5, 7],
         binds=[("atr_req.lr", "lr", INT), ("atr_req.did", "adid", INT)],
         stores=["self.miu", "self.did"], result=["self.miu", "self.did"],
         note="cut: `self.miu = atr_req.lr - 3 - int(atr_req.did > 0)` and `self.did = atr_req.did if atr_req.did > 0 "
              "else None`; `atr_req.lr`, `atr_req.did` are the parameters `lr`, `adid`"),
    Spec(GROUP, "dep_tgt_cmd", F, "Target.activate", [], path=[(15, "body")], stmts=[9, 10],
         binds=[("target.dep_req", "dep_req", BYTES), ("target.brty", "brty", STR)],
         stores=["self.cmd"], result=["self.cmd"],
         note="cut: the two statements that rebuild the frame of the first DEP_REQ (`self.cmd`) from `target.dep_req`"),
    # ---- exchange(): chunking, packet number, RTOX (C04, C07)
    Spec(GROUP, "dep_ini_chunk", F, "Initiator.exchange", [("send_data", BYTES)], path=[(4, "body")], stmts=(0, 2),
         binds=[("self.miu", "miu", INT)], result=["data", "send_data"],
         note="cut: `data = send_data[0:self.miu]; del send_data[0:self.miu]` of the send loop; result (data, send_data)"),
    Spec(GROUP, "dep_ini_pni_send", F, "Initiator.exchange", [], path=[(4, "body")], stmts=[6, 7],
         binds=[("self.pni", "pni", INT), ("res.pfb.pni", "rpni", INT)], stores=["self.pni"], result=["self.pni"],
         note="cut: send loop, `if res.pfb.pni != self.pni: raise ProtocolError` then `self.pni = (self.pni + 1) & 0x3`"),
    Spec(GROUP, "dep_ini_pni_recv", F, "Initiator.exchange", [("recv_data", BYTES)], path=[(7, "body")], stmts=[4, 5, 6],
         binds=[("self.pni", "pni", INT), ("res.pfb.pni", "rpni", INT), ("res.data", "data", BYTES)],
         stores=["self.pni"], result=["recv_data", "self.pni"],
         note="cut: receive loop, the packet number check, `recv_data += res.data`, the packet number increment"),
    Spec(GROUP, "dep_tgt_pni_send", F, "Target.exchange", [], path=[(4, "orelse"), (1, "body")], stmts=[6, 7],
         binds=[("self.pni", "pni", INT), ("req.pfb.pni", "rpni", INT)], stores=["self.pni"], result=["self.pni"],
         note="cut: send loop, `self.pni = (self.pni + 1) & 0x3` then `if req.pfb.pni != self.pni: raise ProtocolError`"),
    Spec(GROUP, "dep_tgt_pni_recv", F, "Target.exchange", [], path=[(6, "body")], stmts=[4, 5],
         binds=[("self.pni", "pni", INT), ("req.pfb.pni", "rpni", INT)], stores=["self.pni"], result=["self.pni"],
         note="cut: receive loop, the packet number increment then the check"),
    Spec(GROUP, "dep_ini_nak_call", F, "Initiator.send_dep_req_recv_dep_res.request_retransmission", [], stmts=[0],
         binds=[("self.pni", "pni", INT), ("self.did", "did", OPT(INT)), ("self.nad", "nad", OPT(INT))],
         opaque={"NAK": ("mk", [INT, OPT(INT), OPT(INT)], TUP(INT, OPT(INT), OPT(INT)), False)}, result=["nak"],
         note="cut: the call `nak = NAK(self.pni, self.did, self.nad)`; the local function NAK is the parameter `mk`"),
    Spec(GROUP, "dep_ini_inf_call", F, "Initiator.exchange", [("data", BYTES), ("send_data", BYTES)],
         path=[(4, "body")], stmts=[2],
         binds=[("self.pni", "pni", INT), ("self.did", "did", OPT(INT)), ("self.nad", "nad", OPT(INT))],
         opaque={"INF": ("mk", [INT, BYTES, BOOL, OPT(INT), OPT(INT)], TUP(INT, BYTES, BOOL, OPT(INT), OPT(INT)), False)},
         result=["req"],
         note="cut: the call `req = INF(self.pni, data, bool(send_data), self.did, self.nad)`; INF is the parameter `mk`"),
    Spec(GROUP, "dep_ini_ack_call", F, "Initiator.exchange", [], path=[(7, "body")], stmts=[0],
         binds=[("self.pni", "pni", INT), ("self.did", "did", OPT(INT)), ("self.nad", "nad", OPT(INT))],
         opaque={"ACK": ("mk", [INT, OPT(INT), OPT(INT)], TUP(INT, OPT(INT), OPT(INT)), False)}, result=["req"],
         note="cut: the call `req = ACK(self.pni, self.did, self.nad)`; ACK is the parameter `mk`"),
    Spec(GROUP, "dep_tgt_inf_call", F, "Target.exchange", [("data", BYTES), ("more", BOOL)],
         path=[(4, "orelse"), (1, "body")], stmts=[2],
         binds=[("self.pni", "pni", INT), ("self.did", "did", OPT(INT)), ("self.nad", "nad", OPT(INT))],
         opaque={"INF": ("mk", [INT, BYTES, BOOL, OPT(INT), OPT(INT)], TUP(INT, BYTES, BOOL, OPT(INT), OPT(INT)), False)},
         result=["res"],
         note="cut: the call `res = INF(self.pni, data, more, self.did, self.nad)`; INF is the parameter `mk`"),
    Spec(GROUP, "dep_tgt_ack_call", F, "Target.exchange", [], path=[(6, "body")], stmts=[1],
         binds=[("self.pni", "pni", INT), ("self.did", "did", OPT(INT)), ("self.nad", "nad", OPT(INT))],
         opaque={"ACK": ("mk", [INT, OPT(INT), OPT(INT)], TUP(INT, OPT(INT), OPT(INT)), False)}, result=["res"],
         note="cut: the call `res = ACK(self.pni, self.did, self.nad)`; ACK is the parameter `mk`"),
    Spec(GROUP, "dep_ini_rtox", F, "Initiator.exchange.RTOX", [("data", BYTES)], stmts=(0, 2), result=["rtox"],
         note="cut: local function RTOX, the range check of the timeout extension value and `rtox = data[0]`"),
    Spec(GROUP, "dep_tgt_chunk", F, "Target.exchange", [("send_data", BYTES)], path=[(4, "orelse"), (1, "body")],
         stmts=(0, 2), binds=[("self.miu", "miu", INT)], result=["data", "more"],
         note="cut: `data = send_data[0:self.miu]; more = len(send_data) > self.miu` of the send loop"),
    Spec(GROUP, "dep_tgt_chunk_rest", F, "Target.exchange", [("send_data", BYTES)], path=[(4, "orelse"), (1, "body")],
         stmts=[8], binds=[("self.miu", "miu", INT)], result=["send_data"],
         note="cut: `del send_data[0:self.miu]` at the end of the send loop"),
    Spec(GROUP, "dep_tgt_rtox", F, "Target.send_timeout_extension", [],
         whole=True, expr="req.data[0] & 0x3F if req.data else None", binds=[("req.data", "data", BYTES)], ret=OPT(INT),
         note="cut: the returned expression; `req.data` is the parameter `data`"),
    # ---- activate(): general bytes, NFCID3 after the 212F poll
    Spec(GROUP, "dep_ini_gbi", F, "Initiator.activate", [], stmts=[3], opaque=_OPTGETB, stores=["self.gbi"],
         result=["self.gbi"], note="cut: `self.gbi = options.get('gbi', b'')[0:48]`; `options.get` is `optgetb`"),
    Spec(GROUP, "dep_tgt_gbt", F, "Target.activate", [], stmts=[1], opaque=_OPTGETB, result=["gbt"],
         note="cut: `gbt = options.get('gbt', b'')[0:47]`; `options.get` is `optgetb`"),
    Spec(GROUP, "dep_ini_nfcid3_212", F, "Initiator.activate", [], whole=True, expr="target.sensf_res[1:9] + b'ST'",
         binds=[("target.sensf_res", "sensf_res", BYTES)],
         note="cut: the NFCID3 put into the ATR_REQ after the 212F poll"),
]
# DSL_REQ_RES.decode / .encode once per subclass: `via=` reads `cls.PDU_CODE` / `cls.PDU_NAME` / `self.PDU_CODE` there
for _cls in ("DSL_REQ", "DSL_RES", "RLS_REQ", "RLS_RES"):
    SPECS += [
        Spec(GROUP, "dep_%s_decode" % _cls.lower(), F, "DSL_REQ_RES.decode", [("data", BYTES)], via=_cls,
             records={"DSL_REQ_RES": {"did": OPT(INT)}}, ret=OPT(REC("DSL_REQ_RES")),
             note="as inherited by %s; the result is the constructor argument `did` (None: the code octets do not match)" % _cls),
        Spec(GROUP, "dep_%s_encode" % _cls.lower(), F, "DSL_REQ_RES.encode", [], via=_cls,
             binds=[("self.did", "did", OPT(INT))], note="as inherited by %s" % _cls),
    ]
_PFB = {"fmt": INT, "nad": BOOL, "did": BOOL, "pni": INT}
for _cls in ("DEP_REQ", "DEP_RES"):
    SPECS += [
        Spec(GROUP, "dep_%s_decode" % _cls.lower(), F, "DEP_REQ_RES.decode", [("data", BYTES)], via=_cls,
             records={"DEP_REQ_RES": {"pfb": REC("PFB"), "did": OPT(INT), "nad": OPT(INT), "data": BYTES}, "PFB": _PFB},
             ret=OPT(REC("DEP_REQ_RES")),
             note="as inherited by %s; the result is the tuple of constructor arguments ((fmt, nad, did, pni), did, nad, "
                  "data), None when the code octets do not match; the caller's bytearray (mutated by `del`/`pop`) is "
                  "not modelled" % _cls),
        Spec(GROUP, "dep_%s_encode" % _cls.lower(), F, "DEP_REQ_RES.encode", [], via=_cls,
             binds=[("self.pfb", "pfb", REC("PFB")), ("self.did", "did", INT), ("self.nad", "nad", INT),
                    ("self.data", "data", BYTES)], records={"PFB": _PFB},
             note="as inherited by %s; `self.pfb` is the tuple (fmt, nad, did, pni); `self.did` / `self.nad` are only "
                  "read when the flag is set (ints here)" % _cls),
    ]
_FMT_I = [("res.pfb.fmt", "fmt", INT)]
SPECS += [
    # ---- PDU type checks of the exchange loops (constants `DEP_RES.PositiveAck` .. re-read from the class)
    Spec(GROUP, "dep_ini_ack_chk", F, "Initiator.exchange", [("send_data", BYTES)], path=[(4, "body")], stmts=[5],
         binds=_FMT_I, note="cut: send loop, an ACK is only acceptable while data remains"),
    Spec(GROUP, "dep_ini_inf_chk", F, "Initiator.exchange", [], stmts=[5], binds=_FMT_I,
         note="cut: the response after the last chunk must be an INF PDU"),
    Spec(GROUP, "dep_ini_chain_chk", F, "Initiator.exchange", [], path=[(7, "body")], stmts=[3], binds=_FMT_I,
         note="cut: receive loop, chaining must continue with an INF PDU"),
    Spec(GROUP, "dep_ini_nak_chk", F, "Initiator.send_dep_req_recv_dep_res", [], stmts=[7], binds=_FMT_I,
         note="cut: a NACK from the Target is a ProtocolError"),
    Spec(GROUP, "dep_ini_atn_chk", F, "Initiator.send_dep_req_recv_dep_res.request_attention", [],
         path=[(1, "body")], stmts=(3, 5), binds=_FMT_I,
         note="cut: the two checks of the response to an attention request"),
    Spec(GROUP, "dep_ini_retrans_chk", F, "Initiator.send_dep_req_recv_dep_res.request_retransmission", [],
         path=[(1, "body")], stmts=(3, 7), binds=_FMT_I + [("req.pfb.fmt", "reqfmt", INT)],
         note="cut: the checks of the response to a NACK: no RTOX; INF, and ACK only when the outstanding request was chained"),
    Spec(GROUP, "dep_tgt_ack_chk", F, "Target.exchange", [("more", BOOL)], path=[(4, "orelse"), (1, "body")], stmts=[5],
         binds=[("req.pfb.fmt", "fmt", INT)],
         note="cut: send loop, a chained response must be answered with ACK (`is not` on the int constant is `!=`)"),
    Spec(GROUP, "dep_ini_tox_test", F, "Initiator.exchange", [], path=[(4, "body")], stmts=[4],
         whole=True, expr="res.pfb.fmt == DEP_RES.TimeoutExtension", binds=_FMT_I, note="cut: the timeout extension test of the send loop"),
    Spec(GROUP, "dep_ini_more_test", F, "Initiator.exchange", [], stmts=[7],
         whole=True, expr="res.pfb.fmt == DEP_RES.MoreInformation", binds=_FMT_I, note="cut: the receive loop condition"),
    Spec(GROUP, "dep_tgt_more_test", F, "Target.exchange", [], stmts=[6],
         whole=True, expr="req.pfb.fmt == DEP_REQ.MoreInformation", binds=[("req.pfb.fmt", "fmt", INT)],
         note="cut: the receive loop condition"),
    # ---- duplicate detection of the Target (send_dep_res_recv_dep_req), the DEP_REQ branch of the dispatch chain
    Spec(GROUP, "dep_tgt_dep_dispatch", F, "Target.send_dep_res_recv_dep_req",
         [("res", OPT(INT)), ("dep_res", OPT(INT)), ("dep_req", OPT(INT)), ("req", INT)],
         path=[(3, "body"), (1, "orelse"), (0, "orelse"), (0, "orelse"), (0, "orelse"), (0, "body")], stmts=[0],
         binds=[("req.pfb.fmt", "fmt", INT), ("req.pfb.pni", "rpni", INT), ("self.pni", "pni", INT),
                ("dep_res.pfb.fmt", "dep_res_fmt", INT), ("self.did", "did", OPT(INT)), ("self.nad", "nad", OPT(INT))],
         opaque={"ATN": ("mkatn", [OPT(INT), OPT(INT)], OPT(INT), False)}, result=["res", "dep_req"],
         note="cut: the if/elif chain under `elif type(req) == DEP_REQ:` (ATN / NAK / RTOX / same PNI / new request); "
              "PDU objects are opaque tokens (`res`, `dep_res`, `dep_req` optional ints, `req` an int), the local "
              "function ATN is the parameter `mkatn`; result (res, dep_req)"),
    Spec(GROUP, "dep_tgt_dispatch", F, "Target.send_dep_res_recv_dep_req",
         [("res", OPT(INT)), ("dep_res", OPT(INT)), ("dep_req", OPT(INT)), ("req", INT)],
         path=[(3, "body")], stmts=[1],
         binds=[("req is None", "req_none", BOOL), ("req.did != self.did", "did_mismatch", BOOL),
                ("type(req) == DSL_REQ", "is_dsl", BOOL), ("type(req) == RLS_REQ", "is_rls", BOOL),
                ("type(req) == DEP_REQ", "is_dep", BOOL), ("req.pfb.fmt", "fmt", INT),
                ("req.pfb.pni", "rpni", INT), ("self.pni", "pni", INT), ("dep_res.pfb.fmt", "dep_res_fmt", INT),
                ("self.did", "did", OPT(INT)), ("self.nad", "nad", OPT(INT))],
         opaque={"ATN": ("mkatn", [OPT(INT), OPT(INT)], OPT(INT), False)},
         drop=["self.send_res_recv_req"], inert=["DSL_RES", "RLS_RES"],
         result=["res", "dep_req"], ret=OPT(TUP(OPT(INT), OPT(INT))),
         note="cut: the whole if/elif chain of one loop turn after `req = self.send_res_recv_req(res, deadline)`; the "
              "tests on the request object (`req is None`, `req.did != self.did`, `type(req) == ..`) are Bool "
              "parameters, PDU objects opaque tokens, ATN the parameter `mkatn`; the DSL_RES / RLS_RES answers "
              "(`self.send_res_recv_req(DSL_RES(self.did), 0)`) are dropped; result None = `return None`, else (res, dep_req)"),
    # ---- NFCID3 of the Target and its SENSF_RES
    Spec(GROUP, "dep_tgt_nfcid3", F, "Target.activate", [], stmts=[5],
         opaque={"os.urandom": ("urandom", [INT], BYTES, False)}, result=["nfcid3t"],
         note="cut: `nfcid3t = 01FE + os.urandom(6) + b'ST'`; `os.urandom` is the function parameter `urandom`"),
    Spec(GROUP, "dep_tgt_sensf", F, "Target.activate", [("nfcid3t", BYTES)], stmts=[12, 13],
         stores=["target.sensf_res"], result=["target.sensf_res"],
         note="cut: the two statements that build `target.sensf_res`"),
]
P = "NfcVerif.FnBridge.DepPdu."
BRIDGE = {
    "module": "NfcVerif.Props.FnBridgeDepPdu",
    "theorems": [P + t for t in (
        "atr_lr_bridge", "atr_lr_total", "atr_lr_activate", "atr_res_wt_bridge", "atr_res_wt_total",
        "atr_req_len_bridge", "atr_res_len_bridge", "atr_req_encode_bridge", "atr_req_encode_activate", "atr_res_encode_bridge",
        "atr_res_encode_activate", "atr_req_decode_bridge", "atr_res_decode_bridge", "atr_decode_other", "atr_decode_model",
        "gen_atr_decode_safe", "atr_req_fields_peer", "atr_res_fields_peer", "atr_req_decode_activate", "atr_res_decode_activate",
        "atr_decode_short_model_differs", "atr_req_roundtrip", "psl_req_encode_bridge", "psl_req_encode_activate", "psl_res_encode_bridge",
        "psl_req_dsi_bridge", "psl_req_dri_bridge", "psl_req_dsi_brty", "psl_req_dsi_dri_selected", "psl_req_lr_bridge",
        "dsl_encode_bridge", "dsl_encode_overflow", "dsl_decode_bridge", "dsl_decode_other", "gen_dsl_decode_safe",
        "dep_decode_bridge", "dep_decode_other", "gen_dep_decode_safe", "dep_req_encode_bridge", "dep_res_encode_bridge",
        "dep_req_roundtrip", "tail_eq_genTail", "ini_opts_bridge", "ini_ppi_bridge", "ini_psl_req_bridge",
        "ini_psl_req_activate", "ini_wt_bridge", "ini_wt_activate", "ini_miu_bridge", "ini_miu_activate",
        "ini_miu_c04", "tgt_opts_bridge", "tgt_pp_bridge", "tgt_miu_bridge", "tgt_miu_c04",
        "tgt_miu_activate", "tgt_cmd_bridge", "ini_chunk_bridge", "gen_ini_chunk_sound", "tgt_chunk_bridge",
        "tgt_chunk_rest_bridge", "ini_pni_send_bridge", "ini_pni_recv_bridge", "tgt_pni_bridge", "call_sites_bridge",
        "ini_rtox_bridge", "gen_ini_rtox_safe", "tgt_rtox_bridge", "gb_cut_bridge", "ini_nfcid3_212_bridge",
        "ini_ack_chk_bridge", "ini_inf_chk_bridge", "ini_nak_chk_bridge", "ini_atn_chk_bridge", "fmt_tests_bridge",
        "ini_retrans_chk_bridge", "tgt_ack_chk_bridge", "tgt_send_step_bridge", "ini_send_step_bridge", "ini_recv_step_bridge",
        "tRxActive_dep_eq", "tgt_dep_dispatch_bridge", "gen_tgt_duplicate_resent", "tgt_dispatch_bridge", "tgt_nfcid3_bridge",
        "tgt_sensf_bridge", "nfcid3_212_roundtrip")],
    "properties": ["C04", "C07", "C19"],
}


def inputs(rng, sp):
    out = []
    byte = lambda: rng.choice([0, 1, 2, 3, 0x0F, 0x10, 0x30, 0x32, 0xFF, 256, -1, rng.randrange(256)])
    if sp.lean in ("dep_atr_req_encode", "dep_atr_res_encode"):
        for _ in range(100):
            bv = []
            for (_s, _n, ty) in sp.binds:
                bv.append(bytes(rng.randrange(256) for _ in range(rng.choice([0, 3, 10, 48]))) if ty == BYTES else byte())
            out.append(([], bv))
    if sp.lean in ("dep_atr_lr", "dep_atr_res_wt", "dep_psl_req_dsi", "dep_psl_req_dri", "dep_psl_req_lr"):
        for v in list(range(0, 256)) + [-1, -16, -17, -256, 256, 4096, 65535]:
            out.append(([], [v]))
    if sp.lean in ("dep_psl_req_encode", "dep_psl_res_encode"):
        for _ in range(100):
            out.append(([], [byte() for _ in sp.binds]))
    if sp.lean.endswith("_encode") and sp.lean[4:7] in ("dsl", "rls"):
        for did in (None, 0, 1, 14, 255, 256, -1):
            out.append(([], [did]))
    if sp.lean.endswith("_decode") and sp.lean[4:7] in ("dsl", "rls"):
        for code in (b"\xD4\x08", b"\xD5\x09", b"\xD4\x0A", b"\xD5\x0B", b"\xD4\x06"):
            for tail in (b"", b"\x00", b"\x07", b"\xFF", b"\x01\x02", b"\x01\x02\x03"):
                out.append(([code + tail], []))
        out.append(([b""], []))
        out.append(([b"\xD4"], []))
    if sp.lean in ("dep_ini_inf_chk", "dep_ini_chain_chk", "dep_ini_nak_chk", "dep_ini_atn_chk", "dep_ini_tox_test",
                   "dep_ini_more_test", "dep_tgt_more_test"):
        for fmt in range(-1, 17):
            out.append(([], [fmt]))
    if sp.lean in ("dep_atr_req_decode", "dep_atr_res_decode"):
        code = b"\xD4\x00" if "req" in sp.lean else b"\xD5\x01"
        for n in list(range(0, 22)) + [40, 64]:
            for _ in range(4):
                d = bytearray(code + bytes(rng.randrange(256) for _ in range(n)))
                if len(d) >= 17 and rng.random() < 0.5:
                    d[15 if "req" in sp.lean else 16] = rng.choice([0x00, 0x02, 0x32, 0x30])
                out.append(([bytes(d)], []))
        out.append(([b"\xD4\x06" + bytes(20)], []))
        out.append(([b""], []))
    if sp.lean in ("dep_dep_req_decode", "dep_dep_res_decode"):
        code = b"\xD4\x06" if "req" in sp.lean else b"\xD5\x07"
        for pfb in list(range(0, 16)) + [0x10, 0x14, 0x18, 0x1C, 0x40, 0x4F, 0x80, 0x90, 0xFF]:
            for n in (0, 1, 2, 3, 5):
                out.append(([code + bytes([pfb]) + bytes(rng.randrange(256) for _ in range(n))], []))
        out.append(([code], []))
        out.append(([b"\xD4\x08\x00"], []))
    if sp.lean in ("dep_dep_req_encode", "dep_dep_res_encode"):
        for fmt in (0, 1, 4, 5, 8, 9, 15, 16):
            for hn in (False, True):
                for hd in (False, True):
                    for pni in (0, 1, 3):
                        out.append(([], [(fmt, hn, hd, pni), rng.choice([0, 7, 255, 256]), rng.choice([0, 9, 255]),
                                         bytes(rng.randrange(256) for _ in range(rng.randrange(4)))]))
    if sp.lean == "dep_ini_retrans_chk":
        for fmt in range(-1, 11):
            for rf in (0, 1, 4):
                out.append(([], [fmt, rf]))
    if sp.lean == "dep_tgt_ack_chk":
        for fmt in range(0, 10):
            for more in (False, True):
                out.append(([more], [fmt]))
    if sp.lean == "dep_ini_ack_chk":
        for fmt in range(0, 10):
            for sd in (b"", b"\x00", b"ab"):
                out.append(([sd], [fmt]))
    if sp.lean == "dep_tgt_dep_dispatch":
        for fmt in (0, 1, 4, 5, 8, 9, 2):
            for rpni in (0, 1):
                for pni in (0, 1):
                    for dep_res in (None, 77):
                        for drf in (0, 9):
                            out.append(([rng.choice([None, 5]), dep_res, None, 42], [fmt, rpni, pni, drf, None, None]))
    if sp.lean == "dep_tgt_sensf":
        for n in (0, 5, 8, 10, 12):
            out.append(([bytes(rng.randrange(256) for _ in range(n))], []))
    if sp.lean == "dep_ini_miu":
        for lr in (64, 128, 192, 254, 0, 3, -5):
            for did in (None, 0, 1, 255):
                for nad in (None, 0, 7):
                    out.append(([], [lr, did, nad]))
    if sp.lean == "dep_ini_ppi":
        for lri in (0, 1, 2, 3):
            for gbi in (b"", b"Ffm", b"\0"):
                for nad in (None, 0, 1, 255):
                    for did in (None, 0, 1, 255):
                        out.append(([], [lri, gbi, nad, did]))
    if sp.lean == "dep_ini_psl_req":
        for brs in (0, 1, 2, 3, -1, -3, -4):
            for did in (0, 7):
                out.append(([did], [brs, rng.randrange(4)]))
    if sp.lean == "dep_ini_wt":
        for wt in range(-2, 20):
            out.append(([], [wt]))
    if sp.lean == "dep_tgt_pp":
        for lrt in (0, 1, 2, 3):
            for gbt in (b"", b"Ffm"):
                for nad in (None, 0, 5):
                    out.append(([lrt, gbt], [nad]))
    if sp.lean == "dep_tgt_miu":
        for lr in (64, 128, 192, 254):
            for adid in (0, 1, 14, 255, -1):
                out.append(([], [lr, adid]))
    if sp.lean in ("dep_ini_chunk", "dep_tgt_chunk", "dep_tgt_chunk_rest"):
        for n in (0, 1, 2, 5, 61, 62, 63, 125, 251, 252, 300):
            for miu in (1, 2, 61, 125, 251):
                out.append(([bytes(rng.randrange(256) for _ in range(n))], [miu]))
    if sp.lean in ("dep_ini_pni_send", "dep_tgt_pni_send", "dep_tgt_pni_recv"):
        for pni in range(0, 5):
            for rpni in range(0, 5):
                out.append(([], [pni, rpni]))
    if sp.lean == "dep_ini_pni_recv":
        for pni in range(0, 5):
            for rpni in range(0, 5):
                out.append(([bytes(rng.randrange(256) for _ in range(rng.randrange(4)))],
                            [pni, rpni, bytes(rng.randrange(256) for _ in range(rng.randrange(4)))]))
    if sp.lean == "dep_ini_rtox":
        for v in (0, 1, 2, 58, 59, 60, 61, 255):
            out.append(([bytes([v])], []))
            out.append(([bytes([v, 7])], []))
        out.append(([b""], []))
    if sp.lean == "dep_tgt_rtox":
        for v in (0, 1, 59, 63, 64, 65, 255):
            out.append(([], [bytes([v])]))
        out.append(([], [b""]))
    if sp.lean == "dep_ini_nfcid3_212":
        for n in (0, 1, 5, 9, 10, 18, 19):
            out.append(([], [bytes(rng.randrange(256) for _ in range(n))]))
    if sp.lean == "dep_tgt_cmd":
        for n in (0, 1, 3, 10, 200, 253, 254, 255, 256, 300):
            for brty in ("106A", "212F", "424F"):
                out.append(([], [bytes(rng.randrange(256) for _ in range(n)), brty]))
    return out


MUTATIONS = [
    ("dep_atr_lr", "length reduction table entry", "(64, 128, 192, 254)", "(64, 128, 192, 255)"),
    ("dep_atr_lr", "LR bit position", "(self.pp >> 4) & 0x3", "(self.pp >> 3) & 0x3"),
    ("dep_atr_req_len", "fixed part of ATR_REQ", "return 16 + len(self.gb)", "return 17 + len(self.gb)"),
    ("dep_atr_req_encode", "field order", "[self.did, self.bs, self.br, self.pp]", "[self.did, self.br, self.bs, self.pp]"),
    ("dep_atr_req_encode", "general bytes in front of the fixed fields", "return data + self.gb", "return self.gb + data"),
    ("dep_atr_res_encode", "TO and PP swapped", "self.br, self.to, self.pp]", "self.br, self.pp, self.to]"),
    ("dep_atr_res_wt", "WT mask", "self.to & 0x0F", "self.to & 0x1F"),
    ("dep_psl_req_encode", "BRS and FSL swapped", "[self.did, self.brs, self.fsl]", "[self.did, self.fsl, self.brs]"),
    ("dep_psl_req_dsi", "DSI shift", "self.brs >> 3 & 0x07", "self.brs >> 4 & 0x07"),
    ("dep_psl_req_dri", "DRI mask", "self.brs & 0x07", "self.brs & 0x03"),
    ("dep_psl_req_lr", "FSL mask", "self.fsl & 0x03", "self.fsl & 0x07"),
    ("dep_psl_res_encode", "DID dropped", "bytearray([self.did])", "bytearray([])"),
    ("dep_dsl_req_encode", "DID always sent", 'b""\n                                if self.did is None', 'b"\\0"\n                                if self.did is None'),
    ("dep_rls_res_decode", "length check", "if len(data) > 3:", "if len(data) > 4:"),
    ("dep_dsl_res_decode", "DID position", "data[2] if len(data) == 3", "data[1] if len(data) == 3"),
    ("dep_ini_ack_chk", "ACK accepted after the last chunk", "if not send_data:\n                    error = \"unexpected", "if send_data:\n                    error = \"unexpected"),
    ("dep_ini_inf_chk", "or instead of and", "if ((res.pfb.fmt != DEP_RES.LastInformation and\n             res.pfb.fmt != DEP_RES.MoreInformation)):\n            error = \"expected", "if ((res.pfb.fmt != DEP_RES.LastInformation or\n             res.pfb.fmt != DEP_RES.MoreInformation)):\n            error = \"expected"),
    ("dep_ini_nak_chk", "NACK not rejected", "if res.pfb.fmt == DEP_RES.NegativeAck:", "if res.pfb.fmt == DEP_RES.TimeoutExtension:"),
    ("dep_ini_atn_chk", "RTOX accepted as attention response", "if res.pfb.fmt != DEP_RES.Attention:", "if res.pfb.fmt not in (DEP_RES.Attention, DEP_RES.TimeoutExtension):"),
    ("dep_tgt_dep_dispatch", "duplicate detection compares with the next packet number", "elif req.pfb.pni == self.pni:", "elif req.pfb.pni == self.pni + 1:"),
    ("dep_tgt_dep_dispatch", "NAK answered with a fresh attention instead of the saved response",
     "elif req.pfb.fmt == DEP_REQ.NegativeAck:\n                    res = dep_res", "elif req.pfb.fmt == DEP_REQ.NegativeAck:\n                    res = ATN(self.did, self.nad)"),
    ("dep_tgt_dep_dispatch", "repeated RTOX request handed to exchange (F41 as found)",
     "if (dep_res is not None and\n                            dep_res.pfb.fmt == DEP_RES.TimeoutExtension):", "if True:"),
    ("dep_atr_req_decode", "minimum length", "if len(data) < 16:", "if len(data) < 15:"),
    ("dep_atr_req_decode", "general bytes flag", "gb = data[16:] if pp & 0x02 else bytearray()\n            return ATR_REQ", "gb = data[16:] if pp & 0x01 else bytearray()\n            return ATR_REQ"),
    ("dep_atr_res_decode", "general bytes offset", "gb = data[17:] if pp & 0x02", "gb = data[16:] if pp & 0x02"),
    ("dep_atr_res_decode", "TO and PP swapped", "(did, bs, br, to, pp) = data[2:12], data[12:17]", "(did, bs, br, pp, to) = data[2:12], data[12:17]"),
    ("dep_ini_retrans_chk", "ACK never accepted after a NACK (F27 as found)", "if req.pfb.fmt == DEP_REQ.MoreInformation:", "if req.pfb.fmt == DEP_REQ.NegativeAck:"),
    ("dep_tgt_ack_chk", "chaining accepts any answer", "if more:\n                    if req.pfb.fmt is not DEP_REQ.PositiveAck:", "if not more:\n                    if req.pfb.fmt is not DEP_REQ.PositiveAck:"),
    ("dep_dep_req_decode", "DID and NAD flags swapped", "bool(pfb & 8), bool(pfb & 4)", "bool(pfb & 4), bool(pfb & 8)"),
    ("dep_dep_req_decode", "packet number mask", "pfb & 3)", "pfb & 7)"),
    ("dep_dep_res_decode", "NAD read before DID", "did = data.pop(0) if pfb.did else None\n                nad = data.pop(0) if pfb.nad else None", "nad = data.pop(0) if pfb.nad else None\n                did = data.pop(0) if pfb.did else None"),
    ("dep_dep_res_decode", "IndexError not converted", "except IndexError:\n                errstr = \"invalid format of the \" + cls.PDU_NAME", "except KeyError:\n                errstr = \"invalid format of the \" + cls.PDU_NAME"),
    ("dep_dep_req_encode", "NAD octet in front of the DID octet", "        if self.pfb.did:\n            data.append(self.did)\n        if self.pfb.nad:\n            data.append(self.nad)", "        if self.pfb.nad:\n            data.append(self.nad)\n        if self.pfb.did:\n            data.append(self.did)"),
    ("dep_dep_res_encode", "PDU type position", "(pfb.fmt << 4)", "(pfb.fmt << 5)"),
    ("dep_dep_res_encode", "DID flag bit", "(pfb.did << 2)", "(pfb.did << 1)"),
    ("dep_tgt_dispatch", "device identifier filter dropped", "elif req.did != self.did:", "elif req.did != req.did:"),
    ("dep_tgt_dispatch", "release request treated as an unknown command", "elif type(req) == RLS_REQ:", "elif type(req) == ATR_REQ:"),
    ("dep_ini_tox_test", "condition gains an operand", "if res.pfb.fmt == DEP_RES.TimeoutExtension:\n                for i in range(3):\n                    req = RTOX(res.data, self.did, self.nad)\n                    rwt = res.data[0] * self.rwt\n                    log.warning(\"target requested %.3f sec more time\", rwt)\n                    res = self.send_dep_req_recv_dep_res(req, rwt, timeout)\n                    if res.pfb.fmt != DEP_RES.TimeoutExtension:\n                        break\n                else:\n                    log.error(\"too many timeout extension requests\")\n                    raise nfc.clf.TimeoutError(\"timeout extension\")\n            if res.pfb.fmt == DEP_RES.PositiveAck:",
     "if res.pfb.fmt == DEP_RES.TimeoutExtension or not send_data:\n                for i in range(3):\n                    req = RTOX(res.data, self.did, self.nad)\n                    rwt = res.data[0] * self.rwt\n                    log.warning(\"target requested %.3f sec more time\", rwt)\n                    res = self.send_dep_req_recv_dep_res(req, rwt, timeout)\n                    if res.pfb.fmt != DEP_RES.TimeoutExtension:\n                        break\n                else:\n                    log.error(\"too many timeout extension requests\")\n                    raise nfc.clf.TimeoutError(\"timeout extension\")\n            if res.pfb.fmt == DEP_RES.PositiveAck:"),
    ("dep_ini_more_test", "loop condition gains an operand", "while res.pfb.fmt == DEP_RES.MoreInformation:", "while res.pfb.fmt == DEP_RES.MoreInformation and recv_data:"),
    ("dep_tgt_more_test", "truthiness test changed", "while req.pfb.fmt == DEP_REQ.MoreInformation:", "while (req.pfb.fmt == DEP_REQ.MoreInformation) is True:"),
    ("dep_tgt_rtox", "returned value gains an operand", "return req.data[0] & 0x3F if req.data else None", "return (req.data[0] & 0x3F if req.data else None) or 0"),
    ("dep_tgt_sensf", "SENSF_RES carries NFCID3 octets 1..8", "nfcid3t[0:8]", "nfcid3t[1:9]"),
    ("dep_ini_miu", "header size", "atr_res.lr-3", "atr_res.lr-2"),
    ("dep_ini_miu", "NAD octet not counted", "- int(self.nad is not None))", "- int(self.nad is None))"),
    ("dep_tgt_cmd", "length byte of the injected first command", "len(target.dep_req)+1", "len(target.dep_req)"),
    ("dep_tgt_cmd", "start byte at the wrong bit rate", 'if target.brty == "106A":', 'if target.brty == "212F":'),
    ("dep_ini_opts", "upper clamp of brs", "options.get('brs', 2)), 2)", "options.get('brs', 2)), 3)"),
    ("dep_ini_opts", "default lri", "options.get('lri', 3)", "options.get('lri', 2)"),
    ("dep_ini_ppi", "general bytes flag position", "(bool(self.gbi) << 1)", "(bool(self.gbi) << 2)"),
    ("dep_ini_ppi", "LRI position", "(self.lri << 4)", "(self.lri << 5)"),
    ("dep_ini_psl_req", "BRS table", "(0, 9, 18)", "(0, 9, 17)"),
    ("dep_ini_wt", "WT cap", "if atr_res.wt < 15 else 14", "if atr_res.wt < 14 else 14"),
    ("dep_ini_pni_send", "packet number modulo 8", "self.pni = (self.pni + 1) & 0x3", "self.pni = (self.pni + 1) & 0x7"),
    ("dep_tgt_pni_recv", "lead seed: receive-chaining check without the modulo",
     "            self.pni = (self.pni + 1) & 0x3\n            if req.pfb.pni != self.pni:\n                raise nfc.clf.ProtocolError(\"wrong NFC-DEP packet number\")\n\n        recv_data += req.data",
     "            if req.pfb.pni != self.pni + 1:\n                raise nfc.clf.ProtocolError(\"wrong NFC-DEP packet number\")\n            self.pni = (self.pni + 1) & 0x3\n\n        recv_data += req.data"),
    ("dep_tgt_pni_send", "check in front of the increment", "                self.pni = (self.pni + 1) & 0x3\n                if req.pfb.pni != self.pni:\n                    raise nfc.clf.ProtocolError(\"wrong NFC-DEP packet number\")",
     "                if req.pfb.pni != self.pni:\n                    raise nfc.clf.ProtocolError(\"wrong NFC-DEP packet number\")\n                self.pni = (self.pni + 1) & 0x3"),
    ("dep_ini_pni_recv", "data appended before the packet number check", "            if res.pfb.pni != self.pni:\n                raise nfc.clf.ProtocolError(\"wrong NFC-DEP packet number\")\n            recv_data += res.data",
     "            recv_data += res.data\n            if res.pfb.pni + 4 == self.pni:\n                raise nfc.clf.ProtocolError(\"wrong NFC-DEP packet number\")"),
    ("dep_ini_nak_call", "lead seed: NAK arguments swapped", "nak = NAK(self.pni, self.did, self.nad)", "nak = NAK(self.pni, self.nad, self.did)"),
    ("dep_ini_inf_call", "more flag inverted", "bool(send_data), self.did, self.nad)", "not send_data, self.did, self.nad)"),
    ("dep_ini_miu", "lead seed: DID and NAD octets counted once", "- int(self.did is not None)\n                        - int(self.nad is not None))", "- int(self.did is not None or self.nad is not None))"),
    ("dep_tgt_rtox", "RTOX mask", "req.data[0] & 0x3F", "req.data[0] & 0x7F"),
    ("dep_tgt_opts", "rwt clamp", "options.get('rwt', 8)), 14)", "options.get('rwt', 8)), 15)"),
    ("dep_tgt_pp", "LRT position", "(lrt << 4)", "(lrt << 3)"),
    ("dep_tgt_miu", "DID octet not counted (F20)", "atr_req.lr - 3 - int(atr_req.did > 0)", "atr_req.lr - 3"),
    ("dep_tgt_miu", "DID 0 kept", "atr_req.did if atr_req.did > 0 else None", "atr_req.did if atr_req.did >= 0 else None"),
    ("dep_ini_chunk", "chunk one octet larger than the MIU", "data = send_data[0:self.miu]", "data = send_data[0:self.miu+1]"),
    ("dep_ini_chunk", "one octet lost between chunks", "del send_data[0:self.miu]", "del send_data[0:self.miu+1]"),
    ("dep_ini_rtox", "RTOX upper limit", "not 0 < data[0] < 60", "not 0 < data[0] < 61"),
    ("dep_ini_rtox", "empty RTOX data not checked", "len(data) == 0 or not", "len(data) == 300 or not"),
    ("dep_tgt_chunk", "more flag off by one", "more = len(send_data) > self.miu", "more = len(send_data) >= self.miu"),
    ("dep_tgt_chunk_rest", "one octet repeated", "del send_data[0:self.miu]", "del send_data[0:self.miu-1]"),
    ("dep_ini_gbi", "general bytes limit", "options.get('gbi', b'')[0:48]", "options.get('gbi', b'')[0:49]"),
    ("dep_atr_lr", "NEUTRAL mask written in decimal", "& 0x3]", "& 3]"),
]
