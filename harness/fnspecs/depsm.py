"""group DepSm: the protocol decisions of the NFC-DEP state machines in nfc/dep.py -> Model/NfcDep.lean (C04),
Model/PeerDep.lean (C07), Model/Activate.lean, Model/FnDepSmRef.lean.

The byte level (frames, PDU encode/decode) and the single checks of the exchange loops are the groups Dep and DepPdu.
This group adds what was still hand-written between them and the transition functions of the models:

* the local PDU builders INF / ACK / NAK / ATN / RTOX of both roles as WHOLE functions (the PDU object is the record
  `(pfb, did, nad, data)` of the STORED attributes, `pfb` the record `(fmt, nad, did, pni)`; the translator reads the
  normalising store `self.data = bytearray() if data is None else data` of `__init__`, so `data=None` is the empty
  string; `Lemmas/FnBridgeDepSm.lean: recPdu` reads a record the way `encode()` does);
* `send_dep_req_recv_dep_res`, `request_attention`, `request_retransmission`: deadline and timeout arithmetic (the
  clock `time.time()` is the parameter `now`; the source computes with floats, the translation with integers of an
  arbitrary time unit), the retry counts, `range(n)`, the final `raise`;
* `Initiator.exchange`: loop conditions, the two copies of the `for i in range(3)` timeout extension loop (range, the
  call of RTOX, the waiting time `res.data[0] * self.rwt`, the `break` condition, the `else: raise TimeoutError`);
* `Initiator.deactivate` (RLS or DSL), `Initiator.activate` (asserts, SEL_RES / SENSF_RES tests, the PSL decision,
  `self.pni = 0`);
* `Target.exchange` (empty payload, first call, accumulation of the received data), `send_timeout_extension`,
  `send_res_recv_req` (remaining time, frame test), `_deactivate` (answer selection), `activate` (`acm`).

`Lemmas/FnBridgeDepSm.lean` rebuilds the transition functions of `Model/NfcDep.lean` (`reqAttention`, `reqRetrans`,
`nakCheck`, `sendDepLoop`, `sendDep`, `rtoxLoop`, `transact`, `sendLoop`, `recvLoop`, `exchange`, `deactivate`, `tSendChunk`,
`tRecv`, `tAccept`, `tRx.tRxActive`, `tRx`) from regenerated pieces of the groups DepSm, DepPdu and Dep only; `Props/FnBridgeDepSm.lean` proves them equal to the
model functions.  Hand-written remain: the control skeleton (which exception class leads to which recovery:
`except TimeoutError` -> attention, `except TransmissionError` -> retransmission, `except CommunicationError: continue`),
the air (`xfer`) and the reading of a PDU record as the model's `Pdu`.

Not translated: `send_req_recv_res` / `send_res_recv_req` bookkeeping (`self.pcnt`, dict of counters), the target search
of `activate` (`clf.sense`, objects), `rwt = 4096/13.56E6 * 2**wt` (float), `self.target.brty = ('212F', '424F')[..]`
(tuple of strings; the PSL comparison is cut with the tuple index as a parameter).
"""
from translate_fn import Spec, INT, BOOL, BYTES, STR, OPT, REC, TUP

GROUP = "DepSm"
ORDER = 34
F = "dep.py"
_PFB = {"fmt": INT, "nad": BOOL, "did": BOOL, "pni": INT}
_DEP = {"pfb": REC("PFB"), "did": OPT(INT), "nad": OPT(INT), "data": BYTES}
_RQ = {"DEP_REQ": _DEP, "PFB": _PFB}
_RS = {"DEP_RES": _DEP, "PFB": _PFB}
_DN = [("did", OPT(INT)), ("nad", OPT(INT))]
_SDN = [("self.did", "did", OPT(INT)), ("self.nad", "nad", OPT(INT))]
_NOW = [("time.time()", "now", INT)]
_FMT = [("res.pfb.fmt", "fmt", INT)]
I = "Initiator."
TG = "Target."
SDR = I + "send_dep_req_recv_dep_res"
RA = SDR + ".request_attention"
RR = SDR + ".request_retransmission"
_REC = " (cut: the whole body); the result is the record ((fmt, nad flag, did flag, pni), did, nad, data)"
_CLK = "; `time.time()` is the parameter `now`, times are integers of an arbitrary unit (floats in the source)"
_TOK3 = TUP(BYTES, OPT(INT), OPT(INT))
_RTOX_S = [(4, "body"), (4, "body"), (0, "body")]
_RTOX_R = [(7, "body"), (2, "body"), (0, "body")]

SPECS = [
    # ---- PDU builders of the Initiator (local functions, whole bodies)
    Spec(GROUP, "smi_inf", F, I + "exchange.INF", [("pni", INT), ("data", BYTES), ("more", BOOL)] + _DN, stmts=(0, 3), records=_RQ,
         ret=REC("DEP_REQ"), note="local function INF of Initiator.exchange" + _REC),
    Spec(GROUP, "smi_ack", F, I + "exchange.ACK", [("pni", INT)] + _DN, stmts=(0, 3), records=_RQ, ret=REC("DEP_REQ"),
         note="local function ACK of Initiator.exchange" + _REC),
    Spec(GROUP, "smi_rtox", F, I + "exchange.RTOX", [("data", BYTES)] + _DN, stmts=(0, 5), records=_RQ, ret=REC("DEP_REQ"),
         note="local function RTOX of Initiator.exchange (range check of the requested extension included)" + _REC),
    Spec(GROUP, "smi_nak", F, SDR + ".NAK", [("pni", INT)] + _DN, binds=[("self.pni", "spni", INT)], stmts=(0, 3), records=_RQ,
         ret=REC("DEP_REQ"), note="local function NAK (reads `self.pni` of the enclosing method: parameter `spni`)" + _REC),
    Spec(GROUP, "smi_atn", F, SDR + ".ATN", [], binds=[("self.did", "did", OPT(INT))], stmts=(0, 3), records=_RQ, ret=REC("DEP_REQ"),
         note="local function ATN (reads `self.did` of the enclosing method)" + _REC),
    # ---- send_dep_req_recv_dep_res: deadline, timeout, retry counts
    Spec(GROUP, "smi_deadline", F, SDR, [("timeout", INT)], binds=_NOW, stmts=[5], result=["deadline"],
         note="cut: `deadline = time.time() + timeout`" + _CLK),
    Spec(GROUP, "smi_timeout", F, SDR, [("rwt", INT), ("deadline", INT)], binds=_NOW, path=[(6, "body")], stmts=(0, 2),
         result=["timeout"], note="cut: head of the `while True` loop, `timeout = min(rwt, deadline - time.time())` and "
                                  "`if timeout <= 0: raise TimeoutError`" + _CLK),
    Spec(GROUP, "smi_n_atn", F, SDR, [], path=[(6, "body"), (2, ("handlers", 0))], stmts=[0], expr="2",
         note="cut: the retry count in `request_attention(self, 2, rwt, deadline)` (handler of TimeoutError)"),
    Spec(GROUP, "smi_n_nak", F, SDR, [], path=[(6, "body"), (2, ("handlers", 1))], stmts=[0], expr="2",
         note="cut: the retry count in `request_retransmission(self, 2, rwt, deadline)` (handler of TransmissionError)"),
    Spec(GROUP, "smi_atn_range", F, RA, [("n_retry_atn", INT)], stmts=[1], expr="range(n_retry_atn)",
         note="cut: the iteration space of the attention loop"),
    Spec(GROUP, "smi_atn_timeout", F, RA, [("rwt", INT), ("deadline", INT)], binds=_NOW, path=[(1, "body")], stmts=(0, 2),
         result=["timeout"], note="cut: head of the attention loop (timeout, TimeoutError when the deadline passed)" + _CLK),
    Spec(GROUP, "smi_atn_fail", F, RA, [], stmts=[2, 3], note="cut: the statements behind the attention loop (retries used up)"),
    Spec(GROUP, "smi_nak_range", F, RR, [("n_retry_nak", INT)], stmts=[1], expr="range(n_retry_nak)",
         note="cut: the iteration space of the retransmission loop"),
    Spec(GROUP, "smi_nak_timeout", F, RR, [("rwt", INT), ("deadline", INT)], binds=_NOW, path=[(1, "body")], stmts=(0, 2),
         result=["timeout"], note="cut: head of the retransmission loop" + _CLK),
    Spec(GROUP, "smi_nak_fail", F, RR, [], stmts=[2, 3], note="cut: the statements behind the retransmission loop (retries used up)"),
    # ---- Initiator.exchange: loop conditions, the two timeout extension loops
    Spec(GROUP, "smi_send_test", F, I + "exchange", [("send_data", BYTES)], stmts=[4], expr="send_data", nth=0, ret=BOOL,
         note="cut: the condition of `while send_data:`"),
    Spec(GROUP, "smi_recv_init", F, I + "exchange", [], binds=[("res.data", "data", BYTES)], stmts=[6], result=["recv_data"],
         note="cut: `recv_data = res.data` in front of the receive loop"),
    Spec(GROUP, "smi_rtox_range_s", F, I + "exchange", [], path=[(4, "body")], stmts=[4], expr="range(3)",
         note="cut: send loop, iteration space of the timeout extension loop"),
    Spec(GROUP, "smi_rtox_call_s", F, I + "exchange", [], path=_RTOX_S, stmts=[0], binds=[("res.data", "data", BYTES)] + _SDN,
         opaque={"RTOX": ("mk", [BYTES, OPT(INT), OPT(INT)], _TOK3, False)}, result=["req"],
         note="cut: send loop, the call `req = RTOX(res.data, self.did, self.nad)`; RTOX is the parameter `mk`"),
    Spec(GROUP, "smi_rtox_wait_s", F, I + "exchange", [], path=_RTOX_S, stmts=[1],
         binds=[("res.data", "data", BYTES), ("self.rwt", "srwt", INT)], result=["rwt"],
         note="cut: send loop, `rwt = res.data[0] * self.rwt`; `self.rwt` (a float in the source) is the integer `srwt`"),
    Spec(GROUP, "smi_rtox_done_s", F, I + "exchange", [], path=_RTOX_S, stmts=[4],
         expr="res.pfb.fmt != DEP_RES.TimeoutExtension", binds=_FMT, note="cut: send loop, the `break` condition of the extension loop"),
    Spec(GROUP, "smi_rtox_fail_s", F, I + "exchange", [], path=[(4, "body"), (4, "body"), (0, "orelse")], stmts=[0, 1],
         note="cut: send loop, the `else` clause of the extension loop (three extensions used up)"),
    Spec(GROUP, "smi_tox_test_r", F, I + "exchange", [], path=[(7, "body")], stmts=[2],
         expr="res.pfb.fmt == DEP_RES.TimeoutExtension", binds=_FMT, note="cut: receive loop, the timeout extension test"),
    Spec(GROUP, "smi_rtox_range_r", F, I + "exchange", [], path=[(7, "body")], stmts=[2], expr="range(3)",
         note="cut: receive loop, iteration space of the timeout extension loop"),
    Spec(GROUP, "smi_rtox_call_r", F, I + "exchange", [], path=_RTOX_R, stmts=[0], binds=[("res.data", "data", BYTES)] + _SDN,
         opaque={"RTOX": ("mk", [BYTES, OPT(INT), OPT(INT)], _TOK3, False)}, result=["req"],
         note="cut: receive loop, the call `req = RTOX(res.data, self.did, self.nad)`; RTOX is the parameter `mk`"),
    Spec(GROUP, "smi_rtox_wait_r", F, I + "exchange", [], path=_RTOX_R, stmts=[1],
         binds=[("res.data", "data", BYTES), ("self.rwt", "srwt", INT)], result=["rwt"],
         note="cut: receive loop, `rwt = res.data[0] * self.rwt`; `self.rwt` is the integer `srwt`"),
    Spec(GROUP, "smi_rtox_done_r", F, I + "exchange", [], path=_RTOX_R, stmts=[4],
         expr="res.pfb.fmt != DEP_RES.TimeoutExtension", binds=_FMT, note="cut: receive loop, the `break` condition of the extension loop"),
    Spec(GROUP, "smi_rtox_fail_r", F, I + "exchange", [], path=[(7, "body"), (2, "body"), (0, "orelse")], stmts=[0, 1],
         note="cut: receive loop, the `else` clause of the extension loop"),
    # ---- Initiator.deactivate, send_req_recv_res
    Spec(GROUP, "smi_deact_req", F, I + "deactivate", [("release", BOOL)], binds=[("self.did", "did", OPT(INT))], stmts=[1],
         opaque={"RLS_REQ": ("mkrls", [OPT(INT)], TUP(INT, OPT(INT)), False), "DSL_REQ": ("mkdsl", [OPT(INT)], TUP(INT, OPT(INT)), False)},
         result=["req"], note="cut: `req = RLS_REQ(self.did) if release else DSL_REQ(self.did)`; the two classes are the "
                              "function parameters `mkrls`, `mkdsl`"),
    Spec(GROUP, "smi_kind_chk", F, I + "send_req_recv_res", [], stmts=[7],
         binds=[("res.PDU_NAME[0:3]", "res_kind", STR), ("req.PDU_NAME[0:3]", "req_kind", STR), ("req.PDU_NAME", "req_name", STR)],
         note="cut: `if res.PDU_NAME[0:3] != req.PDU_NAME[0:3]: raise ProtocolError`; the two name prefixes are parameters "
              "(`req_name` only appears in the error message)"),
    # ---- Initiator.activate
    Spec(GROUP, "smi_act_asserts", F, I + "activate", [], binds=_SDN, stmts=[7, 8],
         note="cut: the two `assert`s on `self.did` / `self.nad`"),
    Spec(GROUP, "smi_act_sel_res", F, I + "activate", [], binds=[("target.sel_res", "sel_res", BYTES)], path=[(16, "body")], stmts=[3],
         expr="bool(target.sel_res[0] & 0x40)", note="cut: 106A passive target search, the NFC-DEP bit of SEL_RES"),
    Spec(GROUP, "smi_act_sensf", F, I + "activate", [], binds=[("target.sensf_res", "sensf_res", BYTES)], path=[(17, "body")], stmts=[3],
         expr="target.sensf_res.startswith(b'\\1\\1\\xFE')", note="cut: 212F passive target search, the NFCID2 prefix of an NFC-DEP target"),
    Spec(GROUP, "smi_act_212", F, I + "activate", [], binds=[("self.brs", "brs", INT)], stmts=[17], expr="self.brs > 0",
         note="cut: the 212F search is made only for `self.brs > 0`"),
    Spec(GROUP, "smi_act_psl", F, I + "activate", [], path=[(19, "body")], stmts=[0],
         binds=[("self.brs", "brs", INT), ("('106A', '212F', '424F').index(self.target.brty)", "brty_idx", INT)],
         expr="self.brs > ('106A', '212F', '424F').index(self.target.brty)",
         note="cut: the PSL decision; the index of the current bit rate in the tuple of strings is the parameter `brty_idx`"),
    Spec(GROUP, "smi_act_pni", F, I + "activate", [], path=[(19, "body")], stmts=[4], stores=["self.pni"], result=["self.pni"],
         note="cut: `self.pni = 0` at the end of the activation"),
    # ---- PDU builders of the Target
    Spec(GROUP, "smt_inf", F, TG + "exchange.INF", [("pni", INT), ("data", BYTES), ("more", BOOL)] + _DN, stmts=(0, 3), records=_RS,
         ret=REC("DEP_RES"), note="local function INF of Target.exchange" + _REC),
    Spec(GROUP, "smt_ack", F, TG + "exchange.ACK", [("pni", INT)] + _DN, stmts=(0, 3), records=_RS, ret=REC("DEP_RES"),
         note="local function ACK of Target.exchange" + _REC),
    Spec(GROUP, "smt_rtox", F, TG + "send_timeout_extension.RTOX", [("rtox", INT)] + _DN, stmts=(0, 3), records=_RS, ret=REC("DEP_RES"),
         note="local function RTOX of Target.send_timeout_extension" + _REC),
    Spec(GROUP, "smt_atn", F, TG + "send_dep_res_recv_dep_req.ATN", _DN, stmts=(0, 3), records=_RS, ret=REC("DEP_RES"),
         note="local function ATN of Target.send_dep_res_recv_dep_req" + _REC),
    Spec(GROUP, "smt_deact_inf", F, TG + "_deactivate.INF", [("pni", INT), ("data", BYTES)] + _DN, stmts=(0, 3), records=_RS, ret=REC("DEP_RES"),
         note="local function INF of Target._deactivate" + _REC),
    Spec(GROUP, "smt_deact_atn", F, TG + "_deactivate.ATN", _DN, stmts=(0, 3), records=_RS, ret=REC("DEP_RES"),
         note="local function ATN of Target._deactivate" + _REC),
    # ---- Target.exchange
    Spec(GROUP, "smt_empty_chk", F, TG + "exchange", [("send_data", OPT(BYTES))], stmts=[2],
         note="cut: `if send_data is not None and len(send_data) == 0: raise ValueError`"),
    Spec(GROUP, "smt_first_assert", F, TG + "exchange", [("send_data", OPT(BYTES))], path=[(4, "body")], stmts=[0],
         note="cut: first call (`self.cmd is not None`), `assert send_data is None`"),
    Spec(GROUP, "smt_first_pni", F, TG + "exchange", [], path=[(4, "body")], stmts=[3], stores=["self.pni"], result=["self.pni"],
         note="cut: first call, `self.pni = 0`"),
    Spec(GROUP, "smt_send_test", F, TG + "exchange", [("send_data", BYTES)], path=[(4, "orelse")], stmts=[1], expr="send_data", nth=0,
         ret=BOOL, note="cut: the condition of `while send_data:`"),
    Spec(GROUP, "smt_recv_init", F, TG + "exchange", [], stmts=[5], result=["recv_data"], note="cut: `recv_data = bytearray()`"),
    Spec(GROUP, "smt_recv_acc", F, TG + "exchange", [("recv_data", BYTES)], binds=[("req.data", "data", BYTES)], path=[(6, "body")],
         stmts=[0], result=["recv_data"], note="cut: receive loop, `recv_data += req.data`"),
    Spec(GROUP, "smt_recv_last", F, TG + "exchange", [("recv_data", BYTES)], binds=[("req.data", "data", BYTES)], stmts=[7, 8],
         note="cut: `recv_data += req.data; return recv_data` behind the receive loop"),
    # ---- Target.send_timeout_extension, send_res_recv_req, _deactivate, activate
    Spec(GROUP, "smt_rtox_call", F, TG + "send_timeout_extension", [("rtox", INT)], binds=_SDN, stmts=[1],
         opaque={"RTOX": ("mk", [INT, OPT(INT), OPT(INT)], TUP(INT, OPT(INT), OPT(INT)), False)}, result=["res"],
         note="cut: the call `res = RTOX(rtox, self.did, self.nad)`; RTOX is the parameter `mk`"),
    Spec(GROUP, "smt_rtox_accept", F, TG + "send_timeout_extension", [], stmts=[3],
         binds=[("type(req) == DEP_REQ", "is_dep", BOOL), ("req.pfb.fmt", "fmt", INT)],
         expr="type(req) == DEP_REQ and req.pfb.fmt == DEP_REQ.TimeoutExtension",
         note="cut: the condition under which the answer is read as the Initiator's RTOX response; `type(req) == DEP_REQ` "
              "is the Bool parameter `is_dep`"),
    Spec(GROUP, "smt_wait", F, TG + "send_res_recv_req", [("deadline", INT)], binds=_NOW, path=[(1, "orelse"), (1, "body")], stmts=[0],
         result=["timeout"], note="cut: `timeout = deadline-time.time() if deadline > time.time() else 0`; both clock reads "
                                  "are the one parameter `now`, integers for floats"),
    Spec(GROUP, "smt_have_frame", F, TG + "send_res_recv_req", [("frame", OPT(BYTES))], stmts=[2], expr="frame", nth=0, ret=BOOL,
         note="cut: the condition of `if frame:` (None and the empty frame are no request)"),
    Spec(GROUP, "smt_deact_answer", F, TG + "_deactivate", [("data", BYTES)], path=[(4, "body"), (2, "body"), (1, "body")], stmts=[0],
         binds=[("req.pfb.fmt", "fmt", INT), ("req.pfb.pni", "rpni", INT)] + _SDN,
         opaque={"ATN": ("mkatn", [OPT(INT), OPT(INT)], INT, False),
                 "INF": ("mkinf", [INT, BYTES, OPT(INT), OPT(INT)], INT, False)}, result=["res"],
         note="cut: the answer to a DEP_REQ while deactivating: attention response, else an INF PDU with the request's "
              "packet number; the local functions ATN, INF are the parameters `mkatn`, `mkinf` (PDU objects are int tokens)"),
    Spec(GROUP, "smt_act_acm", F, TG + "activate", [],
         binds=[("target.sens_res", "sens_res", BYTES), ("target.sensf_res", "sensf_res", BYTES)],
         path=[(15, "body")], stmts=[8], stores=["self.acm"], result=["self.acm"],
         note="cut: `self.acm = not (target.sens_res or target.sensf_res)`; both attributes are byte strings (None is the "
              "empty string)"),
]
P = "NfcVerif.FnBridge.DepSm."
BRIDGE = {
    "module": "NfcVerif.Props.FnBridgeDepSm",
    "theorems": [P + t for t in (
        "inf_bridge", "ack_bridge", "nak_bridge", "atn_bridge", "rtox_bridge", "rtox_pdu", "builders_record", "gen_builders_wire",
        "timeout_bridge", "timeout_ref", "deadline_bridge", "gen_deadline_fresh", "retry_counts",
        "req_attention_bridge", "req_retrans_bridge", "nak_check_bridge", "send_dep_loop_bridge", "send_dep_bridge",
        "cutS_sound", "cutR_sound", "rtox_loop_bridge", "transact_bridge", "send_loop_bridge", "recv_loop_bridge",
        "exchange_bridge", "deactivate_bridge", "rtox_wait_bridge", "gen_rtox_wait_total", "gen_rtox_safe",
        "kind_chk_bridge", "act_asserts_bridge", "act_sel_res_bridge", "act_sensf_bridge", "act_psl_bridge", "first_pni_bridge",
        "tgt_inf_bridge", "tgt_ack_bridge", "tgt_atn_bridge", "tgt_send_chunk_bridge", "tgt_recv_bridge", "tgt_accept_bridge",
        "dispatch_table", "tgt_rx_active_bridge", "tgt_rx_bridge", "tgt_rtox_bridge", "tgt_rtox_pdu", "tgt_rtox_call_bridge",
        "tgt_wait_bridge", "tgt_have_frame_bridge", "tgt_deact_answer_bridge", "tgt_deact_builders_bridge", "tgt_act_acm_bridge",
        "tgt_first_assert_bridge", "gen_exchange_error_kind", "gen_retransmission_idempotent", "gen_foreign_did_silent",
        "gen_nothing_after_error")],
    "properties": ["C04", "C07"],
}


def accept(sp, pv, bv):
    """precondition of the `range(n)` cuts: a retry count that fits into memory (the source passes the constant 2)"""
    if sp.lean in ("smi_atn_range", "smi_nak_range"):
        return pv[0] <= 2000
    return True


def _b(rng, n):
    return bytes(rng.randrange(256) for _ in range(n))


def inputs(rng, sp):
    out = []
    opt = [None, 0, 1, 7, 255, 256]
    if sp.lean in ("smi_inf", "smt_inf"):
        for pni in (0, 1, 2, 3, 4):
            for more in (False, True):
                for did in opt[:4]:
                    for nad in opt[:3]:
                        out.append(([pni, _b(rng, rng.randrange(4)), more, did, nad], []))
    if sp.lean in ("smi_ack", "smt_ack"):
        for pni in range(0, 5):
            for did in opt:
                for nad in opt[:3]:
                    out.append(([pni, did, nad], []))
    if sp.lean == "smi_nak":
        for pni in range(0, 4):
            for spni in range(0, 5):
                for did in opt[:3]:
                    out.append(([pni, did, rng.choice(opt)], [spni]))
    if sp.lean == "smi_atn":
        for did in opt + [-1, 14]:
            out.append(([], [did]))
    if sp.lean == "smi_rtox":
        for v in (0, 1, 2, 58, 59, 60, 61, 255):
            for did in opt[:3]:
                out.append(([bytes([v]), did, rng.choice(opt)], []))
                out.append(([bytes([v, 9]), did, None], []))
        out.append(([b"", None, None], []))
    if sp.lean == "smt_rtox":
        for v in (-1, 0, 1, 59, 63, 64, 255, 256, 300):
            for did in opt[:3]:
                out.append(([v, did, None], []))
    if sp.lean in ("smt_atn", "smt_deact_atn"):
        for did in opt:
            for nad in opt[:3]:
                out.append(([did, nad], []))
    if sp.lean == "smt_deact_inf":
        for pni in range(0, 5):
            for did in opt[:3]:
                out.append(([pni, _b(rng, rng.randrange(5)), did, None], []))
    if sp.lean in ("smi_timeout", "smi_atn_timeout", "smi_nak_timeout"):
        for rwt in (-1, 0, 1, 5, 1000):
            for deadline in (0, 10, 11, 1000):
                for now in (0, 9, 10, 11, 2000):
                    out.append(([rwt, deadline], [now]))
    if sp.lean == "smi_deadline":
        for t in (-1, 0, 1, 100):
            for now in (0, 5, 10 ** 9):
                out.append(([t], [now]))
    if sp.lean in ("smi_atn_range", "smi_nak_range"):
        for n in (-2, -1, 0, 1, 2, 3, 7):
            out.append(([n], []))
    if sp.lean in ("smi_send_test", "smt_send_test"):
        for n in (0, 1, 2, 300):
            out.append(([_b(rng, n)], []))
    if sp.lean in ("smi_rtox_wait_s", "smi_rtox_wait_r"):
        for v in (0, 1, 59, 60, 255):
            for rwt in (0, 1, 13, 1000):
                out.append(([], [bytes([v]) + _b(rng, rng.randrange(3)), rwt]))
        out.append(([], [b"", 5]))
    if sp.lean in ("smi_rtox_done_s", "smi_rtox_done_r", "smi_tox_test_r"):
        for fmt in range(-1, 17):
            out.append(([], [fmt]))
    if sp.lean == "smi_kind_chk":
        for a in ("DEP", "DSL", "RLS", "ATR", "PSL"):
            for b in ("DEP", "DSL", "RLS", "ATR", "PSL"):
                out.append(([], [a, b, b + "-REQ"]))
    if sp.lean == "smi_act_asserts":
        for did in (None, -1, 0, 1, 255, 256, 1000):
            for nad in (None, -1, 0, 255, 256):
                out.append(([], [did, nad]))
    if sp.lean == "smi_act_sel_res":
        for v in (0x00, 0x20, 0x40, 0x60, 0xBF, 0xFF):
            out.append(([], [bytes([v])]))
            out.append(([], [bytes([v, 0x40])]))
        out.append(([], [b""]))
    if sp.lean == "smi_act_sensf":
        for pre in (b"\x01\x01\xfe", b"\x01\x01\xff", b"\x01\x02\xfe", b"\x00\x01\xfe", b"\x01\x01", b"\x01", b""):
            out.append(([], [pre + _b(rng, rng.choice([0, 5, 16]))]))
    if sp.lean == "smi_act_212":
        for brs in (-1, 0, 1, 2, 3):
            out.append(([], [brs]))
    if sp.lean == "smi_act_psl":
        for brs in (0, 1, 2):
            for idx in (0, 1, 2):
                out.append(([], [brs, idx]))
    if sp.lean in ("smt_empty_chk", "smt_first_assert", "smt_have_frame"):
        for v in (None, b"", b"\x00", b"ab", _b(rng, 300)):
            out.append(([v], []))
    if sp.lean in ("smt_recv_acc", "smt_recv_last"):
        for n in (0, 1, 5):
            for m in (0, 1, 7):
                out.append(([_b(rng, n)], [_b(rng, m)]))
    if sp.lean == "smi_recv_init":
        for n in (0, 1, 5, 300):
            out.append(([], [_b(rng, n)]))
    if sp.lean == "smt_rtox_accept":
        for fmt in range(-1, 12):
            for isdep in (False, True):
                out.append(([], [isdep, fmt]))
    if sp.lean == "smt_wait":
        for deadline in (0, 10, 11, 1000):
            for now in (0, 9, 10, 11, 2000):
                out.append(([deadline], [now]))
    if sp.lean == "smt_act_acm":
        for a in (b"", b"\x01\x01"):
            for f in (b"", b"\x01" + bytes(17)):
                out.append(([], [a, f]))
    return out


def _second(old, new):
    """replace the second occurrence of `old` in the function segment"""
    def f(seg):
        i = seg.index(old)
        j = seg.index(old, i + len(old))
        return seg[:j] + new + seg[j + len(old):]
    return f


MUTATIONS = [
    ("smi_inf", "INF PDU type selected by the inverted more flag", "(DEP_REQ.LastInformation, DEP_REQ.MoreInformation)[more]",
     "(DEP_REQ.MoreInformation, DEP_REQ.LastInformation)[more]"),
    ("smi_ack", "ACK built with the NACK type", "pdu_type = DEP_REQ.PositiveAck", "pdu_type = DEP_REQ.NegativeAck"),
    ("smi_atn", "attention request without DID flag (F26 as found)", "DEP_REQ.PFB(pdu_type, False, self.did is not None, 0)",
     "DEP_REQ.PFB(pdu_type, False, False, 0)"),
    ("smi_atn", "attention request carries a NAD", "DEP_REQ(pfb, did=self.did, nad=None, data=None)",
     "DEP_REQ(pfb, did=self.did, nad=self.did, data=None)"),
    ("smi_nak", "NACK carries the next packet number", "pdu_type, nad is not None, did is not None, self.pni)",
     "pdu_type, nad is not None, did is not None, (self.pni + 1) & 3)"),
    ("smi_rtox", "RTOX value not echoed", "data=bytearray([rtox])", "data=bytearray([1])"),
    ("smi_rtox", "RTOX request with the flags swapped", "DEP_REQ.PFB(pdu_type, nad is not None, did is not None, 0)",
     "DEP_REQ.PFB(pdu_type, did is not None, nad is not None, 0)"),
    ("smi_timeout", "deadline ignored in the main loop", "        while True:\n            timeout = min(rwt, deadline - time.time())",
     "        while True:\n            timeout = rwt"),
    ("smi_timeout", "attempt allowed at the deadline", "            if timeout <= 0:\n                raise nfc.clf.TimeoutError()",
     "            if timeout < 0:\n                raise nfc.clf.TimeoutError()"),
    ("smi_n_atn", "one attention retry only", "request_attention(self, 2, rwt, deadline)", "request_attention(self, 1, rwt, deadline)"),
    ("smi_n_nak", "three retransmission requests", "request_retransmission(self, 2, rwt, deadline)", "request_retransmission(self, 3, rwt, deadline)"),
    ("smi_atn_fail", "exhausted attention retries reported as timeout",
     'error = "unrecoverable NFC-DEP error in attention request"\n            raise nfc.clf.ProtocolError(error)',
     'error = "unrecoverable NFC-DEP error in attention request"\n            raise nfc.clf.TimeoutError(error)'),
    ("smi_atn_range", "attention loop starts at 1 (one attempt less)", "for i in range(n_retry_atn):", "for i in range(1, n_retry_atn):"),
    ("smi_rtox_range_s", "four timeout extensions", "for i in range(3):", "for i in range(4):"),
    ("smi_rtox_done_r", "receive loop: extension loop left on a further RTOX",
     _second("if res.pfb.fmt != DEP_RES.TimeoutExtension:", "if res.pfb.fmt == DEP_RES.TimeoutExtension:"), None),
    ("smi_rtox_fail_s", "too many extensions reported as ProtocolError", 'raise nfc.clf.TimeoutError("timeout extension")',
     'raise nfc.clf.ProtocolError("timeout extension")'),
    ("smi_rtox_wait_s", "extension not multiplied", "rwt = res.data[0] * self.rwt", "rwt = res.data[0] + self.rwt"),
    ("smi_recv_init", "first response chunk dropped", "recv_data = res.data\n", "recv_data = res.data[1:]\n"),
    ("smi_deact_req", "release and deselect swapped", "RLS_REQ(self.did) if release else DSL_REQ(self.did)",
     "DSL_REQ(self.did) if release else RLS_REQ(self.did)"),
    ("smi_kind_chk", "response kind check inverted", "if res.PDU_NAME[0:3] != req.PDU_NAME[0:3]:", "if res.PDU_NAME[0:3] == req.PDU_NAME[0:3]:"),
    ("smi_act_asserts", "DID upper bound", "0 <= self.did <= 255", "0 <= self.did <= 256"),
    ("smi_act_psl", "PSL also at the current bit rate", "if self.brs > ('106A', '212F', '424F').index(self.target.brty):",
     "if self.brs >= ('106A', '212F', '424F').index(self.target.brty):"),
    ("smi_act_sel_res", "wrong SEL_RES bit", "target.sel_res[0] & 0x40", "target.sel_res[0] & 0x20"),
    ("smt_inf", "DID and NAD flags swapped", "DEP_RES.PFB(pdu_type, nad is not None, did is not None, pni)",
     "DEP_RES.PFB(pdu_type, did is not None, nad is not None, pni)"),
    ("smt_atn", "attention response with packet number 1", "DEP_RES.PFB(pdu_type, nad is not None, did is not None, 0)",
     "DEP_RES.PFB(pdu_type, nad is not None, did is not None, 1)"),
    ("smt_rtox", "RTOX value masked", "data=bytearray([rtox])", "data=bytearray([rtox & 0x3F])"),
    ("smt_empty_chk", "empty payload check off by one", "len(send_data) == 0", "len(send_data) == 1"),
    ("smt_first_pni", "first packet number 1", "            self.pni = 0\n", "            self.pni = 1\n"),
    ("smt_recv_acc", "chained data overwritten", "            recv_data += req.data\n", "            recv_data = req.data\n"),
    ("smt_rtox_accept", "attention taken for the RTOX response", "req.pfb.fmt == DEP_REQ.TimeoutExtension", "req.pfb.fmt == DEP_REQ.Attention"),
    ("smt_wait", "one time unit after the deadline", "if deadline > time.time() else 0", "if deadline > time.time() else 1"),
    ("smt_deact_answer", "NACK answered like attention while deactivating", "if req.pfb.fmt == DEP_REQ.Attention:\n                        res = ATN(self.did, self.nad)\n                    else:\n                        res = INF(",
     "if req.pfb.fmt == DEP_REQ.NegativeAck:\n                        res = ATN(self.did, self.nad)\n                    else:\n                        res = INF("),
    ("smt_act_acm", "or -> and", "not (target.sens_res or target.sensf_res)", "not (target.sens_res and target.sensf_res)"),
    ("smt_recv_last", "last chunk not appended", "        recv_data += req.data\n        return recv_data", "        return recv_data"),
    ("smi_nak_timeout", "NEUTRAL comparison written the other way round", "if timeout <= 0:", "if 0 >= timeout:"),
]
