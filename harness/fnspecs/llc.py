"""group Llc: nfc/llcp/llc.py link controller arithmetic and the PAX parameter evaluation it rests on
(nfc/llcp/pdu.py ParameterExchange getters/setters) -> Model/Activate.lean, Model/Collect.lean, Model/Sap.lean
(C17, C10, C19)

Cuts common to all entries: objects are not modelled, every attribute the translated statements read is a
parameter (`binds`); the address table `self.sap`, the dictionaries `self.snl` / `self.cfg` and the queues are
outside the translated slices unless a note says how they are passed.
"""
from translate_fn import Spec, INT, OPT, BYTES, TUP, BOOL

GROUP = "Llc"
ORDER = 61
F = "llcp/llc.py"
P = "llcp/pdu.py"
PAX = "ParameterExchange."
_V = [("self._version", "version", OPT(INT))]
_M = [("self._miux", "miux", OPT(INT))]
_W = [("self._wks", "wks", OPT(INT))]
_L = [("self._lto", "lto", OPT(INT))]
_O = [("self._opt", "opt", OPT(INT))]

SPECS = [
    # --- what `activate()` reads from the received PAX PDU (llc.py:366-371)
    Spec(GROUP, "llc_pax_version", P, PAX + "version", [], binds=[("self._version", "version", INT)],
         note="property getter; cut: `_version is None` is passed as 0 (both are falsy and the value is not read then)"),
    Spec(GROUP, "llc_pax_miu", P, PAX + "miu", [], binds=_M, note="property getter"),
    Spec(GROUP, "llc_pax_wks", P, PAX + "wks", [], binds=_W, note="property getter"),
    Spec(GROUP, "llc_pax_lto", P, PAX + "lto", [], binds=_L, note="property getter"),
    Spec(GROUP, "llc_pax_lsc", P, PAX + "lsc", [], binds=_O, note="property getter"),
    Spec(GROUP, "llc_pax_dpc", P, PAX + "dpc", [], binds=_O, note="property getter"),
    Spec(GROUP, "llc_pax_len", P, PAX + "__len__", [], binds=_V + _M + _W + _L + _O),
    # --- what `activate()` writes into the PAX PDU it sends (llc.py:329-339): the property setters
    Spec(GROUP, "llc_pax_set_version", P, PAX + "version@setter", [("value", TUP(INT, INT))],
         stores=["self._version"], result=["self._version"], note="property setter; result: the stored `_version`"),
    Spec(GROUP, "llc_pax_set_miu", P, PAX + "miu@setter", [("value", INT)], stores=["self._miux"],
         result=["self._miux"], note="property setter; result: the stored `_miux`"),
    Spec(GROUP, "llc_pax_set_wks", P, PAX + "wks@setter", [("value", INT)], stores=["self._wks"],
         result=["self._wks"], note="property setter; result: the stored `_wks`"),
    Spec(GROUP, "llc_pax_set_lto", P, PAX + "lto@setter", [("value", INT)], stores=["self._lto"],
         result=["self._lto"], note="property setter; result: the stored `_lto`"),
    # --- llc.py
    Spec(GROUP, "llc_listen_backlog", F, "LogicalLinkController.listen", [("backlog", INT)], stmts=(3, 5),
         result=["backlog"], note="cut: the range check and the clamp of an int backlog (statements 3-4); result: backlog"),
    Spec(GROUP, "llc_sd_enqueue_sap", F, "ServiceDiscovery.enqueue", [("sap", INT)],
         path=[(0, "body"), (0, "body"), (0, "body")], stmts=(2, 4), result=["sap"],
         note="cut: inside `for tid, sap in rcvd_pdu.sdres` (statements 2-3 of the loop body): the address a "
              "received SDRES value resolves to; parameter `sap` is the loop variable"),
    Spec(GROUP, "llc_dispatch_dm_reason", F, "LogicalLinkController.dispatch", [],
         binds=[("rcvd_pdu.sn", "sn", OPT(BYTES))], path=[(2, "body"), (1, "body")], stmts=[0], result=["dm_reason"],
         note="cut: connect-by-name for an unknown service: the DM reason (0x10 without, 0x02 with a service name)"),
    Spec(GROUP, "llc_bind_addr_range", F, "LogicalLinkController._bind_by_addr", [("addr", INT)], stmts=[0],
         note="cut: statement 0, the range check of an explicit address -> EFAULT"),
    # --- batch 2: PAX construction and evaluation in activate()
    Spec(GROUP, "llc_pax_set_lsc", P, PAX + "lsc@setter", [("value", INT)], binds=_O, stores=["self._opt"],
         result=["self._opt"], note="property setter; result: the stored `_opt`"),
    Spec(GROUP, "llc_pax_set_dpc", P, PAX + "dpc@setter", [("value", INT)], binds=_O, stores=["self._opt"],
         result=["self._opt"], note="property setter; result: the stored `_opt`"),
    Spec(GROUP, "llc_activate_pax", F, "LogicalLinkController.activate", [("wks", INT)],
         binds=[("self.cfg['recv-miu']", "recv_miu", INT), ("self.cfg['send-lto']", "send_lto", INT),
                ("self.cfg['send-lsc']", "send_lsc", INT), ("self.cfg['llcp-sec']", "llcp_sec", BOOL),
                ("send_pax.miu", "pax_miu", OPT(INT)), ("send_pax.lto", "pax_lto", OPT(INT)),
                ("send_pax.lsc", "pax_lsc", OPT(INT)), ("send_pax.dpc", "pax_dpc", OPT(INT))],
         stores=["send_pax.version", "send_pax.wks", "send_pax.miu", "send_pax.lto", "send_pax.lsc", "send_pax.dpc"],
         stmts=(4, 10),
         result=["send_pax.version", "send_pax.wks", "send_pax.miu", "send_pax.lto", "send_pax.lsc", "send_pax.dpc"],
         note="cut: statements 4-9: which attributes of `send_pax` are assigned which option value; the assigned "
              "value goes through the property setter (llc_pax_set_*); a not assigned attribute keeps the bound "
              "value (None = setter not called); `wks` is the value of the comprehension in statement 2"),
    Spec(GROUP, "llc_activate_gb_ok", F, "LogicalLinkController.activate", [("gb", BYTES)],
         expr="gb and gb.startswith(b'Ffm') and (len(gb) >= 6)", whole=True, ret=BOOL,
         note="cut: the test whether the general bytes returned by the MAC are LLCP parameters (truth value); "
              "`gb` is a byte string (None behaves like the empty one)"),
    Spec(GROUP, "llc_activate_pax_bytes", F, "LogicalLinkController.activate", [("gb", BYTES)],
         expr="b'\\x00@' + bytes(gb[3:])", note="cut: the argument of `pdu.decode`: a PAX header in front of the TLVs; deliberately a SUB-expression "
              "(not whole=True): the enclosing value `pdu.decode(..)` is the module-level decoder dispatch, which is "
              "not translated, so a change of the call around this argument is not seen by this cut"),
    Spec(GROUP, "llc_activate_dpc", F, "LogicalLinkController.activate", [],
         binds=[("rcvd_pax.dpc", "dpc", INT), ("self.cfg['llcp-sec']", "llcp_sec", BOOL)],
         expr="rcvd_pax.dpc if self.cfg['llcp-sec'] else 0", whole=True, note="cut: the value stored as cfg['llcp-dpc']"),
    Spec(GROUP, "llc_secure_data_transfer", F, "LogicalLinkController.secure_data_transfer", [],
         binds=[("self.cfg.get('llcp-dpc', 0)", "dpc", INT)], note="property getter; the dictionary read is a parameter"),
    # --- collect(): aggregation budget
    Spec(GROUP, "llc_collect_icv", F, "LogicalLinkController.collect", [],
         binds=[("self.sec", "has_sec", BOOL), ("self.sec.icv_size", "icv_size", INT)],
         expr="self.sec.icv_size if self.sec else 0", whole=True, note="cut: `icv_size`; `self.sec` (cipher or None) as a bool"),
    Spec(GROUP, "llc_collect_first_full", F, "LogicalLinkController.collect", [("miu_size", INT)],
         binds=[("len(send_pdu)", "pdu_len", INT), ("send_pdu.header_size", "header_size", INT)],
         expr="len(send_pdu) - send_pdu.header_size >= miu_size", whole=True,
         note="cut: the test that sends the first PDU alone because it fills the link MIU"),
] + [
    Spec(GROUP, "llc_collect_budget%d" % _k, F, "LogicalLinkController.collect", [],
         binds=[("self.cfg['send-miu']", "send_miu", INT), ("len(agf_pdu)", "agf_len", INT)],
         expr="self.cfg['send-miu'] - len(agf_pdu) - 3", whole=True, nth=_k,
         note="cut: occurrence %d of the aggregation budget `miu_size`" % _k) for _k in range(3)
] + [
    # --- ServiceDiscovery.dequeue batching
    Spec(GROUP, "llc_sd_res_cond", F, "ServiceDiscovery.dequeue", [("miu_size", INT)], expr="miu_size >= 4", whole=True,
         note="cut: condition of the `while` that adds service discovery responses"),
    Spec(GROUP, "llc_sd_res_take", F, "ServiceDiscovery.dequeue", [("miu_size", INT)],
         path=[(0, "body"), (0, "body"), (1, "body"), (0, "body")], stmts=[1], result=["miu_size"],
         note="cut: budget after one response was added (second statement of the `try`)"),
    Spec(GROUP, "llc_sd_req_skip", F, "ServiceDiscovery.dequeue", [("miu_size", INT), ("name", BYTES)],
         expr="3 + len(name) > miu_size", whole=True, note="cut: a request that does not fit is rotated to the end; `name` is a local"),
    Spec(GROUP, "llc_sd_req_take", F, "ServiceDiscovery.dequeue", [("miu_size", INT), ("name", BYTES)],
         path=[(0, "body"), (0, "body"), (2, "body"), (1, "orelse")], stmts=[2], result=["miu_size"],
         note="cut: budget after one request was added"),
    Spec(GROUP, "llc_sd_dm_cond", F, "ServiceDiscovery.dequeue", [("miu_size", INT)],
         binds=[("len(self.dmpdu)", "dm_count", INT)], expr="len(self.dmpdu) > 0 and miu_size > 0", whole=True,
         note="cut: a pending DM PDU is sent only with a positive budget"),
    # --- socket API of the link controller
    Spec(GROUP, "llc_bind_by_addr", F, "LogicalLinkController._bind_by_addr", [("addr", INT)],
         binds=[("isinstance(socket, tco.RawAccessPoint)", "is_raw", BOOL), ("self.sap[addr]", "sap_at", OPT(INT))],
         drop=["socket.bind", "self.sap[addr] = ", "self.sap[addr].insert_socket"],
         note="whole method as a decision: the three statements that enter the socket into the table are dropped; "
              "`self.sap[addr]` (None or an object, here some marker) and the isinstance test are parameters"),
    Spec(GROUP, "llc_setsockopt_clamp", F, "LogicalLinkController.setsockopt", [("option", INT), ("value", INT)],
         binds=[("self.cfg['recv-miu']", "recv_miu", INT)], stmts=[1], result=["value"],
         note="cut: statement 1: SO_RCVMIU is clamped to the link's receive MIU; result: value"),
    Spec(GROUP, "llc_connect_clamp", F, "LogicalLinkController.connect", [],
         binds=[("socket.send_miu", "sock_miu", INT), ("self.cfg['send-miu']", "link_miu", INT)],
         stores=["socket.send_miu"], stmts=[4], result=["socket.send_miu"],
         note="cut: statement 4: the connection MIU never exceeds the link MIU; result: socket.send_miu"),
    Spec(GROUP, "llc_accept_clamp", F, "LogicalLinkController.accept", [],
         binds=[("client.send_miu", "sock_miu", INT), ("self.cfg['send-miu']", "link_miu", INT)],
         stores=["client.send_miu"], path=[(2, "body")], stmts=[3], result=["client.send_miu"],
         note="cut: inside `while True`: the same clamp for an accepted connection"),
    Spec(GROUP, "llc_poll_badf", F, "LogicalLinkController.poll", [],
         binds=[("socket.addr", "addr", INT), ("self.sap[socket.addr]", "sap_bound", BOOL)], stmts=[1],
         note="cut: statement 1: EBADF unless the socket is bound to a live service access point; "
              "`socket.addr is None` is passed as 0, the table entry as its truth value"),
    Spec(GROUP, "llc_bind_pre", F, "LogicalLinkController.bind", [],
         binds=[("socket.addr", "addr", OPT(INT)), ("self.terminated", "terminated", BOOL)], stmts=(1, 3),
         drop=["self._bind"],
         note="cut: statements 1-2: EINVAL for a bound socket, ESHUTDOWN after terminate(); the call of `_bind` dropped"),
    Spec(GROUP, "llc_recvfrom_badf", F, "LogicalLinkController.recvfrom", [],
         binds=[("socket.addr", "addr", INT), ("self.sap[socket.addr]", "sap_bound", BOOL)], stmts=[1],
         note="cut: statement 1, same test as in poll()"),
    Spec(GROUP, "llc_dispatch_unknown", F, "LogicalLinkController.dispatch", [("addr", OPT(INT))],
         binds=[("self.sap[addr]", "sap_at", OPT(INT))], expr="not addr or self.sap[addr] is None", whole=True, ret=BOOL,
         note="cut: connect-by-name: the test for 'no such service' (truth value); `addr` is the local "
              "`self.snl.get(rcvd_pdu.sn)`, the table entry a parameter (None or a marker)"),
    Spec(GROUP, "llc_activate_gb", F, "LogicalLinkController.activate", [],
         binds=[("pdu.encode(send_pax)", "encoded", BYTES)], expr="b'Ffm' + pdu.encode(send_pax)[2:]", whole=True,
         note="cut: the general bytes handed to the MAC: magic number + encoded PAX without its header; the "
              "encoded PDU is a parameter (pdu_* of group Pdu / `Activate.encodeTlvs`)"),
    # --- bind without / by name: the address search `self.sap[lo:hi].index(None)` is a parameter (its ValueError
    # for an exhausted range is thereby cut away; the handler that turns it into an errno is translated on its own)
    Spec(GROUP, "llc_bind_none_addr", F, "LogicalLinkController._bind_by_none", [],
         binds=[("self.sap[32:64].index(None)", "free_idx", INT)], path=[(0, "body"), (0, "body")], result=["addr"],
         note="cut: the `try` body: the address of an anonymous bind from the index of the first free entry of sap[32:64]"),
    Spec(GROUP, "llc_bind_none_full", F, "LogicalLinkController._bind_by_none", [],
         path=[(0, "body"), (0, ("handlers", 0))], note="cut: the `except ValueError` handler: no free entry -> EAGAIN"),
    Spec(GROUP, "llc_bind_by_name", F, "LogicalLinkController._bind_by_name", [("name", BYTES)],
         binds=[("service_name_format.match(name)", "name_ok", BOOL), ("self.snl.get(name)", "known", OPT(INT)),
                ("wks_map.get(name)", "wks_addr", OPT(INT)), ("self.sap[16:32].index(None)", "free_idx", INT),
                ("self.sap[addr]", "sap_at", OPT(INT))],
         drop=["socket.bind", "self.sap[addr] = ", "self.sap[addr].insert_socket", "self.snl[name] = "],
         result=["addr"],
         note="whole method as a decision; parameters: the regex match (bool), the two dictionary lookups, the index "
              "of the first free entry of sap[16:32], the table entry at a well-known address; the four statements "
              "that enter socket and name into the tables are dropped; result: addr"),
]
Q = "NfcVerif.FnBridge.Llc."
BRIDGE = {
    "module": "NfcVerif.Props.FnBridgeLlc",
    "theorems": [Q + t for t in (
        "pax_version_bridge", "pax_miu_bridge", "pax_wks_bridge", "pax_lto_bridge", "pax_lsc_bridge",
        "pax_dpc_bridge", "pax_takeover_bridge", "pax_len_bridge", "listen_backlog_bridge",
        "sd_enqueue_sap_bridge", "dispatch_dm_reason_bridge", "bind_addr_range_bridge",
        "pax_set_version_bridge", "pax_set_miu_bridge", "pax_set_wks_bridge", "pax_set_lto_bridge",
        "pax_set_opt_bridge", "activate_pax_bridge", "activate_gb_ok_bridge", "activate_pax_bytes_bridge",
        "activate_dpc_bridge", "gen_llcLink", "secure_data_transfer_bridge", "collect_icv_bridge",
        "collect_first_full_bridge",
        "collect_budget_bridge", "sd_res_bridge", "sd_req_bridge", "sd_dm_cond_bridge", "bind_by_addr_bridge",
        "setsockopt_clamp_bridge", "connect_clamp_bridge", "accept_clamp_bridge", "poll_badf_bridge",
        "bind_pre_bridge", "recvfrom_badf_bridge", "dispatch_unknown_bridge", "activate_gb_bridge",
        "bind_by_none_bridge", "bind_by_name_bridge", "gen_bind_ranges", "gen_sendPax", "gen_negotiated_llc")],
    "properties": ["C17", "C10", "C19"],
}


def inputs(rng, sp):
    out = []
    if sp.lean in ("llc_pax_version", "llc_pax_miu", "llc_pax_wks", "llc_pax_lto", "llc_pax_lsc", "llc_pax_dpc"):
        for v in [None, 0, 1, 2, 3, 4, 5, 6, 7, 0x10, 0x11, 0x13, 0x7F, 0x80, 0xFF, 0x7FF, 0xFFFF, 100, 2047]:
            if v is None and sp.lean == "llc_pax_version":
                continue
            out.append(([], [v]))
    if sp.lean == "llc_pax_len":
        for k in range(32):
            out.append(([], [(rng.randrange(256) if k >> i & 1 else None) for i in range(5)]))
    if sp.lean == "llc_pax_set_version":
        out += [([(a, b)], []) for a in (0, 1, 2, 15, 16, 17, 255, -1) for b in (0, 3, 15, 16, 31, -1)]
    if sp.lean in ("llc_pax_set_miu", "llc_pax_set_wks", "llc_pax_set_lto"):
        out += [([v], []) for v in (-1000, -11, -10, -9, -1, 0, 9, 10, 99, 100, 127, 128, 129, 248, 500, 2175, 2176, 2550,
                                    2559, 2560, 2570, 65535, 65536, 65537, 131071)]
    if sp.lean == "llc_sd_enqueue_sap":
        for v in list(range(0, 130)) + [191, 192, 255, 256, 320]:
            out.append(([v], []))
    if sp.lean == "llc_dispatch_dm_reason":
        out += [([], [None]), ([], [b""]), ([], [b"urn:nfc:sn:x"])]
    if sp.lean == "llc_bind_addr_range":
        for a in (-1, 0, 1, 15, 16, 31, 32, 63, 64, 65):
            out.append(([a], []))
    if sp.lean in ("llc_pax_set_lsc", "llc_pax_set_dpc"):
        out += [([v], [o]) for v in (-1, 0, 1, 2, 3, 4, 5, 255) for o in (None, 0, 1, 3, 4, 7, 0xFB, 0xFF)]
    if sp.lean == "llc_activate_pax":
        for miu in (127, 128, 129, 248, 2175):
            for lto in (99, 100, 110, 500):
                for lsc in (0, 1, 3):
                    for sec in (False, True):
                        out.append(([rng.randrange(1, 70000)], [miu, lto, lsc, sec, None, None, None, None]))
    if sp.lean in ("llc_activate_gb_ok", "llc_activate_pax_bytes"):
        for g in (b"", b"F", b"Ff", b"Ffm", b"Ffm\x01\x01", b"Ffm\x01\x01\x13", b"Ffn\x01\x01\x13", b"ffm\x01\x01\x13",
                  b"Ffm\x01\x01\x13\x02\x02\x00\x78", b"\x00Ffm\x01\x01\x13"):
            out.append(([g], []))
    if sp.lean == "llc_activate_dpc":
        out += [([], [d, s_]) for d in (0, 1) for s_ in (False, True)]
    if sp.lean == "llc_secure_data_transfer":
        out += [([], [d]) for d in (-1, 0, 1, 2)]
    if sp.lean == "llc_collect_icv":
        out += [([], [h, i]) for h in (False, True) for i in (0, 4, 8)]
    if sp.lean == "llc_collect_first_full":
        out += [([m], [m + 2 + d, 2]) for m in (128, 129, 2175) for d in (-2, -1, 0, 1)]
        out += [([m], [m + 3 + d, 3]) for m in (128, 130) for d in (-1, 0, 1)]
    if sp.lean.startswith("llc_collect_budget"):
        out += [([], [m, a]) for m in (128, 129, 131, 2175) for a in (4, 5, 120, 125, 126, 127, 128, 130)]
    if sp.lean in ("llc_sd_res_cond", "llc_sd_res_take"):
        out += [([m], []) for m in range(-2, 10)]
    if sp.lean in ("llc_sd_req_skip", "llc_sd_req_take"):
        out += [([m, bytes(n)], []) for m in (0, 3, 4, 15, 16, 17, 128) for n in (0, 1, 12, 13, 14, 125)]
    if sp.lean == "llc_sd_dm_cond":
        out += [([m], [c]) for m in (-1, 0, 1, 128) for c in (0, 1, 2)]
    if sp.lean == "llc_bind_by_addr":
        for a in (-1, 0, 1, 15, 16, 31, 32, 33, 62, 63, 64):
            for raw in (False, True):
                for taken in (None, 1):
                    out.append(([a], [raw, taken]))
    if sp.lean == "llc_setsockopt_clamp":
        out += [([o, v], [r]) for o in range(1, 7) for v in (0, 127, 128, 248, 249, 2175, 3000) for r in (128, 248, 2175)]
    if sp.lean in ("llc_connect_clamp", "llc_accept_clamp"):
        out += [([], [a, b]) for a in (128, 129, 248, 2175) for b in (128, 129, 248, 2175)]
    if sp.lean == "llc_activate_gb":
        out += [([], [b]) for b in (b"", b"\x00", b"\x00\x40", b"\x00\x40\x01\x01\x13", b"\x00\x40\x01\x01\x13\x02\x02\x00\x78")]
    if sp.lean == "llc_bind_none_addr":
        out += [([], [i]) for i in range(0, 33)]
    if sp.lean == "llc_bind_none_full":
        out += [([], [])]
    if sp.lean == "llc_bind_by_name":
        for ok_ in (True, False):
            for known in (None, 4, 16):
                for w in (None, 1, 4):
                    for fi in (0, 5, 15):
                        for at in (None, 1):
                            out.append(([b"urn:nfc:sn:x"], [ok_, known, w, fi, at]))
    if sp.lean == "llc_bind_pre":
        out += [([], [a, t]) for a in (None, 0, 1, 32) for t in (False, True)]
    if sp.lean == "llc_dispatch_unknown":
        out += [([a], [s_]) for a in (None, 0, 1, 4, 16) for s_ in (None, 1)]
    if sp.lean in ("llc_poll_badf", "llc_recvfrom_badf"):
        out += [([], [a, b]) for a in (0, 1, 16, 32, 63) for b in (False, True)]
    if sp.lean == "llc_listen_backlog":
        for b in (-2, -1, 0, 1, 15, 16, 17, 1000):
            out.append(([b], []))
    return out


def _budget(n, old, new):
    """mutate the n-th `self.cfg['send-miu'] - len(agf_pdu) - 3` of collect()"""
    key = 'self.cfg["send-miu"] - len(agf_pdu) - 3'

    def f(seg):
        parts = seg.split(key)
        assert len(parts) == 4, len(parts)
        return key.join(parts[:n + 1]) + key.replace(old, new) + key.join(parts[n + 1:])
    return f


MUTATIONS = [
    ("llc_pax_miu", "MIU offset", "self._miux + 128 if", "self._miux + 127 if"),
    ("llc_pax_miu", "default MIU", "is not None else 128", "is not None else 248"),
    ("llc_pax_lto", "LTO unit", "else 10) * 10", "else 10) * 100"),
    ("llc_pax_lto", "default LTO", "is not None else 10) * 10", "is not None else 100) * 10"),
    ("llc_pax_lsc", "LSC mask", "self._opt & 3", "self._opt & 1"),
    ("llc_pax_dpc", "DPC bit position", "self._opt >> 2 & 1", "self._opt >> 3 & 1"),
    ("llc_pax_version", "minor version mask", "version & 15", "version & 7"),
    ("llc_pax_wks", "default WKS", "is not None else 0", "is not None else 1"),
    ("llc_pax_len", "length of the MIUX TLV", "(4 if self._miux is not None else 0)", "(3 if self._miux is not None else 0)"),
    ("llc_listen_backlog", "backlog clamp", "min(backlog, 16)", "min(backlog, 15)"),
    ("llc_listen_backlog", "negative backlog test", "if backlog < 0:", "if backlog < -1:"),
    ("llc_pax_set_miu", "MIUX offset of the setter", "max(value - 128, 0)", "max(value - 127, 0)"),
    ("llc_pax_set_miu", "MIUX clamp at zero dropped", "max(value - 128, 0)", "value - 128"),
    ("llc_pax_set_lto", "LTO unit of the setter", "(value // 10) & 0xFF", "(value // 100) & 0xFF"),
    ("llc_pax_set_wks", "WKS mask", "value & 0xFFFF", "value & 0x7FFF"),
    ("llc_pax_set_version", "major version shift", "value[0] << 4 & 0xF0", "value[0] << 3 & 0xF0"),
    ("llc_pax_set_lsc", "LSC setter clears the DPC bit", "& 0b11111100) | (value & 0b00000011)", "& 0b11111000) | (value & 0b00000011)"),
    ("llc_pax_set_dpc", "DPC bit position of the setter", "(bool(value) << 2)", "(bool(value) << 3)"),
    ("llc_activate_pax", "MIU announced only above 128", "if self.cfg['recv-miu'] != 128:", "if self.cfg['recv-miu'] > 129:"),
    ("llc_activate_pax", "default LTO constant", "if self.cfg['send-lto'] != 100:", "if self.cfg['send-lto'] != 500:"),
    ("llc_activate_pax", "version announced", "send_pax.version = (1, 3)", "send_pax.version = (1, 2)"),
    ("llc_activate_gb_ok", "minimum length of the general bytes", "len(gb) >= 6", "len(gb) >= 5"),
    ("llc_activate_gb_ok", "magic number", "gb.startswith(b'Ffm')", "gb.startswith(b'Ffn')"),
    ("llc_activate_pax_bytes", "offset of the TLVs", "bytes(gb[3:])", "bytes(gb[4:])"),
    ("llc_activate_dpc", "DPC taken over without local security", "rcvd_pax.dpc if self.cfg['llcp-sec'] else 0", "rcvd_pax.dpc if True else 0"),
    ("llc_secure_data_transfer", "secure transfer for any non-zero DPC", "self.cfg.get('llcp-dpc', 0) == 1", "self.cfg.get('llcp-dpc', 0) >= 1"),
    ("llc_collect_first_full", "first PDU full test off by one", "len(send_pdu) - send_pdu.header_size >= miu_size", "len(send_pdu) - send_pdu.header_size > miu_size"),
    ("llc_collect_budget0", "aggregation budget: length field not reserved", _budget(0, "- 3", "- 2"), None),
    ("llc_collect_budget1", "aggregation budget in the loop off by one", _budget(1, "- 3", "- 1"), None),
    ("llc_collect_budget2", "aggregation budget after an ack", _budget(2, "- len(agf_pdu) - 3", "- len(agf_pdu)"), None),
    ("llc_collect_icv", "ICV ignored", "self.sec.icv_size if self.sec else 0", "0 if self.sec else 0"),
    ("llc_sd_res_cond", "SDRES needs 4 octets", "while miu_size >= 4:", "while miu_size >= 3:"),
    ("llc_sd_res_take", "SDRES size", "miu_size -= 4", "miu_size -= 3"),
    ("llc_sd_req_skip", "SDREQ overhead", "if 3 + len(name) > miu_size:", "if 2 + len(name) > miu_size:"),
    ("llc_sd_req_take", "SDREQ size accounting", "miu_size -= 3 + len(name)", "miu_size -= 2 + len(name)"),
    ("llc_sd_dm_cond", "DM with zero budget", "and miu_size > 0", "and miu_size >= 0"),
    ("llc_bind_by_addr", "lower bound of the free address range", "addr in range(32, 64)", "addr in range(31, 64)"),
    ("llc_bind_by_addr", "EACCES / EADDRINUSE swapped", "raise err.Error(errno.EADDRINUSE)\n            else:\n                raise err.Error(errno.EACCES)", "raise err.Error(errno.EACCES)\n            else:\n                raise err.Error(errno.EADDRINUSE)"),
    ("llc_setsockopt_clamp", "clamp applied to the wrong option", "if option == nfc.llcp.SO_RCVMIU:", "if option == nfc.llcp.SO_RCVBUF:"),
    ("llc_connect_clamp", "clamp dropped", "socket.send_miu = self.cfg['send-miu']", "socket.send_miu = socket.send_miu"),
    ("llc_accept_clamp", "clamp comparison inverted", "if client.send_miu > self.cfg['send-miu']:", "if client.send_miu < self.cfg['send-miu']:"),
    ("llc_poll_badf", "address 0 accepted", "if not (socket.addr and self.sap[socket.addr]):\n            raise err.Error(errno.EBADF)\n        return socket.poll", "if not (socket.addr is not None and self.sap[socket.addr]):\n            raise err.Error(errno.EBADF)\n        return socket.poll"),
    ("llc_activate_gb", "PAX header left in the general bytes", "pdu.encode(send_pax)[2:]", "pdu.encode(send_pax)[1:]"),
    ("llc_bind_none_addr", "first anonymous address", "addr = 32 + self.sap[32:64].index(None)", "addr = 31 + self.sap[32:64].index(None)"),
    ("llc_bind_none_full", "errno of an exhausted anonymous range", "raise err.Error(errno.EAGAIN)", "raise err.Error(errno.EADDRNOTAVAIL)"),
    ("llc_bind_by_name", "first address of named services", "addr = 16 + self.sap[16:32].index(None)", "addr = 15 + self.sap[16:32].index(None)"),
    ("llc_bind_by_name", "occupied well-known address accepted (defect F9 reintroduced)", "elif self.sap[addr] is not None:\n                raise err.Error(errno.EADDRINUSE)", "elif False:\n                raise err.Error(errno.EADDRINUSE)"),
    ("llc_bind_by_name", "a known name may be bound again", "if self.snl.get(name) is not None:", "if False:"),
    ("llc_bind_by_name", "invalid service name accepted", "if not service_name_format.match(name):", "if False:"),
    ("llc_activate_gb_ok", "acceptance test gains an operand", "if gb and gb.startswith(b'Ffm') and len(gb) >= 6:",
     "if gb and gb.startswith(b'Ffm') and len(gb) >= 6 or gb == b'':"),
    ("llc_sd_dm_cond", "DM condition gains an operand", "if len(self.dmpdu) > 0 and miu_size > 0:",
     "if len(self.dmpdu) > 0 and miu_size > 0 or icv_size:"),
    ("llc_collect_first_full", "truthiness test changed (`is False`)", "if len(send_pdu) - send_pdu.header_size >= miu_size:",
     "if (len(send_pdu) - send_pdu.header_size >= miu_size) is False:"),
    ("llc_dispatch_unknown", "'no such service' test gains an operand", "if not addr or self.sap[addr] is None:",
     "if not addr or self.sap[addr] is None or addr == 4:"),
    ("llc_bind_pre", "rebinding a bound socket allowed", "if socket.addr is not None:\n            raise err.Error(errno.EINVAL)", "if socket.addr is None:\n            raise err.Error(errno.EINVAL)"),
    ("llc_bind_pre", "bind after terminate allowed", "if self.terminated:", "if False:"),
    ("llc_recvfrom_badf", "EBADF errno of recvfrom", "raise err.Error(errno.EBADF)\n        if isinstance(socket, tco.RawAccessPoint):\n            return (socket.recv(), None)", "raise err.Error(errno.EINVAL)\n        if isinstance(socket, tco.RawAccessPoint):\n            return (socket.recv(), None)"),
    ("llc_sd_enqueue_sap", "address mask of an SDRES value", "sap & 63", "sap & 31"),
    ("llc_sd_enqueue_sap", "NEUTRAL wider address mask (bit 6 is the compatibility bit)", "sap & 63", "sap & 127"),
    ("llc_sd_enqueue_sap", "compatibility bit position", "sap >> 6 & 1", "sap >> 7 & 1"),
    ("llc_dispatch_dm_reason", "DM reasons swapped", "0x10 if rcvd_pdu.sn is None else 0x02", "0x02 if rcvd_pdu.sn is None else 0x10"),
    ("llc_bind_addr_range", "upper address bound", "addr > 63", "addr > 64"),
    ("llc_pax_dpc", "NEUTRAL shift written as division", "self._opt >> 2 & 1", "self._opt // 4 & 1"),
]
