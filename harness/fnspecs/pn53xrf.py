"""group Pn53xRf: target discovery and listening of the PN53x driver family -> Model/FnPn53xRfRef.lean (C18, C19, C13, C14)

`nfc/clf/pn53x.py` `Device.sense_tta/ttb/ttf/dep`, `listen_tta/ttf/dep`, the chipset commands they use
(`in_list_passive_target`, `in_jump_for_psl/dep`), the timeout index of `_send_cmd_recv_rsp`, the Type 1 Tag
command routing of pn532 / pn533 / rcs956 and the overrides of the four drivers.  Every method interleaves
chipset commands (host-link I/O) with pure evaluation of what the chip answered; translated are the pure
slices between the I/O calls (statement ranges, `expr=` cuts of whole conditions / values).  The parameter of a
response cut is the value the preceding chipset call returned.  Not translated: the constructors
`nfc.clf.RemoteTarget(..)` / `LocalTarget(..)` (keyword arguments; the attribute VALUES they receive are the
cuts), the clock driven `while time.time() < time_to_return` loops, logging, the register name tables, the
bit-string parity removal of `_tt1_send_cmd_recv_rsp` (str formatting).
"""
from translate_fn import Spec, INT, BOOL, BYTES, OPT, STR, TUP, NONE

GROUP = "Pn53xRf"
ORDER = 68
F = "clf/pn53x.py"
_CB = {"self.chipset_error": "pn53x_chipset_error_bytes"}

SPECS = [
    # ---- Chipset.in_list_passive_target
    Spec(GROUP, "rf_in_list_build", F, "Chipset.in_list_passive_target", [("brty", INT), ("initiator_data", BYTES)],
         stmts=(2, 3), result=["data"],
         note="cut: the InListPassiveTarget parameters (MaxTg = 1, BrTy, initiator data) handed to `self.command(0x4A, ..)`; "
              "the two `assert`s in front read class attributes of the chipset subclass and are cuts of their own"),
    Spec(GROUP, "rf_in_list_result", F, "Chipset.in_list_passive_target", [("data", BYTES)], stmts=(4, 5), ret=OPT(BYTES),
         note="cut: the statement behind `data = self.command(0x4A, data, timeout=1.0)`; parameter `data` is that value "
              "(a byte string): NbTg > 0 -> the target data behind NbTg and Tg, else None"),
    # ---- sense_tta
    Spec(GROUP, "rf_tta_uid", F, "Device.sense_tta", [], binds=[("target.sel_req", "sel_req", OPT(BYTES))],
         stmts=(2, 5), result=["uid"],
         note="cut: the cascade tag insertion for a 7 / 10 octet UID given as `target.sel_req` (initiator data of "
              "InListPassiveTarget)"),
    Spec(GROUP, "rf_tta_fields", F, "Device.sense_tta", [("rsp", BYTES)], path=[(6, "body")], stmts=(0, 1),
         result=["sens_res", "sel_res", "sdd_res"],
         note="cut: inside `if rsp is not None:` the extraction of SENS_RES (octets swapped), SEL_RES, SDD_RES (NFCID1) from "
              "the target data of InListPassiveTarget; they are the keyword arguments of the returned RemoteTarget"),
    Spec(GROUP, "rf_tta_is_tt2", F, "Device.sense_tta", [("sel_res", BYTES)], expr="sel_res[0] & 0x60 == 0x00", whole=True,
         note="cut: the test that switches the CRC check off for a Type 2 Tag (SEL_RES bits 6, 7 clear)"),
    Spec(GROUP, "rf_tta_no_sens", F, "Device.sense_tta", [],
         binds=[("self.chipset.read_register('CIU_FIFOData')", "fifo", INT)],
         expr='self.chipset.read_register("CIU_FIFOData") == 0x26', whole=True,
         note="cut: the test `SENS_REQ still in the FIFO` (no SENS_RES, no tag): return None; the register value is the parameter"),
    Spec(GROUP, "rf_tta_tt1_sens", F, "Device.sense_tta", [("rsp", BYTES)], expr="rsp[1::-1]", nth=1,
         note="cut: SENS_RES of the Type 1 Tag answer (second InListPassiveTarget, BrTy 4), octets swapped"),
    Spec(GROUP, "rf_tta_rid_cmd", F, "Device.sense_tta", [], path=[(11, "body")], stmts=(0, 1), result=["rid_cmd"],
         note="cut: the RID command sent with InDataExchange (the chip appends CRC_B)"),
]

_SENSF = [("target.sensf_req", "sensf_req", OPT(BYTES))]
_ATRQ = [("target.atr_req", "atr_req", BYTES)]
SPECS += [
    # ---- sense_ttb
    Spec(GROUP, "rf_ttb_afi", F, "Device.sense_ttb", [], binds=[("target.sensb_req", "sensb_req", OPT(BYTES))],
         stmts=(2, 3), result=["afi"], note="cut: the AFI octet handed to InListPassiveTarget (first octet of `target.sensb_req`, default 00h)"),
    Spec(GROUP, "rf_ttb_is_iso", F, "Device.sense_ttb", [("rsp", BYTES)], expr="rsp and rsp[10] & 0b00001001 == 0b00000001", whole=True, ret=BOOL,
         note="cut: the test on the SENSB_RES protocol-type octet (target data octet 10) for an ISO/IEC 14443-4 card; "
              "`rsp` is the value of `in_list_passive_target` (a byte string; None, which fails the test like the empty string, is not modelled)"),
    Spec(GROUP, "rf_ttb_cmds", F, "Device.sense_ttb", [("did", OPT(BYTES)), ("afi", BYTES)], path=[(4, "body"), (0, "body")],
         stmts=(0, 2), result=["deselect_command", "wupb_command"],
         note="cut: inside the `try:` the DESELECT and WUPB commands sent with InCommunicateThru"),
    # ---- sense_ttf
    Spec(GROUP, "rf_ttf_field_off", F, "Device.sense_ttf", [],
         binds=[("self.chipset.read_register('CIU_TxControl')", "txc", INT)], nonneg=["txc"],
         expr='not self.chipset.read_register("CIU_TxControl") & 0b00000011', whole=True,
         note="cut: the test `RF field not yet on` (Tx1RFEn / Tx2RFEn clear); the register value (>= 0) is the parameter"),
    Spec(GROUP, "rf_ttf_req", F, "Device.sense_ttf", [], binds=_SENSF, stmts=(3, 5), result=["sensf_req"],
         note="cut: the polling frame handed to InListPassiveTarget: `target.sensf_req` or the default 00 FFFF 01 00"),
    Spec(GROUP, "rf_ttf_res", F, "Device.sense_ttf", [("rsp", BYTES)], expr="rsp[1:]",
         note="cut: SENSF_RES of the returned RemoteTarget: the target data without the length octet"),
    # ---- sense_dep
    Spec(GROUP, "rf_dep_checks", F, "Device.sense_dep", [],
         binds=_ATRQ + [("target.brty_send", "brty_send", STR), ("target.brty_recv", "brty_recv", STR)], stmts=[0, 1, 2, 4],
         note="cut: the `assert`s on `target.atr_req` (present, 16..64 octets) and on equal send / receive bit rates; not translated: "
              "`assert target.brty_send and target.brty_recv` (truth value of str)"),
    Spec(GROUP, "rf_dep_args", F, "Device.sense_dep", [], binds=_ATRQ, stmts=(6, 8), result=["nfcid3", "gbytes"],
         note="cut: NFCID3 and general bytes taken from `target.atr_req` for InJumpForPSL; `br = int(target.brty[0:-1])` "
              "(str -> int) in front is not translated"),
    Spec(GROUP, "rf_dep_atr_res", F, "Device.sense_dep", [("data", BYTES)], path=[(8, "body")], stmts=(1, 2), result=["atr_res"],
         note="cut: inside the `try:` ATR_RES rebuilt from the InJumpForPSL answer (`D5 01` put in front)"),
    # ---- Chipset.in_jump_for_psl / in_jump_for_dep
    Spec(GROUP, "rf_jump_psl_build", F, "Chipset.in_jump_for_psl",
         [("act_pass", BOOL), ("br", INT), ("passive_data", BYTES), ("nfcid3", BYTES), ("gi", BYTES)], stmts=[1, 2, 3, 4, 5, 6, 7, 8], result=["data"],
         note="cut: argument checks (without `assert act_pass in (False, True)`: mixed int / bool display; `act_pass` is a bool here, sense_dep passes 1) and the InJumpForPSL parameters (ActPass, BR, Next, data) handed to `self.command(0x46, ..)`"),
    Spec(GROUP, "rf_jump_psl_result", F, "Chipset.in_jump_for_psl", [("data", BYTES)], stmts=(10, 12), calls=_CB,
         note="cut: the statements behind `data = self.command(0x46, ..)`; parameter `data` is that value (a byte string; None is not modelled)"),
    Spec(GROUP, "rf_jump_dep_build", F, "Chipset.in_jump_for_dep",
         [("act_pass", BOOL), ("br", INT), ("passive_data", BYTES), ("nfcid3", BYTES), ("gi", BYTES)], stmts=[1, 2, 3, 4, 5, 6, 7, 8], result=["data"],
         note="cut: argument checks (without the `act_pass` assert, see rf_jump_psl_build) and the InJumpForDEP parameters handed to `self.command(0x56, ..)`"),
    Spec(GROUP, "rf_jump_dep_result", F, "Chipset.in_jump_for_dep", [("data", BYTES)], stmts=(10, 12), calls=_CB,
         note="cut: the statements behind `data = self.command(0x56, ..)`; parameter `data` is that value (a byte string; None is not modelled)"),
    # ---- frame size limits
    Spec(GROUP, "rf_max_send", F, "Device.get_max_send_data_size", [("target", INT)],
         binds=[("self.chipset.host_command_frame_max_size", "fmax", INT)],
         note="the chipset class constant `host_command_frame_max_size` is the parameter (254 PN531; 265 PN532, PN533, RC-S956)"),
    Spec(GROUP, "rf_max_recv", F, "Device.get_max_recv_data_size", [("target", INT)],
         binds=[("self.chipset.host_command_frame_max_size", "fmax", INT)],
         note="the chipset class constant `host_command_frame_max_size` is the parameter"),
    # ---- _send_cmd_recv_rsp
    Spec(GROUP, "rf_timeout_index", F, "Device._send_cmd_recv_rsp", [("timeout_microsec", INT)], path=[(13, "body")],
         stmts=(0, 1), result=["index"],
         note="cut: inside the `try:` the InCommunicateThru timeout index, first n in 1..16 with timeout_microsec >> (n-1) <= 100; "
              "the IndexError of the empty list is caught by `except IndexError: index = 16` (not translated: try with a non-raising handler); "
              "`timeout_microsec = int(timeout * 1E6)` (float) is the parameter"),
    Spec(GROUP, "rf_timeout_cfg", F, "Device._send_cmd_recv_rsp", [("index", INT)], expr="bytearray([10, 11, index])",
         note="cut: the RFConfiguration item 02h data (ATR_RES timeout 10, non-DEP timeout 11, retry timeout = index)"),
    Spec(GROUP, "rf_modes", F, "Device._send_cmd_recv_rsp", [("txm", INT), ("rxm", INT), ("txa", INT), ("acm", BOOL)],
         binds=[("bitrate(target.brty_send)", "br_send", INT), ("bitrate(target.brty_recv)", "br_recv", INT),
                ("framing(target.brty_send)", "fr_send", INT), ("framing(target.brty_recv)", "fr_recv", INT),
                ("target.brty_send.endswith('A')", "send_a", BOOL)],
         nonneg=["txm", "rxm", "txa", "br_send", "br_recv", "fr_send", "fr_recv"],
         stmts=(5, 10), result=["txm", "rxm", "txa"],
         note="cut: the new CIU_TxMode / CIU_RxMode / CIU_TxAuto values; parameters: the register values read (>= 0), `acm` = truth value "
              "of `target.atr_res and not (target.sens_res or target.sensf_res)`, the results of the local helpers `bitrate(..)` "
              "(index of the bit rate in 106 << i) and `framing(..)` (A 0, B 3, F 2) and `brty_send.endswith('A')` (str processing)"),
    Spec(GROUP, "rf_route_tt2", F, "Device._send_cmd_recv_rsp", [], binds=[("target.sel_res", "sel_res", BYTES)],
         expr="target.sel_res[0] & 0x60 == 0x00", whole=True,
         note="cut: the test that routes a Type A command through `_tt2_send_cmd_recv_rsp` (CRC checked by the driver)"),
]

# ---- listen_tta / listen_ttf / listen_dep
_TA = [("target.sens_res", "sens_res", OPT(BYTES)), ("target.sdd_res", "sdd_res", OPT(BYTES)), ("target.sel_res", "sel_res", OPT(BYTES))]
_TAB = [("target.sens_res", "sens_res", BYTES), ("target.sdd_res", "sdd_res", BYTES), ("target.sel_res", "sel_res", BYTES)]
_SEL = [("target.sel_res", "sel_res", BYTES)]
SPECS += [
    Spec(GROUP, "rf_lta_checks", F, "Device.listen_tta", [], binds=_TAB, path=[(2, "body")], stmts=(3, 7),
         note="cut: inside the `try:` (behind the three `is not None` asserts, not translated: the attributes are byte strings here) the four `assert`s on SENS_RES (2 octets), SDD_RES (4 octets, first 08h), SEL_RES (1 octet); "
              "`except AssertionError as error: raise ValueError(str(error))` around them is not translated (the bridge states the mapping)"),
    Spec(GROUP, "rf_lta_params", F, "Device.listen_tta", [], binds=_TAB, stmts=(3, 5), result=["nfcf_params", "nfca_params"],
         note="cut: the TgInitAsTarget parameters: dummy FeliCa parameters 00..11h, Mifare parameters SENS_RES + NFCID1 octets 1..3 + SEL_RES"),
    Spec(GROUP, "rf_lta_brty_index", F, "Device.listen_tta", [("data", BYTES)], expr="(data[0] & 0x70) >> 4",
         note="cut: the index into (106A, 212F, 424F) decoded from the mode octet of the TgInitAsTarget answer (tuple of str: not translated)"),
    Spec(GROUP, "rf_lta_short", F, "Device.listen_tta", [("data", BYTES)], expr="len(data) < 2",
         note="cut: second operand of `brty != target.brty or len(data) < 2` (str comparison not translated): no command octet behind the mode octet"),
    Spec(GROUP, "rf_lta_is_tt2", F, "Device.listen_tta", [], binds=_SEL, expr="target.sel_res[0] & 0x60 == 0x00", whole=True,
         note="cut: first arm of the activation dispatch: SEL_RES says Type 2 Tag, any first command is taken as TT2 command"),
    Spec(GROUP, "rf_lta_is_rats", F, "Device.listen_tta", [("data", BYTES)], binds=_SEL,
         expr="target.sel_res[0] & 0x20 == 0x20 and data[1] == 0xE0", whole=True, ret=BOOL,
         note="cut: second arm: SEL_RES says ISO-DEP and the first command is RATS"),
    Spec(GROUP, "rf_lta_is_atr", F, "Device.listen_tta", [("data", BYTES)], binds=_SEL,
         expr="target.sel_res[0] & 0x40 and data[1] == 0xF0 and len(data) >= 19 and data[2] == len(data)-2 and data[3:5] == b'\\xD4\\x00'",
         whole=True, ret=BOOL,
         note="cut: third arm: SEL_RES says NFC-DEP and the first command is a well formed ATR_REQ (F0 LEN D4 00 .., at least 16 octets)"),
    Spec(GROUP, "rf_lta_rats_res", F, "Device.listen_tta", [("data", BYTES)], binds=[("target.rats_res", "t_rats_res", OPT(BYTES))],
         path=[(8, "body"), (4, "orelse"), (0, "body")], stmts=(0, 3), result=["rats_cmd", "rats_res"],
         note="cut: inside the RATS arm: the RATS command and the answer sent (`target.rats_res` or the default 05 78 80 70 02)"),
    Spec(GROUP, "rf_lta_is_deselect", F, "Device.listen_tta", [("data", BYTES)], expr="data and data[0] & 0xF0 == 0xC0", whole=True, ret=BOOL,
         note="cut: the test for S(DESELECT) behind the RATS answer; `data` is the value of `tg_get_initiator_command` (a byte string; None, which fails the test, is not modelled)"),
    Spec(GROUP, "rf_lta_tt2_cmd", F, "Device.listen_tta", [("data", BYTES)], expr="data[1:]",
         note="cut: `tt2_cmd` of the returned LocalTarget"),
    Spec(GROUP, "rf_lta_atr_req", F, "Device.listen_tta", [("data", BYTES)], expr="data[3:]",
         note="cut: `atr_req` of the returned LocalTarget"),
    Spec(GROUP, "rf_lta_sens_res", F, "Device.listen_tta", [("nfca_params", BYTES)], expr="nfca_params[0:2]",
         note="cut: `sens_res` of the returned LocalTarget (all three arms)"),
    Spec(GROUP, "rf_lta_sdd_res", F, "Device.listen_tta", [("nfca_params", BYTES)], expr="b'\\x08' + nfca_params[2:5]",
         note="cut: `sdd_res` of the returned LocalTarget"),
    Spec(GROUP, "rf_lta_sel_res", F, "Device.listen_tta", [("nfca_params", BYTES)], expr="nfca_params[5:6]",
         note="cut: `sel_res` of the returned LocalTarget"),
    # listen_ttf
    Spec(GROUP, "rf_ltf_checks", F, "Device.listen_ttf", [], binds=[("target.sensf_res", "sensf_res", BYTES)], path=[(1, "body")], stmts=(1, 2),
         note="cut: inside the `try:` the length `assert` on SENSF_RES (19 octets; the `is not None` assert in front is not translated); the `except AssertionError: raise ValueError` around is not translated"),
    Spec(GROUP, "rf_ltf_params", F, "Device.listen_ttf", [], binds=[("target.sensf_res", "sensf_res", BYTES)], stmts=(2, 4),
         result=["nfca_params", "nfcf_params"], note="cut: the AutoColl configuration data: 6 zero octets, SENSF_RES without the response code"),
    Spec(GROUP, "rf_ltf_modes", F, "Device.listen_ttf", [], binds=[("int(target.brty[:-1])", "kbps", INT)], nonneg=["kbps"],
         expr="0b10000010 | (int(target.brty[:-1])//212) << 4",
         note="cut: the CIU_TxMode value (CRC on, 212 / 424 kbps, FeliCa framing); `int(target.brty[:-1])` (str -> int, >= 0) is the parameter"),
    Spec(GROUP, "rf_ltf_irq", F, "Device.listen_ttf", [("commirq", INT)], nonneg=["commirq"], expr="commirq & 0b00110000 == 0b00110000", whole=True,
         note="cut: the test for RxIRq and IdleIRq both set (a frame was received); the register value (>= 0) is the parameter"),
    Spec(GROUP, "rf_ltf_len_ok", F, "Device.listen_ttf", [("fifo_data", BYTES)], expr="fifo_data and len(fifo_data) == fifo_data[0]", whole=True, ret=BOOL,
         note="cut: the test that the FIFO holds exactly one frame (length octet = number of octets)"),
    Spec(GROUP, "rf_ltf_for_us", F, "Device.listen_ttf", [("fifo_data", BYTES), ("nfcf_params", BYTES)], expr="fifo_data[2:10] == nfcf_params[0:8]", whole=True,
         note="cut: the test that the command carries our IDm"),
    Spec(GROUP, "rf_ltf_sensf_res", F, "Device.listen_ttf", [("nfcf_params", BYTES)], expr="b'\\x01' + nfcf_params",
         note="cut: `sensf_res` of the returned LocalTarget"),
    Spec(GROUP, "rf_ltf_tt3_cmd", F, "Device.listen_ttf", [("fifo_data", BYTES)], expr="fifo_data[1:]",
         note="cut: `tt3_cmd` of the returned LocalTarget"),
    # listen_dep
    Spec(GROUP, "rf_ldep_params", F, "Device.listen_dep", [], binds=_TAB + [("target.sensf_res", "sensf_res", BYTES)],
         stmts=[5, 6, 9, 10], result=["nfca_params", "nfcf_params"],
         note="cut: the TgInitAsTarget parameters and the two `assert`s on their lengths (6 and 18); the five `is not None` asserts in front are not "
              "translated (the attributes are byte strings here)"),
    Spec(GROUP, "rf_ldep_is_atr", F, "Device.listen_dep", [("data", BYTES)],
         expr="not (data[1] == len(data)-1 and data[2:4] == b'\\xD4\\x00')", whole=True, ret=BOOL,
         note="cut: the test `not an ATR_REQ` on the TgInitAsTarget answer (mode octet, LEN, D4 00 ..)"),
    Spec(GROUP, "rf_ldep_brty_index", F, "Device.listen_dep", [("data", BYTES)], expr="(data[0] & 0b01110000) >> 4",
         note="cut: index into (106A, 212F, 424F) from the mode octet"),
    Spec(GROUP, "rf_ldep_mode_index", F, "Device.listen_dep", [("data", BYTES)], expr="data[0] & 1",
         note="cut: index into (passive, active) from the mode octet"),
    Spec(GROUP, "rf_ldep_atr", F, "Device.listen_dep", [("data", BYTES), ("atr_res", BYTES)], stmts=[17, 19], result=["atr_req", "atr_res"],
         note="cut: ATR_REQ taken from the answer and the DID copied into ATR_RES; parameter `atr_res` is the copy `target.atr_res[:]` "
              "(statement 18, not translated: aliasing)"),
    Spec(GROUP, "rf_ldep_is_psl", F, "Device.listen_dep", [("data", BYTES)], expr="data and data.startswith(b'\\x06\\xD4\\x04')", whole=True, ret=BOOL,
         note="cut: the test for PSL_REQ behind ATR_RES; `data` is the value of `_send_atr_response` (a byte string; None, which fails the test, is not modelled)"),
    Spec(GROUP, "rf_ldep_psl_req", F, "Device.listen_dep", [("data", BYTES), ("atr_req", BYTES)], path=[(23, "body"), (1, "body")],
         result=["psl_req"],
         note="cut: inside the first `try:` of the PSL arm: PSL_REQ and its two `assert`s (5 octets, DID of the ATR_REQ); the handler "
              "`except AssertionError: return None` is not translated"),
    Spec(GROUP, "rf_ldep_psl_res", F, "Device.listen_dep", [("psl_req", BYTES)], expr="b'\\xD5\\x05' + psl_req[2:3]",
         note="cut: PSL_RES"),
    Spec(GROUP, "rf_ldep_is_dep", F, "Device.listen_dep", [("data", BYTES)], expr="data and data[0] == len(data) and data[1:3] == b'\\xD4\\x06'",
         whole=True, ret=BOOL,
         note="cut: the test that the first command behind activation is a DEP_REQ (LEN D4 06 ..); `data` a byte string (None not modelled)"),
    Spec(GROUP, "rf_ldep_dep_req", F, "Device.listen_dep", [("data", BYTES)], expr="data[1:]", nth=1,
         note="cut: `dep_req` of the returned LocalTarget"),
    # _send_atr_response / _send_psl_response
    Spec(GROUP, "rf_atr_frame", F, "Device._send_atr_response", [("atr_res", BYTES)], expr="bytearray([len(atr_res)+1]) + atr_res",
         note="cut: the frame handed to TgResponseToInitiator (length octet + ATR_RES)"),
    Spec(GROUP, "rf_psl_rx", F, "Device._send_psl_response", [("psl_req", BYTES), ("rx_mode", INT)], nonneg=["rx_mode"],
         stmts=[0, 1, 3, 4], result=["dsi", "dri", "rx_mode"],
         note="cut: DSI / DRI from PSL_REQ and the new CIU_RxMode; parameter `rx_mode` is the register value read (statement 2, >= 0)"),
    Spec(GROUP, "rf_psl_frame", F, "Device._send_psl_response", [("psl_res", BYTES)], stmts=(8, 9), result=["data"],
         note="cut: the frame handed to TgResponseToInitiator (length octet + PSL_RES)"),
    Spec(GROUP, "rf_psl_tx", F, "Device._send_psl_response", [("dri", INT), ("tx_mode", INT)], nonneg=["tx_mode", "dri"],
         stmts=[11, 12], result=["tx_mode"],
         note="cut: the new CIU_TxMode; parameters: `dri` (0..7) and the register value read (>= 0)"),
]

# ---- the overrides of pn531 / pn532 / pn533 / rcs956
P1, P2, P3, R9 = "clf/pn531.py", "clf/pn532.py", "clf/pn533.py", "clf/rcs956.py"
_INIT = [("mode", INT), ("tta_params", BYTES), ("ttf_params", BYTES)]
_TGI = [("mode", INT), ("mifare_params", BYTES), ("felica_params", BYTES), ("nfcid3t", BYTES)]
SPECS += [
    Spec(GROUP, "rf531_nfcid3t", P1, "Device._init_as_target", _INIT, stmts=(0, 1), result=["nfcid3t"],
         note="cut: NFCID3t handed to TgInitTAMATarget: NFCID2 + 00 00 (mode, Mifare and FeliCa parameters are passed on unchanged)"),
    Spec(GROUP, "rf532_nfcid3t", P2, "Device._init_as_target", _INIT, stmts=(0, 1), result=["nfcid3t"],
         note="cut: NFCID3t handed to TgInitAsTarget"),
    Spec(GROUP, "rf533_nfcid3t", P3, "Device._init_as_target", _INIT, stmts=(0, 1), result=["nfcid3t"],
         note="cut: NFCID3t handed to TgInitAsTarget"),
    Spec(GROUP, "rf956_nfcid3t", R9, "Device._init_as_target", _INIT, stmts=(0, 1), result=["nfcid3t"],
         note="cut: NFCID3t handed to TgInitTarget"),
    Spec(GROUP, "rf956_mode", R9, "Device._init_as_target", [("mode", INT)], nonneg=["mode"], expr="mode & 0xFE",
         note="cut: the mode octet handed to TgInitTarget (bit 0 `passive only` is not supported by the RC-S956); mode >= 0"),
    Spec(GROUP, "rf531_tg_init", P1, "Chipset.tg_init_tama_target", _TGI + [("gt", BYTES)], stmts=(1, 5), result=["data"],
         note="cut: the length `assert`s and the TgInitTAMATarget parameters handed to `self.command(0x8c, ..)`; the first assert "
              "(`type(mode) is int and ..`) is the cut rf531_mode_ok"),
    Spec(GROUP, "rf531_mode_ok", P1, "Chipset.tg_init_tama_target", [("mode", INT)], nonneg=["mode"], expr="mode & 0b11111100 == 0",
         note="cut: second operand of the first assert (`type(mode) is int` is true for the int parameter); mode >= 0"),
    Spec(GROUP, "rf532_tg_init", P2, "Chipset.tg_init_as_target", _TGI + [("general_bytes", BYTES), ("historical_bytes", BYTES)],
         stmts=(1, 5), result=["data"], note="cut: the length `assert`s and the TgInitAsTarget parameters (PN532)"),
    Spec(GROUP, "rf532_mode_ok", P2, "Chipset.tg_init_as_target", [("mode", INT)], nonneg=["mode"], expr="mode & 0b11111000 == 0",
         note="cut: second operand of the first assert; mode >= 0"),
    Spec(GROUP, "rf533_tg_init", P3, "Chipset.tg_init_as_target", _TGI + [("gt", BYTES), ("tk", BYTES)],
         stmts=(1, 5), result=["data"], note="cut: the length `assert`s and the TgInitAsTarget parameters (PN533)"),
    Spec(GROUP, "rf533_mode_ok", P3, "Chipset.tg_init_as_target", [("mode", INT)], nonneg=["mode"], expr="mode & 0b11111100 == 0",
         note="cut: second operand of the first assert; mode >= 0"),
    Spec(GROUP, "rf956_tg_init", R9, "Chipset.tg_init_target", _TGI + [("gt", BYTES)], stmts=(1, 5), result=["data"],
         note="cut: the length `assert`s and the TgInitTarget parameters (RC-S956)"),
    Spec(GROUP, "rf956_mode_ok", R9, "Chipset.tg_init_target", [("mode", INT)], nonneg=["mode"], expr="mode & 0b11111101 == 0",
         note="cut: second operand of the first assert; mode >= 0"),
    # pn531: cascade tags in SDD_RES, LR reduction
    Spec(GROUP, "rf531_sdd_fix", P1, "Device.sense_tta", [], binds=[("target.sdd_res", "sdd_res", BYTES)], stores=["target.sdd_res"],
         path=[(1, "body")], stmts=(0, 1), result=["target.sdd_res"],
         note="cut: inside `if target and target.sdd_res and len(target.sdd_res) > 4:` the removal of the cascade tag(s) from an 8 / 12 octet "
              "SDD_RES; `target.sens_res = bytearray(reversed(..))` behind is not translated (`reversed`)"),
    Spec(GROUP, "rf531_sdd_long", P1, "Device.sense_tta", [], binds=[("target.sdd_res", "sdd_res", BYTES)], expr="len(target.sdd_res) > 4",
         note="cut: third operand of the test that selects the PN531 fix-up (`target and target.sdd_res and ..`)"),
    Spec(GROUP, "rf531_lr_test_req", P1, "Device.sense_dep", [], binds=_ATRQ, expr="target.atr_req[15] & 0x30 == 0x30", whole=True,
         note="cut: the test `ATR_REQ announces LR 254`"),
    Spec(GROUP, "rf531_lr_fix_req", P1, "Device.sense_dep", [], binds=_ATRQ, expr="(target.atr_req[15] & 0xCF) | 0x20",
         note="cut: the PPi octet with the length reduction lowered to 192 octets"),
    Spec(GROUP, "rf531_lr_fix_res", P1, "Device.sense_dep", [("atr_res", BYTES)], binds=[("target.atr_res", "t_atr_res", BYTES)],
         path=[(3, "body")], stmts=(2, 3), result=["atr_res"],
         note="cut: inside `if target.atr_res[16] & 0x30 == 0x30:` the PPt octet of ATR_RES lowered; `atr_res` is the copy `bytearray(target.atr_res)`"),
    Spec(GROUP, "rf531_lr_test_res", P1, "Device.sense_dep", [], binds=[("target.atr_res", "t_atr_res", BYTES)],
         expr="target.atr_res[16] & 0x30 == 0x30", whole=True, note="cut: the test `ATR_RES announces LR 254`"),
    # rcs956
    Spec(GROUP, "rf956_tt1_dynamic", R9, "Device.sense_tta", [], binds=[("target.rid_res", "rid_res", BYTES)],
         expr="target.rid_res[0] >> 4 == 1 and target.rid_res[0] & 15 != 1", whole=True, ret=BOOL,
         note="cut: the test on HR0 of RID_RES for a Type 1 Tag with dynamic memory (not readable: sense_tta returns None)"),
    Spec(GROUP, "rf956_no_tt4", R9, "Device.listen_tta", [], binds=[("target.sel_res", "sel_res", BYTES)],
         expr="target.sel_res and target.sel_res[0] & 0x20", whole=True, ret=BOOL,
         note="cut: the test that refuses to listen as Type 4A target (UnsupportedTargetError); `target.sel_res` a byte string (None, which "
              "fails the test like the empty string, is not modelled)"),
    Spec(GROUP, "rf956_to", R9, "Device.listen_dep", [], binds=[("target.atr_res", "atr_res", BYTES)], stmts=(2, 3), result=["to"],
         note="cut: the TO value (RWT) taken from ATR_RES for RFConfiguration item 82h"),
    Spec(GROUP, "rf956_to_cfg", R9, "Device.listen_dep", [("to", INT)], expr="bytearray([to, 2, to])",
         note="cut: the RFConfiguration item 82h data"),
    Spec(GROUP, "rf956_atr_gb", R9, "Device._send_atr_response", [("atr_res", BYTES)], expr="atr_res[17:]",
         note="cut: the general bytes handed to TgSetGeneralBytes"),
    # Type 1 Tag command routing
    Spec(GROUP, "rf532_tt1_native", P2, "Device._tt1_send_cmd_recv_rsp", [("data", BYTES)],
         expr="data[0] in (0x00, 0x01, 0x1A, 0x53, 0x72)", whole=True,
         note="cut: the test `command implemented by the chip firmware` (RALL, READ, WRITE-NE, WRITE-E, RID -> InDataExchange)"),
    Spec(GROUP, "rf533_tt1_native", P3, "Device._tt1_send_cmd_recv_rsp", [("data", BYTES)],
         expr="data[0] in (0x00, 0x01, 0x1A, 0x53, 0x72)", whole=True, note="cut: the same test in pn533"),
    Spec(GROUP, "rf956_tt1_native", R9, "Device._tt1_send_cmd_recv_rsp", [("data", BYTES)],
         expr="data[0] in (0x00, 0x01, 0x1A, 0x53, 0x72)", whole=True, note="cut: the same test in rcs956 (every other command is a TransmissionError)"),
    Spec(GROUP, "rf532_tt1_rseg", P2, "Device._tt1_send_cmd_recv_rsp", [("data", BYTES), ("timeout", INT)],
         opaque={"self._tt1_send_cmd_recv_rsp": ("read8", [BYTES, INT], BYTES, True)}, path=[(1, "body")],
         note="cut: inside `if data[0] == 0x10:` RSEG emulated by 16 READ8 commands (the recursive call is the function parameter `read8`)"),
    Spec(GROUP, "rf533_tt1_rseg", P3, "Device._tt1_send_cmd_recv_rsp", [("data", BYTES), ("timeout", INT)],
         opaque={"self._tt1_send_cmd_recv_rsp": ("read8", [BYTES, INT], BYTES, True)}, path=[(1, "body")],
         note="cut: the same in pn533"),
    Spec(GROUP, "rf532_tt1_fifo_empty", P2, "Device._tt1_send_cmd_recv_rsp", [("fifo_level", INT)], stmts=(16, 17),
         note="cut: the statement behind `fifo_level = self.chipset.read_register('CIU_FIFOLevel')`: nothing received is a TimeoutError"),
    Spec(GROUP, "rf532_tt1_crc", P2, "Device._tt1_send_cmd_recv_rsp", [("data", BYTES)], stmts=(20, 22), calls={"self.check_crc_b": "check_crc_b"},
         note="cut: the CRC_B check and removal behind the parity removal; parameter `data` is the list of octets (ints 0..255, here a byte string) "
              "the bit-string processing of statements 18, 19 produced (str formatting, not translated)"),
    Spec(GROUP, "rf533_tt1_crc", P3, "Device._tt1_send_cmd_recv_rsp", [("data", BYTES)], stmts=(14, 16), calls={"self.check_crc_b": "check_crc_b"},
         note="cut: the same in pn533"),
]
P = "NfcVerif.FnBridge.Pn53xRf."
BRIDGE = {
    "module": "NfcVerif.Props.FnBridgePn53xRf",
    "theorems": [P + t for t in (
        "in_list_build_bridge",
        "in_list_result_bridge",
        "tta_uid_aux",
        "tta_uid_bridge",
        "tta_fields_bridge",
        "tta_is_tt2_bridge",
        "route_tt2_bridge",
        "lta_is_tt2_bridge",
        "tta_no_sens_bridge",
        "tta_tt1_sens_bridge",
        "tta_rid_cmd_bridge",
        "ttb_afi_bridge",
        "ttb_is_iso_bridge",
        "ttb_cmds_bridge",
        "ttf_field_off_bridge",
        "ttf_req_bridge",
        "ttf_res_bridge",
        "dep_checks_bridge",
        "dep_args_bridge",
        "dep_atr_res_bridge",
        "max_send_bridge",
        "max_recv_bridge",
        "indexOf_br",
        "nf_eq",
        "jump_build_aux",
        "jump_psl_build_bridge",
        "jump_dep_build_bridge",
        "jump_result_aux",
        "jump_psl_result_bridge",
        "jump_dep_result_bridge",
        "idx_map_filter_zero",
        "timeout_index_bridge",
        "timeout_index_value",
        "timeoutIndex_range",
        "timeout_cfg_bridge",
        "modes_bridge",
        "lta_checks_bridge",
        "range18",
        "lta_params_bridge",
        "lta_brty_index_bridge",
        "ldep_brty_index_bridge",
        "ldep_mode_index_bridge",
        "lta_short_bridge",
        "lta_is_rats_bridge",
        "lta_is_atr_bridge",
        "lta_rats_res_bridge",
        "lta_is_deselect_bridge",
        "lta_tt2_cmd_bridge",
        "lta_atr_req_bridge",
        "lta_sens_res_bridge",
        "lta_sdd_res_bridge",
        "lta_sel_res_bridge",
        "ltf_checks_bridge",
        "ltf_params_bridge",
        "ltf_modes_bridge",
        "ltf_irq_bridge",
        "ltf_len_ok_bridge",
        "ltf_for_us_bridge",
        "ltf_sensf_res_bridge",
        "ltf_tt3_cmd_bridge",
        "ldep_params_bridge",
        "ldep_is_atr_bridge",
        "ldep_is_psl_bridge",
        "ldep_psl_req_bridge",
        "ldep_psl_res_bridge",
        "ldep_is_dep_bridge",
        "ldep_dep_req_bridge",
        "len_frame_aux",
        "atr_frame_bridge",
        "psl_frame_bridge",
        "psl_tx_bridge",
        "psl_rx_bridge",
        "nfcid3t_531_bridge",
        "nfcid3t_532_bridge",
        "nfcid3t_533_bridge",
        "nfcid3t_956_bridge",
        "mode_956_bridge",
        "mode_ok_531_bridge",
        "mode_ok_532_bridge",
        "mode_ok_533_bridge",
        "mode_ok_956_bridge",
        "mkBytes_one",
        "tg_init_short_aux",
        "tg_init_531_bridge",
        "tg_init_956_bridge",
        "tg_init_long_aux",
        "tg_init_532_bridge",
        "tg_init_533_bridge",
        "sdd_fix_bridge",
        "sdd_long_bridge",
        "lr_test_req_bridge",
        "lr_test_res_bridge",
        "lr_fix_req_bridge",
        "tt1_dynamic_bridge",
        "no_tt4_bridge",
        "to_956_bridge",
        "to_cfg_956_bridge",
        "atr_gb_956_bridge",
        "tt1_native_aux",
        "tt1_native_532_bridge",
        "tt1_native_533_bridge",
        "tt1_native_956_bridge",
        "tt1_fifo_empty_bridge",
        "gen_tta_fields_lengths",
        "gen_tta_sdd_len",
        "ttaUid_len",
        "gen_sdd_fix_len",
        "gen_dep_checks_len",
        "gen_lta_atr_len",
        "gen_jump_result_excs",
        "gen_timeout_index_range",
        "gen_max_sizes",)],
    "properties": ["C18", "C19", "C13", "C14"],
}
# translated and differentially tested, no bridge theorem (no reference counterpart was written in this round):
# rf_ldep_atr, rf531_lr_fix_res (bytearray element assignment), rf532_tt1_rseg / rf533_tt1_rseg (loop over an opaque
# recursive call), rf532_tt1_crc / rf533_tt1_crc (CRC_B check: `check_crc_b` itself is bridged in group Crc)
SMALL_INT = ("rf_timeout_cfg", "rf956_to_cfg", "rf_max_send", "rf_max_recv", "rf532_tt1_fifo_empty")


def _b(rng, n):
    return bytes(rng.randrange(256) for _ in range(n))


def inputs(rng, sp):
    out = []
    L = sp.lean
    if L == "rf_in_list_result":
        for d in (b"", b"\x00", b"\x01", b"\x01\x01", b"\x01\x01\x44\x00\x00\x04\x01\x02\x03\x04", b"\x02\x01\x00"):
            out.append(([d], []))
    if L == "rf_tta_uid":
        for n in (0, 3, 4, 5, 7, 8, 10, 11):
            out.append(([], [_b(rng, n)]))
        out.append(([], [None]))
    if L in ("rf_tta_fields", "rf_tta_tt1_sens", "rf_ttf_res"):
        for n in (0, 1, 2, 3, 4, 5, 8, 11, 14):
            out.append(([_b(rng, n)], []))
    if L in ("rf_tta_is_tt2", "rf_route_tt2", "rf_lta_is_tt2", "rf956_no_tt4"):
        for v in (0x00, 0x20, 0x40, 0x60, 0x04, 0x9F, 0xFF):
            (out.append(([bytes([v])], [])) if sp.params else out.append(([], [bytes([v])])))
        (out.append(([b""], [])) if sp.params else out.append(([], [b""])))
    if L in ("rf_tta_no_sens", "rf_ttf_field_off", "rf_ltf_irq"):
        for v in range(0, 256, 1):
            (out.append(([v], [])) if sp.params else out.append(([], [v])))
    if L == "rf_ttb_is_iso":
        for v in (0, 1, 8, 9, 0x81, 0xF1):
            out.append(([_b(rng, 10) + bytes([v]) + _b(rng, 2)], []))
        out.append(([_b(rng, 10)], []))
    if L == "rf_dep_checks":
        for n in (0, 1, 15, 16, 17, 63, 64, 65):
            out.append(([], [_b(rng, n), "106A", "106A"]))
            out.append(([], [_b(rng, n), "106A", "212F"]))
    if L in ("rf_jump_psl_build", "rf_jump_dep_build"):
        for br in (106, 212, 424, 848, 0):
            for pd in (0, 4, 5, 6):
                for n3 in (0, 10, 9):
                    for gi in (0, 1, 48, 49):
                        out.append(([bool(rng.randrange(2)), br, _b(rng, pd), _b(rng, n3), _b(rng, gi)], []))
    if L in ("rf_jump_psl_result", "rf_jump_dep_result"):
        for d in (b"", b"\x00", b"\x00\x01", b"\x00\x01\xd5\x01\x02", b"\x01", b"\x0a\x00", b"\xff"):
            out.append(([d], []))
    if L == "rf_timeout_index":
        for t in [0, 1, 99, 100, 101, 199, 200, 201, 202, 203, 3276799, 3276800, 3309567, 3309568, 6619135, 6619136, 10 ** 7, 10 ** 9, -1, -100000]:
            out.append(([t], []))
        for i in range(17):
            for d in (-1, 0, 1):
                out.append(([(101 << i) + d], []))
    if L == "rf_modes":
        for _ in range(60):
            out.append(([rng.randrange(256), rng.randrange(256), rng.randrange(256), bool(rng.randrange(2))],
                        [rng.randrange(6), rng.randrange(6), rng.choice([0, 2, 3]), rng.choice([0, 2, 3]), bool(rng.randrange(2))]))
    if L == "rf_lta_checks":
        for a, b, c, f in ((2, 4, 1, 8), (2, 4, 1, 4), (1, 4, 1, 8), (2, 7, 1, 8), (2, 4, 2, 8), (2, 0, 1, 8), (3, 4, 0, 8)):
            sdd = (bytes([f]) + _b(rng, b))[:b]
            out.append(([], [_b(rng, a), sdd, _b(rng, c)]))
    if L in ("rf_lta_brty_index", "rf_ldep_brty_index", "rf_ldep_mode_index"):
        for v in (0x00, 0x01, 0x10, 0x11, 0x20, 0x21, 0x04, 0x30, 0x70, 0xFF):
            out.append(([bytes([v]) + _b(rng, 3)], []))
        out.append(([b""], []))
    if L == "rf_lta_is_rats":
        for sel in (0x00, 0x20, 0x40, 0x60):
            for d in (b"\x00", b"\x00\xe0", b"\x00\xe0\x80", b"\x00\xe1", b""):
                out.append(([d], [bytes([sel])]))
    if L == "rf_lta_is_atr":
        for sel in (0x00, 0x20, 0x40, 0x60):
            for n in (14, 15, 16, 17, 30):
                body = b"\xd4\x00" + _b(rng, n)
                for ln in (len(body) + 1, len(body), len(body) + 2):
                    out.append(([b"\x00\xf0" + bytes([ln & 255]) + body], [bytes([sel])]))
            out.append(([b"\x00\xf0" + bytes([18]) + b"\xd4\x01" + _b(rng, 15)], [bytes([sel])]))
            out.append(([b"\x00\xf1" + bytes([18]) + b"\xd4\x00" + _b(rng, 15)], [bytes([sel])]))
            out.append(([b"\x00"], [bytes([sel])]))
    if L == "rf_lta_is_deselect":
        for d in (b"", b"\xc2", b"\xca\x01", b"\xb2", b"\x02\x00", b"\xcf"):
            out.append(([d], []))
    if L == "rf_ltf_len_ok":
        for d in (b"", b"\x01", b"\x02", b"\x02\x00", b"\x03\x01\x02", b"\x04\x01\x02", b"\x00"):
            out.append(([d], []))
    if L == "rf_ltf_for_us":
        for _ in range(20):
            idm = _b(rng, 8)
            out.append(([b"\x12\x06" + idm + _b(rng, 6), idm + _b(rng, 10)], []))
            out.append(([b"\x12\x06" + idm[:7] + bytes([idm[7] ^ 1]) + _b(rng, 6), idm + _b(rng, 10)], []))
            out.append(([b"\x12\x06" + idm[:5], idm[:5]], []))
    if L == "rf_ltf_modes":
        for k in (212, 424, 106, 0, 848):
            out.append(([], [k]))
    if L == "rf_ldep_params":
        for a, b, c, f in ((2, 4, 1, 19), (2, 4, 1, 18), (2, 3, 1, 19), (1, 4, 1, 19), (2, 4, 0, 19), (2, 7, 1, 25), (2, 4, 1, 0)):
            out.append(([], [_b(rng, a), _b(rng, b), _b(rng, c), _b(rng, f)]))
    if L == "rf_ldep_is_atr":
        for n in (0, 1, 14, 16, 30):
            body = b"\xd4\x00" + _b(rng, n)
            for ln in (len(body) + 1, len(body), len(body) + 2):
                out.append(([b"\x00" + bytes([ln & 255]) + body], []))
        out.append(([b"\x00"], []))
        out.append(([b""], []))
        out.append(([b"\x00\x03\xd4\x01"], []))
    if L == "rf_ldep_is_psl":
        for d in (b"", b"\x06\xd4\x04", b"\x06\xd4\x04\x00\x12\x03", b"\x06\xd4\x05\x00", b"\x05\xd4\x04\x00", b"\x06\xd4"):
            out.append(([d], []))
    if L == "rf_ldep_psl_req":
        for did in (0, 1, 7):
            atr = _b(rng, 12) + bytes([did]) + _b(rng, 5)
            out.append(([b"\x06\xd4\x04" + bytes([did]) + b"\x12\x03", atr], []))
            out.append(([b"\x06\xd4\x04" + bytes([did ^ 1]) + b"\x12\x03", atr], []))
            out.append(([b"\x06\xd4\x04" + bytes([did]) + b"\x12", atr], []))
            out.append(([b"\x06\xd4\x04" + bytes([did]) + b"\x12\x03\x00", atr], []))
            out.append(([b"\x06\xd4\x04" + bytes([did]) + b"\x12\x03", atr[:12]], []))
    if L == "rf_ldep_is_dep":
        for d in (b"", b"\x04\xd4\x06\x00", b"\x05\xd4\x06\x00", b"\x04\xd4\x07\x00", b"\x03\xd4\x06", b"\x01", b"\x02\xd4"):
            out.append(([d], []))
    if L == "rf_ldep_atr":
        for n in (0, 10, 14, 15, 20):
            for m in (0, 12, 13, 17, 20):
                out.append(([b"\x00\x11" + _b(rng, n), _b(rng, m)], []))
    if L == "rf_psl_rx":
        for brs in range(0, 64):
            out.append(([b"\xd4\x04\x00" + bytes([brs]) + b"\x03", rng.randrange(256)], []))
        out.append(([b"\xd4\x04\x00", 0x80], []))
    if L == "rf_psl_tx":
        for dri in range(8):
            for m in (0x80, 0x81, 0x82, 0x83, 0x00, 0xFF, 0x31):
                out.append(([dri, m], []))
    if L in ("rf_atr_frame", "rf_psl_frame"):
        for n in (0, 3, 17, 64, 254, 255, 256):
            out.append(([_b(rng, n)], []))
    if L.endswith("_tg_init"):
        ng = 2 if L in ("rf532_tg_init", "rf533_tg_init") else 1
        for mode in (0, 1, 2, 3, 4, 255, 256, -1):
            for a, f, n in ((6, 18, 10), (5, 18, 10), (6, 17, 10), (6, 18, 11)):
                out.append(([mode, _b(rng, a), _b(rng, f), _b(rng, n)] + [_b(rng, rng.choice([0, 3, 48])) for _ in range(ng)], []))
        if ng == 2:
            out.append(([2, _b(rng, 6), _b(rng, 18), _b(rng, 10), _b(rng, 256), b""], []))
            out.append(([2, _b(rng, 6), _b(rng, 18), _b(rng, 10), b"", _b(rng, 256)], []))
    if L.endswith("_mode_ok") or L == "rf956_mode":
        for v in range(0, 260):
            out.append(([v], []))
    if L in ("rf531_sdd_fix", "rf531_sdd_long"):
        for n in (0, 4, 5, 7, 8, 9, 11, 12, 13):
            out.append(([], [_b(rng, n)]))
    if L in ("rf531_lr_test_req", "rf531_lr_fix_req", "rf531_lr_test_res", "rf956_to"):
        for v in (0x00, 0x10, 0x20, 0x30, 0x32, 0xFF, 0xCF, 0x0E):
            out.append(([], [_b(rng, 15) + bytes([v, v]) + _b(rng, 3)]))
        out.append(([], [_b(rng, 15)]))
    if L == "rf531_lr_fix_res":
        for v in (0x00, 0x30, 0x32, 0xFF):
            t = _b(rng, 16) + bytes([v]) + _b(rng, 2)
            out.append(([t], [t]))
            out.append(([t[:16]], [t]))
    if L == "rf956_tt1_dynamic":
        for v in (0x11, 0x12, 0x10, 0x1F, 0x21, 0x01, 0x00):
            out.append(([], [bytes([v, 0x48])]))
        out.append(([], [b""]))
    if L.endswith("_tt1_native"):
        for v in (0x00, 0x01, 0x02, 0x10, 0x1A, 0x1B, 0x53, 0x54, 0x72, 0x78):
            out.append(([bytes([v]) + _b(rng, 6)], []))
        out.append(([b""], []))
    if L.endswith("_tt1_crc"):
        import nfc.clf.device as dev
        for _ in range(30):
            d = bytearray(_b(rng, rng.randrange(0, 10)))
            good = bytes(dev.Device.add_crc_b(d))
            out.append(([good], []))
            i = rng.randrange(len(good))
            out.append(([good[:i] + bytes([good[i] ^ (1 << rng.randrange(8))]) + good[i + 1:]], []))
    if L.endswith("_tt1_rseg"):
        for seg in (0x00, 0x10, 0x70, 0xF0):
            out.append(([bytes([0x10, seg]) + _b(rng, 12), 1], []))
        out.append(([b"\x10", 1], []))
    return out


MUTATIONS = [
    ("rf_in_list_result", "NbTg test dropped", "return data[2:] if data and data[0] > 0 else None", "return data[2:] if data else None"),
    ("rf_in_list_build", "MaxTg", "bytearray([1, brty])", "bytearray([2, brty])"),
    ("rf_tta_uid", "cascade threshold", "if len(uid) > 4:", "if len(uid) > 5:"),
    ("rf_tta_uid", "second cascade tag position", "uid = uid[0:4] + b'\\x88' + uid[4:]", "uid = uid[0:5] + b'\\x88' + uid[5:]"),
    ("rf_tta_fields", "SDD_RES keeps the length octet", "rsp[1::-1], rsp[2:3], rsp[4:]", "rsp[1::-1], rsp[2:3], rsp[3:]"),
    ("rf_tta_fields", "SENS_RES not swapped", "rsp[1::-1], rsp[2:3], rsp[4:]", "rsp[0:2], rsp[2:3], rsp[4:]"),
    ("rf_tta_is_tt2", "platform mask", "if sel_res[0] & 0x60 == 0x00:", "if sel_res[0] & 0x20 == 0x00:"),
    ("rf_tta_no_sens", "SENS_REQ code", ") == 0x26:", ") == 0x52:"),
    ("rf_ttf_req", "default polling frame", '"00FFFF0100"', '"00FFFF0000"'),
    ("rf_ttf_res", "length octet kept", "sensf_res=rsp[1:]", "sensf_res=rsp[0:]"),
    ("rf_dep_checks", "minimum ATR_REQ length", "len(target.atr_req) >= 16", "len(target.atr_req) >= 15"),
    ("rf_dep_args", "NFCID3 position", "target.atr_req[2:12]", "target.atr_req[3:13]"),
    ("rf_dep_atr_res", "ATR_RES code", "b'\\xD5\\x01' + data", "b'\\xD5\\x00' + data"),
    ("rf_jump_psl_build", "Next flags: general bytes bit", "bool(gi) << 2", "bool(gi) << 3"),
    ("rf_jump_psl_result", "target number kept", "return data[2:]", "return data[1:]"),
    ("rf_jump_psl_result", "status check dropped", "if data is None or data[0] != 0:", "if data is None:"),
    ("rf_timeout_index", "threshold", "timeout_microsec >> i <= 100", "timeout_microsec >> i < 100"),
    ("rf_timeout_index", "index base", "[i+1 for i in range(16)", "[i for i in range(16)"),
    ("rf_modes", "speed field mask", "txm = (txm & 0b10001111)", "txm = (txm & 0b10011111)"),
    ("rf_lta_checks", "cascade tag octet", "target.sdd_res[0] == 0x08", "target.sdd_res[0] == 0x88"),
    ("rf_lta_is_rats", "RATS code", "data[1] == 0xE0", "data[1] == 0xE1"),
    ("rf_lta_is_atr", "length octet off by one", "data[2] == len(data)-2", "data[2] == len(data)-1"),
    ("rf_lta_is_atr", "minimum length", "len(data) >= 19", "len(data) >= 18"),
    ("rf_lta_is_atr", "ATR_REQ test gains an operand", "and data[3:5] == b'\\xD4\\x00'):", "and (data[3:5] == b'\\xD4\\x00' or data[3:5] == b'\\xD4\\x0A')):"),
    ("rf_ldep_is_atr", "command code", "data[2:4] == b'\\xD4\\x00'", "data[2:4] == b'\\xD4\\x04'"),
    ("rf_ldep_psl_req", "DID check dropped", 'assert psl_req[2] == atr_req[12], "psl_req has wrong did"', "pass"),
    ("rf_ldep_is_dep", "DEP_REQ code", "data[1:3] == b'\\xD4\\x06'", "data[1:3] == b'\\xD4\\x07'"),
    ("rf_psl_rx", "DSI shift", "dsi = psl_req[3] >> 3 & 0b111", "dsi = psl_req[3] >> 4 & 0b111"),
    ("rf_ltf_for_us", "IDm compared over 7 octets", "fifo_data[2:10] == nfcf_params[0:8]", "fifo_data[2:9] == nfcf_params[0:7]"),
    ("rf956_mode", "mode mask", "mode & 0xFE", "mode & 0xFF"),
    ("rf531_sdd_fix", "triple size UID", "target.sdd_res[1:4] + target.sdd_res[5:]", "target.sdd_res[1:4] + target.sdd_res[4:]"),
    ("rf532_tg_init", "length octet of the general bytes dropped", "bytearray([len(general_bytes)]) + general_bytes", "general_bytes"),
    ("rf956_tt1_dynamic", "static memory nibble", "target.rid_res[0] & 15 != 1", "target.rid_res[0] & 15 != 2"),
    ("rf533_tt1_native", "RID missing from the native commands", "(0x00, 0x01, 0x1A, 0x53, 0x72)", "(0x00, 0x01, 0x1A, 0x53)"),
    ("rf_max_send", "overhead", "host_command_frame_max_size - 2", "host_command_frame_max_size - 1"),
    ("rf_lta_is_rats", "NEUTRAL hex spelling", "data[1] == 0xE0", "data[1] == 224"),
]
