"""group Tlv: nfc/tag/tt2.py, nfc/tag/tt1.py range/capacity helpers -> Model/Tlv.lean (C01, C02, C03, C08)"""
from translate_fn import Spec, INT, BYTES, SET

GROUP = "Tlv"
ORDER = 20
SPECS = []
for _m, _cap in (("tt2", "capacity"), ("tt1", "tag_memory_size")):
    SPECS += [
        Spec(GROUP, _m + "_get_lock_byte_range", "tag/%s.py" % _m, "get_lock_byte_range", [("data", BYTES)]),
        Spec(GROUP, _m + "_get_rsvd_byte_range", "tag/%s.py" % _m, "get_rsvd_byte_range", [("data", BYTES)]),
        Spec(GROUP, _m + "_get_capacity", "tag/%s.py" % _m, "get_capacity",
             [(_cap, INT), ("offset", INT), ("skip_bytes", SET)]),
    ]
P = "NfcVerif.FnBridge.Tlv."
BRIDGE = {
    "module": "NfcVerif.Props.FnBridgeTlv",
    "theorems": [P + t for t in (
        "tt2_lock_range_bridge", "tt2_rsvd_range_bridge", "tt1_lock_range_bridge", "tt1_rsvd_range_bridge",
        "tt2_capacity_bridge", "tt1_capacity_bridge", "gen_capacity_sound")],
    "properties": ["C01", "C02", "C03", "C08"],
}
SMALL_INT = ("tt2_get_capacity", "tt1_get_capacity")


def inputs(rng, sp):
    out = []
    if sp.lean.endswith("get_capacity"):
        for _ in range(60):
            a = rng.randrange(0, 64)
            skip = set(range(a, a + rng.randrange(0, 40))) | set(range(rng.randrange(0, 500), rng.randrange(0, 500)))
            out.append(([rng.randrange(0, 600), rng.randrange(0, 64), sorted(skip)], []))
    return out


MUTATIONS = [
    ("tt2_get_lock_byte_range", "rounding of lock bits to bytes", "+ 7) // 8", "+ 8) // 8"),
    ("tt2_get_lock_byte_range", "page address shift", "data[0] >> 4", "data[0] >> 3"),
    ("tt2_get_rsvd_byte_range", "size for a zero size byte", "else 256", "else 255"),
    ("tt2_get_rsvd_byte_range", "page size mask", "data[2] & 0x0F", "data[2] & 0x07"),
    ("tt2_get_capacity", "header bytes", "capacity + 16", "capacity + 15"),
    ("tt2_get_capacity", "threshold comparison", "capacity > 256", "capacity >= 256"),
    ("tt1_get_capacity", "TLV overhead", "4 if capacity > 256 else 2", "3 if capacity > 256 else 2"),
    ("tt1_get_lock_byte_range", "zero test", "data[1] > 0", "data[1] > 1"),
    ("tt2_get_lock_byte_range", "NEUTRAL mask written as modulo", "data[0] & 0x0F", "data[0] % 16"),
]
