"""group T12Ops: the Type 1 / Type 2 Tag command layer and memory readers of nfc/tag/tt2.py, tt1.py beyond the command /
response slices of group TagCmd -> Model/SectC03.lean (cited in doc comments only: the theorem `sector_select_model` against `SectC03.sectorSelect` is DROPPED
while that model moves to an optional believed sector - the bridge module does not import SectC03 any more),
Model/AdvT12.lean (`fits`), Model/Tlv.lean (`phase1`), Model/FnTagCmdRef.lean, Model/FnT12OpsRef.lean (new: reference
`sectorSelect` with the fact "believed sector = sector of the tag after every return or raise", `writeStep`)
(C01, C02, C03, C08, C16)

What is cut (also in the `note` of each spec):
* `Type2Tag.sector_select` holds `try: .. except .. as error: if ..: raise  else: ..` (conditional bare re-raise + else:
  refused by the translator).  It is translated in slices addressed by their position in the statement tree (guard,
  packet 1 + transceive, test inside the handler, the assignment `_current_sector = None` in front of the bare `raise` of the
  handler (fixes/C16/0007), the two raise branches, the statements BEHIND the `if` that assign
  `_current_sector`, the return); `Lemmas/FnBridgeT12Ops.lean: genSectorSelect` nests them as the source does.  The
  `transceive` of packet 2 (keyword arguments, float timeout) is a parameter of the glue (its outcome).
* `Type2Tag.write`, the Type 1 command methods: WHOLE bodies, `self.transceive` is a function parameter.
* `Type2Tag.read`: `transceive(.., timeout=0.005)` has a keyword argument (refused); the assignment `_current_sector = 0`
  behind the re-activation and the raise of the NAK branch (statements 3, 4 of the branch) are new here (command, NAK test, length check are TagCmd slices); the re-activation (`clf.sense`) is not translated.
* memory readers: `self._data_from_tag[index:] = data` (item assignment on an attribute) is refused, so one round of
  `_read_from_tag` / `_write_to_tag` is cut in front of it; `self._unconfirmed.add / discard` and the tag commands are
  function parameters, so the regenerated text fixes their ORDER.  `__getitem__` / `__setitem__`: `isinstance`,
  `slice.indices`, item assignment on an attribute are refused - only the int-key test and the stop value are cut.
* `_read_ndef_data`: the statements behind the TLV walk (`self._capacity = ..` is left to group Tlv);
  `tag_memory[offset+1]` is a parameter; `self._tag_memory = ..`, `self._skip_bytes = ..` are dropped stores.
* `_write_ndef_data` phase 1: `tag_memory` is the cached image as a bytearray (the real reader fetches missing pages
  first: here IndexError), `tag_memory.synchronize()` is dropped (its position is fixed by the statement indices).
Not translated: `Type2Tag._format` (it translates - two loops - but no bridge was written), the `_protect` loop (pieces in
TagCmd), `transceive` (retry loop over exceptions: exception-flow tie), `Type1TagMemoryReader._read_from_tag` (TagCmd).
"""
from translate_fn import Spec, INT, BOOL, BYTES, SET, OPT, NONE

GROUP = "T12Ops"
ORDER = 64
T1, T2 = "tag/tt1.py", "tag/tt2.py"
_UID = [("self.uid", "uid", BYTES)]
_CUR = [("self._current_sector", "cur", INT)]
_CURO = [("self._current_sector", "cur", OPT(INT))]
_TX = {"self.transceive": ("tx", [BYTES], BYTES, True)}
SS = "Type2Tag.sector_select"
IFB = [(0, "body")]
MR = "Type2TagMemoryReader."
_N = [("len(self)", "n", INT)]

SPECS = [
    Spec(GROUP, "t2o_ss_guard", T2, SS, [("sector", INT)], binds=_CUR, whole=True, expr="sector != self._current_sector",
         note="cut: the test that decides whether anything is sent, for an int `_current_sector` (int compared with an optional is refused; "
              "for `None` the test is true: `genSectorSelect`)"),
    Spec(GROUP, "t2o_ss_send1", T2, SS, [], opaque=_TX, path=IFB, stmts=[1, 3], result=["rsp"],
         note="cut: statements 1 and 3 of the `if` body: packet 1 and its `transceive` (a function parameter)"),
    Spec(GROUP, "t2o_ss_p2_passive", T2, SS, [], binds=[("int(error)", "code", INT)], whole=True, expr="int(error) != TIMEOUT_ERROR",
         note="cut: the test inside `except Type2TagCommandError as error:` (true: the error is re-raised); `int(error)` is a parameter"),
    Spec(GROUP, "t2o_ss_p2_forget", T2, SS, [], path=IFB + [(4, "body"), (0, ("handlers", 0)), (0, "body")], stmts=[0],
         stores=["self._current_sector"], result=["self._current_sector"], ret=OPT(INT),
         note="cut: statement 0 of the `if` inside `except Type2TagCommandError as error:` (in front of the bare `raise`, which is not "
              "translatable): after a non-timeout error of packet 2 the current sector is unknown (fixes/C16/0007)"),
    Spec(GROUP, "t2o_ss_no_sector", T2, SS, [("sector", INT)], path=IFB + [(4, "body"), (0, "orelse")],
         note="cut: the `else:` block of the try statement (packet 2 was answered)"),
    Spec(GROUP, "t2o_ss_unsupported", T2, SS, [], path=IFB + [(4, "orelse")],
         note="cut: the `else:` block of the ACK test"),
    Spec(GROUP, "t2o_ss_commit", T2, SS, [("sector", INT)], path=IFB, stmts=[5, 6], stores=["self._current_sector"],
         result=["self._current_sector"],
         note="cut: statements 5, 6 of the `if` body - BEHIND the ACK `if` / try statement: the only assignment of `_current_sector`"),
    Spec(GROUP, "t2o_ss_ret", T2, SS, [], binds=_CURO, stmts=[1],
         note="cut: the `return` statement; `_current_sector` is an int or None"),
    Spec(GROUP, "t2o_write", T2, "Type2Tag.write", [("page", INT), ("data", BYTES)], opaque=_TX,
         note="whole method; `self.transceive` is a function parameter"),
    Spec(GROUP, "t2o_read_nak_reset", T2, "Type2Tag.read", [], path=[(2, "body")], stmts=[3], stores=["self._current_sector"],
         result=["self._current_sector"],
         note="cut: statement 3 of the NAK branch, directly behind the re-activation `self._target = self.clf.sense(self.target)` "
              "(statement 2, not translated) and in front of the raise: the believed sector after the re-activation"),
    Spec(GROUP, "t2o_read_nak_exc", T2, "Type2Tag.read", [], binds=[("self.target", "alive", BOOL)], path=[(2, "body")], stmts=[4],
         note="cut: the `raise` of the NAK branch (statement 4, behind the reset of `_current_sector`); `self.target` (truth value "
              "after `clf.sense`) is a parameter"),
    Spec(GROUP, "t2o_fits", T2, "Type2Tag.NDEF._read_ndef_data", [("ndef", OPT(BYTES)), ("offset", INT), ("raw_capacity", INT), ("skip_bytes", SET)],
         binds=[("tag_memory[offset + 1]", "l0", INT)], stmts=[11, 12, 13, 14, 15], stores=["self._ndef_tlv_offset"],
         drop=["self._tag_memory =", "self._skip_bytes ="], ret=OPT(BYTES),
         note="cut: statements 11..15 (behind `self._capacity = ..`): data area check and the return value; `tag_memory[offset+1]` is a parameter, the stores of `_tag_memory` / `_skip_bytes` are dropped"),
    Spec(GROUP, "t2o_room", T2, "Type2Tag.NDEF._read_ndef_data", [("ndef", BYTES), ("offset", INT), ("raw_capacity", INT), ("skip_bytes", SET)],
         binds=[("tag_memory[offset + 1]", "l0", INT)], path=[(11, "body")], stmts=[0, 1], result=["head", "room"],
         note="cut: the two assignments inside `if ndef is not None:`"),
    Spec(GROUP, "t2o_fits_cond", T2, "Type2Tag.NDEF._read_ndef_data", [("ndef", BYTES), ("head", INT), ("raw_capacity", INT), ("room", SET)],
         whole=True, expr="head > raw_capacity + 16 or len(ndef) > len(room)",
         note="cut: the complete test that rejects the TLV"),
    Spec(GROUP, "t2o_phase1", T2, "Type2Tag.NDEF._write_ndef_data", [("tag_memory", BYTES), ("offset", INT)],
         stmts=[4, 5], drop=["tag_memory.synchronize"], result=["tag_memory"],
         note="cut: statements 4, 5: the length octet is zeroed (and synchronized: dropped call) before statements 6.. place the message; `tag_memory` is the cached image as a bytearray"),
    Spec(GROUP, "t1o_phase1", T1, "Type1Tag.NDEF._write_ndef_data", [("tag_memory", BYTES), ("offset", INT)],
         stmts=[5, 6], drop=["tag_memory.synchronize"], result=["tag_memory"],
         note="cut: statements 5, 6, as t2o_phase1"),
    Spec(GROUP, "t2o_mr_get_cond", T2, MR + "__getitem__", [("key", INT)], binds=_N, whole=True, expr="key >= len(self)",
         note="cut: the int-key test that triggers a read from the tag"),
    Spec(GROUP, "t2o_mr_get_stop", T2, MR + "__getitem__", [("key", INT)], expr="key+1",
         note="partial cut (not `whole`): the keyword argument of `self._read_from_tag(stop=..)`"),
    Spec(GROUP, "t2o_mr_read_step", T2, MR + "_read_from_tag", [("index", INT)],
         opaque={"self._tag.sector_select": ("sel", [INT], INT, True), "self._tag.read": ("rd", [INT], BYTES, True)},
         path=[(1, "body")], stmts=[0, 1], result=["data"],
         note="cut: the first two statements of the loop body (sector select, read: function parameters); the item assignments on attributes behind them are refused"),
    Spec(GROUP, "t2o_mr_write_data", T2, MR + "_write_to_tag", [("index", INT)], binds=[("self._data_in_cache", "cache", BYTES)],
         whole=True, expr="self._data_in_cache[index:index+4]",
         note="cut: the page image taken from the cache"),
    Spec(GROUP, "t2o_mr_write_cond", T2, MR + "_write_to_tag", [("index", INT), ("data", BYTES)],
         binds=[("self._data_from_tag", "from_tag", BYTES), ("self._unconfirmed", "unconfirmed", SET)],
         whole=True, expr="data != self._data_from_tag[index:index+4] or index in self._unconfirmed",
         note="cut: the complete test `page changed or write unconfirmed`"),
    Spec(GROUP, "t2o_mr_write_step", T2, MR + "_write_to_tag", [("index", INT), ("data", BYTES)],
         opaque={"self._tag.sector_select": ("sel", [INT], INT, True), "self._tag.write": ("wr", [INT, BYTES], BOOL, True),
                 "self._unconfirmed.add": ("uadd", [INT], INT, True), "self._unconfirmed.discard": ("udel", [INT], INT, True)},
         path=[(1, "body"), (1, "body")], stmts=[0, 1, 2, 3], result=["data"],
         note="cut: the first four statements of the `if` body: select, mark, write, release (function parameters); the item assignment behind them is refused"),
    Spec(GROUP, "t2o_mr_sync_stop", T2, MR + "synchronize", [], binds=_N, expr="len(self)",
         note="partial cut (not `whole`): the keyword argument of `self._write_to_tag(stop=..)`"),
    Spec(GROUP, "t1o_read_id", T1, "Type1Tag.read_id", [], opaque=_TX,
         note="whole method; `self.transceive` is a function parameter"),
    Spec(GROUP, "t1o_read_all", T1, "Type1Tag.read_all", [], binds=_UID, opaque=_TX,
         note="whole method; `self.transceive` is a function parameter"),
    Spec(GROUP, "t1o_read_byte", T1, "Type1Tag.read_byte", [("addr", INT)], binds=_UID, opaque=_TX,
         note="whole method; `self.transceive` is a function parameter"),
    Spec(GROUP, "t1o_read_block", T1, "Type1Tag.read_block", [("block", INT)], binds=_UID, opaque=_TX,
         note="whole method; `self.transceive` is a function parameter"),
    Spec(GROUP, "t1o_read_segment", T1, "Type1Tag.read_segment", [("segment", INT)], binds=_UID, opaque=_TX,
         note="whole method; `self.transceive` is a function parameter"),
    Spec(GROUP, "t1o_write_byte", T1, "Type1Tag.write_byte", [("addr", INT), ("data", INT), ("erase", BOOL)], binds=_UID, opaque=_TX,
         note="whole method; `self.transceive` is a function parameter"),
    Spec(GROUP, "t1o_write_block", T1, "Type1Tag.write_block", [("block", INT), ("data", BYTES), ("erase", BOOL)], binds=_UID, opaque=_TX,
         note="whole method; `self.transceive` is a function parameter"),
    Spec(GROUP, "t1o_mr_write_block_step", T1, "Type1TagMemoryReader._write_to_tag", [("i", INT), ("data", BYTES)],
         opaque={"self._tag.write_block": ("wr", [INT, BYTES], NONE, True),
                 "self._unconfirmed.add": ("uadd", [INT], INT, True), "self._unconfirmed.discard": ("udel", [INT], INT, True)},
         path=[(1, "body"), (0, "body"), (1, "body")], stmts=[0, 1, 2], result=["data"],
         note="cut: mark, WRITE-E8, release of one block (function parameters); the item assignment behind them is refused"),
    Spec(GROUP, "t1o_mr_write_byte_step", T1, "Type1TagMemoryReader._write_to_tag", [("i", INT), ("data", INT)],
         opaque={"self._tag.write_byte": ("wr", [INT, INT], BYTES, True),
                 "self._unconfirmed.add": ("uadd", [INT], INT, True), "self._unconfirmed.discard": ("udel", [INT], INT, True)},
         path=[(1, "orelse"), (0, "body"), (1, "body")], stmts=[0, 1, 2], result=["data"],
         note="cut: mark, WRITE-E, release of one byte (function parameters)"),
]
SMALL_INT = ("t2o_fits", "t2o_room")     # `range(head, raw_capacity + 16)` is materialised
P = "NfcVerif.FnBridge.T12Ops."
R = "NfcVerif.T12OpsRef."
BRIDGE = {
    "module": "NfcVerif.Props.FnBridgeT12Ops",
    "theorems": [P + t for t in (
        "t2o_ss_guard_bridge", "t2o_ss_send1_bridge", "t2o_ss_p2_passive_bridge", "t2o_ss_no_sector_bridge",
        "t2o_ss_unsupported_bridge", "t2o_ss_commit_bridge", "t2o_ss_ret_bridge", "sector_select_bridge",
        "gen_sector_belief", "t2o_ss_p2_forget_bridge", "gen_p2_garbled_forgets", "select_send_bridge", "t2o_write_bridge", "t2o_read_nak_exc_bridge",
        "t2o_read_nak_reset_bridge", "read_nak_bridge", "gen_reactivation_resets_belief", "t2o_fits_bridge",
        "t2o_fits_none", "t2o_room_bridge", "t2o_fits_cond_bridge", "t2o_phase1_bridge", "t1o_phase1_bridge",
        "t2o_mr_get_cond_bridge", "t2o_mr_get_stop_bridge", "t2o_mr_read_step_bridge", "t2o_mr_write_data_bridge",
        "t2o_mr_write_cond_bridge", "t2o_mr_write_step_bridge", "gen_write_step_marks", "t2o_mr_sync_stop_bridge",
        "t1o_read_id_bridge", "t1o_read_all_bridge", "t1o_read_byte_bridge", "t1o_read_block_bridge",
        "t1o_read_segment_bridge", "t1o_write_byte_bridge", "t1o_write_block_bridge", "t1o_mr_write_block_step_bridge",
        "t1o_mr_write_byte_step_bridge")] + [R + t for t in (
            "sectorSelect_belief", "sectorSelect_ok", "sectorSelect_p1_timeout", "sectorSelect_p2_garbled", "sectorSelect_unknown_sends", "reactivation_resets_belief", "readNak_raises", "readNak_then_select",
            "index_page_sector", "writeStep_failed_marked", "writeStep_ok_released", "lockBytes_covers")],
    "properties": ["C01", "C02", "C03", "C08", "C16"],
}


def _b(rng, n):
    return bytes(rng.choice([0, 1, 0x0A, 0xFF, rng.randrange(256)]) for _ in range(n))


def inputs(rng, sp):
    out = []
    n = sp.lean

    def uid():
        return [_b(rng, rng.choice([4, 4, 4, 0, 7]))]
    if n == "t2o_ss_guard":
        out += [([a], [b]) for a in (-1, 0, 1, 2, 255, 256) for b in (0, 1, 2, 255)]
    if n == "t2o_ss_p2_passive":
        out += [([], [v]) for v in (-2, -1, 0, 1, 2, 3)]
    if n in ("t2o_ss_no_sector", "t2o_ss_commit"):
        out += [([v], []) for v in (-1, 0, 1, 2, 255, 256)]
    if n == "t2o_mr_sync_stop":
        out += [([], [v]) for v in (0, 1, 2, 15, 16, 255, 1024)]
    if n == "t2o_ss_ret":
        out += [([], [v]) for v in (None, 0, 1, 2, 15, 255)]
    if n in ("t2o_ss_send1", "t2o_ss_unsupported", "t1o_read_id", "t2o_read_nak_reset", "t2o_ss_p2_forget"):
        out += [([], [])]
    if n == "t2o_write":
        out += [([rng.choice([0, 3, 4, 255, 256, 257, 1023, -1]), _b(rng, rng.choice([4, 4, 4, 3, 5, 0, 16]))], [])
                for _ in range(80)]
    if n == "t2o_read_nak_exc":
        out += [([], [True]), ([], [False])]
    if n in ("t2o_fits", "t2o_room"):
        for _ in range(150):
            cap = rng.choice([6, 8, 12, 18])
            off = rng.randrange(16, cap * 8 + 20)
            lo = rng.randrange(16, cap * 8 + 24)
            skip = set(range(lo, lo + rng.randrange(0, 12))) | set(rng.sample(range(16, cap * 8 + 30), rng.randrange(0, 4)))
            room = len(set(range(off + 2, cap * 8 + 16)) - skip)
            v = _b(rng, max(0, room + rng.choice([-3, -2, -1, 0, 0, 1, 2, 3])))
            nd = v if n == "t2o_room" or rng.random() < 0.85 else None
            out.append(([nd, off, cap * 8, sorted(skip)], [rng.choice([0, 3, 254, 255, 255, len(v) & 255])]))
    if n == "t2o_fits_cond":
        for _ in range(80):
            cap = rng.choice([48, 64, 144])
            out.append(([_b(rng, rng.randrange(0, 12)), cap + 16 + rng.choice([-3, -1, 0, 1, 2]), cap,
                         sorted(rng.sample(range(16, 60), rng.randrange(0, 12)))], []))
    if n in ("t2o_phase1", "t1o_phase1"):
        out += [([_b(rng, k), o], []) for k in (0, 1, 16, 20, 32) for o in (-40, -2, -1, 0, 12, 16, 18, 19, 20, 30, 31, 32)]
    if n == "t2o_mr_get_cond":
        out += [([a], [b]) for a in (-1, 0, 1, 15, 16, 17, 1023, 1024) for b in (0, 16, 32, 1024)]
    if n == "t2o_mr_get_stop":
        out += [([v], []) for v in (-1, 0, 1, 15, 16, 1023, 1024)]
    if n == "t2o_mr_read_step":
        out += [([v], []) for v in (0, 16, 1008, 1024, 1040, 2047, 2048, 4096)]
    if n == "t2o_mr_write_data":
        out += [([i], [_b(rng, k)]) for k in (0, 3, 16, 18, 32) for i in (0, 4, 12, 16, 20, 28, 32)]
    if n == "t2o_mr_write_cond":
        for _ in range(100):
            ft = _b(rng, rng.choice([16, 32]))
            i = 4 * rng.randrange(0, 9)
            d = bytes(ft[i:i + 4]) if rng.random() < 0.5 else _b(rng, 4)
            out.append(([i, d], [ft, sorted(rng.sample(range(0, 40, 4), rng.randrange(0, 4)))]))
    if n == "t2o_mr_write_step":
        out += [([i, _b(rng, 4)], []) for i in (0, 4, 1020, 1024, 1028, 2048, 4092)]
    if n == "t1o_read_all":
        out += [([], uid()) for _ in range(6)]
    if n == "t1o_read_byte":
        out += [([a], uid()) for a in (-1, 0, 1, 7, 8, 63, 64, 126, 127, 128, 129, 255, 256)]
    if n in ("t1o_read_block", "t1o_read_segment"):
        out += [([v], uid()) for v in (-1, 0, 1, 14, 15, 16, 17, 127, 255, 256)]
    if n == "t1o_write_byte":
        for _ in range(80):
            out.append(([rng.choice([-1, 0, 11, 112, 127, 128, rng.randrange(0, 130)]),
                         rng.choice([-1, 0, 15, 255, 256, rng.randrange(256)]), rng.random() < 0.5], uid()))
    if n == "t1o_write_block":
        for _ in range(80):
            out.append(([rng.choice([-1, 0, 14, 15, 16, 255, 256, rng.randrange(0, 260)]),
                         _b(rng, rng.choice([8, 8, 8, 0, 7, 9])), rng.random() < 0.5], uid()))
    if n == "t1o_mr_write_block_step":
        out += [([i, _b(rng, 8)], []) for i in (0, 8, 16, 120, 128, 504)]
    if n == "t1o_mr_write_byte_step":
        out += [([i, rng.randrange(256)], []) for i in (0, 1, 8, 103, 119)]
    return out


_H0 = ("                    if int(error) != TIMEOUT_ERROR:  # passive ack\n"
       "                        # the tag may or may not have switched the sector\n"
       "                        self._current_sector = None\n                        raise")
_H1 = "                    if int(error) != TIMEOUT_ERROR:  # passive ack\n                        raise"


def _seed_c03_r5m1(seg):
    """seeded/C03-r5m1/patch.diff carried over to the text of `Type2Tag.sector_select` after fixes/C16/0007"""
    a = seg.replace(_H0, "                    self._current_sector = sector\n" + _H1, 1)
    b = a.replace('            log.debug("sector {0} is now selected".format(sector))\n            self._current_sector = sector\n',
                  '            log.debug("sector {0} is now selected".format(sector))\n', 1)
    assert a != seg and b != a
    return b


_LEN0 = "            tag_memory[offset+1] = 0\n            tag_memory.synchronize()\n\n            # Leave room"
MUTATIONS = [
    ("t2o_ss_commit", "seed C03-r5m1: `_current_sector` assigned in the handler in front of the re-raise, not at the end", _seed_c03_r5m1, None),
    ("t2o_ss_p2_forget", "a second assignment inside the handler in front of the test (the former gap: now statement 0 of the handler "
     "is no `if`)", _H0, "                    self._current_sector = sector\n" + _H0),
    ("t2o_ss_p2_forget", "fixes/C16/0007 reverted: the old sector stays believed after a garbled acknowledge", _H0, _H1),
    ("t2o_ss_p2_forget", "garbled acknowledge taken as a switch", "                        self._current_sector = None\n",
     "                        self._current_sector = sector\n"),
    ("t2o_ss_commit", "sector recorded before packet 1 is sent", "            rsp = self.transceive(sector_select_1)\n",
     "            self._current_sector = sector\n            rsp = self.transceive(sector_select_1)\n"),
    ("t2o_ss_p2_passive", "negative error codes of packet 2 taken as passive ack", "if int(error) != TIMEOUT_ERROR:  # passive ack",
     "if int(error) > TIMEOUT_ERROR:  # passive ack"),
    ("t2o_ss_guard", "guard compares with sector 0", "if sector != self._current_sector:", "if sector != 0:"),
    ("t2o_ss_no_sector", "answer to packet 2 accepted",
     "                    raise Type2TagCommandError(INVALID_SECTOR_ERROR)\n            else:", "                    pass\n            else:"),
    ("t2o_ss_send1", "packet 1 opcode", "b'\\xC2\\xFF'", "b'\\xC2\\xFE'"),
    ("t2o_write", "longer answers accepted", "        if len(rsp) != 1:\n", "        if len(rsp) < 1:\n"),
    ("t2o_write", "page number not reduced to the sector", "bytearray([0xA2, page % 256]) + data", "bytearray([0xA2, page & 127]) + data"),
    ("t2o_read_nak_reset", "fixes/C03/0003 reverted: believed sector kept after the re-activation",
     "            # a tag that was activated again has sector 0 selected\n            self._current_sector = 0\n", ""),
    ("t2o_read_nak_reset", "believed sector reset in front of the re-activation",
     "            self._target = self.clf.sense(self.target)\n            # a tag that was activated again has sector 0 selected\n"
     "            self._current_sector = 0\n",
     "            self._current_sector = 0\n            self._target = self.clf.sense(self.target)\n"),
    ("t2o_read_nak_reset", "wrong sector recorded", "            self._current_sector = 0\n", "            self._current_sector = 1\n"),
    ("t2o_read_nak_exc", "error codes swapped", "INVALID_PAGE_ERROR if self.target else nfc.tag.RECEIVE_ERROR",
     "nfc.tag.RECEIVE_ERROR if self.target else INVALID_PAGE_ERROR"),
    ("t2o_fits", "seed C01-r5m1: room = area - head - all skip bytes",
     "room = set(range(head, raw_capacity + 16)) - skip_bytes\n                if head > raw_capacity + 16 or len(ndef) > len(room):",
     "room = raw_capacity + 16 - head - len(skip_bytes)\n                if head > raw_capacity + 16 or len(ndef) > room:"),
    ("t2o_fits", "long header size", "head = offset + (4 if tag_memory[offset+1] == 0xFF else 2)",
     "head = offset + (3 if tag_memory[offset+1] == 0xFF else 2)"),
    ("t2o_fits", "area end without the 16 byte header", "room = set(range(head, raw_capacity + 16)) - skip_bytes",
     "room = set(range(head, raw_capacity)) - skip_bytes"),
    ("t1o_phase1", "seed C02-r5m3: length kept when the new message has the same length", _LEN0,
     "            if len(data) != self.length:\n                tag_memory[offset+1] = 0\n                tag_memory.synchronize()\n\n"
     "            # Leave room"),
    ("t2o_phase1", "length octet position", _LEN0,
     "            tag_memory[offset+2] = 0\n            tag_memory.synchronize()\n\n            # Leave room"),
    ("t2o_mr_write_step", "page released before the write",
     "                self._unconfirmed.add(index)\n                self._tag.write(index >> 2, data)\n                self._unconfirmed.discard(index)",
     "                self._unconfirmed.add(index)\n                self._unconfirmed.discard(index)\n                self._tag.write(index >> 2, data)"),
    ("t2o_mr_write_step", "no sector select in front of the write", "                self._tag.sector_select(index >> 10)\n                # A write",
     "                # A write"),
    ("t2o_mr_write_cond", "unconfirmed pages not rewritten", "or index in self._unconfirmed):", "and index in self._unconfirmed):"),
    ("t2o_mr_read_step", "sector of the read", "self._tag.sector_select(index >> 10)\n            data = self._tag.read",
     "self._tag.sector_select(index >> 11)\n            data = self._tag.read"),
    ("t2o_mr_get_cond", "read triggered one byte late", "elif key >= len(self):", "elif key > len(self):"),
    ("t1o_read_byte", "short answer accepted", "if len(rsp) < 2:", "if len(rsp) < 1:"),
    ("t1o_write_block", "echo check moved to the non-erasing write", "if erase is True and rsp[1:9] != data:",
     "if erase is False and rsp[1:9] != data:"),
    ("t1o_mr_write_block_step", "block number of the byte address", "self._tag.write_block(i//8, data)", "self._tag.write_block(i//4, data)"),
    ("t2o_write", "NEUTRAL log text", '"invalid page, received nak"', '"invalid page: nak"'),
]
