"""group Clf: decision logic of nfc/clf/__init__.py (`ContactlessFrontend.connect`, `_rdwr_connect`, `_llcp_connect`,
`_card_connect`, `sense`, `listen`, `exchange`) -> Model/Sense.lean, Model/Connect.lean, Model/FnClfRef.lean (C18, C19).

The frontend is glue code around callbacks, driver calls and option dictionaries; the models (`Clf.sense`, `listen`,
`exchange`, `connect`) thread a scripted world through a hand-written control skeleton.  Translated are the DECISIONS
of that skeleton - every condition, argument check, dispatch chain and constant that selects what happens next - as
`expr=` / statement cuts pinned to their statement; `Lemmas/FnBridgeClf.lean` restates the skeletons with the
regenerated pieces (`senseGen`, `listenGen`, `exchangeGen`, `rdwrStepGen`, `llcpStepGen`, `cardStepGen`,
`mainLoopGen`, `startupPhaseGen`, `connectGen`) and `Props/FnBridgeClf.lean` proves them equal to the model functions.

Cuts common to all entries (objects are not modelled):
* a callback result / option value that is only tested for truth is a parameter of type `int | None`
  (None, False = 0, True = 1, 0, 1; containers and strings are outside the translated domain);
* an option dictionary (`rdwr_options` ..) is `int | None`: None or its number of keys (an empty dict is false like 0);
* a target / tag / llc object is an `int` marker or `int | None`; `isinstance(..)` tests and `terminate()`,
  `tag.is_present` are bool parameters (the text of the test is pinned by the bind);
* byte string attributes of a target (`sel_req`, `sens_res`, `rid_res`, `atr_req`, `sel_res`, `sensf_res`) are `bytes`
  where None behaves like the empty string in every translated test (both false, no element is read), `atr_req` /
  `atr_res` in the dispatch chains are `bytes | None`;
* the nested `sense_*` / `listen_*` functions called by the dispatch chains are function parameters (oracles).
Condition cuts are `whole=True`: the expression must be the COMPLETE test of its `if` / `while` / conditional
expression / assert (or the whole value of its statement, the iterable of its `for`), so wrapping it (`c is True`,
`c or x`) breaks the bridge; the few cuts that are operands of a larger test say so in their note.
Not translated: the `setdefault` option preparation (dict mutation, lambdas), the `try/except` boundaries (exception
flow tie), `time` arithmetic (floats), the `RemoteTarget.brty` setter (regular expression).
"""
from translate_fn import Spec, INT, BOOL, BYTES, STR, OPT, LIST

GROUP = "Clf"
ORDER = 70
F = "clf/__init__.py"
CF = "ContactlessFrontend."
_DEV = [("self.device", "device", OPT(INT))]
_LOOP = [(12, "body"), (0, "body")]
_SENSE_ORACLES = {"sense_dep": ("sense_dep", [INT], OPT(INT), True), "sense_tta": ("sense_tta", [INT], OPT(INT), True),
                  "sense_ttb": ("sense_ttb", [INT], OPT(INT), True), "sense_ttf": ("sense_ttf", [INT], OPT(INT), True)}
_LISTEN_ORACLES = {"listen_dep": ("listen_dep", [INT, INT], OPT(INT), True), "listen_tta": ("listen_tta", [INT, INT], OPT(INT), True),
                   "listen_ttb": ("listen_ttb", [INT, INT], OPT(INT), True), "listen_ttf": ("listen_ttf", [INT, INT], OPT(INT), True)}

SPECS = [
    # ---- connect(): option preparation
    Spec(GROUP, "clf_connect_nodev", F, CF + "connect", [], binds=_DEV, stmts=[0],
         note="cut: statement 0, ENODEV without an open device; `self.device` is None or a marker"),
    Spec(GROUP, "clf_connect_llcp_startup", F, CF + "connect", [("llcp_options", OPT(INT))],
         binds=[("isinstance(llc, nfc.llcp.llc.LogicalLinkController)", "is_llc", BOOL)],
         path=[(7, "body")], stmts=[6], drop=["llcp_options['llc'] = "], result=["llcp_options"],
         note="cut: the `if isinstance(llc, ..)` behind the llcp on-startup call: the option survives or becomes None; "
              "the dictionary store is dropped; result: llcp_options"),
    Spec(GROUP, "clf_connect_rdwr_startup", F, CF + "connect", [("rdwr_options", OPT(INT)), ("targets", LIST(INT))],
         binds=[("all([isinstance(o, RemoteTarget) for o in targets])", "all_remote", BOOL)],
         path=[(8, "body")], stmts=[12], drop=["rdwr_options['targets'] = "], result=["rdwr_options"],
         note="cut: the `if targets and all(..)` behind the rdwr on-startup call; `targets` is the returned list (markers), "
              "the `all([isinstance ..])` test a bool parameter (its TypeError for a non-iterable is cut away); result: rdwr_options"),
    Spec(GROUP, "clf_connect_card_startup", F, CF + "connect", [("card_options", OPT(INT))],
         binds=[("isinstance(target, LocalTarget)", "is_local", BOOL)],
         path=[(9, "body")], stmts=[7], drop=["card_options['target'] = "], result=["card_options"],
         note="cut: the `if isinstance(target, LocalTarget)` behind the card on-startup call; result: card_options"),
    Spec(GROUP, "clf_connect_no_options", F, CF + "connect",
         [("rdwr_options", OPT(INT)), ("llcp_options", OPT(INT)), ("card_options", OPT(INT))],
         whole=True, expr="not (rdwr_options or llcp_options or card_options)",
         note="cut: the condition of `return None` after the option preparation"),
    Spec(GROUP, "clf_connect_default_discover", F, CF + "connect", [],
         binds=[("target.sel_res", "sel_res", BYTES), ("target.sensf_res", "sensf_res", BYTES)],
         path=[(8, "body"), (0, "body")],
         note="the nested default `on_discover(target)` of the rdwr option (whole body): False for a peer-to-peer capable target"),
    # ---- connect(): main loop
    Spec(GROUP, "clf_connect_go_on", F, CF + "connect", [], binds=[("terminate()", "terminated", BOOL)],
         path=[(12, "body")], stmts=[0], whole=True, expr="not terminate()", note="cut: the condition of the main `while`"),
    Spec(GROUP, "clf_connect_has_rdwr", F, CF + "connect", [("rdwr_options", OPT(INT))],
         path=_LOOP, stmts=[0], whole=True, expr="rdwr_options", ret=BOOL, note="cut: main loop, the test `if rdwr_options:` (truth value)"),
    Spec(GROUP, "clf_connect_has_llcp", F, CF + "connect", [("llcp_options", OPT(INT))],
         path=_LOOP, stmts=[1], whole=True, expr="llcp_options", ret=BOOL, note="cut: main loop, the test `if llcp_options:` (truth value)"),
    Spec(GROUP, "clf_connect_has_card", F, CF + "connect", [("card_options", OPT(INT))],
         path=_LOOP, stmts=[2], whole=True, expr="card_options", ret=BOOL, note="cut: main loop, the test `if card_options:` (truth value)"),
    Spec(GROUP, "clf_connect_rdwr_done", F, CF + "connect", [("result", OPT(INT))],
         path=_LOOP, stmts=[0], whole=True, expr="bool(result) is True", note="cut: main loop, `bool(result) is True` behind _rdwr_connect"),
    Spec(GROUP, "clf_connect_llcp_done", F, CF + "connect", [("result", OPT(INT))],
         path=_LOOP, stmts=[1], whole=True, expr="bool(result) is True", note="cut: main loop, `bool(result) is True` behind _llcp_connect"),
    Spec(GROUP, "clf_connect_card_done", F, CF + "connect", [("result", OPT(INT))],
         path=_LOOP, stmts=[2], whole=True, expr="bool(result) is True", note="cut: main loop, `bool(result) is True` behind _card_connect"),
    # ---- _rdwr_connect
    Spec(GROUP, "clf_rdwr_found", F, CF + "_rdwr_connect", [("target", OPT(INT))], whole=True, expr="target is not None",
         note="cut: the test of the sense() result"),
    Spec(GROUP, "clf_rdwr_discover", F, CF + "_rdwr_connect", [],
         binds=[("options['on-discover'](target)", "answer", OPT(INT))], whole=True, expr="options['on-discover'](target)", ret=BOOL,
         note="cut: the on-discover decision (truth value of the callback result)"),
    Spec(GROUP, "clf_rdwr_activated", F, CF + "_rdwr_connect", [("tag", OPT(INT))], whole=True, expr="tag is not None",
         note="cut: the test of the nfc.tag.activate() result"),
    Spec(GROUP, "clf_rdwr_connect", F, CF + "_rdwr_connect", [],
         binds=[("options['on-connect'](tag)", "answer", OPT(INT))], whole=True, expr="options['on-connect'](tag)", ret=BOOL,
         note="cut: the on-connect decision (truth value of the callback result)"),
    Spec(GROUP, "clf_rdwr_beep", F, CF + "_rdwr_connect", [],
         binds=[("options['beep-on-connect']", "beep", OPT(INT))], whole=True, expr="options['beep-on-connect']", ret=BOOL,
         note="cut: the beep-on-connect decision (truth value of the option)"),
    Spec(GROUP, "clf_rdwr_present", F, CF + "_rdwr_connect", [],
         binds=[("terminate()", "terminated", BOOL), ("tag.is_present", "present", BOOL)],
         whole=True, expr="not terminate() and tag.is_present", note="cut: the condition of the presence loop"),
    # ---- _llcp_connect
    Spec(GROUP, "clf_llcp_roles", F, CF + "_llcp_connect", [], whole=True, expr="('target', 'initiator')",
         note="cut: the roles tried, in this order"),
    Spec(GROUP, "clf_llcp_role_match", F, CF + "_llcp_connect", [("role", STR)],
         binds=[("options.get('role') is None", "no_role", BOOL), ("options.get('role')", "role_opt", STR)],
         whole=True, expr="options.get('role') is None or options.get('role') == role",
         note="cut: is this role tried; the None test of the option is a bool parameter, its value a str (any str when None)"),
    Spec(GROUP, "clf_llcp_dep_keys", F, CF + "_llcp_connect", [], whole=True, expr="('brs', 'acm', 'rwt', 'lrt', 'lri')",
         note="cut: the option keys passed through to `llc.activate` (NFC-DEP parameters)"),
    Spec(GROUP, "clf_llcp_dep_key_fwd", F, CF + "_llcp_connect", [], binds=[("k in options", "present", BOOL)],
         expr="k in options",
         note="cut: the filter of the pass-through comprehension; the membership test itself is the parameter: this entry "
              "pins the TEXT of the filter (`k in options`, not `options.get(k)`: a value 0 / False is forwarded)"),
    Spec(GROUP, "clf_llcp_activated", F, CF + "_llcp_connect", [],
         binds=[("llc.activate(mac=DEP(clf=self), **dep_cfg)", "answer", OPT(INT))],
         whole=True, expr="llc.activate(mac=DEP(clf=self), **dep_cfg)", ret=BOOL, note="cut: the decision on the llc.activate() result (truth value)"),
    Spec(GROUP, "clf_llcp_connect", F, CF + "_llcp_connect", [],
         binds=[("options['on-connect'](llc)", "answer", OPT(INT))], whole=True, expr="options['on-connect'](llc)", ret=BOOL,
         note="cut: the on-connect decision (truth value of the callback result)"),
    # ---- _card_connect
    Spec(GROUP, "clf_card_discover", F, CF + "_card_connect", [("target", BOOL)],
         binds=[("options['on-discover'](target)", "answer", OPT(INT))],
         whole=True, expr="target and options['on-discover'](target)", ret=BOOL,
         note="cut: target found and accepted by on-discover (truth value); `target` is the truth value of the listen() result"),
    Spec(GROUP, "clf_card_connect", F, CF + "_card_connect", [],
         binds=[("options['on-connect'](tag)", "answer", OPT(INT))], whole=True, expr="options['on-connect'](tag)", ret=BOOL,
         note="cut: the on-connect decision (truth value of the callback result)"),
    Spec(GROUP, "clf_card_go_on", F, CF + "_card_connect", [], binds=[("terminate()", "terminated", BOOL)],
         whole=True, expr="not terminate()", note="cut: the condition of the command/response loop"),
    # ---- sense()
    Spec(GROUP, "clf_sense_arg_check", F, CF + "sense", [("target", INT)],
         binds=[("isinstance(target, RemoteTarget)", "is_remote", BOOL)], path=[(4, "body")],
         note="cut: body of the argument check loop `for target in targets` (ValueError for a non-RemoteTarget); the loop "
              "variable is a marker"),
    Spec(GROUP, "clf_sense_nodev", F, CF + "sense", [], binds=_DEV, path=[(5, "body")], stmts=[0],
         note="cut: ENODEV without an open device"),
    Spec(GROUP, "clf_sense_forget", F, CF + "sense", [], stores=["self.target"], path=[(5, "body")], stmts=[1],
         result=["self.target"], note="cut: statement 1 inside the lock: the captured target is forgotten; result: self.target"),
    Spec(GROUP, "clf_tta_sel_req", F, CF + "sense.sense_tta", [], binds=[("target.sel_req", "sel_req", BYTES)],
         stmts=[0], note="cut: statement 0 of the nested sense_tta: the sel_req length check"),
    Spec(GROUP, "clf_tta_sens_len_bad", F, CF + "sense.sense_tta", [], binds=[("target.sens_res", "sens_res", BYTES)],
         expr="len(target.sens_res) != 2", note="cut: the SENS_RES length test of the found target (right operand of `target and ..`: not a whole test)"),
    Spec(GROUP, "clf_tta_is_t1t", F, CF + "sense.sense_tta", [], binds=[("target.sens_res", "sens_res", BYTES)],
         expr="target.sens_res[0] & 0b00011111 == 0", note="cut: the Type 1 Tag platform test (right operand of `target and ..`: not a whole test)"),
    Spec(GROUP, "clf_tta_t1t_checks", F, CF + "sense.sense_tta", [],
         binds=[("target.sens_res", "sens_res", BYTES), ("target.rid_res", "rid_res", BYTES)],
         path=[(4, "body")], note="cut: the four checks of a Type 1 Tag answer (body of the platform test)"),
    Spec(GROUP, "clf_dep_checks", F, CF + "sense.sense_dep", [], binds=[("target.atr_req", "atr_req", BYTES)],
         stmts=(0, 2), note="cut: the two atr_req length checks of the nested sense_dep (in front of the driver call)"),
    Spec(GROUP, "clf_sense_iters", F, CF + "sense", [], binds=[("options.get('iterations', 1)", "iterations", INT)],
         whole=True, expr="range(max(1, options.get('iterations', 1)))", note="cut: the iteration range; the option lookup is the parameter"),
    Spec(GROUP, "clf_sense_single", F, CF + "sense", [("targets", LIST(INT))], whole=True, expr="len(targets) == 1",
         note="cut: target errors are raised only for a single target; `targets` as a list of markers"),
    Spec(GROUP, "clf_sense_mute", F, CF + "sense", [("targets", LIST(INT))], whole=True, expr="len(targets) > 0",
         note="cut: the field is switched off after an unsuccessful iteration unless no target was given"),
    Spec(GROUP, "clf_sense_sleep", F, CF + "sense", [("i", INT)], binds=[("options.get('iterations', 1)", "iterations", INT)],
         whole=True, expr="i < options.get('iterations', 1) - 1", note="cut: sleep between iterations, not after the last one"),
    Spec(GROUP, "clf_sense_dispatch", F, CF + "sense", [("target", INT)],
         binds=[("target.atr_req", "atr_req", OPT(BYTES)), ("target.brty", "brty", STR)],
         opaque=_SENSE_ORACLES, stores=["self.target"], path=[(5, "body"), (3, "body"), (1, "body"), (1, "body")],
         result=["self.target"],
         note="cut: the `try` body of the inner loop: which nested sense function is called for a target (`atr_req`, then "
              "the last letter of `brty`); the nested functions are oracles; result: self.target"),
    Spec(GROUP, "clf_sense_found", F, CF + "sense", [], binds=[("self.target", "target", OPT(INT))],
         whole=True, expr="self.target is not None", note="cut: the `else` of the try: return the first target found"),
    # ---- listen()
    Spec(GROUP, "clf_listen_nodev", F, CF + "listen", [], binds=_DEV, path=[(5, "body")], stmts=[0],
         note="cut: ENODEV without an open device"),
    Spec(GROUP, "clf_listen_forget", F, CF + "listen", [], stores=["self.target"], path=[(5, "body")], stmts=[1],
         result=["self.target"], note="cut: statement 1 inside the lock: the captured target is forgotten; result: self.target"),
    Spec(GROUP, "clf_listen_dispatch", F, CF + "listen", [("target", INT), ("timeout", INT)],
         binds=[("target.atr_res", "atr_res", OPT(BYTES)), ("target.brty", "brty", STR)],
         opaque=_LISTEN_ORACLES, stores=["self.target"], path=[(5, "body")], stmts=(3, 5), result=["self.target"],
         note="cut: statements 3-4 inside the lock: which nested listen function is called; ValueError for an unknown "
              "brty; the nested functions are oracles, `timeout` an int; result: self.target"),
    Spec(GROUP, "clf_listen_dep_min", F, CF + "listen.listen_dep", [], binds=[("target.atr_req", "atr_req", BYTES)],
         whole=True, expr="len(target.atr_req) >= 16", note="cut: minimum ATR_REQ length accepted by the nested listen_dep"),
    Spec(GROUP, "clf_listen_dep_max", F, CF + "listen.listen_dep", [], binds=[("target.atr_req", "atr_req", BYTES)],
         whole=True, expr="len(target.atr_req) <= 64", note="cut: maximum ATR_REQ length accepted by the nested listen_dep"),
    Spec(GROUP, "clf_local_brty", F, "LocalTarget.brty", [],
         binds=[("self._brty_send", "brty_send", STR), ("self._brty_recv", "brty_recv", STR)],
         note="property getter: one bitrate/type string, or send/recv when they differ"),
    # ---- exchange()
    Spec(GROUP, "clf_exchange_nodev", F, CF + "exchange", [], binds=_DEV, path=[(0, "body")], stmts=[0],
         note="cut: ENODEV without an open device"),
    Spec(GROUP, "clf_exchange_select", F, CF + "exchange", [],
         binds=[("isinstance(self.target, RemoteTarget)", "is_remote", BOOL), ("isinstance(self.target, LocalTarget)", "is_local", BOOL),
                ("self.device.send_cmd_recv_rsp", "cmd_rsp", INT), ("self.device.send_rsp_recv_cmd", "rsp_cmd", INT)],
         path=[(0, "body")], stmts=[2], result=["exchange"], ret=OPT(INT),
         note="cut: statement 2 inside the lock: the driver method selected by the kind of `self.target` (the two bound "
              "methods are int markers), None = `return None` without a target"),
]
P = "NfcVerif.FnBridge.Clf."
BRIDGE = {
    "module": "NfcVerif.Props.FnBridgeClf",
    "theorems": [P + t for t in (
        "nodev_bridge", "truth_bridge", "done_bridge", "has_bridge", "no_options_bridge", "tta_sel_req_bridge",
        "dep_checks_bridge", "check_tta_bridge", "sense_dispatch_table", "sense_choice", "sense_tta_bridge",
        "sense_dep_bridge", "sense_one_bridge", "sense_targets_bridge", "sense_single_bridge", "sense_mute_bridge",
        "sense_iters_bridge", "sense_sleep_bridge", "sense_iters_loop", "arg_check_bridge", "sense_bridge",
        "listen_dispatch_table", "listen_choice", "listen_dep_len_bridge", "listen_bridge", "exchange_select_bridge",
        "exchange_bridge", "default_discover_bridge", "default_discover_model", "presence_loop_bridge",
        "rdwr_step_bridge", "llcp_role_bridge", "role_match_bridge", "llcp_step_bridge", "card_loop_bridge",
        "card_step_bridge", "try_step_bridge", "main_loop_bridge", "startup_bridge", "startup_rest_bridge",
        "startup_phase_bridge", "connect_bridge", "dep_cfg_bridge", "gen_dep_cfg_mem", "gen_roles_tried",
        "gen_connect_callback_order", "gen_release_iff_connect_true", "gen_sense_no_raise_unsupported",
        "gen_sense_field_off_when_none", "local_brty_bridge")],
    "properties": ["C18", "C19"],
}


def accept(sp, pv, bv):
    """the iteration range is materialised by the test driver: `iterations` below 5000 (no precondition of the cut)"""
    if sp.lean == "clf_sense_iters":
        return bv[0] < 5000
    return True


def _b(rng, n):
    return bytes(rng.randrange(256) for _ in range(n))


def inputs(rng, sp):
    out = []
    n = sp.lean
    truth = [None, 0, 1, 2, -1]
    if n in ("clf_connect_nodev", "clf_sense_nodev", "clf_listen_nodev", "clf_exchange_nodev"):
        out += [([], [d]) for d in (None, 0, 1, 7)]
    if n in ("clf_connect_llcp_startup", "clf_connect_card_startup"):
        out += [([o], [b]) for o in (None, 0, 3) for b in (False, True)]
    if n == "clf_connect_rdwr_startup":
        out += [([o, t], [b]) for o in (None, 0, 8) for t in ([], [0], [0, 0, 0]) for b in (False, True)]
    if n == "clf_connect_no_options":
        out += [([a, b, c], []) for a in (None, 0, 8) for b in (None, 0, 4) for c in (None, 0, 5)]
    if n == "clf_connect_default_discover":
        for sel in (b"", b"\x00", b"\x20", b"\x40", b"\x60", b"\xff", b"\xbf\x40"):
            for sf in (b"", b"\x01", b"\x01\x01", b"\x01\x01\xfe", b"\x01\x01\xfe" + _b(rng, 15), b"\x01\x02\xfe" + _b(rng, 15),
                       b"\x01\xfe\x01" + _b(rng, 4), b"\x01\x01\xff"):
                out.append(([], [sel, sf]))
    if n in ("clf_connect_go_on", "clf_card_go_on"):
        out += [([], [b]) for b in (False, True)]
    if n in ("clf_connect_has_rdwr", "clf_connect_has_llcp", "clf_connect_has_card", "clf_connect_rdwr_done",
             "clf_connect_llcp_done", "clf_connect_card_done", "clf_rdwr_found", "clf_rdwr_activated"):
        out += [([v], []) for v in truth]
    if n in ("clf_rdwr_discover", "clf_rdwr_connect", "clf_rdwr_beep", "clf_llcp_activated", "clf_llcp_connect", "clf_card_connect"):
        out += [([], [v]) for v in truth]
    if n == "clf_rdwr_present":
        out += [([], [a, b]) for a in (False, True) for b in (False, True)]
    if n == "clf_llcp_role_match":
        for role in ("target", "initiator"):
            for opt in ("target", "initiator", "reader", "x"):
                out += [([role], [False, opt]), ([role], [True, opt])]
    if n == "clf_llcp_dep_key_fwd":
        out += [([], [False]), ([], [True])]
    if n == "clf_card_discover":
        out += [([t], [v]) for t in (False, True) for v in truth]
    if n == "clf_sense_arg_check":
        out += [([3], [False]), ([4], [True])]
    if n == "clf_tta_sel_req":
        out += [([], [_b(rng, k)]) for k in range(0, 13)]
    if n in ("clf_tta_sens_len_bad", "clf_tta_is_t1t"):
        out += [([], [bytes(v)]) for v in ([], [0], [0, 12], [0x44, 0], [0x20, 0x0c], [0x1f, 0], [0xe0, 0x0c], [0, 12, 0], [4, 0, 0, 0])]
    if n == "clf_tta_t1t_checks":
        for sens in ([0, 12], [0, 0x0c | 0xf0], [0, 0], [0, 13], [0x20, 0x0c], [0]):
            for rid in (b"", b"\x11", b"\x11\x48\x01\x02\x03", b"\x11\x48\x01\x02\x03\x04", b"\x12\x4c\x01\x02\x03\x04",
                        b"\x21\x48\x01\x02\x03\x04", b"\x01\x48\x01\x02\x03\x04", b"\x11\x48\x01\x02\x03\x04\x05"):
                out.append(([], [bytes(sens), rid]))
    if n in ("clf_dep_checks", "clf_listen_dep_min", "clf_listen_dep_max"):
        out += [([], [_b(rng, k)]) for k in (0, 1, 14, 15, 16, 17, 40, 63, 64, 65, 66, 100)]
    if n == "clf_sense_iters":
        out += [([], [k]) for k in range(-3, 8)]
    if n in ("clf_sense_single", "clf_sense_mute"):
        out += [([[0] * k], []) for k in range(0, 5)]
    if n == "clf_sense_sleep":
        out += [([i], [k]) for k in range(-2, 7) for i in range(0, 7)]
    if n == "clf_sense_found":
        out += [([], [v]) for v in (None, 0, 1, 5)]
    if n == "clf_exchange_select":
        out += [([], [a, b, 1, 2]) for a in (False, True) for b in (False, True)]
    if n == "clf_sense_dispatch":
        for atr in (None, b"", b"\xd4\x00"):
            for brty in ("106A", "106B", "212F", "424F", "106", "A", "", "106a", "848B", "106A/106B"):
                out.append(([rng.randrange(5)], [atr, brty]))
    if n in ("clf_sense_forget", "clf_listen_forget"):
        out += [([], [])]
    if n == "clf_local_brty":
        out += [([], [a, b]) for a in ("106A", "212F", "424F") for b in ("106A", "212F", "424F")]
    if n == "clf_listen_dispatch":
        for atr in (None, b"", b"\xd5\x01"):
            for brty in ("106A", "212A", "424A", "106B", "212B", "424B", "848B", "212F", "424F", "106F", "848A", "106", ""):
                out.append(([rng.randrange(5), rng.randrange(3)], [atr, brty]))
    return out


def _nth(old, new, k):
    """replace the k-th occurrence (0-based) of `old` in the function segment"""
    def f(seg):
        parts = seg.split(old)
        assert len(parts) > k + 1, (old, len(parts))
        return old.join(parts[:k + 1]) + new + old.join(parts[k + 1:])
    return f


MUTATIONS = [
    ("clf_sense_single", "lead seed: target errors raised whenever targets were given (not only for a single one)",
     "if len(targets) == 1:", "if len(targets) >= 1:"),
    ("clf_llcp_dep_key_fwd", "lead seed: NFC-DEP options forwarded only when true (brs=0 lost)",
     "for k in dep_cfg if k in options}", "for k in dep_cfg if options.get(k)}"),
    ("clf_connect_rdwr_done", "lead seed: connect() returns any non-None result of _rdwr_connect",
     _nth("if bool(result) is True:", "if result is not None:", 0), None),
    ("clf_tta_sel_req", "a 10 byte sel_req refused", "not in (4, 7, 10)", "not in (4, 7)"),
    ("clf_tta_is_t1t", "Type 1 Tag platform mask", "& 0b00011111 == 0", "& 0b00001111 == 0"),
    ("clf_tta_is_t1t", "NEUTRAL binary mask written in hex", "0b00011111", "0x1F"),
    ("clf_tta_t1t_checks", "RID response length", "len(target.rid_res) != 6", "len(target.rid_res) != 4"),
    ("clf_tta_t1t_checks", "HR0 check dropped", "if target.rid_res[0] >> 4 != 0b0001:", "if False:"),
    ("clf_dep_checks", "minimum atr_req length", "len(target.atr_req) < 16", "len(target.atr_req) < 17"),
    ("clf_sense_iters", "zero iterations possible", "range(max(1, options.get('iterations', 1)))",
     "range(max(0, options.get('iterations', 1)))"),
    ("clf_sense_sleep", "sleep also behind the last iteration", "if i < options.get('iterations', 1) - 1:",
     "if i < options.get('iterations', 1):"),
    ("clf_sense_mute", "field left on after a single-target search", "if len(targets) > 0:", "if len(targets) > 1:"),
    ("clf_sense_dispatch", "an empty atr_req no longer selects DEP", "if target.atr_req is not None:", "if target.atr_req:"),
    ("clf_sense_dispatch", "Type B and Type F swapped",
     "self.target = sense_ttb(target)\n                        elif target.brty.endswith('F'):\n                            self.target = sense_ttf(target)",
     "self.target = sense_ttf(target)\n                        elif target.brty.endswith('F'):\n                            self.target = sense_ttb(target)"),
    ("clf_sense_dispatch", "technology letter read at the front of brty", "if target.atr_req is not None:\n                            self.target = sense_dep(target)\n                        elif target.brty.endswith('A'):",
     "if target.atr_req is not None:\n                            self.target = sense_dep(target)\n                        elif target.brty.startswith('A'):"),
    ("clf_local_brty", "send and recv swapped in the combined string", "else self._brty_send+\"/\"+self._brty_recv", "else self._brty_recv+\"/\"+self._brty_send"),
    ("clf_sense_forget", "sense() keeps the target of an earlier call (stale target for exchange)",
     "            self.target = None  # forget captured target\n            self.device.mute()  # deactivate the rf field\n\n            for i in range(",
     "            self.device.mute()  # deactivate the rf field\n\n            for i in range("),
    ("clf_listen_forget", "listen() forgets the target only after the field is off",
     "            self.target = None  # forget captured target\n            self.device.mute()  # deactivate the rf field\n\n            info =",
     "            self.device.mute()  # deactivate the rf field\n            self.target = None  # forget captured target\n\n            info ="),
    ("clf_sense_arg_check", "argument check inverted", "if not isinstance(target, RemoteTarget):", "if isinstance(target, RemoteTarget):"),
    ("clf_listen_dispatch", "424A no longer a Type A target", "('106A', '212A', '424A')", "('106A', '212A')"),
    ("clf_listen_dispatch", "atr_res test weakened", "if target.atr_res is not None:", "if target.atr_res:"),
    ("clf_listen_dep_min", "minimum ATR_REQ length of listen_dep", "len(target.atr_req) >= 16", "len(target.atr_req) > 16"),
    ("clf_listen_dep_max", "maximum ATR_REQ length of listen_dep", "len(target.atr_req) <= 64", "len(target.atr_req) <= 65"),
    ("clf_exchange_select", "direction swapped", "exchange = self.device.send_cmd_recv_rsp", "exchange = self.device.send_rsp_recv_cmd"),
    ("clf_exchange_select", "stale target kinds: LocalTarget test dropped", "elif isinstance(self.target, LocalTarget):", "elif self.target is not None:"),
    ("clf_connect_nodev", "ENODEV check inverted", "if self.device is None:", "if self.device is not None:"),
    ("clf_connect_no_options", "connect() goes on without options",
     "if not (rdwr_options or llcp_options or card_options):", "if not (rdwr_options and llcp_options and card_options):"),
    ("clf_connect_default_discover", "peer-to-peer bit of SEL_RES", "target.sel_res[0] & 0x40", "target.sel_res[0] & 0x20"),
    ("clf_connect_default_discover", "NFCID2 prefix offset", "target.sensf_res[1:3]", "target.sensf_res[0:2]"),
    ("clf_connect_rdwr_startup", "an empty target list keeps the rdwr option", "if targets and all(", "if all("),
    ("clf_connect_llcp_startup", "llcp option survives any on-startup result",
     "else:\n                log.debug(\"removing llcp_options after on-startup\")\n                llcp_options = None",
     "else:\n                log.debug(\"removing llcp_options after on-startup\")\n                llcp_options = llcp_options"),
    ("clf_connect_go_on", "main loop ignores terminate()", "while not terminate():", "while True:"),
    ("clf_llcp_roles", "Initiator tried first", "for role in ('target', 'initiator'):", "for role in ('initiator', 'target'):"),
    ("clf_llcp_role_match", "role test inverted", "options.get('role') == role", "options.get('role') != role"),
    ("clf_llcp_dep_keys", "lri not passed through", "('brs', 'acm', 'rwt', 'lrt', 'lri')", "('brs', 'acm', 'rwt', 'lrt')"),
    ("clf_rdwr_present", "presence loop ignores terminate()", "while not terminate() and tag.is_present:", "while tag.is_present:"),
    ("clf_rdwr_connect", "on-connect result compared with True", "if options['on-connect'](tag):\n                        if options['beep-on-connect']",
     "if options['on-connect'](tag) is True:\n                        if options['beep-on-connect']"),
    ("clf_card_discover", "on-discover called without a target", "if target and options['on-discover'](target):", "if options['on-discover'](target):"),
]
