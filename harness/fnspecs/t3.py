"""group T3: nfc/tag/tt3.py NDEF attribute block, block batching, emulation dispatch
-> Model/T3.lean, Model/AdvT34.lean, Model/T3Emu.lean (C01/C02/C03 part t34, C08, C07)"""
from translate_fn import Spec, INT, BOOL, BYTES, OPT, TUP

GROUP = "T3"
ORDER = 60
F = "tag/tt3.py"
N = "Type3Tag.NDEF."
_A = lambda *ks: [("attributes['%s']" % k, k, INT) for k in ks]      # noqa: E731  the attribute dict as parameters

SPECS = [
    Spec(GROUP, "t3_attr_decode", F, N + "_read_attribute_data", [("data", OPT(BYTES))], stmts=(1, 9),
         drop=["self._attribute_error ="], stores=["self._capacity", "self._writeable", "self._readable"],
         result=["ver", "nbr", "nbw", "nmaxb", "writef", "rwflag", "length",
                 "self._capacity", "self._writeable", "self._readable"],
         ret=OPT(TUP(INT, INT, INT, INT, INT, INT, INT, INT, BOOL, BOOL)),
         note="cut: behind the read of block 0 (`data`, None: the block could not be verified), up to the flags; "
              "result: None (unverified block, checksum error) or "
              "(ver, nbr, nbw, nmaxb, writef, rwflag, ln, capacity, writeable, readable)"),
    Spec(GROUP, "t3_attr_encode", F, N + "_write_attribute_data", [], stmts=(1, 10), result=["attribute_data"],
         binds=_A("ver", "nbr", "nbw", "nmaxb", "writef", "rwflag", "ln"),
         note="cut: the 16 octets handed to `write_to_ndef_service`; the attribute dict entries are parameters"),
    Spec(GROUP, "t3_read_plan", F, N + "_read_ndef_data", [], stmts=(3, 9), result=["last_block_number", "nbr"],
         binds=_A("ver", "ln", "nmaxb", "nbr"), ret=OPT(TUP(INT, INT)),
         note="cut: the checks between the attribute read and the block loop; result: None or (last_block_number, nbr)"),
    Spec(GROUP, "t3_read_batch_end", F, N + "_read_ndef_data", [("i", INT), ("nbr", INT), ("last_block_number", INT)],
         expr="min(i + nbr, last_block_number)", whole=True,
         note="cut: the last block (exclusive) of one read command (the whole right-hand side of the assignment)"),
    Spec(GROUP, "t3_write_plan", F, N + "_write_ndef_data", [("data", BYTES)], stmts=[5, 7],
         result=["last_block_number", "data"],
         note="cut: number of the block behind the data and the zero padded data (statements 5 and 7)"),
    Spec(GROUP, "t3_write_batch", F, N + "_write_ndef_data", [("i", INT), ("data", BYTES), ("last_block_number", INT)],
         binds=_A("nbw"), path=[(8, "body")], stmts=(0, 2), result=["last_block", "block_data"],
         note="cut: inside the write loop: last block (exclusive) and the data of one write command"),
    # emulation
    Spec(GROUP, "t3emu_polling", F, "Type3TagEmulation.polling", [("cmd_data", BYTES)],
         binds=[("self.idm", "idm", BYTES), ("self.pmm", "pmm", BYTES), ("self.sys", "sys", BYTES)]),
    Spec(GROUP, "t3emu_request_response", F, "Type3TagEmulation.request_response", [("cmd_data", BYTES)]),
    Spec(GROUP, "t3emu_request_system_code", F, "Type3TagEmulation.request_system_code", [("cmd_data", BYTES)],
         binds=[("self.sys", "sys", BYTES)]),
    Spec(GROUP, "t3emu_process", F, "Type3TagEmulation._process_command", [("cmd", BYTES)], ret=OPT(BYTES),
         binds=[("self.idm", "idm", BYTES), ("self.pmm", "pmm", BYTES), ("self.sys", "sys", BYTES)],
         calls={"self.polling": "t3emu_polling", "self.request_response": "t3emu_request_response",
                "self.request_system_code": "t3emu_request_system_code"},
         opaque={"self.read_without_encryption": ("rd", [BYTES], BYTES, True),
                 "self.write_without_encryption": ("wr", [BYTES], BYTES, True)},
         note="the command dispatch and response framing; `read_without_encryption` / `write_without_encryption` "
              "(service and block list parsing over nested lists and the user callbacks) are function parameters"),
    Spec(GROUP, "t3emu_process_command", F, "Type3TagEmulation.process_command", [("cmd", BYTES)], ret=OPT(BYTES),
         binds=[("self.idm", "idm", BYTES), ("self.pmm", "pmm", BYTES), ("self.sys", "sys", BYTES)],
         calls={"self._process_command": "t3emu_process"},
         opaque={"self.read_without_encryption": ("rd", [BYTES], BYTES, True),
                 "self.write_without_encryption": ("wr", [BYTES], BYTES, True)},
         note="`_process_command` with `IndexError` (truncated command) turned into no response"),
]
BRIDGE = {"module": "NfcVerif.Props.FnBridgeT3",
          "theorems": ["NfcVerif.FnBridge.T3." + t for t in (
              "attr_decode_bridge", "attr_decode_none", "attr_encode_bridge", "read_plan_bridge", "readNdef3_plan", "parseAttr_eq",
              "read_batch_end_bridge", "write_plan_bridge", "write_batch_bridge",
              "process_bridge", "process_command_bridge")],
          "properties": ["C01", "C02", "C03", "C08", "C07"]}


def _attr_block(rng):
    b = [rng.choice([0x10, 0x10, 0x11, 0x20, rng.randrange(256)]), rng.choice([0, 1, 4, 15, 16, rng.randrange(256)]),
         rng.choice([0, 1, 8, rng.randrange(256)]), rng.randrange(2), rng.randrange(256)] + \
        [rng.choice([0, rng.randrange(256)]) for _ in range(4)] + \
        [rng.choice([0, 0, 0x0F, rng.randrange(256)]), rng.choice([0, 1, rng.randrange(256)]),
         rng.choice([0, 0, rng.randrange(256)]), rng.randrange(256), rng.randrange(256)]
    c = sum(b)
    if rng.random() < 0.2:
        c = (c + rng.randrange(1, 65536)) % 65536
    return bytes(b + [c >> 8, c & 255])


def inputs(rng, sp):
    out = []
    rb = lambda n: bytes(rng.randrange(256) for _ in range(n))       # noqa: E731
    if sp.lean == "t3_attr_decode":
        for _ in range(250):
            d = _attr_block(rng)
            out.append(([d if rng.random() < 0.9 else d[:rng.randrange(0, 16)]], []))
        out.append(([None], []))
    if sp.lean == "t3_attr_encode":
        for _ in range(150):
            v = [rng.choice([0, 0x10, 255, rng.randrange(256)]) for _ in range(3)] + \
                [rng.choice([0, 13, 65535, rng.randrange(65536)])] + \
                [rng.choice([0, 0x0F, 255, rng.randrange(256)]) for _ in range(2)] + \
                [rng.choice([0, 5, 0xFFFFFF, 0x1000000, 0xFFFFFFFF, rng.randrange(1 << 24)])]
            if rng.random() < 0.4:
                k = rng.randrange(7)
                v[k] = rng.choice([-1, 256 if k not in (3, 6) else (65536 if k == 3 else 0x100000000)])
            out.append(([], v))
    if sp.lean == "t3_read_plan":
        for _ in range(250):
            nmaxb = rng.choice([0, 1, 13, 4095, rng.randrange(65536)])
            ln = rng.choice([0, 1, 15, 16, 17, nmaxb * 16 - 1, nmaxb * 16, nmaxb * 16 + 1, rng.randrange(1 << 24)])
            out.append(([], [rng.choice([0x10, 0x11, 0x1F, 0x0F, 0x20, rng.randrange(256)]), max(ln, 0), nmaxb,
                             rng.choice([0, 1, 4, 14, 15, 16, 255])]))
    if sp.lean == "t3_read_batch_end":
        for _ in range(100):
            out.append(([rng.randrange(1, 300), rng.randrange(1, 16), rng.randrange(1, 300)], []))
    if sp.lean == "t3_write_plan":
        for n in list(range(0, 50)) + [255, 256, 257]:
            out.append(([rb(n)], []))
    if sp.lean == "t3_write_batch":
        for _ in range(200):
            n = rng.randrange(0, 6) * 16
            last = 1 + n // 16
            out.append(([rng.randrange(1, last + 2), rb(n), last], [rng.randrange(1, 14)]))
    if sp.lean == "t3emu_polling":
        for _ in range(60):
            out.append(([bytes([rng.randrange(256), rng.randrange(256), rng.choice([0, 1, 1, 2])][:rng.randrange(0, 4)]) + rb(rng.randrange(0, 2))],
                        [rb(8), rb(8), rb(2)]))
    if sp.lean in ("t3emu_process", "t3emu_process_command"):
        for _ in range(400):
            idm, pmm, sys = rb(rng.choice([8, 8, 8, 0, 3])), rb(8), rng.choice([b"\x12\xfc", b"\x12\xfc", rb(2), b"", rb(3)])
            kind = rng.randrange(8)
            if kind == 0:
                body = bytes([0]) + rng.choice([b"\xff\xff", sys, rb(2)]) + bytes([rng.choice([0, 1, 2]), rng.randrange(16)])
                body = body[:rng.choice([len(body), len(body), rng.randrange(0, len(body) + 1)])]
            elif kind == 1:
                body = bytes([rng.randrange(256)]) + rb(rng.randrange(0, 12))
            else:
                code = rng.choice([4, 6, 8, 12, 12, 4, 10, rng.randrange(256)])
                body = bytes([code]) + (idm if rng.random() < 0.85 else rb(8)) + rb(rng.randrange(0, 20))
                if rng.random() < 0.15:
                    body = body[:rng.randrange(0, len(body) + 1)]
            n = len(body) + 1
            if rng.random() < 0.12:
                n = rng.choice([0, n - 1, n + 1, 255])
            cmd = bytes([n % 256]) + body
            if rng.random() < 0.02:
                cmd = b""
            out.append(([cmd], [idm, pmm, sys]))
    return out


MUTATIONS = [
    ("t3_attr_decode", "unverified block not rejected", "if data is None:", "if data is None and len(self._tag.idm) == 0:"),
    ("t3_attr_decode", "checksum range", "sum(data[0:14])", "sum(data[0:13])"),
    ("t3_attr_decode", "checksum position", 'unpack(">H", data[14:16])', 'unpack(">H", data[13:15])'),
    ("t3_attr_decode", "checksum byte order", 'unpack(">H", data[14:16])', 'unpack("<H", data[14:16])'),
    ("t3_attr_decode", "nmaxb byte order", 'unpack(">BBBH", data[0:5])', 'unpack("<BBBH", data[0:5])'),
    ("t3_attr_decode", "writef position", 'unpack(">BB", data[9:11])', 'unpack(">BB", data[8:10])'),
    ("t3_attr_decode", "length is 24 bit", 'b"\\x00" + data[11:14]', 'data[10:14]'),
    ("t3_attr_decode", "capacity unit", "self._capacity = nmaxb * 16", "self._capacity = nmaxb * 8"),
    ("t3_attr_decode", "writeable needs both", "rwflag != 0 and nbw > 0", "rwflag != 0 or nbw > 0"),
    ("t3_attr_decode", "readable when no write in progress", "writef == 0 and nbr > 0", "writef != 0 and nbr > 0"),
    ("t3_attr_encode", "writef position", "attribute_data[9] = attributes['writef']", "attribute_data[8] = attributes['writef']"),
    ("t3_attr_encode", "length octets", "pack('>I', attributes['ln'])[1:4]", "pack('>I', attributes['ln'])[0:3]"),
    ("t3_attr_encode", "checksum range", "sum(attribute_data[0:14])", "sum(attribute_data[0:13])"),
    ("t3_attr_encode", "nmaxb byte order", "pack('>H', attributes['nmaxb'])", "pack('<H', attributes['nmaxb'])"),
    ("t3_read_plan", "major version", "attributes['ver'] >> 4 != 1", "attributes['ver'] >> 4 != 2"),
    ("t3_read_plan", "length check against capacity", "attributes['ln'] > attributes['nmaxb'] * 16", "attributes['ln'] >= attributes['nmaxb'] * 16"),
    ("t3_read_plan", "block count rounding", "1 + (attributes['ln'] + 15) // 16", "1 + (attributes['ln'] + 16) // 16"),
    ("t3_read_plan", "15 blocks per read", "min(attributes['nbr'], 15)", "min(attributes['nbr'], 16)"),
    ("t3_read_plan", "nbr = 0 check dropped", "if nbr == 0:", "if nbr < 0:"),
    ("t3_read_batch_end", "last batch not clipped", "min(i + nbr, last_block_number)", "i + nbr"),
    ("t3_write_plan", "padding", "bytearray(-len(data) % 16)", "bytearray(len(data) % 16)"),
    ("t3_write_plan", "block count", "last_block_number = 1 + (len(data) + 15) // 16", "last_block_number = (len(data) + 15) // 16"),
    ("t3_write_batch", "data offset", "data[(i-1)*16:(last_block-1)*16]", "data[i*16:(last_block-1)*16]"),
    ("t3_write_batch", "last batch not clipped", "min(i + attributes['nbw'], last_block_number)", "i + attributes['nbw']"),
    ("t3emu_polling", "request code position", "if cmd_data[2] == 1:", "if cmd_data[1] == 1:"),
    ("t3emu_polling", "system code always sent", "rsp = self.idm + self.pmm\n", "rsp = self.idm + self.pmm + self.sys\n"),
    ("t3emu_request_response", "mode octet", "return bytearray([0])", "return bytearray([1])"),
    ("t3emu_request_system_code", "count octet", "return b'\\x01' + self.sys", "return b'\\x02' + self.sys"),
    ("t3emu_process", "length octet check weakened", "len(cmd) != cmd[0]", "len(cmd) < cmd[0]"),
    ("t3emu_process", "wildcard system code", "(6, 0, 255, 255)", "(6, 0, 255, 254)"),
    ("t3emu_process", "idm comparison", "if cmd[2:10] == self.idm:", "if cmd[2:9] == self.idm[:7]:"),
    ("t3emu_process", "polling response length", "bytearray([2 + len(rsp), 0x01])", "bytearray([1 + len(rsp), 0x01])"),
    ("t3emu_process", "request response code", "bytearray([10 + len(rsp), 0x05])", "bytearray([10 + len(rsp), 0x06])"),
    ("t3emu_process", "request system code command", "if cmd[1] == 0x0C:", "if cmd[1] == 0x0D:"),
    ("t3emu_process", "idm missing in the read response", "bytearray([10 + len(rsp), 0x07]) + self.idm + rsp", "bytearray([10 + len(rsp), 0x07]) + rsp"),
    ("t3emu_process_command", "IndexError no longer caught", "except IndexError:", "except KeyError:"),
]

