"""VARIANT of harness/fnspecs/isosm.py for a source tree with fixes/C08/0010-0012 applied (bounded S(WTX) handling,
retransmissions after R(ACK) counted, response chaining checked).  See README in this directory.

group IsoSm: the protocol decisions of the ISO-DEP initiator and of the Type 4 Tag NDEF procedures in nfc/tag/tt4.py
-> Model/IsoDep.lean (C12), Model/T4.lean (C01/C02/C03 part t34), Model/AdvT34.lean (C08), Model/FnIsoSmRef.lean.

The byte level of `tt4.py` (APDU build / status, FSCI / FWI, capability container, READ / UPDATE BINARY arguments) is the
group T4.  This group cuts what is interleaved with I/O in `IsoDepInitiator` and in the NDEF read / write loops:

* `_exchange`: the S(WTX) test and the granted waiting time (`self.fwt`, a float in the source, is an integer here);
* `exchange`: the error latch `self.errno` (test and store);
* `_exchange_command`: the presence check block, the offsets of the command chain, the I-block of one offset (`more`,
  PCB, block), inside the two `for i in itertools.count(start=1)` retry loops the empty-answer test, the
  retransmit-after-ACK test and block, EVERY `except` handler (retry budget `i <= self.n_retry_nak|ack`, the R(NAK) /
  R(ACK) block, the `Type4TagCommandError` reason), behind them the block number check, the R(ACK) / I-block decision
  with the block number toggle, the chaining test, the accumulation of the response;
* `Type4Tag.NDEF`: application selection table and stop rule, P2 of SELECT FILE, the surplus check of `_read_binary`,
  the chunk of `_update_binary`, the remaining checks of `_discover_ndef` (in front of the capability container), the
  NLEN checks and the loop arithmetic of `_read_ndef_data`, the layout decision and the loop arithmetic of
  `_write_ndef_data` (`self._read_binary` / `self._update_binary` are function parameters of the call-site cuts).

`Lemmas/FnBridgeIsoSm.lean` rebuilds `xchgW`, `blockLoop` (both copies), `sendChunks`, `recvChain`, `exchangeCmd`,
`exchange`, `presence`, `sendApdu` of `Model/IsoDep.lean`, `readBin`, `selectApp`, `selectFid`, `discover4`, `readLoop4`,
`readFile4`, `readNdef4` of `Model/AdvT34.lean` and
`chunkCmds` / `planWrite` of `Model/T4.lean` from regenerated pieces; `Props/FnBridgeIsoSm.lean` proves them equal.
Hand-written remain: which exception class enters which handler (`Rx.timeout` -> `except TimeoutError`, ..), `clf.exchange`
(`World.xchg`), the order of the pieces.

Not translated: `timeout = self.fwt + self.delta_fwt`, `n_retry_ack = min(int(1/self.fwt), 5)` (floats; the model value
`IsoDep.deriveRetry` is tied by the differential run of C12), `_wipe_ndef_data`, `_dump_ndef_data`, `_is_present`,
`_select_ndef_application` / `_select_fid` control flow (try / except around `send_apdu`).
"""
from translate_fn import Spec, INT, BOOL, BYTES, OPT, TUP

GROUP = "IsoSm"
ORDER = 52
F = "tag/tt4.py"
D = "IsoDepInitiator."
N = "Type4Tag.NDEF."
_PNI = [("self.pni", "pni", INT)]
_MIU = [("self.miu", "miu", INT)]
_NAK = [("self.n_retry_nak", "n_retry_nak", INT)]
_ACK = [("self.n_retry_ack", "n_retry_ack", INT)]
_NLS = [("self._nlen_size", "nlen_size", INT)]
_CMD_TRY = [(2, "body"), (3, "body"), (0, "body")]
_RSP_TRY = [(3, "body"), (2, "body"), (0, "body")]
XC = D + "_exchange_command"
_C = "command phase (loop over the command blocks), "
_R = "response phase (`while data[0] & 0x10`), "


def _cmd_h(i):
    return [(2, "body"), (3, "body"), (0, ("handlers", i))]


def _rsp_h(i):
    return [(3, "body"), (2, "body"), (0, ("handlers", i))]


SPECS = [
    # ---- IsoDepInitiator._exchange, exchange
    Spec(GROUP, "iso_wtx_test", F, D + "_exchange", [("data", BYTES)], stmts=[2],
         expr="len(data) > 1 and data[0] & 0b11111110 == 0b11110010", note="cut: the loop condition of `_exchange` (answer is an S(WTX) request)"),
    Spec(GROUP, "iso_wtx_sum0", F, D + "_exchange", [], stmts=[1], result=["wtxm_sum"], note="cut: `wtxm_sum = 0`"),
    Spec(GROUP, "iso_wtx_step", F, D + "_exchange", [("data", BYTES), ("wtxm_sum", INT)],
         binds=[("self.max_wtxm_sum", "max_wtxm_sum", INT)], path=[(2, "body")], stmts=(0, 4), result=["wtxm", "wtxm_sum"],
         note="cut: body of the S(WTX) loop up to the answer: WTXM must be 1..59 (ProtocolError), the multipliers granted "
              "for one block are summed up, TIMEOUT_ERROR when the sum exceeds `self.max_wtxm_sum`"),
    Spec(GROUP, "iso_wtx_time", F, D + "_exchange", [("wtxm", INT)], binds=[("self.fwt", "fwt", INT)], path=[(2, "body")], stmts=[5],
         expr="wtxm * self.fwt", note="cut: the waiting time granted with the S(WTX) response; `self.fwt` (a float) is an integer here"),
    Spec(GROUP, "iso_latch_chk", F, D + "exchange", [("command", OPT(BYTES))],
         binds=[("self.errno is not None", "latched", BOOL), ("self.errno", "errno", INT)], stmts=[0],
         note="cut: `if command is not None and self.errno is not None: raise Type4TagCommandError(self.errno)`; the test "
              "`self.errno is not None` is the Bool parameter `latched`, `self.errno` then the integer `errno`"),
    Spec(GROUP, "iso_latch_set", F, D + "exchange", [], binds=[("error.errno", "err", INT)], path=[(1, ("handlers", 0))], stmts=[0],
         stores=["self.errno"], result=["self.errno"], note="cut: `self.errno = error.errno` in the handler of Type4TagCommandError"),
    Spec(GROUP, "iso_init", F, D + "__init__", [("fsc", INT)], stmts=[1, 2, 8], stores=["self.pni", "self.miu", "self.errno"],
         result=["self.pni", "self.miu", "self.errno"],
         note="cut: `self.pni = 0`, `self.miu = fsc - 3`, `self.errno = None` (the float statements are not translated)"),
    # ---- _exchange_command
    Spec(GROUP, "iso_presence_blk", F, XC, [], binds=_PNI, path=[(1, "body")], stmts=[0], result=["data"],
         note="cut: presence check (`command is None`), the R(NAK) block"),
    Spec(GROUP, "iso_offsets", F, XC, [("command", BYTES)], binds=_MIU, stmts=[2], expr="range(0, len(command), self.miu)",
         note="cut: the offsets of the command blocks"),
    Spec(GROUP, "iso_iblock", F, XC, [("command", BYTES), ("offset", INT)], binds=_MIU + _PNI, path=[(2, "body")], stmts=(0, 3),
         result=["more", "pfb", "data"], note="cut: " + _C + "the first three statements: chaining flag, PCB, I-block"),
    Spec(GROUP, "iso_empty_chk", F, XC, [("data", BYTES)], path=_CMD_TRY, stmts=[1],
         note="cut: " + _C + "inside `try`: an empty answer is a TransmissionError"),
    Spec(GROUP, "iso_resend_test", F, XC, [("data", BYTES)], binds=_PNI, path=_CMD_TRY, stmts=[2],
         expr="data[0] == 0xA2 | (~self.pni & 1)", note="cut: " + _C + "inside `try`: R(ACK) with the other block number -> retransmit"),
    Spec(GROUP, "iso_resend_budget", F, XC, [("i", INT)], binds=_NAK, path=_CMD_TRY + [(2, "body")], stmts=[0],
         note="cut: " + _C + "a retransmission after R(ACK) counts against the retry limit: PROTOCOL_ERROR beyond `n_retry_nak + 1`"),
    Spec(GROUP, "iso_resend_blk", F, XC, [("pfb", BYTES), ("command", BYTES), ("offset", INT)], binds=_MIU,
         path=_CMD_TRY + [(2, "body")], stmts=[2], result=["data"], note="cut: " + _C + "the retransmitted I-block"),
    Spec(GROUP, "iso_nak_on_transmission", F, XC, [("i", INT)], binds=_NAK + _PNI, path=_cmd_h(0), stmts=[0], result=["data"],
         note="cut: " + _C + "`except TransmissionError`: R(NAK) while `i <= self.n_retry_nak`, else RECEIVE_ERROR"),
    Spec(GROUP, "iso_nak_on_timeout", F, XC, [("i", INT)], binds=_NAK + _PNI, path=_cmd_h(1), stmts=[0], result=["data"],
         note="cut: " + _C + "`except TimeoutError`: R(NAK) while `i <= self.n_retry_nak`, else TIMEOUT_ERROR"),
    Spec(GROUP, "iso_cmd_on_protocol", F, XC, [], path=_cmd_h(2), stmts=[0, 1], note="cut: " + _C + "`except ProtocolError`"),
    Spec(GROUP, "iso_cmd_on_other", F, XC, [], path=_cmd_h(3), stmts=[1],
         note="cut: " + _C + "`except CommunicationError` (any other class): the `raise` (the `log.error` with `%r` of the "
                             "exception object in front of it is left out)"),
    Spec(GROUP, "iso_bn_chk_cmd", F, XC, [("data", BYTES)], binds=_PNI, path=[(2, "body")], stmts=[4],
         note="cut: " + _C + "the block number check behind the retry loop"),
    Spec(GROUP, "iso_ack_step", F, XC, [("data", BYTES)], binds=_PNI, path=[(2, "body"), (5, "body")], stmts=[0],
         stores=["self.pni"], result=["self.pni"], note="cut: " + _C + "`if more:` branch: R(ACK) expected, block number toggled"),
    Spec(GROUP, "iso_inf_step", F, XC, [("data", BYTES)], binds=_PNI, path=[(2, "body"), (5, "orelse")], stmts=[0],
         stores=["self.pni"], result=["self.pni", "response"],
         note="cut: " + _C + "`else` branch (last block): I-block expected, block number toggled, `response = data[1:]`"),
    Spec(GROUP, "iso_chain_test", F, XC, [("data", BYTES)], stmts=[3], expr="bool(data[0] & 0b00010000)",
         note="cut: the condition of the response chaining loop"),
    Spec(GROUP, "iso_chain_chk", F, XC, [("data", BYTES), ("response", BYTES)], path=[(3, "body")], stmts=[0],
         note="cut: " + _R + "a chained block without INF octets or a response beyond 65538 octets is a PROTOCOL_ERROR"),
    Spec(GROUP, "iso_ack_blk", F, XC, [], binds=_PNI, path=[(3, "body")], stmts=[1], result=["data"], note="cut: " + _R + "the R(ACK) block"),
    Spec(GROUP, "iso_empty_chk_r", F, XC, [("data", BYTES)], path=_RSP_TRY, stmts=[1],
         note="cut: " + _R + "inside `try`: an empty answer is a TransmissionError"),
    Spec(GROUP, "iso_ack_on_transmission", F, XC, [("i", INT)], binds=_ACK + _PNI, path=_rsp_h(0), stmts=[0], result=["data"],
         note="cut: " + _R + "`except TransmissionError`: R(ACK) again while `i <= self.n_retry_ack`, else RECEIVE_ERROR"),
    Spec(GROUP, "iso_ack_on_timeout", F, XC, [("i", INT)], binds=_ACK + _PNI, path=_rsp_h(1), stmts=[0], result=["data"],
         note="cut: " + _R + "`except TimeoutError`: R(ACK) again while `i <= self.n_retry_ack`, else TIMEOUT_ERROR"),
    Spec(GROUP, "iso_rsp_on_protocol", F, XC, [], path=_rsp_h(2), stmts=[0, 1], note="cut: " + _R + "`except ProtocolError`"),
    Spec(GROUP, "iso_rsp_on_other", F, XC, [], path=_rsp_h(3), stmts=[1],
         note="cut: " + _R + "`except CommunicationError` (any other class): the `raise`"),
    Spec(GROUP, "iso_bn_chk_rsp", F, XC, [("data", BYTES)], binds=_PNI, path=[(3, "body")], stmts=[3],
         note="cut: " + _R + "the block number check behind the retry loop"),
    Spec(GROUP, "iso_chain_acc", F, XC, [("response", BYTES), ("data", BYTES)], binds=_PNI, path=[(3, "body")], stmts=[4, 5],
         stores=["self.pni"], result=["response", "self.pni"], note="cut: " + _R + "`response = response + data[1:]`, block number toggled"),
    # ---- Type4Tag.NDEF
    Spec(GROUP, "iso_sel_app_table", F, N + "_select_ndef_application", [], expr="((ndef_aid_v2, 256), (ndef_aid_v1, 0))",
         note="cut: the (AID, Le) pairs tried in order"),
    Spec(GROUP, "iso_sel_app_stop", F, N + "_select_ndef_application", [], binds=[("error.errno", "err", INT)], expr="error.errno <= 0",
         note="cut: a transport error (errno <= 0) ends the search, a status word lets it go on"),
    Spec(GROUP, "iso_sel_fid_p2", F, N + "_select_fid", [], binds=[("self._aid", "aid", BYTES)], stmts=[0], result=["p2"],
         note="cut: P2 of SELECT FILE (mapping version 1.0: 00h, else 0Ch)"),
    Spec(GROUP, "iso_read_surplus", F, N + "_read_binary", [("data", BYTES), ("max_data", INT)], stmts=[4],
         note="cut: more data than requested is a PROTOCOL_ERROR"),
    Spec(GROUP, "iso_update_chunk", F, N + "_update_binary", [("data", BYTES), ("max_data", INT)], expr="data[:max_data]",
         note="cut: the data field of UPDATE BINARY"),
    Spec(GROUP, "iso_disc_init", F, N + "_discover_ndef", [], stmts=[0, 1], stores=["self._max_lc", "self._max_le"],
         result=["self._max_lc", "self._max_le"], note="cut: the limits used until the capability container is read"),
    Spec(GROUP, "iso_disc_cclen_bad", F, N + "_discover_ndef", [("cclen", BYTES)], stmts=[8],
         expr="not (cclen and len(cclen) == 2)", ret=BOOL, note="cut: the CCLEN field must be two octets"),
    Spec(GROUP, "iso_disc_cclen", F, N + "_discover_ndef", [("cclen", BYTES)], stmts=[9], result=["cclen"],
         note="cut: `cclen = unpack('>H', cclen)[0]`"),
    Spec(GROUP, "iso_disc_cc_size", F, N + "_discover_ndef", [("cclen", INT)], stmts=[10], expr="min(cclen-2, 15)",
         note="cut: the number of capability octets requested"),
    Spec(GROUP, "iso_nlen_len_bad", F, N + "_read_ndef_data", [("nlen", BYTES)], binds=_NLS, path=[(1, "body")], stmts=[6],
         expr="len(nlen) != self._nlen_size", note="cut: the NLEN field must be complete"),
    Spec(GROUP, "iso_nlen_parse", F, N + "_read_ndef_data", [("nlen", BYTES)], binds=_NLS, path=[(1, "body")], stmts=[4, 7],
         result=["nlen"], note="cut: `lfmt = ..` and `nlen = unpack(lfmt, nlen)[0]`"),
    Spec(GROUP, "iso_nlen_limit", F, N + "_read_ndef_data", [("nlen", INT)], binds=[("self._capacity", "capacity", INT)] + _NLS,
         path=[(1, "body")], stmts=[9], expr="nlen > self._capacity or self._nlen_size + nlen > 0x10000",
         note="cut: NLEN beyond the file or beyond the 16 bit file offset"),
    Spec(GROUP, "iso_read_init", F, N + "_read_ndef_data", [], path=[(1, "body")], stmts=[10], result=["data"], note="cut: `data = bytearray()`"),
    Spec(GROUP, "iso_read_more", F, N + "_read_ndef_data", [("data", BYTES), ("nlen", INT)], path=[(1, "body")], stmts=[11],
         expr="len(data) < nlen", note="cut: the condition of the read loop"),
    Spec(GROUP, "iso_read_args", F, N + "_read_ndef_data", [("data", BYTES), ("nlen", INT)], binds=_NLS,
         path=[(1, "body"), (11, "body")], stmts=[0, 1], opaque={"self._read_binary": ("rb", [INT, INT], TUP(INT, INT), False)},
         result=["more"], note="cut: read loop, `offset = ..; more = self._read_binary(offset, nlen - len(data))`; "
                               "`self._read_binary` is the function parameter `rb`"),
    Spec(GROUP, "iso_read_stuck", F, N + "_read_ndef_data", [("more", BYTES)], path=[(1, "body"), (11, "body")], stmts=[2],
         expr="len(more) == 0", note="cut: read loop, an answer without data ends the read with None"),
    Spec(GROUP, "iso_read_acc", F, N + "_read_ndef_data", [("data", BYTES), ("more", BYTES)], path=[(1, "body"), (11, "body")],
         stmts=[3], result=["data"], note="cut: read loop, `data += more`"),
    Spec(GROUP, "iso_write_plan", F, N + "_write_ndef_data", [("data", BYTES)], binds=_NLS + [("self._max_lc", "max_lc", INT)],
         stmts=(1, 5), result=["data", "nlen", "offset"],
         note="cut: the statements in front of the update loops: the NLEN field `pack(lfmt, len(data))`, the layout decision "
              "(NLEN and message in one pass, `nlen = None`, or zeros first and NLEN last), `offset = 0`"),
    Spec(GROUP, "iso_write_more", F, N + "_write_ndef_data", [("offset", INT), ("data", BYTES)], stmts=[5], expr="offset < len(data)",
         note="cut: the condition of the first update loop"),
    Spec(GROUP, "iso_write_step", F, N + "_write_ndef_data", [("offset", INT), ("data", BYTES)], path=[(5, "body")], stmts=[0],
         opaque={"self._update_binary": ("ub", [INT, BYTES], INT, False)}, result=["offset"],
         note="cut: first update loop, `offset += self._update_binary(offset, data[offset:])`; `self._update_binary` is `ub`"),
    Spec(GROUP, "iso_write_nlen_test", F, N + "_write_ndef_data", [("nlen", OPT(BYTES))], stmts=[6], expr="nlen", nth=0, ret=BOOL,
         note="cut: the condition of `if nlen:` (NLEN still to be written)"),
    Spec(GROUP, "iso_write_nlen_more", F, N + "_write_ndef_data", [("offset", INT), ("nlen", BYTES)], path=[(6, "body")], stmts=[1],
         expr="offset < len(nlen)", note="cut: the condition of the NLEN update loop"),
    Spec(GROUP, "iso_write_nlen_step", F, N + "_write_ndef_data", [("offset", INT), ("nlen", BYTES)],
         path=[(6, "body"), (1, "body")], stmts=[0], opaque={"self._update_binary": ("ub", [INT, BYTES], INT, False)},
         result=["offset"], note="cut: NLEN update loop, `offset += self._update_binary(offset, nlen[offset:])`"),
]
P = "NfcVerif.FnBridge.IsoSm."
BRIDGE = {
    "module": "NfcVerif.Props.FnBridgeIsoSm",
    "theorems": [P + t for t in (
        "wtx_test_bridge", "wtx_step_bridge", "wtxmOf_eq", "resend_budget_bridge", "chain_chk_bridge", "gen_exchange_safe", "empty_chk_bridge", "resend_test_bridge", "nak_handlers_bridge", "ack_handlers_bridge",
        "protocol_handlers_bridge", "xchgW_bridge", "cmd_loop_bridge", "rsp_loop_bridge", "iblock_bridge", "bn_chk_bridge",
        "ack_step_bridge", "inf_step_bridge", "chain_test_bridge", "ack_blk_bridge", "chain_acc_bridge", "offsets_bridge",
        "resend_blk_bridge", "send_offsets_aux", "recv_chain_bridge", "exchange_cmd_bridge", "exchange_bridge", "presence_bridge",
        "dep_fail_bridge", "latch_bridge", "wtx_time_bridge", "init_bridge", "binary_args", "read_bin_bridge",
        "select_fid_bridge", "select_app_bridge", "cclen_bridge", "discover4_bridge", "read_loop4_bridge", "nlen_bridge",
        "read_file4_bridge", "discover4_nlen", "read_ndef4_bridge", "cutData_sound", "cutNlen_sound", "chunk_cmds_bridge", "pack_nlen", "plan_write_bridge",
        "gen_t4_read_safe",
        "gen_more_false_last", "gen_exchange_is_c12", "gen_terminates", "gen_at_most_once_exact")],
    "properties": ["C12", "C16", "C08", "C01"],
}


def accept(sp, pv, bv):
    """preconditions of the cuts: a block number is 0 or 1 is NOT assumed (the functions are total on ints), but the
    offset list must fit into memory: `range(0, len(command), miu)` with |miu| >= 1 is at most len(command) long"""
    return True


def _b(rng, n):
    return bytes(rng.randrange(256) for _ in range(n))


def inputs(rng, sp):
    out = []
    pcbs = [0x02, 0x03, 0x12, 0x13, 0xA2, 0xA3, 0xB2, 0xB3, 0xF2, 0xF3, 0xC2, 0x0A, 0x00, 0xFF]
    if sp.lean in ("iso_wtx_test", "iso_chain_test", "iso_empty_chk", "iso_empty_chk_r"):
        for p in pcbs:
            for n in (0, 1, 2):
                out.append(([bytes([p]) + _b(rng, n)], []))
        out.append(([b""], []))
    if sp.lean == "iso_wtx_time":
        for v in (0, 1, 59, 63):
            for fwt in (0, 1, 302, 4949):
                out.append(([v], [fwt]))
    if sp.lean == "iso_wtx_step":
        for v in (0, 1, 58, 59, 60, 63, 64, 0xFF):
            for sm in (0, 100, 941, 942, 1000):
                out.append(([bytes([0xF2, v]), sm], [1000]))
        out.append(([b"\xf2", 0], [1000]))
    if sp.lean == "iso_resend_budget":
        for i in range(0, 8):
            for n in (0, 1, 5):
                out.append(([i], [n]))
    if sp.lean == "iso_chain_chk":
        for n in (0, 1, 2, 5):
            for m in (0, 10):
                out.append(([_b(rng, n), _b(rng, m)], []))
    if sp.lean in ("iso_resend_test", "iso_bn_chk_cmd", "iso_bn_chk_rsp", "iso_ack_step", "iso_inf_step"):
        for p in pcbs:
            for pni in (0, 1, 2, -1):
                out.append(([bytes([p]) + _b(rng, rng.randrange(3))], [pni]))
        out.append(([b""], [0]))
    if sp.lean == "iso_chain_acc":
        for p in pcbs[:6]:
            for pni in (0, 1):
                out.append(([_b(rng, rng.randrange(4)), bytes([p]) + _b(rng, rng.randrange(4))], [pni]))
        out.append(([b"ab", b""], [1]))
    if sp.lean == "iso_latch_chk":
        for cmd in (None, b"", b"\x00\xa4"):
            for latched in (False, True):
                for errno in (0, -1, -2, 0x6A82):
                    out.append(([cmd], [latched, errno]))
    if sp.lean == "iso_latch_set":
        for e in (0, -1, -2, 0x6A82):
            out.append(([], [e]))
    if sp.lean == "iso_init":
        for fsc in (16, 24, 32, 40, 48, 64, 96, 128, 256, 3, 0):
            out.append(([fsc], []))
    if sp.lean in ("iso_presence_blk", "iso_ack_blk"):
        for pni in (0, 1, 2, 77, 256, -1):
            out.append(([], [pni]))
    if sp.lean == "iso_offsets":
        for n in (0, 1, 5, 13, 14, 27, 300):
            for miu in (-3, -1, 0, 1, 2, 13, 253):
                out.append(([_b(rng, n)], [miu]))
    if sp.lean in ("iso_iblock", "iso_resend_blk"):
        for n in (0, 1, 5, 13, 14, 27):
            for miu in (1, 2, 13):
                for off in (0, miu, 2 * miu, n - 1, n, n + 2):
                    if sp.lean == "iso_iblock":
                        for pni in (0, 1):
                            out.append(([_b(rng, n), off], [miu, pni]))
                    else:
                        out.append(([bytes([rng.choice([2, 3, 0x12, 0x13])]), _b(rng, n), off], [miu]))
        if sp.lean == "iso_iblock":
            out.append(([b"abc", 0], [2, 256]))
    if sp.lean in ("iso_nak_on_transmission", "iso_nak_on_timeout", "iso_ack_on_transmission", "iso_ack_on_timeout"):
        for i in range(0, 8):
            for n in (0, 1, 3, 5):
                for pni in (0, 1, 300):
                    out.append(([i], [n, pni]))
    if sp.lean == "iso_sel_app_stop":
        for e in (-2, -1, 0, 1, 0x6A82):
            out.append(([], [e]))
    if sp.lean == "iso_sel_fid_p2":
        for aid in ("D2760000850100", "D2760000850101", "D27600008501", ""):
            out.append(([], [bytes.fromhex(aid)]))
    if sp.lean == "iso_read_surplus":
        for n in (0, 1, 2, 15, 16):
            for m in (-1, 0, 1, 2, 15):
                out.append(([_b(rng, n), m], []))
    if sp.lean == "iso_update_chunk":
        for n in (0, 1, 5, 20):
            for m in (0, 1, 5, 19, 20, 21):
                out.append(([_b(rng, n), m], []))
    if sp.lean in ("iso_disc_cclen_bad", "iso_disc_cclen"):
        for n in (0, 1, 2, 3):
            out.append(([_b(rng, n)], []))
        out.append(([b"\x00\x0f"], []))
    if sp.lean == "iso_disc_cc_size":
        for c in (0, 1, 2, 3, 15, 16, 17, 18, 255, 65535):
            out.append(([c], []))
    if sp.lean in ("iso_nlen_len_bad", "iso_nlen_parse"):
        for n in (0, 1, 2, 3, 4, 5):
            for k in (2, 4, 3):
                out.append(([_b(rng, n)], [k]))
    if sp.lean == "iso_nlen_limit":
        for nlen in (0, 1, 100, 65533, 65534, 65535, 65536, 2 ** 32 - 1):
            for cap in (0, 100, 65534, 65532, 2 ** 32):
                for k in (2, 4):
                    out.append(([nlen], [cap, k]))
    if sp.lean == "iso_read_more":
        for n in (0, 1, 5):
            for nlen in (0, 1, 5, 6, 100):
                out.append(([_b(rng, n), nlen], []))
    if sp.lean == "iso_read_stuck":
        for n in (0, 1, 5):
            out.append(([_b(rng, n)], []))
    if sp.lean == "iso_read_acc":
        for n in (0, 3):
            for m in (0, 1, 4):
                out.append(([_b(rng, n), _b(rng, m)], []))
    if sp.lean == "iso_write_plan":
        for n in (0, 1, 2, 3, 50, 253, 254, 255, 300):
            for k in (2, 4):
                for lc in (1, 2, 5, 52, 54, 255):
                    out.append(([_b(rng, n)], [k, lc]))
    if sp.lean in ("iso_write_more", "iso_write_nlen_more"):
        for n in (0, 1, 5):
            for off in (-1, 0, 1, 4, 5, 6):
                out.append(([off, _b(rng, n)], []))
    if sp.lean == "iso_write_nlen_test":
        for v in (None, b"", b"\x00\x00", b"\x00\x00\x01\x00"):
            out.append(([v], []))
    return out


def _second(old, new):
    """replace the second occurrence of `old` in the function segment"""
    def f(seg):
        i = seg.index(old)
        j = seg.index(old, i + len(old))
        return seg[:j] + new + seg[j + len(old):]
    return f


MUTATIONS = [
    ("iso_wtx_test", "S(WTX) recognised without the INF octet", "while len(data) > 1 and data[0] & 0b11111110 == 0b11110010:",
     "while len(data) > 0 and data[0] & 0b11111110 == 0b11110010:"),
    ("iso_wtx_test", "S(DESELECT) taken for S(WTX)", "data[0] & 0b11111110 == 0b11110010:", "data[0] & 0b11001110 == 0b11000010:"),
    ("iso_wtx_step", "WTXM mask", "wtxm = data[1] & 0x3F", "wtxm = data[1] & 0x7F"),
    ("iso_wtx_step", "WTXM 60 accepted", "if wtxm == 0 or wtxm > 59:", "if wtxm == 0 or wtxm > 60:"),
    ("iso_wtx_step", "limit compared before the sum is updated", "            wtxm_sum += wtxm\n            if wtxm_sum > self.max_wtxm_sum:",
     "            if wtxm_sum > self.max_wtxm_sum:"),
    ("iso_resend_budget", "retransmission budget off by one", "if i > self.n_retry_nak + 1:\n                            log.error(\"ISO-DEP too many retransmit requests\")",
     "if i > self.n_retry_nak:\n                            log.error(\"ISO-DEP too many retransmit requests\")"),
    ("iso_chain_chk", "response size limit", "len(response) > 65538", "len(response) > 65539"),
    ("iso_latch_chk", "latched error also blocks the presence check", "if command is not None and self.errno is not None:",
     "if self.errno is not None:"),
    ("iso_presence_blk", "presence check with R(ACK)", "data = bytearray([0xB2 | self.pni])\n            self.clf.exchange",
     "data = bytearray([0xA2 | self.pni])\n            self.clf.exchange"),
    ("iso_offsets", "first block skipped", "range(0, len(command), self.miu)", "range(self.miu, len(command), self.miu)"),
    ("iso_iblock", "chaining flag off by one", "more = len(command) - offset > self.miu", "more = len(command) - offset >= self.miu"),
    ("iso_iblock", "block number not in the PCB", "pack('B', (0x02, 0x12)[more] | self.pni)", "pack('B', (0x02, 0x12)[more])"),
    ("iso_iblock", "block one octet longer than the MIU", "data = pfb + command[offset:offset+self.miu]\n\n",
     "data = pfb + command[offset:offset+self.miu+1]\n\n"),
    ("iso_empty_chk", "empty answer accepted", "if len(data) == 0:\n                        raise nfc.clf.TransmissionError\n                    if data[0] == 0xA2",
     "if len(data) == 1:\n                        raise nfc.clf.TransmissionError\n                    if data[0] == 0xA2"),
    ("iso_resend_test", "retransmit on R(ACK) with the OWN block number", "data[0] == 0xA2 | (~self.pni & 1)", "data[0] == 0xA2 | (self.pni & 1)"),
    ("iso_resend_blk", "retransmission of the following block", "data = pfb + command[offset:offset+self.miu]\n                        continue",
     "data = pfb + command[offset+self.miu:offset+2*self.miu]\n                        continue"),
    ("iso_nak_on_transmission", "retry budget off by one", "if i <= self.n_retry_nak:\n                        log.warning(\"ISO-DEP transmission error",
     "if i < self.n_retry_nak:\n                        log.warning(\"ISO-DEP transmission error"),
    ("iso_nak_on_timeout", "R(ACK) instead of R(NAK) after a timeout",
     "log.warning(\"ISO-DEP timeout error (#%d)\" % i)\n                        data = bytearray([0xB2 | self.pni])",
     "log.warning(\"ISO-DEP timeout error (#%d)\" % i)\n                        data = bytearray([0xA2 | self.pni])"),
    ("iso_nak_on_timeout", "timeout reported as RECEIVE_ERROR",
     "log.error(\"ISO-DEP unrecoverable timeout error\")\n                        raise Type4TagCommandError(nfc.tag.TIMEOUT_ERROR)",
     "log.error(\"ISO-DEP unrecoverable timeout error\")\n                        raise Type4TagCommandError(nfc.tag.RECEIVE_ERROR)"),
    ("iso_cmd_on_protocol", "protocol error reported as RECEIVE_ERROR",
     "log.error(\"ISO-DEP unrecoverable protocol error\")\n                    raise Type4TagCommandError(nfc.tag.PROTOCOL_ERROR)",
     "log.error(\"ISO-DEP unrecoverable protocol error\")\n                    raise Type4TagCommandError(nfc.tag.RECEIVE_ERROR)"),
    ("iso_bn_chk_cmd", "block number check inverted", "if data[0] & 0x01 != self.pni:\n                log.warning", "if data[0] & 0x01 == self.pni:\n                log.warning"),
    ("iso_ack_step", "block number not toggled after R(ACK)", "if data[0] & 0b11111110 == 0b10100010:  # ACK\n                    self.pni = (self.pni + 1) % 2",
     "if data[0] & 0b11111110 == 0b10100010:  # ACK\n                    self.pni = self.pni % 2"),
    ("iso_inf_step", "I-block with NAD accepted", "if data[0] & 0b11101110 == 0x02:  # INF", "if data[0] & 0b11100110 == 0x02:  # INF"),
    ("iso_inf_step", "PCB kept in the response", "response = data[1:]\n", "response = data[0:]\n"),
    ("iso_chain_test", "chaining bit", "while bool(data[0] & 0b00010000):", "while bool(data[0] & 0b00100000):"),
    ("iso_ack_blk", "R(NAK) instead of R(ACK) in response chaining", "data = pack('B', 0xA2 | self.pni)  # ACK", "data = pack('B', 0xB2 | self.pni)  # ACK"),
    ("iso_ack_on_transmission", "response phase budget taken from the NAK counter",
     "if i <= self.n_retry_ack:\n                        log.warning(\"ISO-DEP transmission error  (#%d)\" % i)",
     "if i + 1 <= self.n_retry_ack:\n                        log.warning(\"ISO-DEP transmission error  (#%d)\" % i)"),
    ("iso_bn_chk_rsp", "block number check dropped in response chaining", "if data[0] & 0x01 != self.pni:\n                log.error",
     "if data[0] & 0x03 != self.pni:\n                log.error"),
    ("iso_chain_acc", "chained data prepended", "response = response + data[1:]", "response = data[1:] + response"),
    ("iso_chain_acc", "block number not toggled in response chaining", "response = response + data[1:]\n            self.pni = (self.pni + 1) % 2",
     "response = response + data[1:]\n            self.pni = self.pni % 2"),
    ("iso_init", "MIU without the EDC octets", "self.miu = fsc - 3", "self.miu = fsc - 1"),
    ("iso_sel_app_table", "mapping version 1.0 tried first", "((ndef_aid_v2, 256), (ndef_aid_v1, 0))", "((ndef_aid_v1, 0), (ndef_aid_v2, 256))"),
    ("iso_sel_app_stop", "status words end the search", "if error.errno <= 0:", "if error.errno >= 0:"),
    ("iso_sel_fid_p2", "P2 swapped", "p2 = 0x00 if self._aid == ndef_aid_v1 else 0x0C", "p2 = 0x0C if self._aid == ndef_aid_v1 else 0x00"),
    ("iso_read_surplus", "surplus check off by one", "if len(data) > max(max_data, 0):", "if len(data) > max(max_data, 0) + 1:"),
    ("iso_update_chunk", "chunk one octet short", "data[:max_data])", "data[:max_data-1])"),
    ("iso_disc_cc_size", "capability read size", "min(cclen-2, 15)", "min(cclen-2, 16)"),
    ("iso_disc_cclen", "CCLEN little endian", 'cclen = unpack(">H", cclen)[0]', 'cclen = unpack("<H", cclen)[0]'),
    ("iso_nlen_parse", "four octet NLEN read as two", 'lfmt = ">I" if self._nlen_size == 4 else ">H"\n                nlen = self._read_binary',
     'lfmt = ">I" if self._nlen_size == 8 else ">H"\n                nlen = self._read_binary'),
    ("iso_nlen_limit", "16 bit offset limit dropped", "if nlen > self._capacity or self._nlen_size + nlen > 0x10000:", "if nlen > self._capacity:"),
    ("iso_read_args", "read offset without the NLEN field", "offset = self._nlen_size + len(data)", "offset = len(data)"),
    ("iso_read_args", "always the whole length requested", "self._read_binary(offset, nlen - len(data))", "self._read_binary(offset, nlen)"),
    ("iso_read_stuck", "empty answer not detected", "if len(more) == 0:", "if len(more) == 300:"),
    ("iso_write_plan", "single pass although NLEN + message exceed MLc", "if len(nlen) + len(data) <= self._max_lc:", "if len(data) <= self._max_lc:"),
    ("iso_write_plan", "NLEN written first in the two pass layout", "data = bytearray(len(nlen)) + data", "data = bytearray(nlen) + data\n                nlen = bytearray(nlen)"),
    ("iso_write_step", "offset not advanced by the written count", "offset += self._update_binary(offset, data[offset:])", "offset += 1 + self._update_binary(offset, data[offset:])"),
    ("iso_write_nlen_step", "final NLEN update always from offset 0", "offset += self._update_binary(offset, nlen[offset:])", "offset += self._update_binary(0, nlen[offset:])"),
    ("iso_write_more", "NEUTRAL comparison written the other way round", "while offset < len(data):", "while len(data) > offset:"),
]
