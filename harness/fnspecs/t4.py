"""group T4: nfc/tag/tt4.py -> Model/IsoDep.lean, Model/T4.lean (C12, C08, C01)"""
from translate_fn import Spec, INT, BOOL, BYTES, ANY, TUP

GROUP = "T4"
ORDER = 50
F = "tag/tt4.py"
_MAXSEND = [("self.clf.max_send_data_size", "max_send", INT)]

SPECS = [
    Spec(GROUP, "t4_apdu_build", F, "Type4Tag.send_apdu",
         [("cla", INT), ("ins", INT), ("p1", INT), ("p2", INT), ("data", BYTES), ("mrl", INT)],
         binds=[("self._extended_length_support", "ext", BOOL)], stmts=(0, 2), result=["apdu"],
         note="cut: the command APDU handed to `self.transceive`; `data` is a byte string (None is the empty string)"),
    Spec(GROUP, "t4_apdu_status", F, "Type4Tag.send_apdu", [("apdu", BYTES), ("check_status", BOOL)], stmts=(3, 6),
         note="cut: the statements after `apdu = self.transceive(apdu)`; parameter `apdu` is the response"),
    Spec(GROUP, "t4a_params", F, "Type4ATag.__init__", [("rats_res", BYTES)], binds=_MAXSEND,
         stmts=[6, 7, 8, 9, 10, 12], result=["fsc", "fwti"],
         note="cut: FSCI/FWI evaluation of the RATS response and the frame size clamp; the float `fwt` "
              "and the constructor of IsoDepInitiator are not translated; result (fsc, fwti)"),
    Spec(GROUP, "t4b_params", F, "Type4BTag.__init__", [], binds=[("target.sensb_res", "sensb_res", BYTES)] + _MAXSEND,
         stmts=[6, 7, 8, 9, 11], result=["fsc", "fwti"],
         note="cut: FSCI/FWI evaluation of SENSB_RES and the frame size clamp; result (fsc, fwti)"),
    Spec(GROUP, "t4_cc_parse", F, "Type4Tag.NDEF._discover_ndef", [("capabilities", BYTES)],
         binds=[("self.tag._extended_length_support", "ext", BOOL)], stmts=list(range(11, 34)), ret=ANY,
         stores=["self._max_le", "self._max_lc", "self._capacity", "self._readable", "self._writeable",
                 "self._nlen_size", "self._ndef_file"],
         result=["self._max_le", "self._max_lc", "self._capacity", "self._readable", "self._writeable",
                 "self._nlen_size", "self._ndef_file"],
         note="cut: the capability container evaluation (statements behind the second `_read_binary`, up to the final "
              "`return True`); `capabilities` is what `_read_binary(2, ..)` returned; result: `False` or the tuple "
              "of the attributes it stores (max_le, max_lc, capacity, readable, writeable, nlen_size, ndef_file)"),
    Spec(GROUP, "t4_read_binary_args", F, "Type4Tag.NDEF._read_binary", [("offset", INT), ("size", INT)],
         binds=[("self._max_le", "max_le", INT)], stmts=(0, 2), result=["p1", "p2", "max_data"],
         note="cut: the P1/P2 and Le arguments of the READ BINARY command handed to `send_apdu`"),
    Spec(GROUP, "t4_update_binary_args", F, "Type4Tag.NDEF._update_binary", [("offset", INT), ("data", BYTES)],
         binds=[("self._max_lc", "max_lc", INT)], stmts=(0, 2), result=["p1", "p2", "max_data"],
         note="cut: the P1/P2 arguments and the chunk size of the UPDATE BINARY command"),
]
P = "NfcVerif.FnBridge.T4."
BRIDGE = {"module": "NfcVerif.Props.FnBridgeT4",
          "theorems": [P + t for t in ("apdu_build_bridge", "apdu_status_bridge", "t4a_params_bridge", "t4b_params_bridge",
                                       "discover_eq", "cc_parse_bridge", "read_binary_bridge")],
          "properties": ["C12", "C08", "C01"]}


def inputs(rng, sp):
    out = []
    if sp.lean == "t4_apdu_build":
        for _ in range(250):
            hdr = [rng.choice([0, 0xA4, 0xB0, 0xD6, 255, rng.randrange(256)]) if rng.random() < 0.95 else rng.choice([-1, 256]) for _ in range(4)]
            n = rng.choice([0, 0, 1, 2, 7, 254, 255, 256, 300, 65535, 65536]) if rng.random() < 0.8 else rng.randrange(0, 40)
            data = bytes(rng.randrange(256) for _ in range(n))
            mrl = rng.choice([0, 1, 2, 15, 255, 256, 257, 65535, 65536, 65537, -1])
            out.append((hdr + [data, mrl], [bool(rng.randrange(2))]))
    if sp.lean == "t4_apdu_status":
        for _ in range(100):
            body = bytes(rng.randrange(256) for _ in range(rng.randrange(0, 6)))
            sw = rng.choice([b"\x90\x00", b"\x6a\x82", b"\x90", b"", bytes([rng.randrange(256), rng.randrange(256)])])
            out.append(([body + sw, bool(rng.randrange(2))], []))
    if sp.lean == "t4_cc_parse":
        for _ in range(250):
            tag = rng.choice([4, 4, 6, 6, 5, rng.randrange(256)])
            val = bytes([0xE1, 4]) + (bytes(rng.randrange(256) for _ in range(2)) if tag == 4 else
                                       bytes([0, rng.choice([0, 1]), rng.randrange(256), rng.randrange(256)])) + \
                bytes([rng.choice([0, 0, 0xFF, rng.randrange(256)]), rng.choice([0, 0, 0xFF])])
            plen = len(val) if rng.random() < 0.85 else rng.randrange(0, 12)
            cc = bytes([rng.choice([0x10, 0x20, 0x30, 0x40, 0x00, rng.randrange(256)]), 0, rng.choice([15, 59, 255]), rng.randrange(2),
                        rng.randrange(256), tag, plen]) + val
            n = rng.choice([13, 14, 15, 15, 15, 16, 12, 3])
            cc = (cc + bytes(4))[:n] if n <= len(cc) + 4 else cc
            out.append(([cc], [bool(rng.randrange(2))]))
    if sp.lean in ("t4_read_binary_args", "t4_update_binary_args"):
        for _ in range(150):
            off = rng.choice([0, 1, 255, 256, 65535, 65536, -1, rng.randrange(70000)])
            if sp.lean == "t4_read_binary_args":
                out.append(([off, rng.choice([-3, 0, 1, 15, 255, 256, 257, 70000])], [rng.choice([1, 15, 255, 256, 65535])]))
            else:
                out.append(([off, bytes(rng.randrange(256) for _ in range(rng.choice([0, 1, 20, 300])))], [rng.choice([1, 15, 255])]))
    if sp.lean == "t4a_params":
        for _ in range(200):
            t0 = rng.randrange(256)
            r = bytes([rng.randrange(1, 20), t0] + [rng.randrange(256) for _ in range(rng.randrange(0, 5))])
            out.append(([r[:rng.randrange(0, len(r) + 1)] if rng.random() < 0.3 else r], [rng.choice([16, 64, 255, 256, 1024])]))
    if sp.lean == "t4b_params":
        for _ in range(200):
            s = bytes([0x50] + [rng.randrange(256) for _ in range(rng.choice([8, 9, 10, 11, 12]))])
            out.append(([], [s, rng.choice([16, 64, 255, 256, 1024])]))
    return out


MUTATIONS = [
    ("t4_apdu_build", "short Lc limit", "if data and len(data) > 255:", "if data and len(data) > 256:"),
    ("t4_apdu_build", "Le encoding of 256", "pack('>B', 0 if mrl == 256 else mrl)", "pack('>B', 0 if mrl == 255 else mrl)"),
    ("t4_apdu_build", "extended Lc prefix", 'pack(">xH", len(data)) + bytes(data)', 'pack(">H", len(data)) + bytes(data)'),
    ("t4_apdu_build", "extended Le without data", 'pack(">H", le) if data else pack(">xH", le)', 'pack(">H", le)'),
    ("t4_apdu_build", "Le only when positive", "if mrl > 0:", "if mrl >= 0:"),
    ("t4_apdu_status", "minimum response length", "len(apdu) < 2", "len(apdu) < 1"),
    ("t4_apdu_status", "success status word", 'b"\\x90\\x00"', 'b"\\x90\\x01"'),
    ("t4_apdu_status", "status kept in the data", "return apdu[:-2] if check_status else apdu", "return apdu[:-1] if check_status else apdu"),
    ("t4a_params", "TB(1) position", "tb_index = 3 if rats_res[1] & 0x10 else 2", "tb_index = 3 if rats_res[1] & 0x20 else 2"),
    ("t4a_params", "FWI nibble", "fwti = rats_res[tb_index] >> 4", "fwti = rats_res[tb_index] & 15"),
    ("t4a_params", "FSCI clamp", "if fsci > 8:", "if fsci > 9:"),
    ("t4a_params", "FSC table", "(16, 24, 32, 40, 48, 64, 96, 128, 256)[fsci]", "(16, 24, 32, 40, 48, 64, 96, 128, 255)[fsci]"),
    ("t4b_params", "FWI byte", "target.sensb_res[11] >> 4", "target.sensb_res[10] >> 4"),
    ("t4b_params", "RFU FWI default", "fwti = 4", "fwti = 5"),
    ("t4_cc_parse", "minimum capability length", "len(capabilities) < 13", "len(capabilities) < 12"),
    ("t4_cc_parse", "accepted mapping versions", "ver >> 4 not in (1, 2, 3)", "ver >> 4 not in (1, 2, 3, 4)"),
    ("t4_cc_parse", "control TLV length for tag 6", "((4, 6), (6, 8))", "((4, 6), (6, 7))"),
    ("t4_cc_parse", "extended TLV field width", '">2sIBB"', '">2sHBB"'),
    ("t4_cc_parse", "short APDU Lc limit", "min(mlc, 255)", "min(mlc, 256)"),
    ("t4_cc_parse", "capacity accounts for the NLEN field", "min(mfs, 0x10000) - tag + 2", "min(mfs, 0x10000) - tag + 4"),
    ("t4_cc_parse", "16 bit offset clamp dropped", "min(mfs, 0x10000)", "mfs"),
    ("t4_cc_parse", "write flag read from the read flag", "bool(wf == 0)", "bool(rf == 0)"),
    ("t4_read_binary_args", "offset byte order", 'pack(">H", offset)', 'pack("<H", offset)'),
    ("t4_read_binary_args", "Le not limited by MLe", "min(self._max_le, size)", "size"),
    ("t4b_params", "frame size clamp dropped", "if fsc > self.clf.max_send_data_size:", "if fsc > 99999:"),
]
