"""group T4: nfc/tag/tt4.py -> Model/IsoDep.lean, Model/T4.lean (C12, C08, C01)"""
from translate_fn import Spec, INT, BOOL, BYTES, ANY, TUP

GROUP = "T4"
ORDER = 50
F = "tag/tt4.py"
_MAXSEND = [("self.clf.max_send_data_size", "max_send", INT)]

SPECS = [
    Spec(GROUP, "t4_apdu_build", F, "Type4Tag.send_apdu",
         [("cla", INT), ("ins", INT), ("p1", INT), ("p2", INT), ("data", BYTES), ("mrl", INT)],
         binds=[("self._extended_length_support", "ext", BOOL)], stmts=(0, 2), result=["apdu"],
         note="cut: the command APDU handed to `self.transceive`; `data` is a byte string (None is the empty string)"),
    Spec(GROUP, "t4_apdu_status", F, "Type4Tag.send_apdu", [("apdu", BYTES), ("check_status", BOOL)], stmts=(3, 6),
         note="cut: the statements after `apdu = self.transceive(apdu)`; parameter `apdu` is the response"),
    Spec(GROUP, "t4a_params", F, "Type4ATag.__init__", [("rats_res", BYTES)], binds=_MAXSEND,
         stmts=[6, 7, 8, 9, 10, 12], result=["fsc", "fwti"],
         note="cut: FSCI/FWI evaluation of the RATS response and the frame size clamp; the float `fwt` "
              "and the constructor of IsoDepInitiator are not translated; result (fsc, fwti)"),
    Spec(GROUP, "t4b_params", F, "Type4BTag.__init__", [], binds=[("target.sensb_res", "sensb_res", BYTES)] + _MAXSEND,
         stmts=[6, 7, 8, 9, 11], result=["fsc", "fwti"],
         note="cut: FSCI/FWI evaluation of SENSB_RES and the frame size clamp; result (fsc, fwti)"),
]
P = "NfcVerif.FnBridge.T4."
BRIDGE = {"module": "NfcVerif.Props.FnBridgeT4",
          "theorems": [P + t for t in ("apdu_build_bridge", "apdu_status_bridge", "t4b_params_bridge")],
          "properties": ["C12", "C08", "C01"]}
