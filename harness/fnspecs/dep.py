"""group Dep: nfc/dep.py framing -> Model/NfcDep.lean, Model/PeerDep.lean (C04, C07, C19)"""
from translate_fn import Spec, BYTES, STR

GROUP = "Dep"
ORDER = 30
_BRTY = [("self.target.brty", "brty", STR)]
SPECS = []
for _r, _cls in (("initiator", "Initiator"), ("target", "Target")):
    SPECS += [
        Spec(GROUP, _r + "_encode_frame", "dep.py", _cls + ".encode_frame", [("frame", BYTES)], binds=_BRTY,
             stmts=(1, 4), note="cut: statements after `frame = packet.encode()`; parameter `frame` is that value"),
        Spec(GROUP, _r + "_decode_frame", "dep.py", _cls + ".decode_frame", [("frame", BYTES)], binds=_BRTY,
             stmts=(0, 5), result=["frame"],
             note="cut: the checks in front of the dispatch `eval(name).decode(frame)`; result: `frame` at that point"),
    ]
P = "NfcVerif.FnBridge.Dep."
BRIDGE = {
    "module": "NfcVerif.Props.FnBridgeDep",
    "theorems": [P + t for t in (
        "initiator_encode_frame_bridge", "target_encode_frame_bridge", "initiator_decode_frame_bridge",
        "target_decode_frame_bridge", "initiator_decode_frame_peer", "target_decode_frame_peer",
        "gen_decode_frame_total")],
    "properties": ["C04", "C07", "C19"],
}


def _frames(rng, code0, codes):
    out = []
    for _ in range(120):
        body = bytes([code0 if rng.random() < 0.9 else rng.choice([0xD4, 0xD5, rng.randrange(256)]),
                      rng.choice(codes) if rng.random() < 0.85 else rng.randrange(16)]) + \
            bytes(rng.randrange(256) for _ in range(rng.randrange(0, 20)))
        ln = len(body) + 1 if rng.random() < 0.9 else rng.randrange(256)
        f = bytes([ln]) + body
        if rng.random() < 0.5:
            f = bytes([0xF0 if rng.random() < 0.9 else rng.randrange(256)]) + f
        out.append(f[:rng.randrange(0, len(f) + 1)] if rng.random() < 0.1 else f)
    return out


def inputs(rng, sp):
    out = []
    if sp.lean.endswith("decode_frame"):
        code0, codes = (0xD5, [1, 5, 7, 9, 11]) if sp.lean.startswith("initiator") else (0xD4, [0, 4, 6, 8, 10])
        for f in _frames(rng, code0, codes):
            for b in ("106A", "212F"):
                out.append(([f], [b]))
    return out


def _swap_checks(seg):
    """swap the 106A start-byte check and the length-byte check of decode_frame"""
    l = seg.split("\n")
    i = [k for k, x in enumerate(l) if "frame.pop(0) != 0xF0" in x][0]
    j = [k for k, x in enumerate(l) if "len(frame) != frame.pop(0)" in x][0]
    return "\n".join(l[:i] + l[j:j + 3] + l[i:i + 3] + l[j + 3:])


MUTATIONS = [
    ("initiator_decode_frame", "start byte value", "0xF0", "0xF1"),
    ("initiator_decode_frame", "minimum length at 106A", "(2 if self.target.brty == '106A' else 1)",
     "(1 if self.target.brty == '106A' else 1)"),
    ("initiator_decode_frame", "length byte off by one", "len(frame) != frame.pop(0)", "len(frame) - 1 != frame.pop(0)"),
    ("initiator_decode_frame", "or -> and in the code check", "frame[0] != 0xD5 or", "frame[0] != 0xD5 and"),
    ("target_decode_frame", "dropped command code", "(0, 4, 6, 8, 10)", "(0, 4, 6, 8)"),
    ("target_decode_frame", "minimum payload length", "if len(frame) < 2:", "if len(frame) < 1:"),
    ("target_decode_frame", "checks reordered (start byte after length byte)", _swap_checks, None),
    ("initiator_encode_frame", "length byte off by one", "len(frame) + 1", "len(frame)"),
    ("target_encode_frame", "start byte appended instead of prepended", "b'\\xF0' + frame", "frame + b'\\xF0'"),
    ("target_decode_frame", "NEUTRAL tuple order", "(0, 4, 6, 8, 10)", "(10, 8, 6, 4, 0)"),
]
