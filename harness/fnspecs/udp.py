"""group Udp: the UDP driver nfc/clf/udp.py -> Model/FnUdpRef.lean, Model/ErrMap.lean (C13, C18, C19)

`nfc/clf/udp.py` stands for a contactless chipset in the driver lists of C13 / C18: "the air" is a datagram
`<brty> <hex octets>` or the bare `RFOFF`.  Every method interleaves socket calls / the clock with pure evaluation of
datagrams; translated are the pure slices (statement ranges, `expr=` cuts of whole conditions / values) and, where the
control flow matters (`_recv_data` per datagram, `_send_data` behind the formatting, `send_cmd_recv_rsp`,
`send_rsp_recv_cmd`), the statements with the socket / library calls as opaque function parameters.

Cuts (every one also in the spec's note):
* `udp_datagram`: the statements of `_recv_data` between `recvfrom` and `if brty in brty_list` (RFOFF test, `try` around
  split / decode / unhexlify with `except ValueError: raise TransmissionError`, `self.rcvd_data += len(data)`);
  `data.split`, `brty.decode`, `unhexlify` are function parameters (the translator passes no receiver: `split` is the
  value of `data.split()`, `dec` gets only "ascii").  `brty in brty_list` (`*brty_list`) is not translated.
* clock: `time.time()` is an int parameter `now` (floats are not modelled); `max(0.5, ..)` of listen_tta/ttb/ttf (float
  literal) is not translated, `max(0, ..)` of listen_dep is.
* `_send_data`: the formatting `b"%s %s" % (brty.encode('latin'), hexlify(data))).strip()` (bytes %-formatting) is
  not translated; `udp_send_io` starts at `sendto` (function parameter), parameter `data` is the formatted datagram.
* sense_tta: the two `for` loops (an opaque socket call with a float literal timeout between every statement, `zip`)
  are cut into the per-iteration expressions; `reduce(operator.xor, ..)` (BCC) is the int parameter `bcc`.
* `_listen_tta`: `sdd_res.insert(..)` (bytearray.insert is outside the subset) - the SDD_RES layout with cascade tags
  and BCCs is not translated; the if / elif chain is cut into its tests and values (keyword-argument constructor
  `nfc.clf.LocalTarget(..)` and attribute stores on the new object in the last arm), so the ORDER of the arms is tied
  only by the differential runs of C18.
* listen_dep: `data.insert(0, 0xF0)` (same reason) - the `F0` start octet is the cut `udp_ldep_f0` (its condition);
  the handlers `except CommunicationError: return None` / `except AssertionError: return None` (fix 4a75d46) are cuts
  of the handler bodies (`return None`), which handler catches what is exception flow.
* `sense_dep` (always UnsupportedTargetError; the message is `str.format(device=self)`, which needs a real device
  object in the differential run) is not translated.
* `nfc.clf.RemoteTarget(..)` / `LocalTarget(..)` constructors and attribute stores on them: not translated, the
  attribute VALUES are cuts.  `brty` / `addr` handed through to `_send_data` / `_recv_data` are int tokens.
"""
from translate_fn import Spec, INT, BOOL, BYTES, OPT, STR, TUP, NONE

GROUP = "Udp"
ORDER = 69
F = "clf/udp.py"

_RCV = TUP(INT, BYTES, INT)
_BR = [("target.brty", "brty", STR)]
_DG = [(1, "body"), (1, "body")]

SPECS = [
    # ---- _recv_data / _send_data
    Spec(GROUP, "udp_datagram", F, "Device._recv_data", [("data", BYTES)], path=_DG, stmts=(2, 5),
         opaque={"data.split": ("split", [], TUP(BYTES, BYTES), True), "brty.decode": ("dec", [STR], STR, True),
                 "unhexlify": ("unhex", [BYTES], BYTES, True)},
         binds=[("self.rcvd_data", "rcvd", INT)], stores=["self.rcvd_data"], result=["brty", "data", "self.rcvd_data"],
         note="cut: one received datagram: the statements between `recvfrom` and `if brty in brty_list` (RFOFF test first, try / except ValueError around split, decode, unhexlify, octet counter); the three library calls are function parameters; result (brty, data, self.rcvd_data)"),
    Spec(GROUP, "udp_deadline", F, "Device._recv_data", [("timeout", OPT(INT))], binds=[("time.time()", "now", INT)],
         stmts=(0, 1), result=["time_to_return"], note="cut: `time_to_return`; `time.time()` is the int parameter `now`, `timeout` an int (float in the source) or None"),
    Spec(GROUP, "udp_wait", F, "Device._recv_data", [("timeout", OPT(INT)), ("time_to_return", INT)], binds=[("time.time()", "now", INT)],
         path=[(1, "body")], stmts=(0, 1), result=["wait"], note="cut: the `select` timeout `wait` inside the loop; `time.time()` is the parameter `now`"),
    Spec(GROUP, "udp_ready", F, "Device._recv_data", [], binds=[("select.select([self.socket], [], [], wait)[0]", "ready", BYTES)],
         expr="len(select.select([self.socket], [], [], wait)[0]) == 1", whole=True, note="cut: the test `one socket readable`; the list returned by select is a byte string parameter (only its length is used)"),
    Spec(GROUP, "udp_send_io", F, "Device._send_data", [("data", BYTES), ("addr", INT)], stmts=(2, 5),
         opaque={"self.socket.sendto": ("sendto", [BYTES, INT], INT, True)},
         binds=[("self.sent_data", "sent", INT)], stores=["self.sent_data"], result=["self.sent_data"],
         note="cut: the statements behind the formatting: `sendto` (function parameter), short write -> TransmissionError, `self.sent_data` (result); parameter `data` is the formatted datagram, `addr` an int token"),
    Spec(GROUP, "udp_bind_error", F, "Device._bind_socket", [], binds=[("error.errno", "errno", INT)],
         path=[(1, "body"), (1, ("handlers", 0))], reraise={"error": "(Exc.io errno.toNat)"}, nonneg=["errno"],
         note="cut: body of `except socket.error as error` around `self.socket.bind(addr)`: EADDRINUSE -> False, else `raise error` = IOError(error.errno) (errno >= 0)"),
    Spec(GROUP, "udp_mute_rfoff", F, "Device.mute", [],
         binds=[("self.socket.getsockname()[1]", "port", INT), ("self.addr[1]", "lport", INT), ("self.rcvd_data", "rcvd", INT)],
         expr="self.socket.getsockname()[1] != self.addr[1] and self.rcvd_data", whole=True, ret=BOOL, note="cut: the condition for sending RFOFF in mute(): port of the socket, listen port and `self.rcvd_data` are int parameters"),
    # ---- exchange
    Spec(GROUP, "udp_send_cmd_recv_rsp", F, "Device.send_cmd_recv_rsp", [("target", INT), ("data", OPT(BYTES)), ("timeout", INT)],
         binds=[("target.brty", "brty", INT), ("target._addr", "addr", INT)], ret=OPT(BYTES),
         opaque={"self._send_data": ("send", [INT, BYTES, INT], INT, True), "self._recv_data": ("recv", [INT, INT], _RCV, True)},
         note="whole function; `self._send_data` / `self._recv_data` are function parameters, `target.brty` / `target._addr` int tokens; `timeout` an int (float in the source)"),
    Spec(GROUP, "udp_send_rsp_recv_cmd", F, "Device.send_rsp_recv_cmd", [("target", INT), ("data", OPT(BYTES)), ("timeout", OPT(INT))],
         binds=[("target.brty", "brty", INT), ("target._addr", "addr", INT)], ret=OPT(BYTES),
         opaque={"self._send_data": ("send", [INT, BYTES, INT], INT, True), "self._recv_data": ("recv", [OPT(INT), INT], _RCV, True)},
         note="whole function; `self._send_data` / `self._recv_data` are function parameters, `target.brty` / `target._addr` int tokens; `timeout` an int (float in the source)"),
    Spec(GROUP, "udp_max_send", F, "Device.get_max_send_data_size", [("target", INT)], note="whole"),
    Spec(GROUP, "udp_max_recv", F, "Device.get_max_recv_data_size", [("target", INT)], note="whole"),
    # ---- sense_tta
    Spec(GROUP, "udp_tta_brty", F, "Device.sense_tta", [], binds=_BR, stmts=(2, 3), drop=["message ="], note="cut: the bit rate test -> UnsupportedTargetError (`message = ..format(..)` dropped)"),
    Spec(GROUP, "udp_tta_sens_req", F, "Device.sense_tta", [], binds=[("target.sens_req", "sens_req", OPT(BYTES))],
         stmts=(3, 4), result=["sens_req"], note="cut"),
    Spec(GROUP, "udp_tta_is_tt1", F, "Device.sense_tta", [("sens_res", BYTES)], expr="sens_res[0] & 0x1F == 0", whole=True, note="cut"),
    Spec(GROUP, "udp_tta_has_rid", F, "Device.sense_tta", [("sens_res", BYTES)], expr="sens_res[1] & 0x0F == 0b1100", whole=True, note="cut"),
    Spec(GROUP, "udp_tta_rid_cmd", F, "Device.sense_tta", [], path=[(7, "body"), (3, "body")], stmts=(0, 1), result=["rid_cmd"], note="cut"),
    Spec(GROUP, "udp_tta_uid", F, "Device.sense_tta", [], binds=[("target.sel_req", "sel_req", BYTES)],
         path=[(8, "body"), (0, "body")], stmts=(0, 3), result=["uid"], note="cut"),
    Spec(GROUP, "udp_tta_sel_req", F, "Device.sense_tta", [("i", INT), ("sel_cmd", INT), ("uid", BYTES)],
         binds=[("reduce(operator.xor, sel_req[2:6])", "bcc", INT)],
         path=[(8, "body"), (0, "body"), (3, "body")], stmts=(0, 2), result=["sel_req"], note="cut"),
    Spec(GROUP, "udp_tta_sdd_req", F, "Device.sense_tta", [("sel_cmd", INT)],
         path=[(8, "body"), (0, "orelse"), (1, "body")], stmts=(0, 1), result=["sdd_req"], note="cut"),
    Spec(GROUP, "udp_tta_sel_req2", F, "Device.sense_tta", [("sel_cmd", INT), ("sdd_res", BYTES)],
         path=[(8, "body"), (0, "orelse"), (1, "body")], stmts=(5, 6), result=["sel_req"], note="cut"),
    Spec(GROUP, "udp_tta_cascade", F, "Device.sense_tta", [("sel_res", BYTES)], expr="sel_res[0] & 0b00000100", whole=True, ret=BOOL, note="cut"),
    Spec(GROUP, "udp_tta_uid_part", F, "Device.sense_tta", [("uid", BYTES), ("sdd_res", BYTES)], expr="uid + sdd_res[1:4]", note="cut"),
    Spec(GROUP, "udp_tta_uid_last", F, "Device.sense_tta", [("uid", BYTES), ("sdd_res", BYTES)], expr="uid + sdd_res[0:4]", note="cut"),
    Spec(GROUP, "udp_tta_complete", F, "Device.sense_tta", [("sel_res", BYTES)], expr="sel_res[0] & 0b00000100 == 0", whole=True, note="cut"),
    # ---- sense_ttb / ttf / dep
    Spec(GROUP, "udp_ttb_brty", F, "Device.sense_ttb", [], binds=_BR, stmts=(1, 2), drop=["message ="], note="cut: the bit rate test -> UnsupportedTargetError (`message = ..format(..)` dropped)"),
    Spec(GROUP, "udp_ttb_req", F, "Device.sense_ttb", [], binds=[("target.sensb_req", "sensb_req", OPT(BYTES))],
         stmts=(2, 3), result=["sensb_req"], note="cut"),
    Spec(GROUP, "udp_ttb_res_ok", F, "Device.sense_ttb", [("sensb_res", BYTES)], expr="len(sensb_res) >= 12 and sensb_res[0] == 0x50",
         whole=True, ret=BOOL, note="cut"),
    Spec(GROUP, "udp_ttf_brty", F, "Device.sense_ttf", [], binds=_BR, stmts=(2, 3), drop=["message ="], note="cut: the bit rate test -> UnsupportedTargetError (`message = ..format(..)` dropped)"),
    Spec(GROUP, "udp_ttf_req", F, "Device.sense_ttf", [], binds=[("target.sensf_req", "t_sensf_req", BYTES)],
         stmts=(3, 4), result=["sensf_req"], note="cut"),
    Spec(GROUP, "udp_ttf_res_ok", F, "Device.sense_ttf", [("data", BYTES)],
         expr="len(data) >= 18 and data[0] == len(data) and data[1] == 1", whole=True, ret=BOOL, note="cut"),
    Spec(GROUP, "udp_ttf_res", F, "Device.sense_ttf", [("data", BYTES)], expr="data[1:]", nth=1, note="cut"),
    # ---- _listen_tta
    Spec(GROUP, "udp_lta_sel0", F, "Device._listen_tta", [], binds=[("target.sel_res", "t_sel_res", BYTES)], stmts=(6, 7),
         result=["sel_res"], note="cut"),
    Spec(GROUP, "udp_lta_is_sens", F, "Device._listen_tta", [("data", BYTES)], expr="data == b'\\x26'", whole=True, note="cut"),
    Spec(GROUP, "udp_lta_is_sdd1", F, "Device._listen_tta", [("data", BYTES)], expr="data == b'\\x93\\x20'", whole=True, note="cut"),
    Spec(GROUP, "udp_lta_is_sdd2", F, "Device._listen_tta", [("data", BYTES), ("sdd_res", BYTES)],
         expr="data == b'\\x95\\x20' and len(sdd_res) > 5", whole=True, note="cut"),
    Spec(GROUP, "udp_lta_is_sdd3", F, "Device._listen_tta", [("data", BYTES), ("sdd_res", BYTES)],
         expr="data == b'\\x97\\x20' and len(sdd_res) > 10", whole=True, note="cut"),
    Spec(GROUP, "udp_lta_is_sel1", F, "Device._listen_tta", [("data", BYTES), ("sdd_res", BYTES)],
         expr="data == b'\\x93\\x70' + sdd_res[0:5]", whole=True, note="cut"),
    Spec(GROUP, "udp_lta_is_sel2", F, "Device._listen_tta", [("data", BYTES), ("sdd_res", BYTES)],
         expr="data == b'\\x95\\x70' + sdd_res[5:10]", whole=True, note="cut"),
    Spec(GROUP, "udp_lta_is_sel3", F, "Device._listen_tta", [("data", BYTES), ("sdd_res", BYTES)],
         expr="data == b'\\x95\\x70' + sdd_res[10:15]", whole=True, note="cut"),
    Spec(GROUP, "udp_lta_sel1", F, "Device._listen_tta", [("sel_res", BYTES), ("sdd_res", BYTES)],
         expr="(sel_res[0] & 0xFB) | (len(sdd_res) > 5) << 2", note="cut"),
    Spec(GROUP, "udp_lta_sel2", F, "Device._listen_tta", [("sel_res", BYTES), ("sdd_res", BYTES)],
         expr="(sel_res[0] & 0xFB) | (len(sdd_res) > 10) << 2", note="cut"),
    Spec(GROUP, "udp_lta_sel3", F, "Device._listen_tta", [("sel_res", BYTES), ("sdd_res", BYTES)],
         expr="(sel_res[0] & 0xFB) | (len(sdd_res) > 15) << 2", note="cut"),
    Spec(GROUP, "udp_lta_selected", F, "Device._listen_tta", [("sel_res", BYTES)], expr="sel_res[0] & 0b00000100 == 0", whole=True, note="cut"),
    Spec(GROUP, "udp_lta_is_atr", F, "Device._listen_tta", [("data", BYTES)],
         expr="data[0] == 0xF0 and len(data) >= 18 and data[1] == len(data)-1 and data[2:4] == b'\\xD4\\x00'", whole=True, ret=BOOL, note="cut"),
    Spec(GROUP, "udp_lta_is_rats", F, "Device._listen_tta", [("data", BYTES)], expr="data[0] == 0xE0", whole=True, note="cut"),
    Spec(GROUP, "udp_lta_atr_req", F, "Device._listen_tta", [("data", BYTES)], expr="data[2:]", note="cut"),
    # ---- listen_ttb
    Spec(GROUP, "udp_ltb_check", F, "Device.listen_ttb", [], binds=[("target.sensb_res", "sensb_res", BYTES)], stmts=(4, 5), note="cut"),
    Spec(GROUP, "udp_ltb_is_req", F, "Device.listen_ttb", [("data", BYTES)],
         expr="data and len(data) == 3 and data.startswith(b'\\x05')", whole=True, ret=BOOL, note="cut"),
    Spec(GROUP, "udp_ltb_recv_fail", F, "Device.listen_ttb", [], path=[(6, "body"), (2, "body"), (4, ("handlers", 0))], ret=OPT(INT),
         note="cut: body of `except nfc.clf.CommunicationError` behind SENSB_RES (fix 4a75d46): `return None`"),
    # ---- _listen_ttf
    Spec(GROUP, "udp_ltf_frame_ok", F, "Device._listen_ttf", [("data", BYTES)], expr="data and len(data) == data[0]", whole=True, ret=BOOL, note="cut"),
    Spec(GROUP, "udp_ltf_is_poll", F, "Device._listen_ttf", [("data", BYTES)], expr="data.startswith(b'\\x06\\x00')", whole=True, note="cut"),
    Spec(GROUP, "udp_ltf_sc_match", F, "Device._listen_ttf", [("sensf_req", BYTES), ("sensf_res", BYTES)],
         expr="(sensf_req[1] == 255 or sensf_req[1] == sensf_res[17]) and (sensf_req[2] == 255 or sensf_req[2] == sensf_res[18])",
         whole=True, ret=BOOL, note="cut"),
    Spec(GROUP, "udp_ltf_response", F, "Device._listen_ttf", [("sensf_req", BYTES), ("sensf_res", BYTES)], binds=_BR,
         path=[(1, "body"), (1, "body"), (0, "body"), (1, "body")], stmts=(0, 4), result=["data"], note="cut"),
    Spec(GROUP, "udp_ltf_armed", F, "Device._listen_ttf", [("sensf_req", OPT(BYTES)), ("sensf_res", OPT(BYTES))],
         expr="sensf_req and sensf_res", whole=True, ret=BOOL, note="cut"),
    Spec(GROUP, "udp_ltf_tt3_for_us", F, "Device._listen_ttf", [("data", BYTES)], binds=[("target.sensf_res", "t_sensf_res", BYTES)],
         expr="data[2:10] == target.sensf_res[1:9]", whole=True, note="cut"),
    Spec(GROUP, "udp_ltf_atr_for_us", F, "Device._listen_ttf", [("data", BYTES)], binds=[("target.sensf_res", "t_sensf_res", BYTES)],
         expr="data[1:11] == b'\\xD4\\x00' + target.sensf_res[1:9]", whole=True, note="cut"),
    Spec(GROUP, "udp_ltf_cmd", F, "Device._listen_ttf", [("data", BYTES)], expr="data[1:]", nth=1, note="cut"),
    # ---- listen_dep
    Spec(GROUP, "udp_ldep_checks", F, "Device.listen_dep", [],
         binds=[("target.sensf_res", "sensf_res", BYTES), ("target.sens_res", "sens_res", BYTES), ("target.sdd_res", "sdd_res", BYTES),
                ("target.sel_res", "sel_res", BYTES), ("target.atr_res", "atr_res", BYTES)], stmts=(7, 12), note="cut"),
    Spec(GROUP, "udp_ldep_deadline", F, "Device.listen_dep", [("timeout", INT)], binds=[("time.time()", "now", INT)],
         stmts=(12, 13), result=["time_to_return"], note="cut"),
    Spec(GROUP, "udp_ldep_more", F, "Device.listen_dep", [("time_to_return", INT)], binds=[("time.time()", "now", INT)],
         expr="time.time() < time_to_return", whole=True, note="cut"),
    Spec(GROUP, "udp_ldep_wait", F, "Device.listen_dep", [("time_to_return", INT)], binds=[("time.time()", "now", INT)],
         path=[(16, "body")], stmts=(0, 1), result=["wait"], note="cut"),
    Spec(GROUP, "udp_ldep_recv_fail", F, "Device.listen_dep", [], path=[(16, "body"), (1, ("handlers", 0))], ret=OPT(INT), note="cut"),
    Spec(GROUP, "udp_ldep_is_sens", F, "Device.listen_dep", [("data", BYTES)], expr="data == b'\\x26'", whole=True, note="cut"),
    Spec(GROUP, "udp_ldep_is_atr_a", F, "Device.listen_dep", [("data", BYTES)],
         expr="len(data) >= 18 and data[1] == len(data)-1 and data[0] == 0xF0 and data[2:4] == b'\\xD4\\x00'", whole=True, ret=BOOL, note="cut"),
    Spec(GROUP, "udp_ldep_is_f", F, "Device.listen_dep", [("brty", STR), ("data", BYTES)],
         expr="brty in ('212F', '424F') and data[0] == len(data)", whole=True, ret=BOOL, note="cut"),
    Spec(GROUP, "udp_ldep_is_poll", F, "Device.listen_dep", [("data", BYTES)], expr="data.startswith(b'\\x06\\x00')", whole=True, note="cut"),
    Spec(GROUP, "udp_ldep_is_atr_f", F, "Device.listen_dep", [("data", BYTES)],
         expr="len(data) >= 17 and data[1:3] == b'\\xD4\\x00'", whole=True, ret=BOOL, note="cut"),
    Spec(GROUP, "udp_ldep_atr_req_a", F, "Device.listen_dep", [("data", BYTES)], expr="data[2:]", note="cut"),
    Spec(GROUP, "udp_ldep_atr_req_f", F, "Device.listen_dep", [("data", BYTES)], expr="data[1:]", note="cut"),
    Spec(GROUP, "udp_ldep_atr_frame", F, "Device.listen_dep", [("atr_res", BYTES)],
         path=[(16, "body"), (4, "body")], stmts=(3, 4), result=["data"], note="cut"),
    Spec(GROUP, "udp_ldep_f0", F, "Device.listen_dep", [("brty", STR)], expr="brty == '106A'", whole=True, nth=1, note="cut"),
    Spec(GROUP, "udp_ldep_unframe", F, "Device.listen_dep", [("brty", STR), ("data", BYTES)],
         path=[(16, "body"), (4, "body"), (6, "body")], result=["data"], note="cut"),
    Spec(GROUP, "udp_ldep_unframe_fail", F, "Device.listen_dep", [], path=[(16, "body"), (4, "body"), (6, ("handlers", 0))], ret=OPT(INT), note="cut"),
    Spec(GROUP, "udp_ldep_is_psl", F, "Device.listen_dep", [("data", BYTES)], expr="data.startswith(b'\\xD4\\x04')", whole=True, note="cut"),
    Spec(GROUP, "udp_ldep_psl_res", F, "Device.listen_dep", [], binds=[("target.psl_req", "psl_req", BYTES)],
         expr="b'\\xD5\\x05' + target.psl_req[2:3]", note="cut"),
    Spec(GROUP, "udp_ldep_psl_frame", F, "Device.listen_dep", [], binds=[("target.psl_res", "psl_res", BYTES)],
         path=[(16, "body"), (4, "body"), (7, "body")], stmts=(4, 5), result=["data"], note="cut"),
    Spec(GROUP, "udp_ldep_psl_brty", F, "Device.listen_dep", [], binds=[("target.psl_req", "psl_req", BYTES)],
         expr="target.psl_req[3] >> 3 & 7", note="cut"),
    Spec(GROUP, "udp_ldep_is_dsl", F, "Device.listen_dep", [("data", BYTES)], expr="data.startswith(b'\\xD4\\x08')", whole=True, note="cut"),
    Spec(GROUP, "udp_ldep_dsl_res", F, "Device.listen_dep", [("data", BYTES)],
         path=[(16, "body"), (4, "body"), (8, "body")], stmts=[1, 3], result=["data"], note="cut"),
    Spec(GROUP, "udp_ldep_is_rls", F, "Device.listen_dep", [("data", BYTES)], expr="data.startswith(b'\\xD4\\x0A')", whole=True, note="cut"),
    Spec(GROUP, "udp_ldep_rls_res", F, "Device.listen_dep", [("data", BYTES)],
         path=[(16, "body"), (4, "body"), (9, "body")], stmts=[1, 3], result=["data"], note="cut"),
    Spec(GROUP, "udp_ldep_is_dep", F, "Device.listen_dep", [("data", BYTES)], expr="data.startswith(b'\\xD4\\x06')", whole=True, note="cut"),
]
P = "NfcVerif.FnBridge.Udp."
BRIDGE = {
    "module": "NfcVerif.Props.FnBridgeUdp",
    "theorems": [P + t for t in (
        "datagram_bridge", "rfoff_always_broken_link", "datagram_model", "datagram_never_value", "datagram_documented",
        "send_io_bridge", "send_io_wr", "send_io_documented", "bind_error_bridge", "mute_rfoff_bridge", "deadline_bridge",
        "wait_bridge", "ready_bridge", "send_cmd_recv_rsp_bridge", "send_rsp_recv_cmd_bridge", "exchange_model", "exchange_safe",
        "max_send_bridge", "max_recv_bridge", "tta_brty_bridge", "ttb_brty_bridge", "ttf_brty_bridge",
        "tta_sens_req_bridge", "ttb_req_bridge", "tta_is_tt1_bridge", "tta_has_rid_bridge", "tta_rid_cmd_bridge", "tta_uid_bridge",
        "tta_sel_req_bridge", "tta_sdd_req_bridge", "tta_sel_req2_bridge", "tta_cascade_bridge", "tta_complete_bridge",
        "tta_uid_part_bridge", "tta_uid_last_bridge", "ttb_res_ok_bridge", "ttf_req_bridge", "ttf_res_ok_bridge", "ttf_res_bridge",
        "lta_sel0_bridge", "lta_sel1_bridge", "lta_sel2_bridge", "lta_sel3_bridge", "lta_requests_bridge", "lta_is_sel3_asfound",
        "lta_selected_bridge", "lta_is_rats_bridge", "ltb_check_bridge", "ltb_is_req_bridge", "listen_fail_bridge",
        "ltf_frame_ok_bridge", "ltf_tests_bridge", "ltf_armed_bridge", "ldep_checks_bridge", "ldep_time_bridge",
        "gen_ldep_wait_range", "ldep_frames_bridge", "ldep_unframe_bridge", "unframe_lenFrame", "ldep_codes_bridge",
        "ldep_f0_bridge", "ldep_psl_brty_bridge", "gen_psl_brty_range")],
    "properties": ["C13", "C18", "C19"],
}
# translated and differentially tested, no bridge theorem in this round (reference definitions exist in
# Model/FnUdpRef.lean: isAtrA, scMatch, sensfResFrame, isFFrame): udp_lta_is_atr, udp_ldep_is_atr_a, udp_ltf_sc_match,
# udp_ltf_response, udp_ldep_is_f
SMALL_INT = ("udp_max_send", "udp_max_recv")


def _b(rng, n):
    return bytes(rng.randrange(256) for _ in range(n))


def inputs(rng, sp):
    out = []
    L = sp.lean
    if L in ("udp_tta_brty", "udp_ttb_brty", "udp_ttf_brty"):
        for b in ("106A", "212A", "424A", "106B", "212B", "424B", "212F", "424F", "848A", ""):
            out.append(([], [b]))
    if L in ("udp_tta_sens_req", "udp_ttb_req"):
        for v in (None, b"", b"\x52", b"\x05\x00\x08"):
            out.append(([], [v]))
    if L == "udp_ttf_req":
        for n in (0, 1, 5, 254, 255, 256):
            out.append(([], [_b(rng, n)]))
    if L in ("udp_tta_is_tt1", "udp_tta_has_rid", "udp_tta_cascade", "udp_tta_complete", "udp_lta_selected", "udp_lta_is_rats"):
        for v in (0x00, 0x04, 0x0C, 0x20, 0x24, 0x44, 0xE0, 0xFB, 0xFF):
            out.append(([bytes([v, v])], []))
        out.append(([b""], []))
        out.append(([b"\x0c"], []))
    if L == "udp_tta_uid":
        for n in (0, 3, 4, 5, 7, 8, 10, 11):
            out.append(([], [_b(rng, n)]))
    if L == "udp_tta_sel_req":
        for i in (0, 4, 8):
            for cmd in (0x93, 0x95, 0x97, 256, -1):
                out.append(([i, cmd, _b(rng, rng.choice([4, 8, 12, 6])), rng.choice([0, 255, 256])], []))
                out[-1] = (out[-1][0][:3], [out[-1][0][3]])
    if L in ("udp_tta_sdd_req",):
        for cmd in (0x93, 0x95, 0x97, 256, -1):
            out.append(([cmd], []))
    if L == "udp_tta_sel_req2":
        for cmd in (0x93, 0x95, 0x97, 256):
            out.append(([cmd, _b(rng, 5)], []))
    if L in ("udp_tta_uid_part", "udp_tta_uid_last"):
        for n in (0, 1, 3, 4, 5, 6):
            out.append(([_b(rng, rng.choice([0, 3, 6])), _b(rng, n)], []))
    if L == "udp_ttb_res_ok":
        for n in (0, 1, 11, 12, 13):
            out.append(([b"\x50" + _b(rng, n)][:1], []))
            out.append(([_b(rng, n)], []))
        out.append(([b"\x50" + _b(rng, 11)], []))
        out.append(([b"\x50" + _b(rng, 10)], []))
    if L in ("udp_ttf_res_ok", "udp_ltf_frame_ok"):
        for n in (0, 1, 2, 16, 17, 18, 19):
            body = _b(rng, n)
            out.append(([bytes([len(body) + 1]) + body], []))
            out.append(([bytes([len(body) + 1, 1]) + body[1:]], []))
            out.append(([bytes([len(body)]) + body], []))
        out.append(([b""], []))
    if L in ("udp_lta_is_sens", "udp_lta_is_sdd1", "udp_ldep_is_sens"):
        for d in (b"\x26", b"\x52", b"\x93\x20", b"\x93\x70", b"", b"\x26\x00"):
            out.append(([d], []))
    if L in ("udp_lta_is_sdd2", "udp_lta_is_sdd3", "udp_lta_is_sel1", "udp_lta_is_sel2", "udp_lta_is_sel3"):
        for n in (5, 10, 15):
            sdd = _b(rng, n)
            for d in (b"\x95\x20", b"\x97\x20", b"\x93\x70" + sdd[0:5], b"\x95\x70" + sdd[5:10], b"\x95\x70" + sdd[10:15],
                      b"\x97\x70" + sdd[10:15], b"\x95\x70"):
                out.append(([d, sdd], []))
    if L in ("udp_lta_sel1", "udp_lta_sel2", "udp_lta_sel3"):
        for n in (4, 5, 6, 10, 11, 15, 16):
            for v in (0x00, 0x04, 0x20, 0xFF):
                out.append(([bytes([v]), _b(rng, n)], []))
        out.append(([b"", b""], []))
    if L == "udp_lta_sel0":
        for v in (0x00, 0x04, 0x24, 0xFF):
            out.append(([], [bytes([v])]))
        out.append(([], [b""]))
    if L in ("udp_lta_is_atr", "udp_ldep_is_atr_a"):
        for n in (13, 14, 15, 30):
            body = b"\xd4\x00" + _b(rng, n)
            for ln in (len(body) + 1, len(body), len(body) + 2):
                out.append(([b"\xf0" + bytes([ln & 255]) + body], []))
                out.append(([b"\xf1" + bytes([ln & 255]) + body], []))
        out.append(([b"\xf0" + bytes([18]) + b"\xd4\x01" + _b(rng, 15)], []))
        out.append(([b""], []))
        out.append(([b"\xf0"], []))
    if L == "udp_ltb_check":
        for n in (0, 11, 12, 13):
            out.append(([], [_b(rng, n)]))
    if L == "udp_ltb_is_req":
        for d in (b"", b"\x05", b"\x05\x00", b"\x05\x00\x08", b"\x06\x00\x08", b"\x05\x00\x08\x00"):
            out.append(([d], []))
    if L in ("udp_ltf_is_poll", "udp_ldep_is_poll", "udp_ldep_is_psl", "udp_ldep_is_dsl", "udp_ldep_is_rls", "udp_ldep_is_dep"):
        for d in (b"", b"\x06", b"\x06\x00", b"\x06\x00\xff\xff\x01\x00", b"\xd4\x04\x00", b"\xd4\x08", b"\xd4\x0a\x01", b"\xd4\x06\x00\x00",
                  b"\xd4", b"\xd5\x04"):
            out.append(([d], []))
    if L == "udp_ltf_sc_match":
        for _ in range(20):
            res = _b(rng, 17) + bytes([0x12, 0xFC])
            for sc in (b"\xff\xff", b"\x12\xfc", b"\x12\xff", b"\xff\xfc", b"\x12\xfd", b"\x13\xfc"):
                out.append(([b"\x00" + sc + b"\x01\x00", res], []))
        out.append(([b"\x00\x12", _b(rng, 19)], []))
        out.append(([b"\x00\x12\xfc", _b(rng, 17)], []))
    if L == "udp_ltf_response":
        for rc in (0, 1, 2, 3):
            for br in ("212F", "424F"):
                for n in (19, 17, 10):
                    out.append(([b"\x00\xff\xff" + bytes([rc]) + b"\x00", _b(rng, n)], [br]))
        out.append(([b"\x00\xff\xff", _b(rng, 19)], ["212F"]))
    if L == "udp_ltf_armed":
        for a in (None, b"", b"\x00"):
            for c in (None, b"", b"\x01"):
                out.append(([a, c], []))
    if L in ("udp_ltf_tt3_for_us", "udp_ltf_atr_for_us"):
        for _ in range(10):
            res = _b(rng, 19)
            out.append(([b"\x10\x06" + res[1:9] + _b(rng, 4)], [res]))
            out.append(([b"\x10\xd4\x00" + res[1:9] + _b(rng, 4)], [res]))
            out.append(([b"\x10\xd4\x00" + res[1:8] + b"\x00" + _b(rng, 4)], [res]))
            out.append(([b"\x10\x06" + res[1:5]], [res]))
    if L == "udp_ldep_checks":
        for t in ((19, 2, 4, 1, 17), (19, 2, 4, 1, 64), (19, 2, 4, 1, 65), (19, 2, 4, 1, 16), (18, 2, 4, 1, 17), (19, 1, 4, 1, 17),
                  (19, 2, 7, 1, 17), (19, 2, 4, 0, 17)):
            out.append(([], [_b(rng, n) for n in t]))
    if L in ("udp_ldep_deadline", "udp_ldep_more", "udp_ldep_wait"):
        for a in (0, 1, 5, 100):
            for c in (0, 1, 5, 99, 100, 101):
                out.append(([a], [c]))
    if L == "udp_deadline":
        for t in (None, 0, 1, 5):
            out.append(([t], [rng.randrange(1000)]))
    if L == "udp_wait":
        for t in (None, 0, 1, 5):
            out.append(([t, rng.randrange(1000)], [rng.randrange(1000)]))
    if L == "udp_ldep_is_f":
        for br in ("106A", "212F", "424F"):
            for d in (b"\x03\xd4\x00", b"\x04\xd4\x00", b"", b"\x01"):
                out.append(([br, d], []))
    if L == "udp_ldep_is_atr_f":
        for n in (13, 14, 15, 30):
            out.append(([bytes([n + 3]) + b"\xd4\x00" + _b(rng, n)], []))
            out.append(([bytes([n + 3]) + b"\xd4\x01" + _b(rng, n)], []))
    if L == "udp_ldep_unframe":
        for br in ("106A", "212F", "424F"):
            for d in (b"\xf0\x03\xd4\x04", b"\x03\xd4\x04", b"\xf0\x04\xd4\x04", b"\xf1\x03\xd4\x04", b"", b"\xf0", b"\x01", b"\xf0\x01",
                      b"\x04\xd4\x04"):
                out.append(([br, d], []))
    if L in ("udp_ldep_atr_frame", "udp_ldep_psl_frame"):
        for n in (0, 3, 17, 64, 254, 255):
            (out.append(([_b(rng, n)], [])) if sp.params else out.append(([], [_b(rng, n)])))
    if L in ("udp_ldep_dsl_res", "udp_ldep_rls_res", "udp_ldep_psl_res", "udp_ldep_psl_brty"):
        for d in (b"", b"\xd4\x08", b"\xd4\x08\x01", b"\xd4\x04\x01\x12\x03", b"\xd4\x04\x00\x09\x03", b"\xd4\x04\x00\xff"):
            (out.append(([d], [])) if sp.params else out.append(([], [d])))
    if L == "udp_ldep_f0":
        for br in ("106A", "212F", "424F", ""):
            out.append(([br], []))
    if L == "udp_bind_error":
        for e in (98, 13, 99, 0, 1):
            out.append(([], [e]))
    if L == "udp_mute_rfoff":
        for p in (54321, 40000):
            for r in (0, 1, 12):
                out.append(([], [p, 54321, r]))
    if L == "udp_ready":
        for d in (b"", b"\x01", b"\x01\x02"):
            out.append(([], [d]))
    if L == "udp_send_io":
        for _ in range(30):
            out.append(([_b(rng, rng.randrange(0, 12)), rng.randrange(5)], [rng.randrange(100)]))
    if L == "udp_send_cmd_recv_rsp":
        for _ in range(30):
            out.append(([rng.randrange(5), rng.choice([None, _b(rng, 3)]), rng.choice([-1, 0, 1, 5])], [rng.randrange(5), rng.randrange(5)]))
    if L == "udp_send_rsp_recv_cmd":
        for _ in range(30):
            out.append(([rng.randrange(5), rng.choice([None, _b(rng, 3)]), rng.choice([None, -1, 0, 1, 5])], [rng.randrange(5), rng.randrange(5)]))
    if L == "udp_datagram":
        for d in (b"RFOFF", b"RFOFF 00", b"106A 26", b"106A", b"", b"106A zz", b"RFOF 00"):
            out.append(([d], [rng.randrange(100)]))
    return out


def _rfoff_late(seg):
    """seed C13-r5m2: RFOFF recognised only behind split / decode / unhexlify, as a type token"""
    old = '                if data.startswith(b"RFOFF"):\n                    raise nfc.clf.BrokenLinkError("RFOFF")\n'
    assert old in seg
    seg = seg.replace(old, "", 1)
    anchor = '                    raise nfc.clf.TransmissionError("no data")\n'
    assert anchor in seg
    return seg.replace(anchor, anchor + '                if brty == "RFOFF":\n                    raise nfc.clf.BrokenLinkError("RFOFF")\n', 1)


def _unhex_out(seg):
    """seed C13-r3m4 kind: `data = bytearray(unhexlify(data))` moved behind the try statement"""
    line = '                    data = bytearray(unhexlify(data))\n'
    assert line in seg
    seg = seg.replace(line, "", 1)
    anchor = '                    raise nfc.clf.TransmissionError("no data")\n'
    return seg.replace(anchor, anchor + '                data = bytearray(unhexlify(data))\n', 1)


def _ltb_continue(seg):
    """fix 4a75d46 reverted in listen_ttb: the handler behind SENSB_RES keeps listening instead of `return None`"""
    old = '                except nfc.clf.CommunicationError:\n                    return None\n                return nfc.clf.LocalTarget'
    assert old in seg
    return seg.replace(old, '                except nfc.clf.CommunicationError:\n                    continue\n                return nfc.clf.LocalTarget', 1)


MUTATIONS = [
    ("udp_datagram", "seed C13-r5m2: RFOFF tested behind the parsing", _rfoff_late, None),
    ("udp_datagram", "RFOFF marker", 'if data.startswith(b"RFOFF"):', 'if data.startswith(b"RFOF"):'),
    ("udp_datagram", "parse error class", 'raise nfc.clf.TransmissionError("no data")', 'raise nfc.clf.ProtocolError("no data")'),
    ("udp_datagram", "unhexlify moved out of the try (seed C13-r3m4 kind)", _unhex_out, None),
    ("udp_send_io", "short write accepted", "if ret != len(data):", "if ret > len(data):"),
    ("udp_send_cmd_recv_rsp", "receive also for a zero timeout", "if timeout > 0:\n            brty, data, addr = self._recv_data(timeout, target.brty)", "if timeout >= 0:\n            brty, data, addr = self._recv_data(timeout, target.brty)"),
    ("udp_send_rsp_recv_cmd", "no receive without a timeout", "if timeout is None or timeout > 0:", "if timeout is not None and timeout > 0:"),
    ("udp_max_send", "frame size", "return 290", "return 291"),
    ("udp_tta_brty", "bit rate list", '("106A", "212A", "424A")', '("106A", "212A")'),
    ("udp_tta_sens_req", "default SENS_REQ", 'bytearray.fromhex("26")', 'bytearray.fromhex("52")'),
    ("udp_tta_is_tt1", "platform mask", "if sens_res[0] & 0x1F == 0:", "if sens_res[0] & 0x0F == 0:"),
    ("udp_tta_uid", "cascade threshold", "if len(uid) > 4:\n                    uid = b\"\\x88\" + uid", "if len(uid) > 5:\n                    uid = b\"\\x88\" + uid"),
    ("udp_tta_cascade", "cascade bit", "if sel_res[0] & 0b00000100:", "if sel_res[0] & 0b00100000:"),
    ("udp_tta_uid_part", "cascade tag kept", "uid = uid + sdd_res[1:4]", "uid = uid + sdd_res[0:4]"),
    ("udp_ttb_res_ok", "minimum SENSB_RES length", "len(sensb_res) >= 12", "len(sensb_res) >= 11"),
    ("udp_ttf_req", "length octet", "bytearray([len(target.sensf_req)+1])", "bytearray([len(target.sensf_req)])"),
    ("udp_ttf_res_ok", "response code", "data[1] == 1:", "data[1] == 0:"),
    ("udp_ttf_res", "length octet kept", "sensf_res=data[1:]", "sensf_res=data[0:]"),
    ("udp_lta_is_sel2", "SEL_REQ CL2 code", 'elif data == b"\\x95\\x70" + sdd_res[5:10]:', 'elif data == b"\\x97\\x70" + sdd_res[5:10]:'),
    ("udp_lta_sel1", "cascade bit position", "(len(sdd_res) > 5) << 2", "(len(sdd_res) > 5) << 3"),
    ("udp_ltb_is_req", "SENSB_REQ length", "len(data) == 3 and data.startswith(b'\\x05')", "len(data) >= 3 and data.startswith(b'\\x05')"),
    ("udp_ltb_recv_fail", "fix 4a75d46 reverted: keep listening", _ltb_continue, None),
    ("udp_ltf_frame_ok", "length octet off by one", "if data and len(data) == data[0]:", "if data and len(data) == data[0] + 1:"),
    ("udp_ltf_tt3_for_us", "IDm compared over 7 octets", "data[2:10] == target.sensf_res[1:9]", "data[2:9] == target.sensf_res[1:8]"),
    ("udp_ldep_checks", "ATR_RES minimum", "len(target.atr_res) >= 17", "len(target.atr_res) >= 16"),
    ("udp_ldep_wait", "negative timeout possible", "wait = max(0, time_to_return - time.time())", "wait = time_to_return - time.time()"),
    ("udp_ldep_unframe", "length octet not counted", "assert len(data) == data.pop(0)\n                except AssertionError:\n                    return None\n                if data.startswith(b'\\xD4\\x04'):",
     "assert len(data) - 1 == data.pop(0)\n                except AssertionError:\n                    return None\n                if data.startswith(b'\\xD4\\x04'):"),
    ("udp_ldep_psl_brty", "DSI shift", "target.psl_req[3] >> 3 & 7", "target.psl_req[3] >> 4 & 7"),
    ("udp_ldep_dsl_res", "DSL_RES code", "b'\\xD5\\x09' + data[2:3]", "b'\\xD5\\x08' + data[2:3]"),
    ("udp_ldep_is_dep", "DEP_REQ code", "data.startswith(b'\\xD4\\x06')", "data.startswith(b'\\xD4\\x07')"),
    ("udp_lta_is_sens", "NEUTRAL hex spelling", 'if data == b"\\x26":\n                log.debug("rcvd SENS_REQ %s"', 'if data == b"&":\n                log.debug("rcvd SENS_REQ %s"'),
]
