"""group DepMore: nfc/dep.py - the statements of the activation, exchange and deactivation methods that the groups Dep,
DepPdu and DepSm left between their cuts -> Model/FnDepMoreRef.lean (reference definitions with the property-relevant
facts), Model/Activate.lean, Model/NfcDep.lean (through the bridge theorems of DepPdu / DepSm), C04, C07, C09, C19.

The groups DepPdu / DepSm translate single statements and conditions.  This group translates the RANGES around them, so
that which value feeds which statement and the ORDER of the statements are tied as well:

* `Initiator.activate`, the statements behind the PSL exchange (`self.miu`, `self.gbt`, `self.pni`): `atr_res.lr`,
  `atr_req.lr`, `psl_req.lr` and `atr_res.did` are ALL parameters of the regenerated definition, the bridge says that
  only the Target's `atr_res.lr` is used (seeds C04-r5m1, C19-r2m4; C19-r5m1 introduces a local `lr` in front of the range:
  refused); the call `ATR_REQ(os.urandom(10), did, 0, 0, ppi, self.gbi)` (argument order, BS = BR = 0);
* `Initiator.exchange`: per timeout extension turn `req = RTOX(res.data, ..)` THEN `rwt = res.data[0] * self.rwt`, both
  copies (seed C07-r5m1 swaps them in the receive loop: IndexError on an RTOX PDU without payload), the statements behind
  the blocking call of the send loop (ACK check, packet number check, increment) and of the receive loop as ranges, the
  INF check + `recv_data = res.data` behind the send loop;
* `Initiator.deactivate`: the DID comparison whose only effect is a log line;
* `Target.activate`: the call `ATR_RES(nfcid3t, 0, 0, 0, rwt, pp, gbt)`, the SENS_RES / SDD_RES / SEL_RES constants, the
  attributes stored after `clf.listen` (`lrt`, `gbt`, `gbi`, `miu` from the INITIATOR's `atr_req.lr`, `did`);
* `Target.exchange` first call: WHICH receive function fetches the injected first command - both
  `self.send_dep_res_recv_dep_req` and `self.send_res_recv_req` are function parameters (seed C04-r5m3), the whole
  first-call block, the statements behind the blocking call of the send loop;
* `Target.send_dep_res_recv_dep_req`: the retransmission test `req.pfb.pni == self.pni` as a WHOLE condition
  (seed C04-r5m2 adds a PDU type operand);
* `Target._deactivate`: `deadline = time.time() + 1.0`, the loop condition, and the two places of the loop body that end
  a turn without leaving the loop, each with `deadline` in its result: no statement there may renew it (seed C09-r5m4);
* `DataExchangeProtocol.Counter.sent_count` / `rcvd_count`.

Cuts (repeated in every `note`): PDU objects are int tokens (or, for the RTOX turn, the record of group DepSm), blocking
calls and PDU constructors are function parameters, `time.time() + 1.0` (a float literal) is the ONE parameter `tplus1`
= the clock plus one second - the value 1.0 itself is tied only as source text (any other literal is refused as
unbound), `time.time()` is `now`, `self.rwt` (float) is the integer `srwt`.

Not translated (no pure slice left): `Initiator.activate` target search (`clf.sense`, objects, try/except/else),
`self.target.brty = ('212F', '424F')[self.brs-1]` (tuple of strings), `if self._acm is None or 'acm' in options` (dict
membership), `rwt = 4096/13.56E6 * 2**wt` (float), `Initiator.deactivate` / `Target.deactivate` control structure
(try/except/else/finally: `CommunicationError` ends the method, `finally` only logs), the try/except of
`Target._deactivate` (`CommunicationError` -> return), `send_req_recv_res` / `send_res_recv_req` counters (dict of
counters keyed by strings built with slicing), `Counter.__str__`, `__str__`.
"""
from translate_fn import Spec, INT, BOOL, BYTES, OPT, REC, TUP, LIST

GROUP = "DepMore"
ORDER = 35
F = "dep.py"
I = "Initiator."
TG = "Target."
_PFB = {"fmt": INT, "nad": BOOL, "did": BOOL, "pni": INT}
_DEP = {"pfb": REC("PFB"), "did": OPT(INT), "nad": OPT(INT), "data": BYTES}
_RQ = {"DEP_REQ": _DEP, "PFB": _PFB}
_SDN = [("self.did", "did", OPT(INT)), ("self.nad", "nad", OPT(INT))]
_NOW = [("time.time()", "now", INT)]
_T1 = [("time.time() + 1.0", "tplus1", INT)]
_RTOX_S = [(4, "body"), (4, "body"), (0, "body")]
_RTOX_R = [(7, "body"), (2, "body"), (0, "body")]
_ATRQ6 = TUP(BYTES, INT, INT, INT, INT, BYTES)
_ATRS7 = TUP(BYTES, INT, INT, INT, INT, INT, BYTES)
_TOK = [OPT(INT), INT]
_RX = {"self.send_dep_res_recv_dep_req": ("sdr", _TOK, OPT(INT), False),
       "self.send_res_recv_req": ("srr", _TOK, OPT(INT), False)}
_RXNOTE = ("; the two receive functions `self.send_dep_res_recv_dep_req` (filters ATN / NAK / repeated / foreign PDUs) and "
           "`self.send_res_recv_req` (raw) are BOTH function parameters `sdr`, `srr`, PDU objects are int tokens")
_RTOXB = [("res.data", "data", BYTES), ("self.rwt", "srwt", INT)] + _SDN
_DEACT = "; `time.time() + 1.0` is the parameter `tplus1` (float literal), PDU objects are int tokens"

SPECS = [
    # ---- Initiator.activate
    Spec(GROUP, "dm_ini_act_tail", F, I + "activate", [], path=[(19, "body")], stmts=[-5, -4, -3],
         binds=_SDN + [("atr_res.lr", "lr_res", INT), ("atr_req.lr", "lr_req", INT), ("psl_req.lr", "lr_psl", INT),
                       ("atr_res.did", "did_res", INT), ("atr_res.gb", "gb_res", BYTES)],
         stores=["self.miu", "self.gbt", "self.pni"], result=["self.miu", "self.gbt", "self.pni"],
         note="cut: the statements `self.miu = ..; self.gbt = atr_res.gb; self.pni = 0` at the end of the activation "
              "(counted from the end of the block: the 5th..3rd last statement); `atr_res.lr` (LRt), `atr_req.lr` (LRi), "
              "`psl_req.lr` (FSL of the PSL_REQ = LRi) and `atr_res.did` are all parameters; result (miu, gbt, pni)"),
    Spec(GROUP, "dm_ini_atr_req_call", F, I + "activate", [("did", INT), ("ppi", INT)], stmts=[11],
         binds=[("self.gbi", "gbi", BYTES)],
         opaque={"ATR_REQ": ("mk", [BYTES, INT, INT, INT, INT, BYTES], _ATRQ6, False),
                 "os.urandom": ("urandom", [INT], BYTES, False)}, result=["atr_req"],
         note="cut: the call `atr_req = ATR_REQ(os.urandom(10), did, 0, 0, ppi, self.gbi)`; the class and `os.urandom` are the "
              "function parameters `mk`, `urandom`"),
    # ---- Initiator.exchange
    Spec(GROUP, "dm_ini_rtox_step_s", F, I + "exchange", [], path=_RTOX_S, stmts=(0, 3),
         opaque={"RTOX": ("mk", [BYTES, OPT(INT), OPT(INT)], REC("DEP_REQ"), True)},
         binds=_RTOXB, records=_RQ, result=["req", "rwt"],
         note="cut: send loop, one timeout extension turn up to the blocking call: `req = RTOX(res.data, self.did, self.nad)`, "
              "`rwt = res.data[0] * self.rwt`, the log line; the local function RTOX is the function parameter `mk` that may raise "
              "and returns a DEP_REQ record (the bridge instantiates it with the regenerated `smi_rtox` of group DepSm; the "
              "self-test cannot stub a record-valued function: differential run through `dm_ini_rtox_order_s`, the same "
              "statements with an int token), `self.rwt` (float) is the integer `srwt`; result (req, rwt)"),
    Spec(GROUP, "dm_ini_rtox_step_r", F, I + "exchange", [], path=_RTOX_R, stmts=(0, 3),
         opaque={"RTOX": ("mk", [BYTES, OPT(INT), OPT(INT)], REC("DEP_REQ"), True)},
         binds=_RTOXB, records=_RQ, result=["req", "rwt"],
         note="cut: receive loop, one timeout extension turn up to the blocking call (as `dm_ini_rtox_step_s`; differential run "
              "through `dm_ini_rtox_order_r`)"),
    Spec(GROUP, "dm_ini_rtox_order_s", F, I + "exchange", [], path=_RTOX_S, stmts=(0, 3),
         opaque={"RTOX": ("mk", [BYTES, OPT(INT), OPT(INT)], INT, True)}, binds=_RTOXB, result=["req", "rwt"],
         note="cut: the same statements as `dm_ini_rtox_step_s` with the validating builder RTOX as a function parameter `mk` "
              "that may raise (PDU object = int token): ties the ORDER validate-then-use for every validator"),
    Spec(GROUP, "dm_ini_rtox_order_r", F, I + "exchange", [], path=_RTOX_R, stmts=(0, 3),
         opaque={"RTOX": ("mk", [BYTES, OPT(INT), OPT(INT)], INT, True)}, binds=_RTOXB, result=["req", "rwt"],
         note="cut: the same statements as `dm_ini_rtox_step_r` with RTOX as a function parameter `mk` that may raise"),
    Spec(GROUP, "dm_ini_send_tail", F, I + "exchange", [("send_data", BYTES)], path=[(4, "body")], stmts=(5, 8),
         binds=[("res.pfb.fmt", "fmt", INT), ("res.pfb.pni", "rpni", INT), ("self.pni", "pni", INT)], stores=["self.pni"],
         result=["self.pni"],
         note="cut: send loop, the three statements behind the (extended) exchange as ONE range: ACK only while data remains, "
              "packet number check, increment; result: the new `self.pni`"),
    Spec(GROUP, "dm_ini_send_final", F, I + "exchange", [], stmts=[5, 6],
         binds=[("res.pfb.fmt", "fmt", INT), ("res.data", "data", BYTES)], result=["recv_data"],
         note="cut: behind the send loop: the last response must be an INF PDU, `recv_data = res.data`"),
    Spec(GROUP, "dm_ini_recv_tail", F, I + "exchange", [("recv_data", BYTES)], path=[(7, "body")], stmts=(3, 7),
         binds=[("res.pfb.fmt", "fmt", INT), ("res.pfb.pni", "rpni", INT), ("self.pni", "pni", INT), ("res.data", "data", BYTES)],
         stores=["self.pni"], result=["recv_data", "self.pni"],
         note="cut: receive loop, the four statements behind the (extended) exchange as ONE range: INF check, packet number check, "
              "`recv_data += res.data`, increment; result (recv_data, self.pni)"),
    Spec(GROUP, "dm_ini_deact_did_test", F, I + "deactivate", [], expr="res.did != req.did", whole=True,
         binds=[("res.did", "res_did", OPT(INT)), ("req.did", "req_did", OPT(INT))],
         note="cut: the condition `res.did != req.did` (whole test) - its branch only logs"),
    # ---- Target.activate
    Spec(GROUP, "dm_tgt_atr_res_call", F, TG + "activate", [("nfcid3t", BYTES), ("rwt", INT), ("pp", INT), ("gbt", BYTES)], stmts=[6],
         opaque={"ATR_RES": ("mk", [BYTES, INT, INT, INT, INT, INT, BYTES], _ATRS7, False)}, result=["atr_res"],
         note="cut: the call `atr_res = ATR_RES(nfcid3t, 0, 0, 0, rwt, pp, gbt)`; the class is the function parameter `mk`"),
    Spec(GROUP, "dm_tgt_act_consts", F, TG + "activate", [], stmts=[9, 10, 11],
         opaque={"os.urandom": ("urandom", [INT], BYTES, False)},
         stores=["target.sens_res", "target.sdd_res", "target.sel_res"],
         result=["target.sens_res", "target.sdd_res", "target.sel_res"],
         note="cut: `target.sens_res = 0101; target.sdd_res = 08 + os.urandom(3); target.sel_res = 40` of the listen target; "
              "`os.urandom` is the function parameter `urandom`"),
    Spec(GROUP, "dm_tgt_act_held", F, TG + "activate", [("lrt", INT), ("gbt", BYTES)], path=[(15, "body")], stmts=[2, 3, 4, 5, 7],
         binds=[("atr_req.gb", "gb_req", BYTES), ("atr_req.lr", "lr_req", INT), ("atr_req.did", "did_req", INT)],
         stores=["self.lrt", "self.gbt", "self.gbi", "self.miu", "self.did"],
         result=["self.lrt", "self.gbt", "self.gbi", "self.miu", "self.did"],
         note="cut: the integer / byte string attributes stored after `clf.listen` returned (`self.rwt`, a float, is skipped): "
              "result (lrt, gbt, gbi, miu, did); `atr_req.lr` (LRi), `atr_req.did`, `atr_req.gb` are parameters"),
    # ---- Target.exchange
    Spec(GROUP, "dm_tgt_first_call", F, TG + "exchange", [("deadline", INT)], path=[(4, "body")], stmts=[1], opaque=_RX,
         result=["req"], note="cut: first call, `req = self.send_dep_res_recv_dep_req(None, deadline)`" + _RXNOTE),
    Spec(GROUP, "dm_tgt_first_block", F, TG + "exchange", [("send_data", OPT(BYTES)), ("deadline", INT)], path=[(4, "body")],
         stmts=(0, 4), stores=["self.pni"], opaque=_RX, result=["req", "self.pni"], ret=OPT(TUP(INT, INT)),
         note="cut: the whole first-call block (`self.cmd is not None`): assert, receive, `return None` (result None), "
              "`self.pni = 0`; result (req, self.pni)" + _RXNOTE),
    Spec(GROUP, "dm_tgt_send_tail", F, TG + "exchange", [("more", BOOL), ("send_data", BYTES)], path=[(4, "orelse"), (1, "body")],
         stmts=(5, 9),
         binds=[("req.pfb.fmt", "fmt", INT), ("req.pfb.pni", "rpni", INT), ("self.pni", "pni", INT), ("self.miu", "miu", INT)],
         stores=["self.pni"], result=["self.pni", "send_data"],
         note="cut: send loop, the statements behind the blocking call as ONE range: ACK expected while chaining, increment, "
              "packet number check, `del send_data[0:self.miu]`; result (self.pni, send_data)"),
    # ---- Target.send_dep_res_recv_dep_req
    Spec(GROUP, "dm_tgt_retrans_test", F, TG + "send_dep_res_recv_dep_req", [], expr="req.pfb.pni == self.pni", whole=True,
         binds=[("req.pfb.pni", "rpni", INT), ("self.pni", "pni", INT), ("req.pfb.fmt", "fmt", INT)],
         note="cut: the retransmission test `req.pfb.pni == self.pni` as a WHOLE condition (`req.pfb.fmt` is a parameter that "
              "the test must not use)"),
    # ---- Target._deactivate
    Spec(GROUP, "dm_tgt_deact_deadline", F, TG + "_deactivate", [], stmts=[3], binds=_T1, result=["deadline"],
         note="cut: `deadline = time.time() + 1.0`" + _DEACT),
    Spec(GROUP, "dm_tgt_deact_cond", F, TG + "_deactivate", [("deadline", INT)], expr="time.time() < deadline", whole=True,
         binds=_NOW, note="cut: the loop condition `time.time() < deadline` (whole test); `time.time()` is `now`"),
    Spec(GROUP, "dm_tgt_deact_dep", F, TG + "_deactivate", [("data", BYTES), ("deadline", INT)],
         path=[(4, "body"), (2, "body"), (1, "body")], stmts=(0, -1),
         binds=[("req.pfb.fmt", "fmt", INT), ("req.pfb.pni", "rpni", INT)] + _SDN + _T1,
         opaque={"ATN": ("mkatn", [OPT(INT), OPT(INT)], INT, False),
                 "INF": ("mkinf", [INT, BYTES, OPT(INT), OPT(INT)], INT, False)}, result=["res", "deadline"],
         note="cut: loop body, everything under `if type(req) == DEP_REQ:` in front of the final `continue`; result (res, deadline): "
              "`deadline` is a parameter and must come back unchanged" + _DEACT),
    Spec(GROUP, "dm_tgt_deact_other", F, TG + "_deactivate", [("res", OPT(INT)), ("deadline", INT)], path=[(4, "body")],
         stmts=(3, None), binds=_T1, result=["res", "deadline"],
         note="cut: loop body, the statements behind `if req.did == self.did:` (`res = None`); result (res, deadline)" + _DEACT),
    # ---- Counter
    Spec(GROUP, "dm_cnt_sent", F, "DataExchangeProtocol.Counter.sent_count", [], binds=[("self.sent.values()", "sent", LIST(INT))],
         note="the values of the counter dict are the parameter `sent`"),
    Spec(GROUP, "dm_cnt_rcvd", F, "DataExchangeProtocol.Counter.rcvd_count", [], binds=[("self.rcvd.values()", "rcvd", LIST(INT))],
         note="the values of the counter dict are the parameter `rcvd`"),
]
P = "NfcVerif.FnBridge.DepMore."
BRIDGE = {
    "module": "NfcVerif.Props.FnBridgeDepMore",
    "theorems": [P + t for t in (
        "ini_act_tail_bridge", "gen_ini_miu_peer_lr", "gen_ini_frame_fits", "ini_act_tail_c04", "ini_atr_req_call_bridge",
        "rtox_step_bridge", "rtox_order_bridge", "gen_rtox_validated_first", "gen_rtox_step_safe",
        "ini_send_tail_bridge", "ini_send_final_bridge", "ini_recv_tail_bridge", "ini_deact_did_test_bridge",
        "tgt_atr_res_call_bridge", "gen_tgt_atr_res_did0", "tgt_act_consts_bridge", "gen_tgt_sel_res_accepted",
        "tgt_act_held_bridge", "gen_tgt_miu_peer_lr", "gen_tgt_frame_fits",
        "tgt_first_call_bridge", "tgt_first_block_bridge", "gen_first_call_filtered", "tgt_send_tail_bridge",
        "tgt_retrans_test_bridge", "gen_retrans_any_type",
        "tgt_deact_deadline_bridge", "tgt_deact_cond_bridge", "tgt_deact_dep_bridge", "tgt_deact_other_bridge",
        "gen_deact_deadline_fixed", "gen_deact_bounded", "ini_send_tail_nat", "cnt_bridge")],
    "properties": ["C04", "C07", "C09", "C19"],
}


def _b(rng, n):
    return bytes(rng.randrange(256) for _ in range(n))


def inputs(rng, sp):
    out = []
    opt = [None, 0, 1, 7, 255]
    if sp.lean == "dm_ini_act_tail":
        for lr in (64, 128, 192, 254):
            for did in opt[:3]:
                for nad in opt[:2]:
                    out.append(([], [did, nad, lr, rng.choice([64, 128, 192, 254]), rng.choice([64, 254]), rng.choice([0, 1, 9]),
                                     _b(rng, rng.randrange(6))]))
    if sp.lean == "dm_ini_atr_req_call":
        for did in (0, 1, 14, 255):
            for ppi in (0, 0x32, 0x33):
                out.append(([did, ppi], [_b(rng, rng.choice([0, 3, 48]))]))
    if sp.lean.startswith("dm_ini_rtox_"):
        for v in (0, 1, 2, 58, 59, 60, 61, 255):
            for did in opt[:3]:
                out.append(([], [bytes([v]) + _b(rng, rng.randrange(2)), rng.choice([0, 1, 13, 1000]), did, rng.choice(opt[:2])]))
        out.append(([], [b"", 5, None, None]))
        out.append(([], [b"", 0, 1, 2]))
    if sp.lean == "dm_ini_send_tail":
        for fmt in (0, 1, 4, 5, 8, 9):
            for pni in range(0, 4):
                for rpni in (pni, (pni + 1) & 3):
                    for n in (0, 2):
                        out.append(([_b(rng, n)], [fmt, rpni, pni]))
    if sp.lean == "dm_ini_send_final":
        for fmt in range(-1, 11):
            out.append(([], [fmt, _b(rng, rng.randrange(5))]))
    if sp.lean == "dm_ini_recv_tail":
        for fmt in (0, 1, 4, 5, 8, 9):
            for pni in range(0, 4):
                for rpni in (pni, (pni + 1) & 3):
                    out.append(([_b(rng, rng.randrange(3))], [fmt, rpni, pni, _b(rng, rng.randrange(4))]))
    if sp.lean == "dm_ini_deact_did_test":
        for a in opt:
            for b in opt:
                out.append(([], [a, b]))
    if sp.lean == "dm_tgt_atr_res_call":
        for rwt in (0, 8, 14):
            for pp in (0, 0x32):
                out.append(([_b(rng, 10), rwt, pp, _b(rng, rng.choice([0, 4]))], []))
    if sp.lean == "dm_tgt_act_consts":
        out.append(([], []))
    if sp.lean == "dm_tgt_act_held":
        for lr in (64, 128, 192, 254):
            for did in (-1, 0, 1, 14, 255):
                out.append(([rng.randrange(4), _b(rng, rng.randrange(4))], [_b(rng, rng.randrange(5)), lr, did]))
    if sp.lean == "dm_tgt_first_call":
        for d in (0, 1, 5, 1000):
            out.append(([d], []))
    if sp.lean == "dm_tgt_first_block":
        for sd in (None, b"", b"\x01"):
            for d in range(0, 8):
                out.append(([sd, d], []))
    if sp.lean == "dm_tgt_send_tail":
        for more in (False, True):
            for fmt in (0, 1, 4, 5):
                for pni in range(0, 4):
                    for rpni in (pni, (pni + 1) & 3):
                        out.append(([more, _b(rng, rng.randrange(6))], [fmt, rpni, pni, rng.choice([0, 1, 3, 9])]))
    if sp.lean == "dm_tgt_retrans_test":
        for rpni in range(0, 4):
            for pni in range(0, 4):
                out.append(([], [rpni, pni, rng.choice([0, 1, 4, 5, 8, 9])]))
    if sp.lean == "dm_tgt_deact_deadline":
        for t in (0, 1, 10 ** 9):
            out.append(([], [t]))
    if sp.lean == "dm_tgt_deact_cond":
        for d in (0, 10, 11):
            for now in (0, 9, 10, 11, 12):
                out.append(([d], [now]))
    if sp.lean == "dm_tgt_deact_dep":
        for fmt in (0, 1, 4, 5, 8, 9):
            for rpni in (0, 3):
                out.append(([_b(rng, rng.randrange(4)), rng.randrange(100)], [fmt, rpni, rng.choice(opt), None, 1000 + rng.randrange(9)]))
    if sp.lean == "dm_tgt_deact_other":
        for r in (None, 5):
            out.append(([r, rng.randrange(100)], [1000]))
    if sp.lean in ("dm_cnt_sent", "dm_cnt_rcvd"):
        for n in (0, 1, 3, 6):
            out.append(([], [[rng.randrange(50) for _ in range(n)]]))
    return out


def _second(old, new):
    """replace the second occurrence of `old` in the function segment"""
    def f(seg):
        i = seg.index(old)
        j = seg.index(old, i + len(old))
        return seg[:j] + new + seg[j + len(old):]
    return f


_RT = ("                    req = RTOX(res.data, self.did, self.nad)\n"
       "                    rwt = res.data[0] * self.rwt\n"
       "                    log.warning(\"target requested %.3f sec more time\", rwt)\n")
_RT_SWAP = ("                    rwt = res.data[0] * self.rwt\n"
            "                    log.warning(\"target requested %.3f sec more time\", rwt)\n"
            "                    req = RTOX(res.data, self.did, self.nad)\n")

MUTATIONS = [
    ("dm_ini_act_tail", "seed C04-r5m1: Initiator miu from its own ATR_REQ", "self.miu = (atr_res.lr-3 - int(self.did is not None)",
     "self.miu = (atr_req.lr-3 - int(self.did is not None)"),
    ("dm_ini_act_tail", "seed C19-r2m4: DID overhead from the ATR_RES", "self.miu = (atr_res.lr-3 - int(self.did is not None)",
     "self.miu = (atr_res.lr-3 - int(atr_res.did > 0)"),
    ("dm_ini_act_tail", "miu from the FSL of the PSL_REQ", "self.miu = (atr_res.lr-3 - int(self.did is not None)",
     "self.miu = (psl_req.lr-3 - int(self.did is not None)"),
    ("dm_ini_act_tail", "first packet number 1", "            self.gbt = atr_res.gb\n            self.pni = 0",
     "            self.gbt = atr_res.gb\n            self.pni = 1"),
    ("dm_ini_atr_req_call", "PP and BR swapped in the ATR_REQ", "ATR_REQ(os.urandom(10), did, 0, 0, ppi, self.gbi)",
     "ATR_REQ(os.urandom(10), did, 0, ppi, 0, self.gbi)"),
    ("dm_ini_rtox_order_r", "seed C07-r5m1: RTOX octet used before it is validated (receive loop)", _second(_RT, _RT_SWAP), None),
    ("dm_ini_rtox_order_s", "RTOX octet used before it is validated (send loop)", _RT, _RT_SWAP),
    ("dm_ini_send_tail", "packet number incremented before the check", "            if res.pfb.pni != self.pni:\n                raise nfc.clf.ProtocolError(\"wrong NFC-DEP packet number\")\n            self.pni = (self.pni + 1) & 0x3\n\n        if",
     "            self.pni = (self.pni + 1) & 0x3\n            if res.pfb.pni != self.pni:\n                raise nfc.clf.ProtocolError(\"wrong NFC-DEP packet number\")\n\n        if"),
    ("dm_ini_recv_tail", "chunk appended before the packet number check (no behaviour change on the result: NEUTRAL unless it raises)",
     "            if res.pfb.pni != self.pni:\n                raise nfc.clf.ProtocolError(\"wrong NFC-DEP packet number\")\n            recv_data += res.data\n",
     "            recv_data += res.data\n            if res.pfb.pni != self.pni:\n                raise nfc.clf.ProtocolError(\"wrong NFC-DEP packet number\")\n"),
    ("dm_ini_send_final", "ACK accepted as the last response", "if ((res.pfb.fmt != DEP_RES.LastInformation and\n             res.pfb.fmt != DEP_RES.MoreInformation)):\n            error = \"expected NFC-DEP INF PDU after sending\"",
     "if ((res.pfb.fmt != DEP_RES.LastInformation and\n             res.pfb.fmt != DEP_RES.PositiveAck)):\n            error = \"expected NFC-DEP INF PDU after sending\""),
    ("dm_tgt_atr_res_call", "RWT put into the BR octet", "ATR_RES(nfcid3t, 0, 0, 0, rwt, pp, gbt)", "ATR_RES(nfcid3t, 0, 0, rwt, 0, pp, gbt)"),
    ("dm_tgt_act_consts", "SEL_RES without the NFC-DEP bit", 'target.sel_res = bytearray.fromhex("40")', 'target.sel_res = bytearray.fromhex("20")'),
    ("dm_tgt_act_held", "Target miu from its own LR", "self.miu = atr_req.lr - 3 - int(atr_req.did > 0)",
     "self.miu = (64, 128, 192, 254)[lrt] - 3 - int(atr_req.did > 0)"),
    ("dm_tgt_act_held", "DID 0 kept as a device identifier", "self.did = atr_req.did if atr_req.did > 0 else None",
     "self.did = atr_req.did if atr_req.did >= 0 else None"),
    ("dm_tgt_first_call", "seed C04-r5m3: first command fetched without the filter", "            req = self.send_dep_res_recv_dep_req(None, deadline)\n            if req is None:\n                return None\n            self.pni = 0",
     "            req = self.send_res_recv_req(None, deadline)\n            if req is None:\n                return None\n            self.pni = 0"),
    ("dm_tgt_send_tail", "chunk removed before the packet number check raises (NEUTRAL for the result)", "                if req.pfb.pni != self.pni:\n                    raise nfc.clf.ProtocolError(\"wrong NFC-DEP packet number\")\n                del send_data[0:self.miu]",
     "                del send_data[0:self.miu]\n                if req.pfb.pni != self.pni:\n                    raise nfc.clf.ProtocolError(\"wrong NFC-DEP packet number\")"),
    ("dm_tgt_retrans_test", "seed C04-r5m2: only information PDUs are recognised as repeated", "                elif req.pfb.pni == self.pni:\n                    res = dep_res",
     "                elif (req.pfb.pni == self.pni and req.pfb.fmt in (\n                        DEP_REQ.LastInformation, DEP_REQ.MoreInformation)):\n                    res = dep_res"),
    ("dm_tgt_deact_dep", "seed C09-r5m4: deadline renewed after every answered DEP_REQ", "                        res = INF(req.pfb.pni, data, self.did, self.nad)\n                    continue",
     "                        res = INF(req.pfb.pni, data, self.did, self.nad)\n                    deadline = time.time() + 1.0\n                    continue"),
    ("dm_tgt_deact_other", "deadline renewed after a foreign PDU", "                    continue\n            res = None", "                    continue\n            res = None\n            deadline = time.time() + 1.0"),
    ("dm_tgt_deact_cond", "loop condition gains an operand", "while time.time() < deadline:", "while time.time() < deadline or res is not None:"),
    ("dm_tgt_deact_deadline", "five seconds", "        res = None\n        deadline = time.time() + 1.0", "        res = None\n        deadline = time.time() + 5.0"),
    ("dm_cnt_sent", "sent counter reads the received packets", "return sum(self.sent.values())", "return sum(self.rcvd.values())"),
    ("dm_ini_deact_did_test", "NEUTRAL comparison written the other way round", "if res.did != req.did:", "if req.did != res.did:"),
]
