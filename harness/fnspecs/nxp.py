"""group Nxp: control flow of the NXP Type 2 Tag classes of nfc/tag/tt2_nxp.py (MifareUltralightC, NTAG203, NTAG21x and its
products, NTAG I2C, `activate`) around the arithmetic slices that group Vendor already has
-> Model/Auth.lean (`ntagAuthenticate`, `ntagKey`, `ntagAuthCmd`, `ntagProtectPages`), Model/FnVendorRef.lean (`ulcKey`,
`ulcAuth0`, `ulcAuth1`), Model/FnNxpRef.lean (reference semantics with the tag commands and the cipher as uninterpreted
functions; new)
(C20, C03, C16, C01, C08)

Every tag command (`self.transceive`, `self.read`, `self.write`, `self.authenticate`, `clf.sense`) is a FUNCTION PARAMETER
of the regenerated definitions; the pyDes cipher objects are function parameters bound by their source text
(`triple_des(key, CBC, iv).decrypt`, `triple_des(key, CBC, iv).encrypt`: key, mode and start value are fixed by the text,
the value of `iv` at each call is a result of the cut), `os.urandom(8)` is a VALUE parameter.

Cuts (each also in the `note` of its spec):
* `except tt2.Type2TagCommandError:` is not a handler class the translator knows: every `try` is cut into its body
  (`.._try`, `nxp_*_lockbits`, `nxp_n203_protect`) and its handler (`.._fail`); WHICH exception class is caught is not tied
  here (the excflow group `tags` has the handler classes);
* `struct.pack("B", rb[0]) if isinstance(rb[0], int) else rb[0]` (Python 2 / 3 compatibility of the pyDes result) is a value
  parameter (`rb0`, `ra0`) of the authentication cuts; its Python 3 branch `struct.pack("B", rb[0])` is translated
  separately (`nxp_ulc_rb0`, `nxp_ulc_ra0`);
* what pyDes raises (`ValueError` for a ciphertext whose length is not a multiple of 8) is NOT modelled: the cipher
  parameters are total functions;
* `self._target = self.clf.sense(self.target)` (re-activation inside `_protect_with_password`) is dropped; `self.target`
  AFTER it is a parameter (`None` = the tag did not answer again, else a token);
* `tag_memory` of `_read_capability_data` (a `Type2TagMemoryReader` that reads pages on demand) is a byte string;
* `VERSION_MAP` (a dict from GET_VERSION answers to classes): `rsp in VERSION_MAP` and the constructor `VERSION_MAP[rsp]`
  are parameters (`Model/AdvT34.lean` has the table, tied by the differential run of C08);
* `dump` / `_dump` (string formatting), the `protect` / `authenticate` wrappers (one `super()` call with the same arguments):
  not translated; of `NTAGI2C._dump` only the register page numbers.
"""
from translate_fn import Spec, INT, BOOL, BYTES, OPT

GROUP = "Nxp"
ORDER = 66
NXP = "tag/tt2_nxp.py"
TX = ("tx", [BYTES], BYTES, True)
RD = ("rd", [INT], BYTES, True)
WR = ("wr", [INT, BYTES], INT, True)           # the value of `self.write` (None) is never used
DEC = ("dec", [BYTES], BYTES, False)
ENC = ("enc", [BYTES], BYTES, False)
PRP = [("password", BYTES), ("read_protect", BOOL), ("protect_from", INT)]
PRPO = [("password", OPT(BYTES)), ("read_protect", BOOL), ("protect_from", INT)]
TRIPLE_D = "triple_des(key, CBC, iv).decrypt"
TRIPLE_E = "triple_des(key, CBC, iv).encrypt"
DISPATCH = {"self._protect_with_lockbits": ("lockbits", [], BOOL, True),
            "self._protect_with_password": ("withpw", [BYTES, BOOL, INT], BOOL, True)}
RW = {"self.read": RD, "self.write": WR}
RWA = {"self.read": RD, "self.write": WR, "self.authenticate": ("auth", [BYTES], BOOL, True)}
CAP_BINDS = [("self._readable", "readable", BOOL), ("self._writeable", "writeable", BOOL),
             ("self.tag.is_authenticated", "is_authenticated", BOOL)]
FORMAT_CLASSES = ("NTAG203", "NTAG210", "NTAG212", "NTAG213", "NTAG215", "NTAG216")
CFGPAGE_CLASSES = (("NTAG210", 2), ("NTAG212", 2), ("NTAG213", 2), ("NTAG215", 2), ("NTAG216", 2), ("MF0UL11", 1),
                   ("MF0ULH11", 1), ("MF0UL21", 1), ("MF0ULH21", 1))

SPECS = [
    # ---------------------------------------------------------------- MifareUltralightC._authenticate
    Spec(GROUP, "nxp_ulc_auth_head", NXP, "MifareUltralightC._authenticate", [("password", BYTES)],
         binds=[("os.urandom(8)", "ra", BYTES), ("triple_des(key, CBC, iv).decrypt(m1)", "rb", BYTES),
                ("triple_des(key, CBC, iv).encrypt(ra + rb[1:8] + (struct.pack('B', rb[0]) if isinstance(rb[0], int) else rb[0]))",
                 "m2", BYTES)],
         stmts=[0, 1, 3, 4, 5, 6, 11, 12, 13], result=["key", "m1", "ra", "iv", "m2"],
         opaque={"self.transceive": TX},
         note="cut: up to the second command (logging left out): key, AUTHENTICATE 1A 00, m1 = ek(RndB) = answer[1:9], RndB = "
              "`triple_des(key, CBC, iv).decrypt(m1)` with iv = 0 (a value parameter bound by this text: pyDes is not "
              "translated), RndA = `os.urandom(8)`, iv = ek(RndB), m2 = `triple_des(key, CBC, iv).encrypt(<plaintext>)` (a "
              "value parameter bound by its text; the plaintext is `nxp_ulc_auth_plain`); result (key, m1, ra, iv, m2)"),
    Spec(GROUP, "nxp_ulc_auth_plain", NXP, "MifareUltralightC._authenticate", [("ra", BYTES), ("rb", BYTES)],
         binds=[("struct.pack('B', rb[0]) if isinstance(rb[0], int) else rb[0]", "rb0", BYTES)],
         expr='ra + rb[1:8] + (struct.pack("B", rb[0]) if isinstance(rb[0], int) else rb[0])',
         note="partial cut (not `whole`): the complete argument of `.encrypt(..)`: RndA | RndB rotated left by one octet; the "
              "last octet `rb0` is the isinstance conditional (parameter)"),
    Spec(GROUP, "nxp_ulc_auth_iv0", NXP, "MifareUltralightC._authenticate", [], stmts=[5], result=["iv"],
         note="cut: the start value under which the first cipher object is built"),
    Spec(GROUP, "nxp_ulc_rb0", NXP, "MifareUltralightC._authenticate", [("rb", BYTES)], expr='struct.pack("B", rb[0])',
         note="partial cut (not `whole`): Python 3 branch of the isinstance conditional: the first octet of RndB, appended last"),
    Spec(GROUP, "nxp_ulc_auth_step2", NXP, "MifareUltralightC._authenticate", [("m2", BYTES)], path=[(18, "body")],
         result=["rsp"], opaque={"self.transceive": TX}, note="cut: body of the `try`: the second command AF | m2"),
    Spec(GROUP, "nxp_ulc_auth_step2_fail", NXP, "MifareUltralightC._authenticate", [], path=[(18, ("handlers", 0))],
         note="cut: handler of the `try` around the second command: the method returns False"),
    Spec(GROUP, "nxp_ulc_auth_tail", NXP, "MifareUltralightC._authenticate", [("rsp", BYTES), ("m2", BYTES), ("ra", BYTES)],
         binds=[("triple_des(key, CBC, iv).decrypt(m3)", "pt", BYTES),
                ("struct.pack('B', ra[0]) if isinstance(ra[0], int) else ra[0]", "ra0", BYTES)],
         stmts=[19, 20, 24],
         note="cut: behind the second command: the decision `triple_des(key, CBC, iv).decrypt(m3) == RndA[1:9] + RndA[0]`; the "
              "plaintext (a value parameter bound by this text, with m3 = `nxp_ulc_auth_m3`, iv = `nxp_ulc_auth_tail_iv`)"),
    Spec(GROUP, "nxp_ulc_auth_m3", NXP, "MifareUltralightC._authenticate", [("rsp", BYTES)], stmts=[19], result=["m3"],
         note="cut: ek(RndA') = answer[1:9]"),
    Spec(GROUP, "nxp_ulc_auth_tail_iv", NXP, "MifareUltralightC._authenticate", [("m2", BYTES)], stmts=[20], result=["iv"],
         note="cut: the start value under which the last cipher object is built: the second ciphertext block sent"),
    Spec(GROUP, "nxp_ulc_ra0", NXP, "MifareUltralightC._authenticate", [("ra", BYTES)], expr='struct.pack("B", ra[0])',
         note="partial cut (not `whole`): Python 3 branch of the isinstance conditional: the first octet of RndA, compared last"),
    # ---------------------------------------------------------------- NTAG21x._authenticate
    Spec(GROUP, "nxp_ntag_auth_try", NXP, "NTAG21x._authenticate", [("key", BYTES)], path=[(3, "body")],
         opaque={"self.transceive": TX},
         note="cut: body of the `try`: PWD_AUTH with key[0:4], True iff the answer equals key[4:6] (PACK); `key` is Vendor "
              "`ntag_auth_key`"),
    Spec(GROUP, "nxp_ntag_auth_fail", NXP, "NTAG21x._authenticate", [], path=[(3, ("handlers", 0))],
         note="cut: handler of the `try`: False on a tag command error"),
    # ---------------------------------------------------------------- _protect
    Spec(GROUP, "nxp_ulc_protect", NXP, "MifareUltralightC._protect", PRPO, opaque=DISPATCH,
         note="lock bits without a password, else password protection with the same three arguments (the two methods are parameters)"),
    Spec(GROUP, "nxp_ulc_lockbits", NXP, "MifareUltralightC._protect_with_lockbits", [], path=[(0, "body")], opaque=RW,
         note="cut: body of the `try`: CC read-only when the tag is NDEF formatted, static lock bytes (page 2), dynamic "
              "lock bytes (page 40)"),
    Spec(GROUP, "nxp_ulc_protect_pw", NXP, "MifareUltralightC._protect_with_password", PRP,
         binds=[("self.target", "target", OPT(INT))], drop=["self._target ="], opaque=RWA, stmts=(0, 13),
         note="cut: the re-activation `self._target = self.clf.sense(self.target)` is dropped, `self.target` after it is a "
              "parameter; key pages 44..47, AUTH0 (42), AUTH1 (43), CC access byte, authenticate with the same key"),
    Spec(GROUP, "nxp_n203_protect", NXP, "NTAG203._protect", PRPO, path=[(0, "body"), (0, "body")], opaque=RW,
         note="cut: body of the `try` inside `if password is None:`: CC read-only, static lock bytes, dynamic lock bytes "
              "FF 01 (page 40; the counter page 41 stays writeable)"),
    Spec(GROUP, "nxp_n203_protect_else", NXP, "NTAG203._protect", PRPO, stmts=[1],
         note="cut: the last statement: False with a password (the NTAG203 has none) and after a command error"),
    Spec(GROUP, "nxp_ntag_protect", NXP, "NTAG21x._protect", PRPO, opaque=DISPATCH,
         note="lock bits without a password, else password protection with the same three arguments (the two methods are parameters)"),
    Spec(GROUP, "nxp_ntag_lockbits", NXP, "NTAG21x._protect_with_lockbits", [], path=[(0, "body")],
         binds=[("self._cfgpage", "cfgpage", INT)], opaque=RW,
         note="cut: body of the `try`: CC read-only, static lock bytes, dynamic lock bytes at cfgpage - 1 (products with "
              "more than 16 pages), CFGLCK in the ACCESS byte (cfgpage + 1)"),
    Spec(GROUP, "nxp_ntag_protect_pw", NXP, "NTAG21x._protect_with_password", PRP,
         binds=[("self._cfgpage", "cfgpage", INT), ("self.target", "target", OPT(INT))], drop=["self._target ="], opaque=RWA,
         stmts=(0, 11),
         note="cut: the re-activation `self._target = self.clf.sense(self.target)` is dropped, `self.target` after it is a "
              "parameter; the four configuration pages (AUTH0, PROT, PWD, PACK), CC access byte, authenticate with the same key"),
]
# ---------------------------------------------------------------- NDEF._read_capability_data
for _c, _n in (("MifareUltralightC", "ulc"), ("NTAG21x", "ntag")):
    _base = ("super(NTAG21x.NDEF, self)._read_capability_data(tag_memory)" if _n == "ntag"
             else "base_class._read_capability_data(tag_memory)")
    SPECS += [
        Spec(GROUP, "nxp_%s_capdata_flags" % _n, NXP, _c + ".NDEF._read_capability_data", [("tag_memory", BYTES)],
             binds=CAP_BINDS, stores=["self._readable", "self._writeable"], path=[(0 if _n == "ntag" else 1, "body")],
             stmts=[0], result=["self._readable", "self._writeable"],
             note="cut: the statement behind a successful generic capability read: (_readable, _writeable) afterwards; "
                  "`tag_memory` is a byte string"),
        Spec(GROUP, "nxp_%s_capdata_ret" % _n, NXP, _c + ".NDEF._read_capability_data", [("tag_memory", BYTES)],
             binds=CAP_BINDS + [(_base, "base", BOOL)], stores=["self._readable", "self._writeable"], drop=["base_class ="],
             note="cut: what the generic `_read_capability_data` returns is a parameter; the value returned (the flag updates "
                  "are `nxp_%s_capdata_flags`)" % _n),
    ]
SPECS += [
    # ---------------------------------------------------------------- NTAG21x.signature
    Spec(GROUP, "nxp_signature_try", NXP, "NTAG21x.signature", [], path=[(1, "body")], opaque={"self.transceive": TX},
         note="cut: body of the `try`: READ_SIG 3C 00, the answer as it is"),
    Spec(GROUP, "nxp_signature_fail", NXP, "NTAG21x.signature", [], path=[(1, ("handlers", 0))],
         note="cut: handler of the `try`: 32 zero octets on a tag command error"),
]
# ---------------------------------------------------------------- _format, _cfgpage
for _c in FORMAT_CLASSES:
    SPECS.append(Spec(GROUP, "nxp_%s_format" % _c.lower(), NXP, _c + "._format", [("version", INT), ("wipe", OPT(INT))],
                      binds=[("self.ndef", "ndef", OPT(BYTES))], stmts=(0, 2),
                      opaque={"self.write": WR, "super(%s, self)._format" % _c: ("base", [INT, OPT(INT)], BOOL, True)},
                      note="cut: the whole body; `self.ndef` (property) is bound (None = no management data found), the generic `_format` is a parameter"))
for _c, _k in CFGPAGE_CLASSES:
    SPECS.append(Spec(GROUP, "nxp_%s_cfgpage" % _c.lower(), NXP, _c + ".__init__", [("clf", INT), ("target", INT)],
                      stores=["self._cfgpage"], stmts=[_k], result=["self._cfgpage"],
                      note="cut: the configuration page number the constructor stores"))
SPECS += [
    # ---------------------------------------------------------------- NTAG I2C
    Spec(GROUP, "nxp_i2c_cfg0_page", NXP, "NTAGI2C._dump", [("stop", INT)], expr="stop & 256 | 232",
         note="partial cut (not `whole`): first argument of `tt2.pagedump`: page label of the configuration registers (sector 0 or 1)"),
    Spec(GROUP, "nxp_i2c_cfg1_page", NXP, "NTAGI2C._dump", [("stop", INT)], expr="stop & 256 | 233",
         note="partial cut (not `whole`): first argument of `tt2.pagedump`"),
    Spec(GROUP, "nxp_nt3h1101_dump", NXP, "NT3H1101.dump", [], opaque={"super(NT3H1101, self)._dump": ("dump", [INT], INT, True)},
         note="the lock page 226 of the 1K product (the dump lines are a token)"),
    Spec(GROUP, "nxp_nt3h1201_dump", NXP, "NT3H1201.dump", [], opaque={"super(NT3H1201, self)._dump": ("dump", [INT], INT, True)},
         note="the lock page 480 of the 2K product"),
    # ---------------------------------------------------------------- activate
    Spec(GROUP, "nxp_activate_ulc", NXP, "activate", [("clf", INT), ("target", INT), ("rsp", BYTES)], path=[(1, "body")],
         stmts=[2], ret=OPT(INT), opaque={"MifareUltralightC": ("mk", [INT, INT], INT, False)},
         note="cut: last statement of the first `try` body: an answer to AUTHENTICATE that starts with AF selects "
              "MifareUltralightC (objects are tokens; `none` = go on with GET_VERSION)"),
    Spec(GROUP, "nxp_activate_gone", NXP, "activate", [("target", INT)], whole=True, expr="clf.sense(target) is None",
         opaque={"clf.sense": ("sense", [INT], OPT(INT), True)},
         note="cut: the test `clf.sense(target) is None` (first of five occurrences with the same text): tag gone after a probe"),
    Spec(GROUP, "nxp_activate_nak", NXP, "activate", [("rsp", BYTES)], whole=True, expr='rsp == b"\\x00"',
         note="cut: the test that separates the NAK answer 00 to GET_VERSION (NTAG203 unless the tag is gone); the table "
              "lookup in front of it (`VERSION_MAP`, a dict) is not translated"),
    Spec(GROUP, "nxp_activate_plain", NXP, "activate", [("clf", INT), ("target", INT)], stmts=[4],
         opaque={"MifareUltralight": ("mk", [INT, INT], INT, False)},
         note="cut: the last statement: neither command answered but the tag is still there: plain Ultralight"),
]
P = "NfcVerif.FnBridge.Nxp."
R = "NfcVerif.NxpRef."
BRIDGE = {
    "module": "NfcVerif.Props.FnBridgeNxp",
    "theorems": [P + t for t in (
        # NTAG21x._authenticate
        "ntag_auth_try_bridge", "ntag_auth_fail_bridge", "ntag_authenticate_assembled", "ntag_authenticate_model",
        "gen_ntag_authenticate_true_iff",
        # MifareUltralightC._authenticate
        "ulc_auth_iv0_bridge", "ulc_auth_tail_iv_bridge", "ulc_rb0_bridge", "ulc_ra0_bridge", "ulc_auth_step2_fail_bridge",
        "ulc_auth_step2_bridge", "ulc_auth_head_bridge", "ulc_auth_plain_bridge", "ulc_auth_m3_bridge", "ulc_auth_tail_bridge", "ulc_auth_head_iv", "ulc_authenticate_bridge",
        "gen_ulc_authenticate_true_iff",
        # _protect
        "ulc_protect_bridge", "ntag_protect_bridge", "n203_protect_else_bridge", "ccAccess_gen", "ulc_protect_pw_bridge",
        "gen_ulc_protect_pages", "ntag_protect_pw_bridge", "ntagCfg_vendor", "ccReadOnly_gen", "ulc_lockbits_bridge",
        "n203_protect_bridge", "ntag_lockbits_bridge",
        # NDEF capability data
        "ulc_capdata_flags_bridge", "ntag_capdata_flags_bridge", "ulc_capdata_ret_bridge", "ntag_capdata_ret_bridge",
        "gen_capdata_unauthenticated", "gen_capdata_monotone",
        # signature, _format, configuration pages, NTAG I2C, activate
        "signature_try_bridge", "signature_fail_bridge", "format_gen", "ntag203_format_bridge", "ntag210_format_bridge",
        "ntag212_format_bridge", "ntag213_format_bridge", "ntag215_format_bridge", "ntag216_format_bridge", "gen_format_some",
        "cfgpage_table", "gen_ntag_cfg_writes_beyond", "i2c_cfg0_page_bridge", "i2c_cfg1_page_bridge", "nt3h1101_dump_bridge",
        "nt3h1201_dump_bridge", "activate_ulc_bridge", "activate_gone_bridge", "activate_nak_bridge",
        "activate_plain_bridge")] + [R + t for t in (
        # facts about the reference semantics Model/FnNxpRef.lean
        "ntagAuthenticate_true_iff", "ntagAuthenticate_tagCmd", "ulcAuthenticate_true_iff", "ulcAuthenticate_first_fails",
        "ulcProtectWrites_pages", "ulcKeyWrites_data", "ntagCfgWrites_pages", "ccAccess_no_write", "capFlags_unauthenticated",
        "capFlags_monotone", "formatNxp_some")],
    "properties": ["C20", "C03", "C16", "C01", "C08"],
}


def _b(rng, n):
    return bytes(rng.choice([0, 1, 0x08, 0x10, 0x40, 0x88, 0xE1, 0xFF, rng.randrange(256)]) for _ in range(n))


def inputs(rng, sp):
    out = []
    n = sp.lean
    if n == "nxp_ulc_auth_head":
        for k in (0, 1, 15, 16, 17, 32):
            for _ in range(6):
                out.append(([_b(rng, k)], [_b(rng, 8), _b(rng, 8), _b(rng, 16)]))
    if n == "nxp_ulc_auth_tail":
        for _ in range(40):
            out.append(([_b(rng, rng.choice([0, 1, 8, 9, 10])), _b(rng, rng.choice([0, 8, 15, 16, 17])), _b(rng, rng.choice([0, 1, 8, 9]))],
                        [_b(rng, 8), _b(rng, rng.choice([0, 1]))]))
    if n == "nxp_ulc_auth_plain":
        out += [([_b(rng, 8), _b(rng, k)], [_b(rng, rng.choice([0, 1]))]) for k in (0, 1, 7, 8, 9, 16)]
    if n in ("nxp_ulc_rb0", "nxp_ulc_ra0"):
        out += [([_b(rng, k)], []) for k in (0, 1, 8, 8, 9)]
    if n in ("nxp_ulc_auth_step2", "nxp_ulc_auth_tail_iv", "nxp_ulc_auth_m3"):
        out += [([_b(rng, k)], []) for k in (0, 7, 8, 9, 15, 16, 17, 24)]
    if n == "nxp_ntag_auth_try":
        out += [([_b(rng, k)], []) for k in (0, 3, 4, 5, 6, 6, 6, 7) for _ in range(4)]
    if n in ("nxp_ulc_protect", "nxp_ntag_protect", "nxp_n203_protect", "nxp_n203_protect_else"):
        for _ in range(30):
            out.append(([None if rng.random() < 0.4 else _b(rng, rng.choice([0, 6, 16])), rng.random() < 0.5, rng.choice([-1, 0, 3, 4, 48])], []))
    if n == "nxp_ulc_protect_pw":
        for _ in range(120):
            out.append(([_b(rng, rng.choice([0, 0, 1, 15, 16, 16, 17, 32])), rng.random() < 0.5, rng.choice([-5, 0, 2, 3, 4, 40, 48, 49, 256])],
                        [rng.choice([None, 0, 1, 7])]))
    if n == "nxp_ntag_protect_pw":
        for _ in range(160):
            out.append(([_b(rng, rng.choice([0, 0, 1, 5, 6, 6, 7, 16])), rng.random() < 0.5, rng.choice([-5, 0, 2, 3, 4, 41, 255, 256])],
                        [rng.choice([16, 37, 41, 131, 227]), rng.choice([None, 0, 1, 7])]))
    if n == "nxp_ntag_lockbits":
        out += [([], [c]) for c in (15, 16, 17, 37, 41, 131, 227) for _ in range(8)]
    if n.endswith("_capdata_flags") or n.endswith("_capdata_ret"):
        for _ in range(120):
            mem = bytearray(_b(rng, rng.choice([16, 16, 16, 16, 15, 12, 0])))
            if len(mem) > 15:
                mem[15] = rng.choice([0x00, 0x08, 0x80, 0x88, 0x0F, 0x8F, 0x18, mem[15]])
                if rng.random() < 0.6:
                    mem[10] = mem[11] = 0
            bv = [rng.random() < 0.4, rng.random() < 0.4, rng.random() < 0.7]
            if n.endswith("_ret"):
                bv.append(rng.random() < 0.8)
            out.append(([bytes(mem)], bv))
    if n.endswith("_format"):
        for _ in range(12):
            out.append(([rng.choice([0, 0x10, 0x12, 0x20]), rng.choice([None, 0, 0x5A, 255, 256])], [rng.choice([None, b"", b"\xd0\x00\x00"])]))
    if n in ("nxp_i2c_cfg0_page", "nxp_i2c_cfg1_page"):
        out += [([v], []) for v in (0, 226, 255, 256, 480, 511, 512, 1000)]
    if n == "nxp_activate_ulc":
        out += [([1, 2, v], []) for v in (b"", b"\xaf", b"\xaf" + bytes(8), b"\x00", b"\x1a\xaf", b"\xae\x01")]
    if n == "nxp_activate_nak":
        out += [([v], []) for v in (b"", b"\x00", b"\x00\x00", b"\x01", b"\x00\x04\x04\x02\x01\x00\x0f\x03")]
    return out


MUTATIONS = [
    # ---- NTAG21x._authenticate
    ("nxp_ntag_auth_try", "seeded C20-r5m4 (kind): only the first PACK octet is compared", "return rsp == key[4:6]", "return rsp[0:1] == key[4:5]"),
    ("nxp_ntag_auth_try", "PWD_AUTH sends three password octets", 'b"\\x1B" + key[0:4]', 'b"\\x1B" + key[0:3]'),
    ("nxp_ntag_auth_try", "any non-empty answer counts as PACK", "return rsp == key[4:6]", "return len(rsp) == 2"),
    ("nxp_ntag_auth_fail", "command error counts as authenticated", "        except tt2.Type2TagCommandError:\n            return False",
     "        except tt2.Type2TagCommandError:\n            return True"),
    # ---- MifareUltralightC._authenticate
    ("nxp_ulc_auth_plain", "RndB sent back without the rotation", "ra + rb[1:8] + (\n            struct.pack(\"B\", rb[0]) if isinstance(rb[0], int) else rb[0])",
     "ra + rb[0:7] + (\n            struct.pack(\"B\", rb[7]) if isinstance(rb[7], int) else rb[7])"),
    ("nxp_ulc_auth_plain", "RndB in front of RndA", "encrypt(ra + rb[1:8] + (", "encrypt(rb[1:8] + ra + ("),
    ("nxp_ulc_auth_head", "start value of the answer stays zero", "        iv = bytes(rsp[1:9])\n", "        iv = bytes(8)\n"),
    ("nxp_ulc_auth_head", "the challenge is drawn once per object", "        ra = os.urandom(8)\n",
     "        if getattr(self, '_ra', None) is None:\n            self._ra = os.urandom(8)\n        ra = self._ra\n"),
    ("nxp_ulc_auth_head", "first command code", 'self.transceive(b"\\x1A\\x00")', 'self.transceive(b"\\x1A\\x01")'),
    ("nxp_ulc_auth_head", "ek(RndB) taken without skipping the AF octet", "        m1 = bytes(rsp[1:9])", "        m1 = bytes(rsp[0:8])"),
    ("nxp_ulc_auth_tail", "RndA' compared without its last octet", "decrypt(m3) == ra[1:9] \\\n            + (struct.pack(\"B\", ra[0]) if isinstance(ra[0], int) else ra[0])",
     "decrypt(m3)[0:7] == ra[1:8]"),
    ("nxp_ulc_auth_tail", "RndA compared unrotated", "== ra[1:9] \\", "== ra[0:8] \\"),
    ("nxp_ulc_auth_tail_iv", "start value of the last decryption is the first block of m2", "        iv = m2[8:16]", "        iv = m2[0:8]"),
    ("nxp_ulc_auth_step2", "second command code", 'self.transceive(b"\\xAF" + m2)', 'self.transceive(b"\\xAE" + m2)'),
    ("nxp_ulc_auth_step2_fail", "command error of the second step counts as authenticated",
     "        except tt2.Type2TagCommandError:\n            return False\n\n        m3", "        except tt2.Type2TagCommandError:\n            return True\n\n        m3"),
    # ---- _protect
    ("nxp_ulc_protect_pw", "second key half written to the wrong page", "self.write(47, key2[4:8])", "self.write(43, key2[4:8])"),
    ("nxp_ulc_protect_pw", "key halves swapped", "self.write(44, key1[0:4])\n        self.write(45, key1[4:8])\n        self.write(46, key2[0:4])",
     "self.write(44, key2[0:4])\n        self.write(45, key1[4:8])\n        self.write(46, key1[0:4])"),
    ("nxp_ulc_protect_pw", "authentication with the password instead of the key", "return self.authenticate(key) if self.target else False", "return self.authenticate(password) if self.target else False"),
    ("nxp_ulc_protect_pw", "capability container changed also when protection starts at page 4", "if protect_from <= 3:", "if protect_from <= 4:"),
    ("nxp_ntag_protect_pw", "configuration written one page early", "self.write(self._cfgpage + i, cfg[i*4:(i+1)*4])", "self.write(self._cfgpage + i - 1, cfg[i*4:(i+1)*4])"),
    ("nxp_ntag_protect_pw", "PACK page not written", "for i in range(4):\n            self.write(self._cfgpage + i", "for i in range(3):\n            self.write(self._cfgpage + i"),
    ("nxp_ntag_protect_pw", "PWD/PACK position", "cfg[8:14] = key", "cfg[8:13] = key"),
    ("nxp_ntag_lockbits", "CFGLCK written to the AUTH0 page", "self.write(self._cfgpage + 1, cfgdata[4:8])", "self.write(self._cfgpage, cfgdata[4:8])"),
    ("nxp_ntag_lockbits", "dynamic lock bytes also for the 16 page products", "if self._cfgpage > 16:", "if self._cfgpage >= 16:"),
    ("nxp_ulc_lockbits", "dynamic lock page", 'self.write(40, b"\\xFF\\xFF\\x00\\x00")', 'self.write(41, b"\\xFF\\xFF\\x00\\x00")'),
    ("nxp_n203_protect", "counter page locked as well", 'self.write(40, b"\\xFF\\x01\\x00\\x00")', 'self.write(40, b"\\xFF\\x11\\x00\\x00")'),
    ("nxp_ntag_protect", "empty password treated like no password", "if password is None:", "if not password:"),
    # ---- NDEF capability data
    ("nxp_ntag_capdata_flags", "seeded C02/C16 kind: proprietary access counts without authentication", "if self.tag.is_authenticated:", "if True:"),
    ("nxp_ulc_capdata_flags", "writeable although lock bits are set", 'self._writeable = bool(tag_memory[10:12] == b"\\0\\0")', "self._writeable = True"),
    # ---- signature, _format, configuration pages, activate
    ("nxp_signature_try", "READ_SIG command code", 'self.transceive(b"\\x3C\\x00")', 'self.transceive(b"\\x3C\\x01")'),
    ("nxp_signature_fail", "length of the all-zero signature", '32 * b"\\0"', '31 * b"\\0"'),
    ("nxp_ntag213_format", "factory defaults written over existing management data", "if self.ndef is None:", "if True:"),
    ("nxp_ntag212_format", "lock control TLV of the NTAG212", "b'\\x01\\x03\\x90\\x0A'", "b'\\x01\\x03\\x90\\x0B'"),
    ("nxp_mf0ul21_cfgpage", "fix cb2a170 reverted in kind: configuration page of the 16 page product", "self._cfgpage = 37", "self._cfgpage = 16"),
    ("nxp_ntag215_cfgpage", "configuration page off by one", "self._cfgpage = 131", "self._cfgpage = 130"),
    ("nxp_i2c_cfg0_page", "sector bit of the register page label", "stop & 256 | 232", "stop & 512 | 232"),
    ("nxp_activate_ulc", "AF accepted anywhere in the answer", 'rsp.startswith(b"\\xAF")', 'b"\\xAF" in rsp'),
    ("nxp_activate_nak", "every one-octet answer counts as the NTAG203 NAK", 'if rsp == b"\\x00":', "if len(rsp) == 1:"),
    ("nxp_activate_gone", "presence check inverted", "        if clf.sense(target) is None:\n            return\n        if rsp.startswith",
     "        if clf.sense(target) is not None:\n            return\n        if rsp.startswith"),
    ("nxp_ulc_auth_m3", "ek(RndA') taken without skipping the status octet", "        m3 = bytes(rsp[1:9])", "        m3 = bytes(rsp[0:8])"),
]
