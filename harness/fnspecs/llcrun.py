"""group LlcRun: data decisions of the link controller run loop in nfc/llcp/llc.py (`LogicalLinkController.dispatch`,
`collect`, `exchange`, `run_as_initiator` / `run_as_target`, `terminate`, `ServiceAccessPoint.enqueue` / `insert_socket` /
`remove_socket` / `mode`) -> Model/PeerDispatch.lean, Model/Sap.lean, Model/Collect.lean, Model/Term.lean,
Model/FnLlcRunRef.lean (C07, C09, C10).

Which exception handler does what is the exception-flow tie; translated here are the DATA decisions: every condition,
table lookup and constant that routes a received PDU, selects the socket of a service access point, decides what
`collect()` aggregates, and drives the run loops.  PDU / socket / SAP objects are not modelled: every attribute read is a
parameter (`binds`); `rcvd_pdu.name` is the class constant `name` of the PDU class as a str.  `Lemmas/FnBridgeLlcRun.lean`
restates `Peer.dispatch`, `Peer.sapEnqueue`, `Sap.target`, `Collect.collect` (top level, `rawFirst`, `firstSendack`,
`aggAcks`) with the regenerated pieces; `Props/FnBridgeLlcRun.lean` proves them equal to the model functions.
Group Llc (harness/fnspecs/llc.py) has the arithmetic of `collect` (budget, ICV, first-PDU-full test), the DM reason and the
'no such service' test of connect-by-name; they are reused here (`Gen.Fn.llc_*`).
Condition cuts are `whole=True`: the expression must be the COMPLETE test of its `if` / `while` / conditional
expression / assert (or the whole value of its statement, the iterable of its `for`), so wrapping it (`c is True`,
`c or x`) breaks the bridge; the few cuts that are operands of a larger test say so in their note.
Not translated: the `for .. else` loops over `sock_list` (for/else), `socket.enqueue/dequeue` (group Tco), the
key agreement itself, float arithmetic of the timeouts.
"""
from translate_fn import Spec, INT, BOOL, BYTES, STR, OPT, LIST
GROUP = "LlcRun"
ORDER = 71
F = "llcp/llc.py"
LLC = "LogicalLinkController."
SAP = "ServiceAccessPoint."
_NAME = [("rcvd_pdu.name", "name", STR)]
_SENDNAME = [("self.sec", "has_sec", BOOL), ("send_pdu.name", "name", STR)]
SPECS = [
    # dispatch
    Spec(GROUP, "lr_dispatch_ignore", F, LLC + "dispatch", [], binds=[("rcvd_pdu is None", "is_none", BOOL)] + _NAME,
         whole=True, expr="rcvd_pdu is None or rcvd_pdu.name == 'SYMM'", note='cut: the test that ignores None and SYMM; `rcvd_pdu is None` is a bool parameter, `name` any str then'),
    Spec(GROUP, "lr_dispatch_is_agf", F, LLC + "dispatch", [], binds=_NAME, whole=True, expr="rcvd_pdu.name == 'AGF'", note='cut: the test for an aggregated frame'),
    Spec(GROUP, "lr_dispatch_agf_ok", F, LLC + "dispatch", [], binds=[("rcvd_pdu.dsap", "dsap", INT), ("rcvd_pdu.ssap", "ssap", INT)],
         whole=True, expr="rcvd_pdu.dsap == 0 and rcvd_pdu.ssap == 0", note='cut: an aggregate is unpacked only when addressed 0 -> 0'),
    Spec(GROUP, "lr_dispatch_by_name", F, LLC + "dispatch", [], binds=_NAME + [("rcvd_pdu.dsap", "dsap", INT)],
         whole=True, expr="rcvd_pdu.name == 'CONNECT' and rcvd_pdu.dsap == 1", note='cut: the connect-by-name test (CONNECT to the service discovery address 1)'),
    Spec(GROUP, "lr_dispatch_decrypt", F, LLC + "dispatch", [], binds=[("self.sec", "has_sec", BOOL)] + _NAME,
         whole=True, expr="self.sec and rcvd_pdu.name in ('UI', 'I')", ret=BOOL, note='cut: which received PDUs are decrypted (truth value); `self.sec` (cipher or None) as a bool'),
    Spec(GROUP, "lr_dispatch_sap_at", F, LLC + "dispatch", [], binds=[("self.sap", "sap_table", LIST(OPT(INT))), ("rcvd_pdu.dsap", "dsap", INT)],
         whole=True, expr="self.sap[rcvd_pdu.dsap]", note='cut: the table lookup `self.sap[rcvd_pdu.dsap]` (IndexError outside the table); an entry is None or a marker'),
    Spec(GROUP, "lr_dispatch_sap_ok", F, LLC + "dispatch", [("sap", OPT(INT))], path=[(4, "body")], stmts=[1], whole=True, expr="sap", ret=BOOL, note='cut: the test `if sap:` of the entry found (truth value; a service access point object is never false: marker != 0)'),
    # enqueue
    Spec(GROUP, "lr_enqueue_peer_sel", F, SAP + "enqueue", [], binds=[("rcvd_pdu.ssap", "ssap", INT), ("socket.peer is None", "peer_none", BOOL), ("socket.peer", "peer", INT)],
         whole=True, expr="rcvd_pdu.ssap == socket.peer or socket.peer is None", note='cut: the socket selected for a non-CONNECT PDU: peer matches or socket not connected; the None test of `socket.peer` is a bool parameter, its value an int (any int when None)'),
    Spec(GROUP, "lr_enqueue_dm_no_listener", F, SAP + "enqueue", [], binds=[("rcvd_pdu.ssap", "ssap", INT), ("rcvd_pdu.dsap", "dsap", INT)],
         path=[(0, "body"), (0, "body"), (0, "orelse")], stmts=[0], result=["args"], note='cut: the DM(reason 02h) arguments when no socket listens'),
    Spec(GROUP, "lr_enqueue_dm_no_peer", F, SAP + "enqueue", [], binds=[("rcvd_pdu.ssap", "ssap", INT), ("rcvd_pdu.dsap", "dsap", INT)],
         path=[(0, "body"), (0, "orelse"), (0, "orelse"), (0, "body")], stmts=[0], result=["args"], note='cut: the DM(reason 01h) arguments when no socket matches a connection-oriented PDU'),
    # insert_socket / mode
    Spec(GROUP, "lr_insert_socket", F, SAP + "insert_socket", [("socket", INT)],
         binds=[("self.sock_list", "sock_list", LIST(INT))], stores=["self.sock_list"], path=[(0, "body"), (1, "body")],
         stmts=[1], result=["self.sock_list"],
         note="cut: the statement that enters an insertable socket (second statement of the `if insertable:` body): it goes "
              "to the FRONT of `sock_list` (sockets as int markers); result: sock_list"),
    Spec(GROUP, "lr_remove_socket", F, SAP + "remove_socket", [("socket", INT)],
         binds=[("self.sock_list", "sock_list", LIST(INT))], stores=["self.sock_list"], path=[(2, "body"), (0, "body")],
         result=["self.sock_list"],
         note="cut: the `try` body inside the lock: the socket is taken out of `sock_list` (ValueError when absent: the "
              "handler ignores it); result: sock_list"),
    Spec(GROUP, "lr_sap_mode", F, SAP + "mode", [],
         binds=[("isinstance(self.sock_list[0], tco.RawAccessPoint)", "is_raw", BOOL),
                ("isinstance(self.sock_list[0], tco.LogicalDataLink)", "is_ldl", BOOL),
                ("isinstance(self.sock_list[0], tco.DataLinkConnection)", "is_dlc", BOOL)],
         path=[(0, "body"), (0, "body")], ret=OPT(INT), note='cut: the `try` body of the `mode` property: the three isinstance tests on `self.sock_list[0]` are bool parameters (their IndexError for an empty list is the handler, lr_sap_mode_empty); None = falls off the end'),
    Spec(GROUP, "lr_sap_mode_empty", F, SAP + "mode", [], path=[(0, "body"), (0, ("handlers", 0))], note='cut: the `except IndexError` handler: a SAP without sockets reports mode 0 (= RAW_ACCESS_POINT)'),
    Spec(GROUP, "lr_remove_last", F, SAP + "remove_socket", [], binds=[("self.sock_list", "sock_list", LIST(INT))],
         whole=True, expr="len(self.sock_list) == 0", note='cut: the SAP is removed when its last socket is gone; `self.sock_list` as a list of markers'),
    Spec(GROUP, "lr_remove_name", F, SAP + "remove_socket", [("addr", INT)], binds=[("self.addr", "own", INT)],
         whole=True, expr="addr == self.addr", note='cut: which service names are deleted with the SAP (`addr` is the loop variable)'),
    # collect
    Spec(GROUP, "lr_collect_raw_key", F, LLC + "collect", [], binds=[("sap.mode", "mode", INT)], expr="sap.mode == RAW_ACCESS_POINT", note='cut: the sort key of the first loop (raw access points first)'),
    Spec(GROUP, "lr_collect_dlc_mode0", F, LLC + "collect", [], binds=[("sap.mode", "mode", INT)], whole=True, expr="sap.mode == DATA_LINK_CONNECTION", nth=0, note='cut: voluntary acknowledgement only from data link connection SAPs (first occurrence: nothing dequeued)'),
    Spec(GROUP, "lr_collect_dlc_mode1", F, LLC + "collect", [], binds=[("sap.mode", "mode", INT)], whole=True, expr="sap.mode == DATA_LINK_CONNECTION", nth=1, note='cut: voluntary acknowledgement only from data link connection SAPs (second occurrence: end of aggregation)'),
    Spec(GROUP, "lr_collect_encrypt0", F, LLC + "collect", [], binds=_SENDNAME, whole=True, expr="self.sec and send_pdu.name in ('UI', 'I')", nth=0, ret=BOOL, note='cut: which PDUs are encrypted, first loop (truth value); `self.sec` as a bool'),
    Spec(GROUP, "lr_collect_encrypt1", F, LLC + "collect", [], binds=_SENDNAME, whole=True, expr="self.sec and send_pdu.name in ('UI', 'I')", nth=1, ret=BOOL, note='cut: which PDUs are encrypted, aggregation loop (truth value)'),
    Spec(GROUP, "lr_collect_no_agf", F, LLC + "collect", [], binds=[("send_pdu is None", "nothing", BOOL), ("self.cfg['send-agf']", "agf", BOOL)],
         whole=True, expr="send_pdu is None or self.cfg['send-agf'] is False", note='cut: return without aggregation; `send_pdu is None` is a bool parameter'),
    Spec(GROUP, "lr_collect_loop_go", F, LLC + "collect", [("miu_size", INT)], whole=True, expr="miu_size >= 0", nth=0, note='cut: condition of the aggregation `while`'),
    Spec(GROUP, "lr_collect_pass_stop", F, LLC + "collect", [("miu_size", INT)], whole=True, expr="miu_size < 0", nth=0, note='cut: the `break` inside the aggregation pass (first `miu_size < 0`)'),
    Spec(GROUP, "lr_collect_loop_stop", F, LLC + "collect", [("miu_size", INT), ("deq_none", BOOL)], whole=True, expr="miu_size < 0 or deq_none", note='cut: the `break` behind an aggregation pass'),
    Spec(GROUP, "lr_collect_acks_go", F, LLC + "collect", [("miu_size", INT)], whole=True, expr="miu_size >= 0", nth=1, note='cut: acknowledgements are added only with budget left (second `miu_size >= 0`)'),
    Spec(GROUP, "lr_collect_acks_stop", F, LLC + "collect", [("miu_size", INT)], whole=True, expr="miu_size < 0", nth=1,
         note='cut: the `break` of the acknowledgement loop (second whole test `miu_size < 0`; the occurrence inside `miu_size < 0 or deq_none` is lr_collect_loop_stop)'),
    Spec(GROUP, "lr_collect_result", F, LLC + "collect", [], binds=[("agf_pdu.count", "count", INT)],
         whole=True, expr="agf_pdu.count > 1", note="cut: an aggregate is sent only with more than one PDU in it (else the PDU itself)"),
    # exchange
    Spec(GROUP, "lr_exchange_has_data", F, LLC + "exchange", [("rcvd_data", OPT(BYTES))], whole=True, expr="rcvd_data is not None", note='cut: a PDU is decoded only when the MAC returned data'),
    # run loops
    Spec(GROUP, "lr_run_timeout_ms", F, LLC + "run_as_initiator", [], binds=[("self.cfg['recv-lto']", "recv_lto", INT)],
         expr="self.cfg['recv-lto'] + 10", note='cut: the integer part of the receive timeout (milliseconds; the factor 1E-3 is float arithmetic, not translated)'),
    Spec(GROUP, "lr_run_timeout_ms_t", F, LLC + "run_as_target", [], binds=[("self.cfg['recv-lto']", "recv_lto", INT)],
         expr="self.cfg['recv-lto'] + 10", note='cut: the same in run_as_target'),
    Spec(GROUP, "lr_run_secure", F, LLC + "run_as_initiator", [], binds=[("self.cfg['llcp-dpc']", "dpc", INT)], whole=True, expr="self.cfg['llcp-dpc'] == 1", note='cut: the key agreement runs iff the negotiated DPC is 1'),
    Spec(GROUP, "lr_run_secure_t", F, LLC + "run_as_target", [], binds=[("self.cfg['llcp-dpc']", "dpc", INT)], whole=True, expr="self.cfg['llcp-dpc'] == 1", note='cut: the same in run_as_target'),
    Spec(GROUP, "lr_run_ecpk_bad", F, LLC + "run_as_initiator", [], binds=[("rcvd_dps.ecpk", "ecpk", BYTES)],
         whole=True, expr="not (rcvd_dps.ecpk and len(rcvd_dps.ecpk) == 64)", note='cut: the ECPK check of the received DPS PDU; None behaves like the empty string'),
    Spec(GROUP, "lr_run_rn_bad", F, LLC + "run_as_initiator", [], binds=[("rcvd_dps.rn", "rn", BYTES)],
         whole=True, expr="not (rcvd_dps.rn and len(rcvd_dps.rn) == 8)", note='cut: the RN check of the received DPS PDU; None behaves like the empty string'),
    Spec(GROUP, "lr_run_ecpk_bad_t", F, LLC + "run_as_target", [], binds=[("rcvd_dps.ecpk", "ecpk", BYTES)],
         whole=True, expr="not (rcvd_dps.ecpk and len(rcvd_dps.ecpk) == 64)", note='cut: the same in run_as_target'),
    Spec(GROUP, "lr_run_rn_bad_t", F, LLC + "run_as_target", [], binds=[("rcvd_dps.rn", "rn", BYTES)],
         whole=True, expr="not (rcvd_dps.rn and len(rcvd_dps.rn) == 8)", note='cut: the same in run_as_target'),
    Spec(GROUP, "lr_run_go_on", F, LLC + "run_as_initiator", [], binds=[("terminate()", "terminated", BOOL)], whole=True, expr="not terminate()", note='cut: condition of the run loop'),
    Spec(GROUP, "lr_run_go_on_t", F, LLC + "run_as_target", [], binds=[("terminate()", "terminated", BOOL)], whole=True, expr="not terminate()", note='cut: the same in run_as_target'),
    Spec(GROUP, "lr_run_symm_count", F, LLC + "run_as_initiator", [("symm", INT)], binds=_NAME,
         path=[(4, "body"), (3, "body")], stmts=[4], result=["symm"], note='cut: the SYMM counter update (statement 4 of the loop body); result: symm'),
    Spec(GROUP, "lr_run_symm_count_t", F, LLC + "run_as_target", [("symm", INT)], binds=[("isinstance(rcvd_pdu, pdu.Symmetry)", "is_symm", BOOL)],
         path=[(4, "body"), (2, "body")], stmts=[2], result=["symm"], note='cut: the SYMM counter update of run_as_target (statement 2 of the loop body; the isinstance test is a bool parameter)'),
    Spec(GROUP, "lr_run_idle", F, LLC + "run_as_initiator", [("symm", INT)], binds=[("send_pdu is None", "nothing", BOOL)],
         whole=True, expr="send_pdu is None and symm >= 10", note='cut: the long collect delay after ten SYMM PDUs with nothing to send; `send_pdu is None` is a bool parameter'),
    Spec(GROUP, "lr_run_idle_t", F, LLC + "run_as_target", [("symm", INT)], binds=[("send_pdu is None", "nothing", BOOL)],
         whole=True, expr="send_pdu is None and symm >= 10", note='cut: the same in run_as_target'),
    Spec(GROUP, "lr_run_finally", F, LLC + "run_as_initiator", [], binds=[("self.link.SHUTDOWN", "shutdown", BOOL)],
         whole=True, expr="not self.link.SHUTDOWN", note='cut: the `finally` clause terminates unless the link is already SHUTDOWN'),
    Spec(GROUP, "lr_run_finally_t", F, LLC + "run_as_target", [], binds=[("self.link.SHUTDOWN", "shutdown", BOOL)],
         whole=True, expr="not self.link.SHUTDOWN", note='cut: the same in run_as_target'),
    # terminate
    Spec(GROUP, "lr_terminate_order", F, LLC + "terminate", [], whole=True, expr="range(63, -1, -1)", note='cut: the order in which terminate() shuts the service access points down'),
    Spec(GROUP, "lr_terminate_live", F, LLC + "terminate", [("i", INT)], binds=[("self.sap", "sap_table", LIST(OPT(INT)))],
         whole=True, expr="not self.sap[i] is None", note='cut: only live table entries are shut down; `self.sap` as a list of None / markers'),
    Spec(GROUP, "lr_terminate_disc", F, LLC + "terminate", [], binds=[("self.link.DISCONNECT", "disconnect", BOOL)],
         whole=True, expr="self.link.DISCONNECT is True", note='cut: a DISC PDU is sent only after a local decision to disconnect'),
]
P = "NfcVerif.FnBridge.LlcRun."
BRIDGE = {
    "module": "NfcVerif.Props.FnBridgeLlcRun",
    "theorems": [P + t for t in (
        "idx_nat", "peer_sel_bridge", "dm_args_bridge", "sap_enqueue_bridge", "deliver_bridge", "reject_by_name_bridge",
        "name_tests_bridge", "dispatch_s_bridge", "dispatch_all_bridge", "dispatch_bridge", "gen_dispatch_total",
        "gen_dispatch_never_waits", "sap_target_bridge", "insert_socket_bridge", "remove_socket_bridge",
        "remove_last_bridge", "sap_mode_bridge", "mode_tests_bridge", "run_timeout_bridge", "gen_timeout_exceeds_lto",
        "run_dps_bridge", "gen_bad_dps_terminates", "run_symm_bridge", "run_idle_bridge", "crypto_bridge",
        "gen_decrypt_iff_encrypt", "run_finally_bridge", "run_go_on_bridge", "terminate_order_bridge", "gen_term_steps",
        "terminate_live_bridge", "raw_first_bridge", "first_sendack_bridge", "icv_bridge", "encrypt_bridge",
        "agg_pass_bridge", "agg_loop_bridge", "agg_acks_bridge", "aggregate_bridge", "collect_bridge", "misc_bridge",
        "gen_late_bind_never_leaks", "gen_collect_frame_bound")],
    "properties": ["C07", "C09", "C10", "C18"],
}
NAMES = ["SYMM", "PAX", "AGF", "UI", "CONNECT", "DISC", "CC", "DM", "FRMR", "SNL", "DPS", "I", "RR", "RNR", "0010", "1111"]


def inputs(rng, sp):
    out = []
    n = sp.lean
    if n == "lr_dispatch_ignore":
        out += [([], [b, nm]) for b in (False, True) for nm in NAMES]
    if n == "lr_dispatch_is_agf":
        out += [([], [nm]) for nm in NAMES]
    if n == "lr_dispatch_agf_ok":
        out += [([], [d, s_]) for d in (0, 1, 32, 63) for s_ in (0, 1, 32, 63)]
    if n == "lr_dispatch_by_name":
        out += [([], [nm, d]) for nm in NAMES for d in (0, 1, 2, 4, 63)]
    if n in ("lr_dispatch_decrypt", "lr_collect_encrypt0", "lr_collect_encrypt1"):
        out += [([], [b, nm]) for b in (False, True) for nm in NAMES]
    if n == "lr_dispatch_sap_at":
        tab = [None] * 64
        tab[0] = tab[1] = tab[4] = tab[32] = 1
        out += [([], [tab, d]) for d in (0, 1, 2, 4, 31, 32, 33, 63, 64, 65, 100, -1, -64, -65)]
        out += [([], [[1, None, 2], d]) for d in (0, 1, 2, 3, -1, -3, -4)]
    if n == "lr_dispatch_sap_ok":
        out += [([v], []) for v in (None, 1, 2, 0)]
    if n == "lr_enqueue_peer_sel":
        out += [([], [s_, pn, p]) for s_ in (0, 1, 16, 32, 63) for pn in (False, True) for p in (0, 1, 16, 32, 63)]
    if n in ("lr_enqueue_dm_no_listener", "lr_enqueue_dm_no_peer"):
        out += [([], [a, b]) for a in (0, 1, 32, 63) for b in (0, 4, 16, 63)]
    if n == "lr_insert_socket":
        out += [([s_], [l]) for s_ in (1, 7) for l in ([], [3], [3, 5], [7, 7])]
    if n == "lr_remove_socket":
        out += [([s_], [l]) for s_ in (1, 7) for l in ([], [7], [3, 7, 5], [7, 3, 7], [3, 5])]
    if n == "lr_sap_mode":
        out += [([], [a, b, c]) for a in (False, True) for b in (False, True) for c in (False, True)]
    if n == "lr_remove_last":
        out += [([], [l]) for l in ([], [1], [1, 2])]
    if n == "lr_remove_name":
        out += [([a], [b]) for a in (0, 1, 16, 32) for b in (0, 1, 16, 32)]
    if n in ("lr_collect_raw_key", "lr_collect_dlc_mode0", "lr_collect_dlc_mode1"):
        out += [([], [m]) for m in (0, 1, 2, 3)]
    if n == "lr_collect_no_agf":
        out += [([], [a, b]) for a in (False, True) for b in (False, True)]
    if n in ("lr_collect_loop_go", "lr_collect_pass_stop", "lr_collect_acks_go", "lr_collect_acks_stop"):
        out += [([m], []) for m in (-3, -1, 0, 1, 125)]
    if n == "lr_collect_loop_stop":
        out += [([m, b], []) for m in (-3, -1, 0, 1, 125) for b in (False, True)]
    if n == "lr_collect_result":
        out += [([], [c]) for c in (0, 1, 2, 3)]
    if n == "lr_exchange_has_data":
        out += [([v], []) for v in (None, b"", b"\x00\x00")]
    if n in ("lr_run_timeout_ms", "lr_run_timeout_ms_t"):
        out += [([], [v]) for v in (0, 10, 100, 500, 2550)]
    if n in ("lr_run_secure", "lr_run_secure_t"):
        out += [([], [v]) for v in (0, 1, 2)]
    if n in ("lr_run_ecpk_bad", "lr_run_ecpk_bad_t"):
        out += [([], [bytes(k)]) for k in (0, 1, 63, 64, 65, 128)]
    if n in ("lr_run_rn_bad", "lr_run_rn_bad_t"):
        out += [([], [bytes(k)]) for k in (0, 1, 7, 8, 9, 16)]
    if n in ("lr_run_go_on", "lr_run_go_on_t", "lr_run_finally", "lr_run_finally_t", "lr_terminate_disc"):
        out += [([], [False]), ([], [True])]
    if n == "lr_run_symm_count":
        out += [([k], [nm]) for k in (0, 9, 10) for nm in NAMES]
    if n == "lr_run_symm_count_t":
        out += [([k], [b]) for k in (0, 9, 10) for b in (False, True)]
    if n in ("lr_run_idle", "lr_run_idle_t"):
        out += [([k], [b]) for k in (0, 9, 10, 11) for b in (False, True)]
    if n == "lr_terminate_live":
        tab = [None] * 64
        tab[0] = tab[1] = tab[63] = 1
        out += [([i], [tab]) for i in (0, 1, 2, 62, 63, 64, -1)]
    return out


def accept(sp, pv, bv):
    return True


MUTATIONS = [
    ("lr_insert_socket", "lead seed: a new socket is appended behind the older ones (peer matching order of enqueue)",
     "self.sock_list.appendleft(socket)", "self.sock_list.append(socket)"),
    ("lr_enqueue_peer_sel", "unconnected sockets no longer receive", "if rcvd_pdu.ssap == socket.peer or socket.peer is None:",
     "if rcvd_pdu.ssap == socket.peer:"),
    ("lr_enqueue_peer_sel", "peer compared with the destination address", "rcvd_pdu.ssap == socket.peer or", "rcvd_pdu.dsap == socket.peer or"),
    ("lr_enqueue_dm_no_listener", "DM reason for a CONNECT without listener", "args = (rcvd_pdu.ssap, rcvd_pdu.dsap, 0x02)", "args = (rcvd_pdu.ssap, rcvd_pdu.dsap, 0x03)"),
    ("lr_enqueue_dm_no_peer", "DM addresses not swapped", "args = (rcvd_pdu.ssap, rcvd_pdu.dsap, 0x01)", "args = (rcvd_pdu.dsap, rcvd_pdu.ssap, 0x01)"),
    ("lr_dispatch_ignore", "SYMM PDUs dispatched", "if rcvd_pdu is None or rcvd_pdu.name == \"SYMM\":", "if rcvd_pdu is None:"),
    ("lr_dispatch_agf_ok", "aggregates with any source address unpacked", "if rcvd_pdu.dsap == 0 and rcvd_pdu.ssap == 0:", "if rcvd_pdu.dsap == 0:"),
    ("lr_dispatch_by_name", "connect-by-name address", "rcvd_pdu.name == \"CONNECT\" and rcvd_pdu.dsap == 1", "rcvd_pdu.name == \"CONNECT\" and rcvd_pdu.dsap == 0"),
    ("lr_dispatch_decrypt", "only I PDUs decrypted", "if self.sec and rcvd_pdu.name in (\"UI\", \"I\"):", "if self.sec and rcvd_pdu.name in (\"I\", \"I\"):"),
    ("lr_dispatch_sap_at", "table indexed by the source address", "sap = self.sap[rcvd_pdu.dsap]", "sap = self.sap[rcvd_pdu.ssap]"),
    ("lr_sap_mode", "mode constants of LDL and DLC swapped", "return LOGICAL_DATA_LINK\n                if isinstance(self.sock_list[0], tco.DataLinkConnection):\n                    return DATA_LINK_CONNECTION",
     "return DATA_LINK_CONNECTION\n                if isinstance(self.sock_list[0], tco.DataLinkConnection):\n                    return LOGICAL_DATA_LINK"),
    ("lr_sap_mode_empty", "mode of an empty SAP", "except IndexError:\n                return 0", "except IndexError:\n                return 1"),
    ("lr_remove_socket", "NEUTRAL comment in remove_socket", "# completely remove this sap", "# remove this sap completely"),
    ("lr_remove_last", "SAP removed while a socket is left", "if len(self.sock_list) == 0:", "if len(self.sock_list) <= 1:"),
    ("lr_remove_name", "all service names deleted", "if addr == self.addr:", "if addr >= 0:"),
    ("lr_collect_raw_key", "data link connections sorted first", "key=lambda sap: sap.mode == RAW_ACCESS_POINT", "key=lambda sap: sap.mode == DATA_LINK_CONNECTION"),
    ("lr_collect_encrypt1", "aggregated UI PDUs not encrypted",
     "deq_none = False\n                        if self.sec and send_pdu.name in (\"UI\", \"I\"):", "deq_none = False\n                        if self.sec and send_pdu.name in (\"I\",):"),
    ("lr_collect_no_agf", "aggregation although send-agf is False", "if send_pdu is None or self.cfg['send-agf'] is False:", "if send_pdu is None:"),
    ("lr_collect_loop_go", "aggregation loop needs a positive budget", "while miu_size >= 0:", "while miu_size > 0:"),
    ("lr_collect_loop_stop", "aggregation goes on after an empty pass", "if miu_size < 0 or deq_none:", "if miu_size < 0:"),
    ("lr_collect_result", "a single PDU sent as an aggregate", "return agf_pdu if agf_pdu.count > 1 else agf_pdu.first", "return agf_pdu if agf_pdu.count > 0 else agf_pdu.first"),
    ("lr_exchange_has_data", "empty data treated as no data", "if rcvd_data is not None:", "if rcvd_data:"),
    ("lr_run_timeout_ms", "receive timeout without margin", "recv_timeout = 1E-3 * (self.cfg['recv-lto'] + 10)", "recv_timeout = 1E-3 * (self.cfg['recv-lto'] - 10)"),
    ("lr_run_ecpk_bad", "ECPK length", "len(rcvd_dps.ecpk) == 64", "len(rcvd_dps.ecpk) == 32"),
    ("lr_run_rn_bad_t", "RN length check dropped on the target", "if not (rcvd_dps.rn and len(rcvd_dps.rn) == 8):", "if not rcvd_dps.rn:"),
    ("lr_run_symm_count", "SYMM counter counts every PDU", "symm += 1 if rcvd_pdu.name == \"SYMM\" else 0", "symm += 1"),
    ("lr_run_idle_t", "idle threshold", "if send_pdu is None and symm >= 10:", "if send_pdu is None and symm >= 1:"),
    ("lr_run_finally", "finally clause terminates only when SHUTDOWN", "if not self.link.SHUTDOWN:", "if self.link.SHUTDOWN:"),
    ("lr_terminate_order", "address 0 not shut down", "for i in range(63, -1, -1):", "for i in range(63, 0, -1):"),
    ("lr_terminate_disc", "DISC sent in every termination", "if self.link.DISCONNECT is True:", "if self.link.DISCONNECT is not None:"),
    ("lr_run_secure", "NEUTRAL key agreement test written the other way round", "if self.cfg['llcp-dpc'] == 1:", "if 1 == self.cfg['llcp-dpc']:"),
]
