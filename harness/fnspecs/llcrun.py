"""group LlcRun: data decisions of the link controller run loop in nfc/llcp/llc.py (`LogicalLinkController.dispatch`,
`collect`, `exchange`, `run_as_initiator` / `run_as_target`, `terminate`, `ServiceAccessPoint.enqueue` / `insert_socket` /
`remove_socket` / `mode`) -> Model/PeerDispatch.lean, Model/Sap.lean, Model/Collect.lean, Model/Term.lean,
Model/FnLlcRunRef.lean (C07, C09, C10).

Which exception handler does what is the exception-flow tie; translated here are the DATA decisions: every condition,
table lookup and constant that routes a received PDU, selects the socket of a service access point, decides what
`collect()` aggregates, and drives the run loops.  PDU / socket / SAP objects are not modelled: every attribute read is a
parameter (`binds`); `rcvd_pdu.name` is the class constant `name` of the PDU class as a str.  `Lemmas/FnBridgeLlcRun.lean`
restates `Peer.dispatch`, `Peer.sapEnqueue`, `Sap.target`, `Collect.collect` (top level, `rawFirst`, `firstSendack`,
`aggAcks`) with the regenerated pieces; `Props/FnBridgeLlcRun.lean` proves them equal to the model functions.
Group Llc (harness/fnspecs/llc.py) has the arithmetic of `collect` (budget, ICV, first-PDU-full test), the DM reason and the
'no such service' test of connect-by-name; they are reused here (`Gen.Fn.llc_*`).
Not translated: the `for .. else` loops over `sock_list` (for/else), `socket.enqueue/dequeue` (group Tco), the
key agreement itself, float arithmetic of the timeouts.
"""
from translate_fn import Spec, INT, BOOL, BYTES, STR, OPT, LIST
GROUP = "LlcRun"
ORDER = 71
F = "llcp/llc.py"
LLC = "LogicalLinkController."
SAP = "ServiceAccessPoint."
_NAME = [("rcvd_pdu.name", "name", STR)]
_SENDNAME = [("self.sec", "has_sec", BOOL), ("send_pdu.name", "name", STR)]
SPECS = [
    # dispatch
    Spec(GROUP, "lr_dispatch_ignore", F, LLC + "dispatch", [], binds=[("rcvd_pdu is None", "is_none", BOOL)] + _NAME,
         expr="rcvd_pdu is None or rcvd_pdu.name == 'SYMM'", note='cut: the test that ignores None and SYMM; `rcvd_pdu is None` is a bool parameter, `name` any str then'),
    Spec(GROUP, "lr_dispatch_is_agf", F, LLC + "dispatch", [], binds=_NAME, expr="rcvd_pdu.name == 'AGF'", note='cut: the test for an aggregated frame'),
    Spec(GROUP, "lr_dispatch_agf_ok", F, LLC + "dispatch", [], binds=[("rcvd_pdu.dsap", "dsap", INT), ("rcvd_pdu.ssap", "ssap", INT)],
         expr="rcvd_pdu.dsap == 0 and rcvd_pdu.ssap == 0", note='cut: an aggregate is unpacked only when addressed 0 -> 0'),
    Spec(GROUP, "lr_dispatch_by_name", F, LLC + "dispatch", [], binds=_NAME + [("rcvd_pdu.dsap", "dsap", INT)],
         expr="rcvd_pdu.name == 'CONNECT' and rcvd_pdu.dsap == 1", note='cut: the connect-by-name test (CONNECT to the service discovery address 1)'),
    Spec(GROUP, "lr_dispatch_decrypt", F, LLC + "dispatch", [], binds=[("self.sec", "has_sec", BOOL)] + _NAME,
         expr="self.sec and rcvd_pdu.name in ('UI', 'I')", ret=BOOL, note='cut: which received PDUs are decrypted (truth value); `self.sec` (cipher or None) as a bool'),
    Spec(GROUP, "lr_dispatch_sap_at", F, LLC + "dispatch", [], binds=[("self.sap", "sap_table", LIST(OPT(INT))), ("rcvd_pdu.dsap", "dsap", INT)],
         expr="self.sap[rcvd_pdu.dsap]", note='cut: the table lookup `self.sap[rcvd_pdu.dsap]` (IndexError outside the table); an entry is None or a marker'),
    Spec(GROUP, "lr_dispatch_sap_ok", F, LLC + "dispatch", [("sap", OPT(INT))], path=[(4, "body")], stmts=[1], expr="sap", ret=BOOL, note='cut: the test `if sap:` of the entry found (truth value; a service access point object is never false: marker != 0)'),
    # enqueue
    Spec(GROUP, "lr_enqueue_peer_sel", F, SAP + "enqueue", [], binds=[("rcvd_pdu.ssap", "ssap", INT), ("socket.peer is None", "peer_none", BOOL), ("socket.peer", "peer", INT)],
         expr="rcvd_pdu.ssap == socket.peer or socket.peer is None", note='cut: the socket selected for a non-CONNECT PDU: peer matches or socket not connected; the None test of `socket.peer` is a bool parameter, its value an int (any int when None)'),
    Spec(GROUP, "lr_enqueue_dm_no_listener", F, SAP + "enqueue", [], binds=[("rcvd_pdu.ssap", "ssap", INT), ("rcvd_pdu.dsap", "dsap", INT)],
         path=[(0, "body"), (0, "body"), (0, "orelse")], stmts=[0], result=["args"], note='cut: the DM(reason 02h) arguments when no socket listens'),
    Spec(GROUP, "lr_enqueue_dm_no_peer", F, SAP + "enqueue", [], binds=[("rcvd_pdu.ssap", "ssap", INT), ("rcvd_pdu.dsap", "dsap", INT)],
         path=[(0, "body"), (0, "orelse"), (0, "orelse"), (0, "body")], stmts=[0], result=["args"], note='cut: the DM(reason 01h) arguments when no socket matches a connection-oriented PDU'),
    # insert_socket / mode
    Spec(GROUP, "lr_insert_socket", F, SAP + "insert_socket", [("socket", INT)],
         binds=[("self.sock_list", "sock_list", LIST(INT))], stores=["self.sock_list"], path=[(0, "body"), (1, "body")],
         stmts=[1], result=["self.sock_list"],
         note="cut: the statement that enters an insertable socket (second statement of the `if insertable:` body): it goes "
              "to the FRONT of `sock_list` (sockets as int markers); result: sock_list"),
    Spec(GROUP, "lr_remove_socket", F, SAP + "remove_socket", [("socket", INT)],
         binds=[("self.sock_list", "sock_list", LIST(INT))], stores=["self.sock_list"], path=[(2, "body"), (0, "body")],
         result=["self.sock_list"],
         note="cut: the `try` body inside the lock: the socket is taken out of `sock_list` (ValueError when absent: the "
              "handler ignores it); result: sock_list"),
    Spec(GROUP, "lr_sap_mode", F, SAP + "mode", [],
         binds=[("isinstance(self.sock_list[0], tco.RawAccessPoint)", "is_raw", BOOL),
                ("isinstance(self.sock_list[0], tco.LogicalDataLink)", "is_ldl", BOOL),
                ("isinstance(self.sock_list[0], tco.DataLinkConnection)", "is_dlc", BOOL)],
         path=[(0, "body"), (0, "body")], ret=OPT(INT), note='cut: the `try` body of the `mode` property: the three isinstance tests on `self.sock_list[0]` are bool parameters (their IndexError for an empty list is the handler, lr_sap_mode_empty); None = falls off the end'),
    Spec(GROUP, "lr_sap_mode_empty", F, SAP + "mode", [], path=[(0, "body"), (0, ("handlers", 0))], note='cut: the `except IndexError` handler: a SAP without sockets reports mode 0 (= RAW_ACCESS_POINT)'),
    Spec(GROUP, "lr_remove_last", F, SAP + "remove_socket", [], binds=[("self.sock_list", "sock_list", LIST(INT))],
         expr="len(self.sock_list) == 0", note='cut: the SAP is removed when its last socket is gone; `self.sock_list` as a list of markers'),
    Spec(GROUP, "lr_remove_name", F, SAP + "remove_socket", [("addr", INT)], binds=[("self.addr", "own", INT)],
         expr="addr == self.addr", note='cut: which service names are deleted with the SAP (`addr` is the loop variable)'),
    # collect
    Spec(GROUP, "lr_collect_raw_key", F, LLC + "collect", [], binds=[("sap.mode", "mode", INT)], expr="sap.mode == RAW_ACCESS_POINT", note='cut: the sort key of the first loop (raw access points first)'),
    Spec(GROUP, "lr_collect_dlc_mode0", F, LLC + "collect", [], binds=[("sap.mode", "mode", INT)], expr="sap.mode == DATA_LINK_CONNECTION", nth=0, note='cut: voluntary acknowledgement only from data link connection SAPs (first occurrence: nothing dequeued)'),
    Spec(GROUP, "lr_collect_dlc_mode1", F, LLC + "collect", [], binds=[("sap.mode", "mode", INT)], expr="sap.mode == DATA_LINK_CONNECTION", nth=1, note='cut: voluntary acknowledgement only from data link connection SAPs (second occurrence: end of aggregation)'),
    Spec(GROUP, "lr_collect_encrypt0", F, LLC + "collect", [], binds=_SENDNAME, expr="self.sec and send_pdu.name in ('UI', 'I')", nth=0, ret=BOOL, note='cut: which PDUs are encrypted, first loop (truth value); `self.sec` as a bool'),
    Spec(GROUP, "lr_collect_encrypt1", F, LLC + "collect", [], binds=_SENDNAME, expr="self.sec and send_pdu.name in ('UI', 'I')", nth=1, ret=BOOL, note='cut: which PDUs are encrypted, aggregation loop (truth value)'),
    Spec(GROUP, "lr_collect_no_agf", F, LLC + "collect", [], binds=[("send_pdu is None", "nothing", BOOL), ("self.cfg['send-agf']", "agf", BOOL)],
         expr="send_pdu is None or self.cfg['send-agf'] is False", note='cut: return without aggregation; `send_pdu is None` is a bool parameter'),
    Spec(GROUP, "lr_collect_loop_go", F, LLC + "collect", [("miu_size", INT)], expr="miu_size >= 0", nth=0, note='cut: condition of the aggregation `while`'),
    Spec(GROUP, "lr_collect_pass_stop", F, LLC + "collect", [("miu_size", INT)], expr="miu_size < 0", nth=0, note='cut: the `break` inside the aggregation pass (first `miu_size < 0`)'),
    Spec(GROUP, "lr_collect_loop_stop", F, LLC + "collect", [("miu_size", INT), ("deq_none", BOOL)], expr="miu_size < 0 or deq_none", note='cut: the `break` behind an aggregation pass'),
    Spec(GROUP, "lr_collect_acks_go", F, LLC + "collect", [("miu_size", INT)], expr="miu_size >= 0", nth=1, note='cut: acknowledgements are added only with budget left (second `miu_size >= 0`)'),
    Spec(GROUP, "lr_collect_acks_stop", F, LLC + "collect", [("miu_size", INT)], expr="miu_size < 0", nth=2,
         note='cut: the `break` of the acknowledgement loop (third `miu_size < 0`; the second is part of lr_collect_loop_stop)'),
    Spec(GROUP, "lr_collect_result", F, LLC + "collect", [], binds=[("agf_pdu.count", "count", INT)],
         expr="agf_pdu.count > 1", note="cut: an aggregate is sent only with more than one PDU in it (else the PDU itself)"),
    # exchange
    Spec(GROUP, "lr_exchange_has_data", F, LLC + "exchange", [("rcvd_data", OPT(BYTES))], expr="rcvd_data is not None", note='cut: a PDU is decoded only when the MAC returned data'),
    # run loops
    Spec(GROUP, "lr_run_timeout_ms", F, LLC + "run_as_initiator", [], binds=[("self.cfg['recv-lto']", "recv_lto", INT)],
         expr="self.cfg['recv-lto'] + 10", note='cut: the integer part of the receive timeout (milliseconds; the factor 1E-3 is float arithmetic, not translated)'),
    Spec(GROUP, "lr_run_timeout_ms_t", F, LLC + "run_as_target", [], binds=[("self.cfg['recv-lto']", "recv_lto", INT)],
         expr="self.cfg['recv-lto'] + 10", note='cut: the same in run_as_target'),
    Spec(GROUP, "lr_run_secure", F, LLC + "run_as_initiator", [], binds=[("self.cfg['llcp-dpc']", "dpc", INT)], expr="self.cfg['llcp-dpc'] == 1", note='cut: the key agreement runs iff the negotiated DPC is 1'),
    Spec(GROUP, "lr_run_secure_t", F, LLC + "run_as_target", [], binds=[("self.cfg['llcp-dpc']", "dpc", INT)], expr="self.cfg['llcp-dpc'] == 1", note='cut: the same in run_as_target'),
    Spec(GROUP, "lr_run_ecpk_bad", F, LLC + "run_as_initiator", [], binds=[("rcvd_dps.ecpk", "ecpk", BYTES)],
         expr="not (rcvd_dps.ecpk and len(rcvd_dps.ecpk) == 64)", note='cut: the ECPK check of the received DPS PDU; None behaves like the empty string'),
    Spec(GROUP, "lr_run_rn_bad", F, LLC + "run_as_initiator", [], binds=[("rcvd_dps.rn", "rn", BYTES)],
         expr="not (rcvd_dps.rn and len(rcvd_dps.rn) == 8)", note='cut: the RN check of the received DPS PDU; None behaves like the empty string'),
    Spec(GROUP, "lr_run_ecpk_bad_t", F, LLC + "run_as_target", [], binds=[("rcvd_dps.ecpk", "ecpk", BYTES)],
         expr="not (rcvd_dps.ecpk and len(rcvd_dps.ecpk) == 64)", note='cut: the same in run_as_target'),
    Spec(GROUP, "lr_run_rn_bad_t", F, LLC + "run_as_target", [], binds=[("rcvd_dps.rn", "rn", BYTES)],
         expr="not (rcvd_dps.rn and len(rcvd_dps.rn) == 8)", note='cut: the same in run_as_target'),
    Spec(GROUP, "lr_run_go_on", F, LLC + "run_as_initiator", [], binds=[("terminate()", "terminated", BOOL)], expr="not terminate()", note='cut: condition of the run loop'),
    Spec(GROUP, "lr_run_go_on_t", F, LLC + "run_as_target", [], binds=[("terminate()", "terminated", BOOL)], expr="not terminate()", note='cut: the same in run_as_target'),
    Spec(GROUP, "lr_run_symm_count", F, LLC + "run_as_initiator", [("symm", INT)], binds=_NAME,
         path=[(4, "body"), (3, "body")], stmts=[4], result=["symm"], note='cut: the SYMM counter update (statement 4 of the loop body); result: symm'),
    Spec(GROUP, "lr_run_symm_count_t", F, LLC + "run_as_target", [("symm", INT)], binds=[("isinstance(rcvd_pdu, pdu.Symmetry)", "is_symm", BOOL)],
         path=[(4, "body"), (2, "body")], stmts=[2], result=["symm"], note='cut: the SYMM counter update of run_as_target (statement 2 of the loop body; the isinstance test is a bool parameter)'),
    Spec(GROUP, "lr_run_idle", F, LLC + "run_as_initiator", [("symm", INT)], binds=[("send_pdu is None", "nothing", BOOL)],
         expr="send_pdu is None and symm >= 10", note='cut: the long collect delay after ten SYMM PDUs with nothing to send; `send_pdu is None` is a bool parameter'),
    Spec(GROUP, "lr_run_idle_t", F, LLC + "run_as_target", [("symm", INT)], binds=[("send_pdu is None", "nothing", BOOL)],
         expr="send_pdu is None and symm >= 10", note='cut: the same in run_as_target'),
    Spec(GROUP, "lr_run_finally", F, LLC + "run_as_initiator", [], binds=[("self.link.SHUTDOWN", "shutdown", BOOL)],
         expr="not self.link.SHUTDOWN", note='cut: the `finally` clause terminates unless the link is already SHUTDOWN'),
    Spec(GROUP, "lr_run_finally_t", F, LLC + "run_as_target", [], binds=[("self.link.SHUTDOWN", "shutdown", BOOL)],
         expr="not self.link.SHUTDOWN", note='cut: the same in run_as_target'),
    # terminate
    Spec(GROUP, "lr_terminate_order", F, LLC + "terminate", [], expr="range(63, -1, -1)", note='cut: the order in which terminate() shuts the service access points down'),
    Spec(GROUP, "lr_terminate_live", F, LLC + "terminate", [("i", INT)], binds=[("self.sap", "sap_table", LIST(OPT(INT)))],
         expr="not self.sap[i] is None", note='cut: only live table entries are shut down; `self.sap` as a list of None / markers'),
    Spec(GROUP, "lr_terminate_disc", F, LLC + "terminate", [], binds=[("self.link.DISCONNECT", "disconnect", BOOL)],
         expr="self.link.DISCONNECT is True", note='cut: a DISC PDU is sent only after a local decision to disconnect'),
]
BRIDGE = {"module": "NfcVerif.Props.FnBridgeLlcRun", "theorems": [], "properties": ["C07", "C09", "C10"]}


def inputs(rng, sp):
    return []


MUTATIONS = []
