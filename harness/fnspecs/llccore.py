"""group LlcCore: nfc/llcp/llc.py + nfc/llcp/tco.py - the loops and method bodies of the link controller and of the
transmission control objects that groups Llc / LlcRun / Tco only touch through single expressions
-> Model/FnLlcCoreRef.lean (reference definitions + property facts), Model/Collect.lean, Model/Term.lean
(C05, C09, C10, C17, C18)

Cuts common to all entries: objects are not modelled.  A PDU / socket / service access point object is an int token
(0 = an object whose truth value is false: a PDU with `len() == 0`), every attribute the translated statements read is a
parameter (`binds`).  Calls into other objects that have effects (`sap.dequeue`, `super().recv`, `notify_all`, ..) are
function parameters (`opaque`); a parameter-less effectful call is a value of type `Py Unit` / `Py (Option Int)` - the
bridge theorems quantify over it, so the ORDER of such calls is part of the theorem (an exception injected into one of
them shows whether it is reached).  Locks (`with self.lock`) are not modelled (group Monitor).
"""
from translate_fn import Spec, INT, OPT, BYTES, TUP, BOOL, LIST, STR, ANY, NONE

GROUP = "LlcCore"
ORDER = 63
F = "llcp/llc.py"
T = "llcp/tco.py"
SD = "ServiceDiscovery."
LLC = "LogicalLinkController."
DLC = "DataLinkConnection."
_RES = LIST(TUP(INT, INT))
_REQ = LIST(TUP(INT, BYTES))
_NTF = {"self.acks_ready.notify_all": ("wake_acks", [], NONE, True),
        "self.send_token.notify_all": ("wake_send", [], NONE, True)}

SPECS = [
    # ------------------------------------------------------------------ ServiceDiscovery.dequeue (C10)
    Spec(GROUP, "lc_sd_has_work", F, SD + "dequeue", [],
         binds=[("len(self.sdres)", "n_res", INT), ("len(self.sdreq)", "n_req", INT)],
         expr="len(self.sdres) > 0 or len(self.sdreq) > 0", whole=True,
         note="cut: the test whether an SNL PDU is built; the two queue lengths are parameters"),
    Spec(GROUP, "lc_sd_res_body", F, SD + "dequeue", [("miu_size", INT)],
         binds=[("self.sdres.popleft()", "head", TUP(INT, INT)), ("send_pdu.sdres", "out", _RES)],
         stores=["send_pdu.sdres"], path=[(0, "body"), (0, "body"), (1, "body"), (0, "body")],
         result=["miu_size", "send_pdu.sdres"],
         note="cut: the `try` body of the `while miu_size >= 4` loop (one turn): the popped response `self.sdres.popleft()` is "
              "the parameter `head` (its IndexError for an empty queue is the `except IndexError: break`, not translated: a "
              "handler that is not a raise); result (miu_size, send_pdu.sdres)"),
    Spec(GROUP, "lc_sd_req_range", F, SD + "dequeue", [], binds=[("self.sdreq", "sdreq", _REQ)],
         expr="range(len(self.sdreq))", whole=True,
         note="cut: iteration space of the request loop: one turn per request queued when the loop starts"),
    Spec(GROUP, "lc_sd_req_body", F, SD + "dequeue", [("miu_size", INT)],
         binds=[("self.sdreq[0]", "first", TUP(INT, BYTES)), ("self.sdreq.popleft()", "head", TUP(INT, BYTES)),
                ("send_pdu.sdreq", "out", _REQ)],
         stores=["send_pdu.sdreq"], drop=["self.sent[tid] = ", "self.sdreq.rotate"],
         path=[(0, "body"), (0, "body"), (2, "body")], result=["miu_size", "send_pdu.sdreq"],
         note="cut: the body of `for i in range(len(self.sdreq))` (one turn): the head of the queue read by `self.sdreq[0]` and "
              "popped by `self.sdreq.popleft()` are the parameters `first` / `head` (the same element); the queue mutation "
              "itself (`rotate(-1)` - an expression statement the translator refuses - and the pop) and the dictionary store "
              "`self.sent[tid] = name` are dropped: the reference loop `FnLlcCoreRef.takeReq` does them; result (miu_size, "
              "send_pdu.sdreq)"),
    # ------------------------------------------------------------------ LogicalLinkController.collect (C10)
    Spec(GROUP, "lc_collect_agg", F, LLC + "collect", [("miu_size", INT), ("icv_size", INT), ("agf_pdu", LIST(INT))],
         binds=[("filter(None, self.sap)", "saps", LIST(INT)), ("self.cfg['send-miu']", "send_miu", INT),
                ("self.sec and send_pdu.name in ('UI', 'I')", "do_enc", BOOL)],
         opaque={"sap.dequeue": ("deq", [INT, INT], OPT(INT), False), "len": ("agf_len", [LIST(INT)], INT, False),
                 "encrypt": ("enc", [INT], INT, False)},
         path=[(5, "body")], stmts=[5], result=["miu_size", "agf_pdu"],
         note="cut: statement 5 inside `with self.lock`: the whole aggregation loop `while miu_size >= 0` with its inner pass "
              "over the service access points.  PDUs are int tokens, the aggregate `agf_pdu` the list of its tokens; "
              "`sap.dequeue(miu_size, icv_size)` is the function parameter `deq` (None / 0 = nothing dequeued; it does not "
              "see WHICH access point is asked nor earlier calls: the state of the access points is not modelled), "
              "`len(agf_pdu)` the function `agf_len` of the aggregate, the local function `encrypt` the parameter `enc`, the "
              "test `self.sec and send_pdu.name in ('UI', 'I')` one bool for the whole loop; result (miu_size, agf_pdu)"),
    # ------------------------------------------------------------------ TransmissionControlObject (C10, C17)
    Spec(GROUP, "lc_tco_dequeue_tail", T, "TransmissionControlObject.dequeue",
         [("miu_size", OPT(INT)), ("icv_size", INT), ("notify", BOOL), ("send_pdu", INT)],
         binds=[("send_pdu.name", "name", STR), ("len(send_pdu)", "pdu_len", INT), ("send_pdu.header_size", "header_size", INT)],
         path=[(0, "body")], stmts=(1, 5), drop=["self.send_queue.appendleft", "self.send_ready.notify"], ret=OPT(INT),
         note="cut: statements 1-4 inside `with self.lock` (everything behind the pop of the send queue): size of the popped "
              "PDU, the MIU test, the notification, the result; `send_pdu` is a token, `len(send_pdu)` a parameter; the "
              "requeue `appendleft` and `send_ready.notify()` are dropped; None = requeued, else the PDU"),
    Spec(GROUP, "lc_tco_bind", T, "TransmissionControlObject.bind", [("addr", OPT(INT))],
         binds=[("self.addr", "cur", OPT(INT))], stores=["self.addr"],
         note="whole method (the warning about a rebound socket is logging); result: the stored address"),
    Spec(GROUP, "lc_raw_poll_check", T, "RawAccessPoint.poll", [("event", STR)],
         binds=[("self.state.SHUTDOWN", "shutdown", BOOL)], path=[(0, "body")], stmts=(0, 2),
         note="cut: statements 0-1 inside `with self.lock`: ESHUTDOWN, EINVAL for an event other than recv / send"),
    Spec(GROUP, "lc_ldl_poll_check", T, "LogicalDataLink.poll", [("event", STR)],
         binds=[("self.state.SHUTDOWN", "shutdown", BOOL)], path=[(0, "body")], stmts=(0, 2),
         note="cut: the same two checks of LogicalDataLink.poll"),
    Spec(GROUP, "lc_raw_recv", T, "RawAccessPoint.recv", [], binds=[("self.state.SHUTDOWN", "shutdown", BOOL)],
         opaque={"super(RawAccessPoint, self).recv": ("recv", [], OPT(INT), True)},
         note="whole method; `super().recv()` (pop of the receive queue, may wait, IndexError when woken without data) is "
              "the parameter `recv`"),
    Spec(GROUP, "lc_ldl_connect", T, "LogicalDataLink.connect", [("dest", INT)],
         binds=[("self.state.SHUTDOWN", "shutdown", BOOL)], stores=["self.peer"], note="whole method"),
    Spec(GROUP, "lc_ldl_recvfrom", T, "LogicalDataLink.recvfrom", [],
         binds=[("self.state.SHUTDOWN", "shutdown", BOOL), ("rcvd_pdu.data", "data", BYTES), ("rcvd_pdu.ssap", "ssap", INT)],
         opaque={"super(LogicalDataLink, self).recv": ("recv", [], OPT(INT), True)}, ret=TUP(OPT(BYTES), OPT(INT)),
         note="whole method; `super().recv()` is the parameter `recv` (a PDU token or None), the attributes of the received "
              "UI PDU are the parameters `data`, `ssap`"),
    # ------------------------------------------------------------------ DataLinkConnection (C05, C09)
    Spec(GROUP, "lc_dlc_close_cond", T, DLC + "close", [],
         binds=[("self.state.ESTABLISHED", "established", BOOL), ("self.is_bound", "is_bound", BOOL)],
         expr="self.state.ESTABLISHED and self.is_bound", whole=True,
         note="cut: the test for an orderly disconnect (DISC sent, DM awaited) in close()"),
    Spec(GROUP, "lc_dlc_close_disc", T, DLC + "close", [], opaque=_NTF, stores=["self.state.DISCONNECT"],
         drop=["self.send_queue.clear", "self.send_queue.append", "self.recv_queue.clear", "send_pdu = "],
         path=[(0, "body"), (1, "body")], stmts=(0, 7), result=["self.state.DISCONNECT"],
         note="cut: statements 0-6 of the orderly-disconnect branch (up to the wait for the DM): state DISCONNECT, the two "
              "wake-ups (parameters `wake_send`, `wake_acks`); the queue operations and the DISC constructor are dropped; "
              "result: state.DISCONNECT"),
    Spec(GROUP, "lc_dlc_close_tail", T, DLC + "close", [],
         opaque=dict(_NTF, **{"super(DataLinkConnection, self).close": ("base_close", [], NONE, True)}),
         path=[(0, "body")], stmts=(2, 5),
         note="cut: statements 2-4 inside `with self.lock`, the unconditional end of close(): the base class close, then the "
              "wake-up of the threads waiting for acknowledgements and for the send token; the three calls are parameters"),
    Spec(GROUP, "lc_dlc_deq_busy_change", T, DLC + "dequeue", [],
         binds=[("self.mode.RECV_BUSY_SENT", "busy_sent", BOOL), ("self.mode.RECV_BUSY", "busy", BOOL)],
         expr="self.mode.RECV_BUSY_SENT != self.mode.RECV_BUSY", whole=True,
         note="cut: an RR / RNR PDU is due (whatever the budget) when the receiver-busy condition changed"),
    Spec(GROUP, "lc_dlc_deq_dm_closewait", T, DLC + "dequeue", [],
         binds=[("send_pdu.name", "name", STR), ("self.state.CLOSE_WAIT", "close_wait", BOOL)],
         expr="send_pdu.name == 'DM' and self.state.CLOSE_WAIT", whole=True,
         note="cut: the DM that answers a DISC releases the readers (a DISC marker is put into the receive queue)"),
    Spec(GROUP, "lc_dlc_poll", T, DLC + "_poll", [("event", STR), ("timeout", INT)],
         binds=[("self.state.SHUTDOWN", "shutdown", BOOL), ("self.state.ESTABLISHED", "established", BOOL),
                ("self.state.CLOSE_WAIT", "close_wait", BOOL), ("isinstance(rcvd_pdu, pdu.Information)", "is_info", BOOL),
                ("self.acks_recvd", "acks_recvd", INT)],
         stores=["self.acks_recvd"], drop=["self.acks_ready.wait"],
         opaque={"super(DataLinkConnection, self).poll": ("base_poll", [STR, INT], OPT(INT), True)}, ret=ANY,
         note="whole method; `super().poll(event, timeout)` is the parameter `base_poll` (a token / truth value or None), the "
              "isinstance test of its result a bool, `self.acks_ready.wait(timeout)` is dropped; the state flags are read "
              "once (cut: a state change during the wait is not modelled - group Monitor / C09 have it)"),
    # ------------------------------------------------------------------ ServiceAccessPoint / ServiceDiscovery bookkeeping
    Spec(GROUP, "lc_sap_send", F, "ServiceAccessPoint.send", [("send_pdu", INT)],
         binds=[("self.send_list", "send_list", LIST(INT))], stores=["self.send_list"], result=["self.send_list"],
         note="whole method: a DM PDU for the peer goes to the END of `send_list`; result: send_list"),
    Spec(GROUP, "lc_sd_resolve_alloc", F, SD + "resolve", [("name", BYTES)],
         binds=[("self.tids", "tids", LIST(INT)), ("self.sdreq", "sdreq", _REQ)], stores=["self.tids", "self.sdreq"],
         opaque={"random.choice": ("choice", [LIST(INT)], INT, False)}, path=[(0, "body")], stmts=(3, 6),
         result=["self.tids", "self.sdreq"],
         note="cut: statements 3-5 inside `with self.resp`: transaction identifier allocation (`random.choice` is the function "
              "parameter `choice`), the identifier leaves the free list, the request is queued; result (tids, sdreq)"),
    # ------------------------------------------------------------------ LogicalLinkController
    Spec(GROUP, "lc_llc_getsockopt_miu", F, LLC + "getsockopt", [],
         binds=[("isinstance(socket, tco.LogicalDataLink)", "is_ldl", BOOL), ("isinstance(socket, tco.RawAccessPoint)", "is_raw", BOOL),
                ("socket.send_miu", "sock_miu", INT), ("self.cfg['send-miu']", "link_miu", INT)],
         stores=["socket.send_miu"], stmts=(1, 3), result=["socket.send_miu"],
         note="cut: statements 1-2: a connection-less socket reports the link MIU as its send MIU; result: socket.send_miu"),
    Spec(GROUP, "lc_bind_dispatch", F, LLC + "_bind", [("socket", INT), ("addr_or_name", INT)],
         binds=[("addr_or_name is None", "is_none", BOOL), ("isinstance(addr_or_name, int)", "is_int", BOOL),
                ("isinstance(addr_or_name, (bytes, bytearray))", "is_bytes", BOOL), ("isinstance(addr_or_name, str)", "is_str", BOOL)],
         opaque={"self._bind_by_none": ("by_none", [INT], NONE, True), "self._bind_by_addr": ("by_addr", [INT, INT], NONE, True),
                 "self._bind_by_name": ("by_name", [INT, INT], NONE, True), "bytes": ("to_bytes", [INT], INT, False),
                 "addr_or_name.encode": ("encode", [STR], INT, False)},
         note="whole method: which bind variant serves which argument type; the type tests are bool parameters, the three "
              "variants and the two conversions function parameters on tokens"),
    Spec(GROUP, "lc_sendto_dest", F, LLC + "sendto", [("dest", OPT(INT))], path=[(3, "body")], stmts=[0],
         note="cut: connection-less sendto without destination -> EDESTADDRREQ"),
    Spec(GROUP, "lc_terminate_flag", F, LLC + "terminate", [], stores=["self.terminated"],
         path=[(1, "finalbody")], stmts=[0], result=["self.terminated"],
         note="cut: statement 0 of the `finally` clause - in front of the shutdown loop (statement 1: lr_terminate_order / "
              "lr_terminate_live of group LlcRun): no socket can be bound any more; result: self.terminated"),
    Spec(GROUP, "lc_activate_reset", F, LLC + "activate", [], stores=["self.mac"], stmts=[1], result=["self.mac"], ret=OPT(INT),
         note="cut: statement 1: every activation starts without a MAC (the controller object is activated once per "
              "discovery round); result: self.mac"),
    Spec(GROUP, "lc_activate_result", F, LLC + "activate", [], binds=[("self.mac", "mac", OPT(INT))],
         expr="bool(self.mac)", whole=True, note="cut: the returned value; the MAC object is a token or None"),
]
Q = "NfcVerif.FnBridge.LlcCore."
BRIDGE = {
    "module": "NfcVerif.Props.FnBridgeLlcCore",
    "theorems": [Q + t for t in (
        "sd_has_work_bridge", "sd_res_bridge", "sd_req_range_bridge", "sd_req_bridge", "takeReq_collect", "gen_snl_within",
        "buildSnl_within", "buildSnl_negative", "collect_agg_bridge", "gen_collect_room", "aggPass_room", "aggLoop_room",
        "tco_dequeue_tail_bridge", "tco_dequeue_collect", "gen_dequeue_zero_room", "tco_bind_bridge",
        "raw_poll_check_bridge", "ldl_poll_check_bridge", "raw_recv_bridge", "ldl_connect_bridge", "ldl_recvfrom_bridge",
        "gen_empty_datagram", "dlc_close_cond_bridge", "dlc_close_disc_bridge", "dlc_close_tail_bridge", "gen_close_wakes",
        "dlc_deq_busy_change_bridge", "dlc_deq_dm_closewait_bridge", "dlc_poll_bridge", "sap_send_bridge",
        "sd_resolve_alloc_bridge", "llc_getsockopt_miu_bridge", "bind_dispatch_bridge", "sendto_dest_bridge",
        "terminate_flag_bridge", "activate_reset_bridge", "activate_result_bridge", "gen_activate_no_peer",
        "gen_bind_name_free")],
    "properties": ["C05", "C09", "C10", "C17", "C18"],
}


def inputs(rng, sp):
    out = []
    n = sp.lean
    if n == "lc_sd_has_work":
        out += [([], [a, b]) for a in (0, 1, 3) for b in (0, 1, 2)]
    if n == "lc_sd_res_body":
        for m in (-1, 0, 3, 4, 5, 128):
            for k in (0, 1, 3):
                out.append(([m], [(rng.randrange(256), rng.randrange(64)), [(i, 16 + i) for i in range(k)]]))
    if n == "lc_sd_req_range":
        out += [([], [[(i, bytes(i + 1)) for i in range(k)]]) for k in (0, 1, 2, 5)]
    if n == "lc_sd_req_body":
        for m in (-1, 0, 2, 3, 4, 15, 16, 17, 128):
            for ln in (0, 1, 12, 13, 14, 125):
                x = (rng.randrange(256), bytes([65 + i % 26 for i in range(ln)]))
                out.append(([m], [x, x, [(7, b"urn:nfc:sn:x")][:rng.randrange(2)]]))
    if n == "lc_tco_dequeue_tail":
        for name, hs in (("UI", 2), ("I", 3), ("RR", 3), ("DM", 2), ("SNL", 2)):
            for ln in (hs, hs + 1, hs + 127, hs + 128, hs + 129):
                for miu in (None, 0, 1, 124, 127, 128, 129):
                    for icv in (0, 4):
                        out.append(([miu, icv, bool(rng.randrange(2)), rng.randrange(1, 99)], [name, ln, hs]))
    if n == "lc_tco_bind":
        out += [([a], [c]) for a in (None, 0, 1, 32) for c in (None, 0, 16, 32)]
    if n in ("lc_raw_poll_check", "lc_ldl_poll_check"):
        out += [([e], [sd]) for e in ("recv", "send", "acks", "x") for sd in (False, True)]
    if n == "lc_raw_recv":
        out += [([], [sd]) for sd in (False, True)] * 12
    if n == "lc_ldl_connect":
        out += [([d], [sd]) for d in (-1, 0, 1, 16, 63) for sd in (False, True)]
    if n == "lc_ldl_recvfrom":
        for sd in (False, False, False, True):
            for d in (b"", b"\x00", b"abc", bytes(128)):
                for sa in (0, 1, 16, 32, 63):
                    out.append(([], [sd, d, sa]))
    if n == "lc_dlc_close_cond":
        out += [([], [a, b]) for a in (False, True) for b in (False, True)]
    if n == "lc_dlc_deq_busy_change":
        out += [([], [a, b]) for a in (False, True) for b in (False, True)]
    if n == "lc_dlc_deq_dm_closewait":
        out += [([], [nm, b]) for nm in ("DM", "DISC", "I", "CC") for b in (False, True)]
    if n == "lc_dlc_poll":
        for ev in ("recv", "send", "acks", "bogus"):
            for sd, est, cw in ((False, True, False), (False, False, True), (False, False, False), (True, False, False)):
                for info in (False, True):
                    for acks in (-1, 0, 1, 3):
                        out.append(([ev, rng.randrange(0, 5)], [sd, est, cw, info, acks]))
    if n == "lc_sap_send":
        out += [([p], [l]) for p in (1, 5) for l in ([], [2], [2, 3, 4])]
    if n == "lc_llc_getsockopt_miu":
        out += [([], [a, b, 128, m]) for a in (False, True) for b in (False, True) for m in (128, 248, 2175)]
    if n == "lc_sendto_dest":
        out += [([d], []) for d in (None, 0, 1, 32)]
    if n in ("lc_terminate_flag", "lc_activate_reset"):
        out += [([], [])]
    if n == "lc_activate_result":
        out += [([], [m]) for m in (None, 0, 1, 7)]
    return out


def _close_tail(seg):
    old = ("            super(DataLinkConnection, self).close()\n"
           "            self.acks_ready.notify_all()\n            self.send_token.notify_all()")
    assert old in seg
    return seg.replace(old, "            super(DataLinkConnection, self).close()")


MUTATIONS = [
    ("lc_sd_req_body", "seed C10-r5m2: the budget update of a taken request is lost",
     "                    else:\n                        send_pdu.sdreq.append(self.sdreq.popleft())\n"
     "                        self.sent[tid] = name\n                        miu_size -= 3 + len(name)\n",
     "                    else:\n                        send_pdu.sdreq.append(self.sdreq.popleft())\n"
     "                        self.sent[tid] = name\n"),
    ("lc_sd_req_body", "SDREQ overhead counted as 2", "miu_size -= 3 + len(name)", "miu_size -= 2 + len(name)"),
    ("lc_sd_req_body", "fit test compares with >=", "if 3 + len(name) > miu_size:", "if 3 + len(name) >= miu_size:"),
    ("lc_sd_res_body", "SDRES paid with 3 octets", "miu_size -= 4", "miu_size -= 3"),
    ("lc_sd_has_work", "requests alone build no SNL PDU", "if len(self.sdres) > 0 or len(self.sdreq) > 0:", "if len(self.sdres) > 0:"),
    ("lc_sd_req_range", "one request less is looked at", "for i in range(len(self.sdreq)):", "for i in range(len(self.sdreq) - 1):"),
    ("lc_collect_agg", "seed C10-r5m1: the inner break of the aggregation pass removed",
     "                        miu_size = self.cfg[\"send-miu\"] - len(agf_pdu) - 3\n                        if miu_size < 0:\n"
     "                            break\n                if miu_size < 0 or deq_none:",
     "                        miu_size = self.cfg[\"send-miu\"] - len(agf_pdu) - 3\n                if miu_size < 0 or deq_none:"),
    ("lc_collect_agg", "aggregation goes on with room -1", "while miu_size >= 0:", "while miu_size >= -1:"),
    ("lc_collect_agg", "pass repeated although nothing was dequeued", "if miu_size < 0 or deq_none:", "if miu_size < 0:"),
    ("lc_tco_dequeue_tail", "seed C10-r5m3: budget 0 treated like no budget",
     "if ((miu_size is not None and\n                 pdu_size - send_pdu.header_size > miu_size)):",
     "if miu_size and pdu_size - send_pdu.header_size > miu_size:"),
    ("lc_tco_dequeue_tail", "ICV not counted for I PDUs", 'if send_pdu.name in ("UI", "I"):\n                pdu_size = len(send_pdu) + icv_size',
     'if send_pdu.name in ("UI",):\n                pdu_size = len(send_pdu) + icv_size'),
    ("lc_tco_dequeue_tail", "header counted as payload", "pdu_size - send_pdu.header_size > miu_size", "pdu_size > miu_size"),
    ("lc_ldl_recvfrom", "seed C17-r5m3: the empty datagram is reported as (None, None)",
     "        return (rcvd_pdu.data, rcvd_pdu.ssap) if rcvd_pdu else (None, None)",
     "        if rcvd_pdu and rcvd_pdu.data:\n            return (rcvd_pdu.data, rcvd_pdu.ssap)\n        return (None, None)"),
    ("lc_ldl_recvfrom", "EPIPE of recvfrom becomes ESHUTDOWN",
     "                rcvd_pdu = super(LogicalDataLink, self).recv()\n            except IndexError:\n                raise err.Error(errno.EPIPE)",
     "                rcvd_pdu = super(LogicalDataLink, self).recv()\n            except IndexError:\n                raise err.Error(errno.ESHUTDOWN)"),
    ("lc_raw_recv", "shutdown test of RawAccessPoint.recv dropped",
     "            if self.state.SHUTDOWN:\n                raise err.Error(errno.ESHUTDOWN)\n            try:\n                return super(RawAccessPoint, self).recv()",
     "            if False:\n                raise err.Error(errno.ESHUTDOWN)\n            try:\n                return super(RawAccessPoint, self).recv()"),
    ("lc_dlc_close_tail", "seed C09-r5m2: the two wake-ups at the end of close() removed", _close_tail, None),
    ("lc_dlc_close_tail", "wake-ups in front of the base class close",
     "            super(DataLinkConnection, self).close()\n            self.acks_ready.notify_all()\n            self.send_token.notify_all()",
     "            self.acks_ready.notify_all()\n            self.send_token.notify_all()\n            super(DataLinkConnection, self).close()"),
    ("lc_dlc_close_cond", "orderly disconnect also for an unbound socket", "if self.state.ESTABLISHED and self.is_bound:", "if self.state.ESTABLISHED:"),
    ("lc_dlc_close_disc", "senders not woken by the orderly disconnect",
     "                self.state.DISCONNECT = True\n                self.send_token.notify_all()\n", "                self.state.DISCONNECT = True\n"),
    ("lc_dlc_poll", "poll('acks') true without acknowledgement", "                if self.acks_recvd > 0:\n                    self.acks_recvd = self.acks_recvd - 1",
     "                if self.acks_recvd >= 0:\n                    self.acks_recvd = self.acks_recvd - 1"),
    ("lc_dlc_poll", "poll('recv') allowed in any state", "        if event == \"recv\":\n            if self.state.ESTABLISHED or self.state.CLOSE_WAIT:\n                rcvd_pdu = super(DataLinkConnection, self).poll",
     "        if event == \"recv\":\n            if True:\n                rcvd_pdu = super(DataLinkConnection, self).poll"),
    ("lc_dlc_deq_dm_closewait", "DISC marker for any DM", 'if send_pdu.name == "DM" and self.state.CLOSE_WAIT:', 'if send_pdu.name == "DM":'),
    ("lc_ldl_connect", "peer 0 counts as connected", "            return self.peer > 0", "            return self.peer >= 0"),
    ("lc_sap_send", "DM jumps the queue", "        self.send_list.append(send_pdu)", "        self.send_list.appendleft(send_pdu)"),
    ("lc_sd_resolve_alloc", "transaction identifier stays in the free list", "            self.tids.remove(tid)\n", "            pass\n"),
    ("lc_llc_getsockopt_miu", "raw access point keeps its own send MIU",
     "        if isinstance(socket, tco.RawAccessPoint):\n            # FIXME: set socket send miu when activated\n            socket.send_miu = self.cfg['send-miu']\n        return socket.getsockopt(option)",
     "        return socket.getsockopt(option)"),
    ("lc_bind_dispatch", "str argument bound by address",
     "        elif isinstance(addr_or_name, str):\n            self._bind_by_name(socket, addr_or_name.encode('latin'))",
     "        elif isinstance(addr_or_name, str):\n            self._bind_by_addr(socket, addr_or_name.encode('latin'))"),
    ("lc_sendto_dest", "errno of a missing destination", "            if dest is None:\n                raise err.Error(errno.EDESTADDRREQ)",
     "            if dest is None:\n                raise err.Error(errno.EINVAL)"),
    ("lc_terminate_flag", "terminated set behind the shutdown loop",
     "            with self.lock:\n                self.terminated = True  # no socket can be bound any more\n            for i in range(63, -1, -1):\n                if not self.sap[i] is None:\n                    log.debug(\"closing service access point %d\" % i)\n                    self.sap[i].shutdown()\n                    self.sap[i] = None\n",
     "            for i in range(63, -1, -1):\n                if not self.sap[i] is None:\n                    log.debug(\"closing service access point %d\" % i)\n                    self.sap[i].shutdown()\n                    self.sap[i] = None\n            with self.lock:\n                self.terminated = True  # no socket can be bound any more\n"),
    ("lc_activate_reset", "seed C18-r5m3: the MAC reset leaves activate()",
     "        assert isinstance(mac, (nfc.dep.Initiator, nfc.dep.Target))\n        self.mac = None\n",
     "        assert isinstance(mac, (nfc.dep.Initiator, nfc.dep.Target))\n"),
    ("lc_activate_result", "activate reports success unconditionally", "        return bool(self.mac)", "        return bool(self.mac) or True"),
    ("lc_tco_bind", "NEUTRAL bind returns its argument", "        self.addr = addr\n        return self.addr", "        self.addr = addr\n        return addr"),
]
