"""group Crc: nfc/clf/device.py CRC_A / CRC_B helpers -> Model/Crc.lean (C14)"""
from translate_fn import Spec, INT, BYTES

GROUP = "Crc"
ORDER = 10
SPECS = [
    Spec(GROUP, "calculate_crc", "clf/device.py", "calculate_crc", [("data", BYTES), ("size", INT), ("reg", INT)]),
    Spec(GROUP, "add_crc_a", "clf/device.py", "Device.add_crc_a", [("data", BYTES)]),
    Spec(GROUP, "check_crc_a", "clf/device.py", "Device.check_crc_a", [("data", BYTES)]),
    Spec(GROUP, "add_crc_b", "clf/device.py", "Device.add_crc_b", [("data", BYTES)]),
    Spec(GROUP, "check_crc_b", "clf/device.py", "Device.check_crc_b", [("data", BYTES)]),
]
P = "NfcVerif.FnBridge.Crc."
BRIDGE = {
    "module": "NfcVerif.Props.FnBridgeCrc",
    "theorems": [P + t for t in (
        "calculate_crc_bridge", "add_crc_a_bridge", "add_crc_b_bridge", "check_crc_a_bridge", "check_crc_b_bridge",
        "gen_calculate_crc_eq_iso", "gen_add_crc_eq_iso", "gen_check_add", "gen_detects_single_bit")],
    "properties": ["C14"],
}


def inputs(rng, sp):
    out = []
    if sp.lean == "calculate_crc":
        for _ in range(80):
            d = bytes(rng.randrange(256) for _ in range(rng.randrange(0, 12)))
            out.append(([d, rng.randrange(-3, len(d) + 4),
                         rng.choice([0, 0x6363, 0xFFFF, rng.randrange(65536), 0x12345])], []))
    if sp.lean.startswith("check_crc"):
        import nfc.clf.device as dev
        add = dev.Device.add_crc_a if sp.lean.endswith("_a") else dev.Device.add_crc_b
        for _ in range(40):
            d = bytearray(rng.randrange(256) for _ in range(rng.randrange(0, 12)))
            good = bytes(add(d))
            out.append(([good], []))
            if rng.random() < 0.5:
                i = rng.randrange(len(good))
                out.append(([good[:i] + bytes([good[i] ^ (1 << rng.randrange(8))]) + good[i + 1:]], []))
    return out


MUTATIONS = [
    ("calculate_crc", "polynomial constant", "0x8408", "0x8404"),
    ("calculate_crc", "loop bound", "range(8)", "range(7)"),
    ("calculate_crc", "shift amount", "reg = reg >> 1", "reg = reg >> 2"),
    ("calculate_crc", "slice bound", "data[:size]", "data[:size-1]"),
    ("add_crc_a", "initial register value", "0x6363", "0x6362"),
    ("add_crc_a", "byte order of the CRC", "[crc & 0xff, crc >> 8]", "[crc >> 8, crc & 0xff]"),
    ("check_crc_a", "covered length", "calculate_crc(data, len(data)-2", "calculate_crc(data, len(data)-1"),
    ("check_crc_b", "compared octets swapped", "(data[-2], data[-1])", "(data[-1], data[-2])"),
    ("add_crc_b", "dropped complement", "~calculate_crc(data, len(data), 0xFFFF)", "calculate_crc(data, len(data), 0xFFFF)"),
    ("calculate_crc", "NEUTRAL augmented assignment", "reg = reg ^ 0x8408", "reg ^= 0x8408"),
]
