import struct


class DecodeError(Exception):
    pass


class Rec(object):
    def __init__(self, dsap, ssap, miu=128, rw=1, sn=None):
        self.dsap = dsap
        self.ssap = ssap
        self.miu = miu
        self.rw = rw
        self.sn = sn


def find_first(data, x):
    for i in range(len(data)):
        if data[i] == x:
            return i
    return -1


def count_until(data, stop):
    n = 0
    for b in data:
        if b == stop:
            break
        if b == 0:
            continue
        n += 1
    return n


def wloop(data, offset):
    total = 0
    while offset < len(data):
        l = data[offset]
        if l == 0xFF:
            return -1
        if l == 0:
            break
        total += l
        offset += 1 + l
    return total + offset


def nested(data):
    acc = 0
    for i in range(3):
        for b in data:
            if b == i:
                break
            if b == 9:
                return 1000 + acc
            acc += b
    return acc


def header(data, offset=0, size=None):
    if size is None:
        size = len(data) - offset
    if size < 2:
        raise DecodeError("short")
    (dsap, ssap) = struct.unpack_from('!BB', data, offset)
    return (dsap >> 2, ssap & 63)


def use_header(data):
    a, b = header(data)
    c, d = header(data, 1)
    e, f = header(data, 1, 5)
    return a + b + c + d + e + f


def mkrec(data):
    dsap, ssap = header(data)
    r = Rec(dsap, ssap)
    if dsap == 1:
        r.miu = 128 + ssap
    elif dsap == 2:
        r.rw = ssap
    else:
        r.sn = data[2:]
    return r


def optval(x, y):
    return (x + 128 if x is not None else 128) + (0 if y is None else y)


def lookup(i):
    return (64, 128, 192, 254)[i]


import errno
import os


class Chip(object):
    SOF = bytearray.fromhex('0000FF')
    ACK = bytearray(b'\x00\x00\xFF\x00\xFF\x00')

    def frame_check(self, frame):
        with self.lock:
            if not frame.startswith(self.SOF):
                raise IOError(errno.EIO, os.strerror(errno.EIO))
            if frame == Chip.ACK:
                return 0
            del frame[0:3]
            if sum(frame) & 0xFF != 0:
                raise IOError(errno.ETIMEDOUT, "x")
            n = struct.unpack("<L", memoryview(frame[0:4]))[0]
            del frame[1:]
            return n + len(frame)

    def counters(self, acks, flag):
        if flag is True:
            self.acks_recvd += acks
        else:
            self.acks_recvd -= 1
        try:
            self.total = self.acks_recvd * 2
        except ValueError:
            raise
        return None

    def deep(self, x):
        if x > 0:
            for i in range(3):
                y = x + i
                z = (bool(y & 1) << 3) | (y > 2) | (int(x > 1) + True)
                if z > 100:
                    raise IOError(errno.ENODEV, "no")
        return x


class Opt(object):
    @property
    def miu(self):
        return self._miux + 128 if self._miux is not None else 128

    @miu.setter
    def miu(self, value):
        self._miux = max(value - 128, 0)

    def maybe(self, data):
        if len(data) < 2:
            return None
        if data[0] == 0:
            return
        return data[1]

    def fits(self, size, limit):
        ok = limit is not None and size - 2 > limit
        did = data_pop(size) if size > 3 else None
        return (ok, did)

    def popper(self, data, flag):
        did = data.pop(0) if flag else None
        nad = data.pop(0) if len(data) > 1 else None
        return (did, nad, data)

    def logidx(self, rsp):
        log.debug("got {0} {1}".format(rsp[1], len(rsp)))
        self.notify_all()
        strerr = self.ERR.get(rsp[0], "x")
        if rsp[0] == 1:
            raise ProtocolError(rsp[2], strerr)
        if rsp[0] == 2:
            raise Chip.Error(rsp[1], strerr)
        try:
            x = rsp[3]
        except IndexError as error:
            raise error
        return x + self.cfg['send-miu'] + len(self.queue)


def data_pop(n):
    return n + 1


class ProtocolError(Exception):
    pass


import logging
log = logging.getLogger("toy")
Chip.Error = type("Error", (IOError,), {})


def lastvar(rw_bits, k):
    for nmaxb in range(14):
        if rw_bits >> (nmaxb + 1) & 1 == 0:
            break
    for j in range(2, 5):
        k += j
    return nmaxb * 100 + j + 2 ** (k & 7) + 2 ** rw_bits


def orval(opt, value, data):
    a = ((opt or 0) & 0b11111100) | (value & 0b00000011)
    b = (value or 7) + (value and 5)
    c = data or b"\x01"
    return (a, b, c, bool(value) or bool(a))


class Base(object):
    @classmethod
    def code_of(cls, data):
        if not data.startswith(cls.PDU_CODE):
            return None
        return data[len(cls.PDU_CODE):]

    def enumer(self, data, br):
        acc = 0
        for index, octet in enumerate(data):
            acc += index * octet
        k = (106, 212, 424).index(br)
        return (acc, k, bytearray.fromhex("00ff"))

    def tl(self, data):
        if len(data) < 1:
            return (0, -1, None)
        return (data[0], len(data), data[1:])


class Sub(Base):
    PDU_CODE = bytearray(b'\xD4\x08')


def typed(cause):
    if cause is None:
        return 0
    elif type(cause) is int:
        data_pop(cause)
        return cause
    else:
        return len(cause)


class PduBase(object):
    class PFB(object):
        def __init__(self, fmt, nad, did, pni):
            self.fmt, self.nad = fmt, nad
            self.did = did
            self.pni = pni

    def __init__(self, pfb, did):
        self.pfb = pfb
        self.did = did

    @classmethod
    def mk(cls, data):
        b = data[0]
        pfb = cls.PFB(b >> 4, bool(b & 8), bool(b & 4), b & 3)
        did = data.pop(0) if pfb.did else None
        return cls(pfb, did)

    @classmethod
    def mk2(cls, data, more):
        kind = (0x02, 0x12)[more]
        pfb = cls.PFB(kind, did=bool(data[1] & 4), pni=data[1] & 3, nad=False)
        first = data[more]
        if first > 9:
            return cls(pfb, did=None)
        return cls(did=first, pfb=pfb)

    def enc(self, tail):
        pfb = self.pfb
        b = (pfb.fmt << 4) | (pfb.nad << 3) | (pfb.did << 2) | pfb.pni
        data = bytearray([b & 255])
        if self.pfb.did:
            data.append(self.did)
        return data + tail


def batch3(key, data, cfg, step):
    rev = key[7::-1] + key[15:7:-1] + key[:-4:-1] + key[::-1][0:1]
    cfg[2:4] = key[0:3]
    cfg[0] |= 0x40
    lst = [0x02, step] + [0x00 for _ in range(3)] + 2 * [7]
    lst.append(9)
    pages = [(step + i) >> 2 for i in (1, 2, 3)]
    nfcid, (a, b) = data[0:2], data[2:4]
    tot = 0
    for i in range(0, 10, step):
        tot += i
    for i in range(3):
        tot += 1
    for i in range(2):
        tot += i
    k = lst.index(9)
    try:
        z = data[5]
    except IndexError:
        raise ValueError("short")
    else:
        tot += z
    if step is not 1:
        tot += 100
    return (rev, cfg, bytearray(lst), pages[0] != pages[1], nfcid, a + b, tot, k)


def anyret(x):
    return (x, 1) if x > 3 else (x, 2, 3)


def brty_kind(brty, other):
    if brty.endswith('A'):
        k = 1
    elif brty.endswith('B') or brty.startswith('2'):
        k = 2
    else:
        k = 3
    if other is None:
        return k, brty
    name = brty if brty == other else brty + "/" + other
    return k, name


class Norm(object):
    def __init__(self, did, data=None):
        self.did = did if did else 0
        self.data = bytearray() if data is None else data


def mknorm(x, flag, opt):
    if flag:
        r = Norm(x)
    else:
        r = Norm(None, data=bytearray([x & 255]))
    if len(r.data) + r.did > 5:
        return Norm(opt, r.data + r.data)
    return r


class Socks(object):
    def shuffle(self, a, b):
        self.sock_list.appendleft(a)
        self.sock_list.append(b)
        self.sock_list.remove(b if a % 3 else a + 1)
        self.send_list.popleft()
        local = [a]
        local.extend(self.send_list)
        return local


def nlen_pack(data, size):
    import struct
    lfmt = ">I" if size == 4 else ">H"
    nlen = bytearray(struct.pack(lfmt, len(data) + size))
    return nlen + data + struct.pack("<H" if size else ">B", size)


class Socks2(object):
    def insert(self, socket, ok):
        if ok:
            self.sock_list.appendleft(socket)
            local = [1]
        else:
            local = []
            local.append(socket)
        for x in local:
            self.sock_list.append(x + socket)
            if x > 5:
                self.sock_list.popleft()
        return ok


def decide_whole(data, flag):
    if len(data) == 1:
        return 1
    if len(data) == 1 or flag:
        return 2
    return 3 if len(data) == 1 else 4


class Fmt(object):
    def format(self, version, wipe, data):
        import struct
        from struct import pack as _p
        status = self._format(version, wipe)
        self._write(self, data)
        if status is True:
            self._ndef = None
        if status is not False and self._ok(version):
            return 1 + len(data)
        return 0 if status is None else -1


class Over(Fmt):
    def protect(self, password, read_protect, protect_from):
        args = (password, read_protect, protect_from)
        return super(Over, self).protect(*args)

    def ndef(self):
        nd = self.NDEF(self)
        if nd.has_changed:
            return 1
        return self._mk(None, b"ab") + self._mk(3, None)


class Stubs(object):
    def run(self, x):
        a = self._rd(x)
        b = self._act(x, a)
        idm, pmm = self._poll(x & 3)
        n = 0 if a is None else len(a)
        return n + (b if b is not None else -7) + len(idm) * 16 + len(pmm)
