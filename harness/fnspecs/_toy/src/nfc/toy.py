import struct


class DecodeError(Exception):
    pass


class Rec(object):
    def __init__(self, dsap, ssap, miu=128, rw=1, sn=None):
        self.dsap = dsap
        self.ssap = ssap
        self.miu = miu
        self.rw = rw
        self.sn = sn


def find_first(data, x):
    for i in range(len(data)):
        if data[i] == x:
            return i
    return -1


def count_until(data, stop):
    n = 0
    for b in data:
        if b == stop:
            break
        if b == 0:
            continue
        n += 1
    return n


def wloop(data, offset):
    total = 0
    while offset < len(data):
        l = data[offset]
        if l == 0xFF:
            return -1
        if l == 0:
            break
        total += l
        offset += 1 + l
    return total + offset


def nested(data):
    acc = 0
    for i in range(3):
        for b in data:
            if b == i:
                break
            if b == 9:
                return 1000 + acc
            acc += b
    return acc


def header(data, offset=0, size=None):
    if size is None:
        size = len(data) - offset
    if size < 2:
        raise DecodeError("short")
    (dsap, ssap) = struct.unpack_from('!BB', data, offset)
    return (dsap >> 2, ssap & 63)


def use_header(data):
    a, b = header(data)
    c, d = header(data, 1)
    e, f = header(data, 1, 5)
    return a + b + c + d + e + f


def mkrec(data):
    dsap, ssap = header(data)
    r = Rec(dsap, ssap)
    if dsap == 1:
        r.miu = 128 + ssap
    elif dsap == 2:
        r.rw = ssap
    else:
        r.sn = data[2:]
    return r


def optval(x, y):
    return (x + 128 if x is not None else 128) + (0 if y is None else y)


def lookup(i):
    return (64, 128, 192, 254)[i]
