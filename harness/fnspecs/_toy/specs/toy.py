from translate_fn import Spec, INT, BYTES, OPT, REC
GROUP = "Toy"
SPECS = [
    Spec(GROUP, "find_first", "toy.py", "find_first", [("data", BYTES), ("x", INT)]),
    Spec(GROUP, "count_until", "toy.py", "count_until", [("data", BYTES), ("stop", INT)]),
    Spec(GROUP, "wloop", "toy.py", "wloop", [("data", BYTES), ("offset", INT)]),
    Spec(GROUP, "nested", "toy.py", "nested", [("data", BYTES)]),
    Spec(GROUP, "header", "toy.py", "header", [("data", BYTES), ("offset", INT), ("size", OPT(INT))]),
    Spec(GROUP, "use_header", "toy.py", "use_header", [("data", BYTES)]),
    Spec(GROUP, "mkrec", "toy.py", "mkrec", [("data", BYTES)],
         records={"Rec": {"dsap": INT, "ssap": INT, "miu": INT, "rw": INT, "sn": OPT(BYTES)}}),
    Spec(GROUP, "optval", "toy.py", "optval", [("x", OPT(INT)), ("y", OPT(INT))]),
    Spec(GROUP, "lookup", "toy.py", "lookup", [("i", INT)]),
]
BRIDGE = {"module": "", "theorems": [], "properties": []}
from translate_fn import BOOL
SPECS += [
    Spec(GROUP, "frame_check", "toy.py", "Chip.frame_check", [("frame", BYTES)]),
    Spec(GROUP, "counters", "toy.py", "Chip.counters", [("acks", INT), ("flag", BOOL)],
         binds=[("self.acks_recvd", "acks_recvd", INT)], stores=["self.acks_recvd"], stmts=(0, 1),
         result=["self.acks_recvd"]),
    Spec(GROUP, "deep", "toy.py", "Chip.deep", [("x", INT), ("i", INT)], path=[(0, "body"), (0, "body")],
         stmts=(0, 3), result=["z"]),
]


def inputs(rng, sp):
    out = []
    if sp.lean == "frame_check":
        for _ in range(150):
            body = bytes(rng.choice([0, 1, 255, rng.randrange(256)]) for _ in range(rng.randrange(0, 9)))
            if rng.random() < 0.5 and body:
                body = body[:-1] + bytes([(-sum(body[:-1])) & 255])
            out.append(([bytes.fromhex("0000FF") + body], []))
        out.append(([bytes.fromhex("0000FF00FF00")], []))
    return out
from translate_fn import OPT, TUP
SPECS += [
    Spec(GROUP, "data_pop", "toy.py", "data_pop", [("n", INT)]),
    Spec(GROUP, "opt_miu_set", "toy.py", "Opt.miu@setter", [("value", INT)], stores=["self._miux"], stmts=(0, 1),
         result=["self._miux"]),
    Spec(GROUP, "opt_miu_get", "toy.py", "Opt.miu", [], binds=[("self._miux", "miux", OPT(INT))]),
    Spec(GROUP, "opt_maybe", "toy.py", "Opt.maybe", [("data", BYTES)], ret=OPT(INT)),
    Spec(GROUP, "opt_fits", "toy.py", "Opt.fits", [("size", INT), ("limit", OPT(INT))]),
    Spec(GROUP, "opt_popper", "toy.py", "Opt.popper", [("data", BYTES), ("flag", BOOL)]),
    Spec(GROUP, "opt_logidx", "toy.py", "Opt.logidx", [("rsp", BYTES)], stmts=(0, 7),
         binds=[("self.cfg['send-miu']", "send_miu", INT), ("len(self.queue)", "qlen", INT)],
         drop=["self.notify_all", "strerr ="], excs={"ProtocolError": "protocol", "Chip.Error": "io"},
         reraise={"error": "Exc.index"}),
    Spec(GROUP, "opt_expr", "toy.py", "Opt.fits", [("size", INT)], expr="size - 2", nth=0),
]
SPECS += [
    Spec(GROUP, "lastvar", "toy.py", "lastvar", [("rw_bits", INT), ("k", INT)], nonneg=["rw_bits"]),
]
SMALL_INT = ("lastvar",)
SPECS += [Spec(GROUP, "orval", "toy.py", "orval", [("opt", OPT(INT)), ("value", INT), ("data", BYTES)])]
SPECS += [
    Spec(GROUP, "code_of", "toy.py", "Base.code_of", [("data", BYTES)], via="Sub", ret=OPT(BYTES)),
    Spec(GROUP, "enumer", "toy.py", "Base.enumer", [("data", BYTES), ("br", INT)]),
    Spec(GROUP, "tl", "toy.py", "Base.tl", [("data", BYTES)], ret=TUP(INT, INT, OPT(BYTES))),
]
SPECS += [
    Spec(GROUP, "typed_int", "toy.py", "typed", [("cause", OPT(INT))]),
    Spec(GROUP, "typed_bytes", "toy.py", "typed", [("cause", BYTES)]),
]
from translate_fn import ANY, REC, LIST
SPECS += [
    Spec(GROUP, "pdubase_mk", "toy.py", "PduBase.mk", [("data", BYTES)],
         records={"PduBase": {"pfb": REC("PFB"), "did": OPT(INT)}, "PFB": {"fmt": INT, "nad": BOOL, "did": BOOL, "pni": INT}}),
    Spec(GROUP, "pdubase_mk2", "toy.py", "PduBase.mk2", [("data", BYTES), ("more", BOOL)],
         records={"PduBase": {"pfb": REC("PFB"), "did": OPT(INT)}, "PFB": {"fmt": INT, "nad": BOOL, "did": BOOL, "pni": INT}}),
    Spec(GROUP, "pdubase_enc", "toy.py", "PduBase.enc", [("tail", BYTES)],
         binds=[("self.pfb", "pfb", REC("PFB")), ("self.did", "did", INT)],
         records={"PFB": {"fmt": INT, "nad": BOOL, "did": BOOL, "pni": INT}}),
    Spec(GROUP, "batch3", "toy.py", "batch3", [("key", BYTES), ("data", BYTES), ("cfg", BYTES), ("step", INT)]),
    Spec(GROUP, "anyret", "toy.py", "anyret", [("x", INT)], ret=ANY),
]
SMALL_INT = SMALL_INT + ("batch3",)
from translate_fn import STR
SPECS += [
    Spec(GROUP, "brty_kind", "toy.py", "brty_kind", [("brty", STR), ("other", OPT(STR))]),
]
SPECS += [
    Spec(GROUP, "mknorm", "toy.py", "mknorm", [("x", INT), ("flag", BOOL), ("opt", OPT(INT))],
         records={"Norm": {"did": INT, "data": BYTES}}),
]
SPECS += [
    Spec(GROUP, "socks_shuffle", "toy.py", "Socks.shuffle", [("a", INT), ("b", INT)],
         binds=[("self.sock_list", "sock_list", LIST(INT)), ("self.send_list", "send_list", LIST(INT))],
         stores=["self.sock_list", "self.send_list"], stmts=(0, 6), result=["local", "self.sock_list", "self.send_list"]),
]
SMALL_INT = SMALL_INT + ("socks_shuffle",)
SPECS += [
    Spec(GROUP, "nlen_pack", "toy.py", "nlen_pack", [("data", BYTES), ("size", INT)], stmts=(1, 4)),
]
SPECS += [
    Spec(GROUP, "socks_insert", "toy.py", "Socks2.insert", [("socket", INT), ("ok", BOOL)],
         binds=[("self.sock_list", "sock_list", LIST(INT))], stores=["self.sock_list"], stmts=(0, 2),
         result=["ok", "local", "self.sock_list"]),
]
SMALL_INT = SMALL_INT + ("socks_insert",)
SPECS += [
    Spec(GROUP, "decide_whole1", "toy.py", "decide_whole", [("data", BYTES)], expr="len(data) == 1", nth=1, whole=True, ret=BOOL),
    Spec(GROUP, "decide_whole2", "toy.py", "decide_whole", [("data", BYTES), ("flag", BOOL)], expr="len(data) == 1 or flag",
         whole=True, ret=BOOL),
]
from translate_fn import NONE
SPECS += [
    Spec(GROUP, "fmt_format", "toy.py", "Fmt.format", [("version", INT), ("wipe", BOOL), ("data", BYTES)],
         binds=[("self._ndef", "ndef", OPT(INT))], stores=["self._ndef"], stmts=(0, 5), result=["status", "self._ndef"],
         opaque={"self._format": ("fmt", [INT, BOOL], OPT(BOOL), True), "self._write": ("wr", [NONE, BYTES], INT, True)}),
    Spec(GROUP, "fmt_tail", "toy.py", "Fmt.format", [("version", INT), ("data", BYTES), ("status", OPT(BOOL))],
         stmts=(5, 7), opaque={"self._ok": ("okf", [INT], BOOL, False)}),
]
SPECS += [
    Spec(GROUP, "over_protect", "toy.py", "Over.protect", [("password", OPT(BYTES)), ("read_protect", BOOL), ("protect_from", INT)],
         stmts=(0, 2), opaque={"super(Over, self).protect": ("sup", [OPT(BYTES), BOOL, INT], OPT(BOOL), True)}),
    Spec(GROUP, "over_ndef", "toy.py", "Over.ndef", [], stmts=(0, 3), binds=[("nd.has_changed", "changed", BOOL)],
         opaque={"self.NDEF": ("mk", [NONE], INT, False), "self._mk": ("mk2", [OPT(INT), OPT(BYTES)], INT, True)}),
]
SPECS += [
    Spec(GROUP, "stubs_run", "toy.py", "Stubs.run", [("x", INT)],
         opaque={"self._rd": ("rd", [INT], OPT(BYTES), True), "self._act": ("act", [INT, OPT(BYTES)], OPT(INT), False),
                 "self._poll": ("poll", [INT], TUP(BYTES, BYTES), True)}),
]
