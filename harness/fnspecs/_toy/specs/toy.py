from translate_fn import Spec, INT, BYTES, OPT, REC
GROUP = "Toy"
SPECS = [
    Spec(GROUP, "find_first", "toy.py", "find_first", [("data", BYTES), ("x", INT)]),
    Spec(GROUP, "count_until", "toy.py", "count_until", [("data", BYTES), ("stop", INT)]),
    Spec(GROUP, "wloop", "toy.py", "wloop", [("data", BYTES), ("offset", INT)]),
    Spec(GROUP, "nested", "toy.py", "nested", [("data", BYTES)]),
    Spec(GROUP, "header", "toy.py", "header", [("data", BYTES), ("offset", INT), ("size", OPT(INT))]),
    Spec(GROUP, "use_header", "toy.py", "use_header", [("data", BYTES)]),
    Spec(GROUP, "mkrec", "toy.py", "mkrec", [("data", BYTES)],
         records={"Rec": {"dsap": INT, "ssap": INT, "miu": INT, "rw": INT, "sn": OPT(BYTES)}}),
    Spec(GROUP, "optval", "toy.py", "optval", [("x", OPT(INT)), ("y", OPT(INT))]),
    Spec(GROUP, "lookup", "toy.py", "lookup", [("i", INT)]),
]
BRIDGE = {"module": "", "theorems": [], "properties": []}
