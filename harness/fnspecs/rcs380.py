"""group Rcs380: nfc/clf/rcs380.py host-link frames and status words -> Model/HostFrame.lean `rcsBuild`,
Model/ErrMap.lean `rcsFrame`, `rcsRsp`, `unpackLeL`, `rcsMapI/T` (C14, C13)

Cuts (documented in the notes): `Frame.__init__` is translated arm by arm (command frame construction / received
frame classification), `CommunicationError.__eq__` with the table lookup `str2err[strerr]` as a parameter.
"""
from translate_fn import Spec, INT, BYTES, STR

GROUP = "Rcs380"
ORDER = 64
F = "clf/rcs380.py"
SPECS = [
    Spec(GROUP, "rcs380_frame_build", F, "Frame.__init__", [("data", BYTES)], path=[(3, "orelse")], stmts=(0, 5),
         result=["frame"],
         note="cut: the else arm of `if data[0:3] == bytearray(b'\\x00\\x00\\xff')` (a command frame is built around "
              "`data`) without the final `self._frame = frame`; result: `frame`"),
    Spec(GROUP, "rcs380_comm_err_init", F, "CommunicationError.__init__", [("status_bytes", BYTES)],
         stores=["self.errno"], result=["self.errno"],
         note="result: the attribute `self.errno` (the 32-bit little-endian status word)"),
    Spec(GROUP, "rcs380_comm_err_eq", F, "CommunicationError.__eq__", [("strerr", STR)],
         binds=[("self.errno", "self_errno", INT), ("CommunicationError.str2err[strerr]", "mask", INT)],
         note="cut: the table lookup `CommunicationError.str2err[strerr]` is the parameter `mask` "
              "(RECEIVE_TIMEOUT_ERROR = 0x80, RF_OFF_ERROR = 0x400 in the source table)"),
]
# `if data and data[0] != 0: raise StatusError(data[0])` behind `data = self.send_command(..)`: seven textual copies
_EX = {"StatusError": "rcsStatus", "CommunicationError": "rcsComm"}
_STATUS = [("in_set_rf", None, (4, 5)), ("in_set_protocol", [(3, "body")], (1, 2)), ("switch_rf", None, (2, 3)),
           ("tg_set_rf", None, (3, 4)), ("tg_set_protocol", None, (4, 5)), ("tg_set_auto", None, (1, 2)),
           ("set_command_type", None, (1, 2))]
for _f, _path, _st in _STATUS:
    SPECS.append(Spec(GROUP, "rcs380_%s_status" % _f, F, "Chipset.%s" % _f, [("data", BYTES)], path=_path, stmts=_st,
                      excs=_EX,
                      note="cut: the status check behind `data = self.send_command(..)`; parameter `data` is that value "
                           "(a byte string; `None` - transport closed or unexpected frame - passes the check and is not modelled)"))
# received frames: `Frame.__init__`, arm `if data[0:3] == bytearray(b"\x00\x00\xff")`.  The arm assigns `self._type` and
# reads it back through the property `self.type`; without a property alias in the translator the arm is translated
# piecewise: the four conditions as sub-expression cuts and the payload extraction as a statement cut.  The if/elif
# chain that combines them is stated in the bridge theorem `frame_parse_bridge` (read from the source, not regenerated).
SPECS += [
    Spec(GROUP, "rcs380_frame_is_rsp", F, "Frame.__init__", [("data", BYTES)],
         expr='data[0:3] == bytearray(b"\\x00\\x00\\xff")', whole=True, note="cut: the test that selects the received-frame arm"),
    Spec(GROUP, "rcs380_frame_is_ack", F, "Frame.__init__", [("frame", BYTES)],
         expr='frame == bytearray(b"\\x00\\x00\\xff\\x00\\xff\\x00")', whole=True, note="cut: the test for `self._type = 'ack'`"),
    Spec(GROUP, "rcs380_frame_is_err", F, "Frame.__init__", [("frame", BYTES)],
         expr='frame == bytearray(b"\\x00\\x00\\xFF\\xFF\\xFF")', whole=True, note="cut: the test for `self._type = 'err'`"),
    Spec(GROUP, "rcs380_frame_is_data", F, "Frame.__init__", [("frame", BYTES)],
         expr='frame[3:5] == bytearray(b"\\xff\\xff")', whole=True, note="cut: the test for `self._type = 'data'`"),
    Spec(GROUP, "rcs380_frame_data", F, "Frame.__init__", [("frame", BYTES)], path=[(3, "body"), (2, "body")],
         stores=["self._data"], result=["self._data"],
         note="cut: inside `if self.type == 'data':` the payload extraction; result: the attribute `self._data`"),
    # `Chipset.send_command`: the response code test and the returned payload (the `else` arm is a logging call with
    # a starred argument - `logmsg.format(cmd_code+1, *rsp.data[0:2])`, IndexError for a one-octet payload - that the
    # translator refuses; the model `rcsRsp` has it)
    Spec(GROUP, "rcs380_rsp_code_ok", F, "Chipset.send_command", [("cmd_code", INT)], binds=[("rsp.data", "data", BYTES)],
         expr="rsp.data[0] == 0xD7 and rsp.data[1] == cmd_code + 1", whole=True,
         note="cut: the test on the response code; `rsp.data` is the parameter `data`"),
    Spec(GROUP, "rcs380_rsp_payload", F, "Chipset.send_command", [], binds=[("rsp.data", "data", BYTES)],
         expr="rsp.data[2:]", whole=True, note="cut: the returned payload"),
    # InCommRF / TgCommRF: communication status word of the response
    Spec(GROUP, "rcs380_in_comm_rf_check", F, "Chipset.in_comm_rf", [("data", BYTES)], stmts=(2, 4),
         excs={"CommunicationError": ("rcsComm", "rcs380_comm_err_init")},
         note="cut: the statements behind `data = self.send_command(0x04, ..)`; parameter `data` is that value (a byte "
              "string; `None` is not modelled); the constructor of CommunicationError is `rcs380_comm_err_init`"),
    Spec(GROUP, "rcs380_tg_comm_rf_check", F, "Chipset.tg_comm_rf", [("data", BYTES)], stmts=(3, 5),
         excs={"CommunicationError": ("rcsComm", "rcs380_comm_err_init")},
         note="cut: the statements behind `data = self.send_command(0x48, data)`; parameter `data` is that value"),
    Spec(GROUP, "rcs380_tgt_result", F, "Device.send_rsp_recv_cmd", [("data", BYTES)], path=[(2, "body")], stmts=(1, 2),
         note="cut: inside the `try:` the statement behind `data = self.chipset.tg_comm_rf(**kwargs)`"),
]
P = "NfcVerif.FnBridge.Rcs380."
BRIDGE = {
    "module": "NfcVerif.Props.FnBridgeRcs380",
    "theorems": [P + t for t in (
        "frame_build_bridge", "comm_err_init_bridge", "comm_err_eq_bridge", "comm_err_eq_timeout", "comm_err_eq_rfoff",
        "gen_build_valid", "status_check_bridge", "status_check_all", "frame_conditions_bridge", "frame_data_bridge",
        "frame_parse_bridge", "rsp_bridge", "in_comm_rf_bridge", "tg_comm_rf_bridge")],
    "properties": ["C14", "C13"],
}


def inputs(rng, sp):
    out = []
    if sp.lean == "rcs380_frame_build":
        for n in (0, 1, 254, 255, 256, 257, 290, 511, 512):
            out.append(([bytes(rng.randrange(256) for _ in range(n))], []))
    if sp.lean == "rcs380_comm_err_init":
        for _ in range(30):
            out.append(([bytes(rng.randrange(256) for _ in range(4))], []))
    if sp.lean == "rcs380_comm_err_eq":
        for _ in range(120):
            st = rng.choice([0, 0x80, 0x400, 0x480, 0x80000000, rng.randrange(2 ** 32)])
            out.append((["x"], [st, rng.choice([0, 1, 0x80, 0x400, 0x800, 0x80000000])]))
    if sp.lean.startswith("rcs380_frame_is") or sp.lean == "rcs380_frame_data":
        for _ in range(60):
            body = bytes(rng.randrange(256) for _ in range(rng.randrange(0, 10)))
            ln = len(body) if rng.random() < 0.8 else rng.randrange(0, 600)
            f = b"\x00\x00\xff\xff\xff" + bytes([ln & 255, ln >> 8, (256 - (ln & 255) - (ln >> 8)) % 256]) + body + b"\x00\x00"
            out.append(([f[:rng.randrange(0, len(f) + 1)] if rng.random() < 0.3 else f], []))
        for f in (b"\x00\x00\xff\x00\xff\x00", b"\x00\x00\xff\xff\xff", b"\x00\x00\xff\x00\xff", b"\x00\x00\xff", b"\x00\x00"):
            out.append(([f], []))
    if sp.lean == "rcs380_rsp_code_ok":
        for _ in range(60):
            cmd = rng.randrange(0, 255)
            d = bytes([0xD7 if rng.random() < 0.8 else rng.randrange(256), cmd + 1 if rng.random() < 0.8 else rng.randrange(256)]) + \
                bytes(rng.randrange(256) for _ in range(rng.randrange(0, 4)))
            out.append(([cmd], [d[:rng.randrange(0, len(d) + 1)] if rng.random() < 0.3 else d]))
    if sp.lean in ("rcs380_in_comm_rf_check", "rcs380_tg_comm_rf_check"):
        k = 0 if sp.lean == "rcs380_in_comm_rf_check" else 3
        for _ in range(80):
            st = rng.choice([0, 0, 0x80, 0x400, rng.randrange(2 ** 32)])
            d = bytes(rng.randrange(256) for _ in range(k)) + st.to_bytes(4, "little") + bytes(rng.randrange(256) for _ in range(rng.randrange(0, 6)))
            out.append(([d[:rng.randrange(0, len(d) + 1)] if rng.random() < 0.3 else d], []))
    if sp.lean.endswith("_status"):
        for d in (b"", b"\x00", b"\x01", b"\x00\x01", b"\x07\x00", b"\xff"):
            out.append(([d], []))
    return out


MUTATIONS = [
    ("rcs380_frame_build", "preamble/start code", "bytearray([0, 0, 255, 255, 255])", "bytearray([0, 0, 255, 255, 254])"),
    ("rcs380_frame_build", "byte order of the length", 'struct.pack("<H", len(data))', 'struct.pack(">H", len(data))'),
    ("rcs380_frame_build", "length checksum over one octet", "sum(frame[5:7])", "sum(frame[5:6])"),
    ("rcs380_frame_build", "length checksum from the length instead of its octets (wrong from 256 octets up)",
     "(256 - sum(frame[5:7])) % 256", "-len(data) % 256"),
    ("rcs380_frame_build", "data checksum includes the length checksum", "sum(frame[8:])", "sum(frame[7:])"),
    ("rcs380_frame_build", "data checksum not negated", "(256 - sum(frame[8:])) % 256, 0", "sum(frame[8:]) % 256, 0"),
    ("rcs380_frame_build", "postamble", "% 256, 0])", "% 256, 1])"),
    ("rcs380_comm_err_init", "byte order of the status word", "'<L'", "'>L'"),
    ("rcs380_comm_err_eq", "mask test turned into equality", "bool(self.errno & errno)", "bool(self.errno == errno)"),
    ("rcs380_comm_err_eq", "zero status matches everything", "if self.errno or errno else True", "if self.errno and errno else True"),
    ("rcs380_in_set_rf_status", "status octet position", "data[0] != 0", "data[1] != 0"),
    ("rcs380_in_set_protocol_status", "check dropped for non-zero status", "if data and data[0] != 0:", "if data and data[0] > 1:"),
    ("rcs380_tg_set_rf_status", "wrong exception class", "raise StatusError(data[0])", "raise CommunicationError(data[0:4])"),
    ("rcs380_frame_is_rsp", "start code", 'data[0:3] == bytearray(b"\\x00\\x00\\xff")', 'data[0:3] == bytearray(b"\\x00\\x00\\xfe")'),
    ("rcs380_frame_is_ack", "ACK pattern", 'frame == bytearray(b"\\x00\\x00\\xff\\x00\\xff\\x00")', 'frame == bytearray(b"\\x00\\x00\\xff\\xff\\x00\\x00")'),
    ("rcs380_frame_is_data", "extended frame marker position", "frame[3:5] == bytearray", "frame[2:4] == bytearray"),
    ("rcs380_frame_data", "byte order of the length", 'struct.unpack("<H", bytes(frame[5:7]))', 'struct.unpack(">H", bytes(frame[5:7]))'),
    ("rcs380_frame_data", "payload offset", "frame[8:8+length]", "frame[7:7+length]"),
    ("rcs380_rsp_code_ok", "response TFI", "rsp.data[0] == 0xD7", "rsp.data[0] == 0xD5"),
    ("rcs380_rsp_code_ok", "response code not incremented", "rsp.data[1] == cmd_code + 1", "rsp.data[1] == cmd_code"),
    ("rcs380_rsp_payload", "payload offset", "return rsp.data[2:]", "return rsp.data[1:]"),
    ("rcs380_in_comm_rf_check", "status word position", "tuple(data[0:4]) != (0, 0, 0, 0)", "tuple(data[1:5]) != (0, 0, 0, 0)"),
    ("rcs380_in_comm_rf_check", "payload offset", "return data[5:] if data else None", "return data[4:] if data else None"),
    ("rcs380_tg_comm_rf_check", "status word position", "tuple(data[3:7]) != (0, 0, 0, 0)", "tuple(data[2:6]) != (0, 0, 0, 0)"),
    ("rcs380_tgt_result", "payload offset", "return data[7:] if data else None", "return data[6:] if data else None"),
    ("rcs380_frame_is_ack", "ACK test gains an operand", 'if frame == bytearray(b"\\x00\\x00\\xff\\x00\\xff\\x00"):', 'if frame == bytearray(b"\\x00\\x00\\xff\\x00\\xff\\x00") or len(frame) == 6:'),
    ("rcs380_frame_is_data", "data frame test gains an operand", 'elif frame[3:5] == bytearray(b"\\xff\\xff"):', 'elif frame[3:5] == bytearray(b"\\xff\\xff") or len(frame) > 8:'),
    ("rcs380_rsp_code_ok", "response code test gains an operand", "if rsp.data[0] == 0xD7 and rsp.data[1] == cmd_code + 1:", "if (rsp.data[0] == 0xD7 and rsp.data[1] == cmd_code + 1) or len(rsp.data) > 2:"),
    ("rcs380_frame_build", "NEUTRAL modulus written as mask", "(256 - sum(frame[5:7])) % 256", "(256 - sum(frame[5:7])) & 255"),
]
