"""group TagCmd: command framing / response checks of nfc/tag/tt1.py, tt2.py, tt3.py
-> Model/AdvT12.lean, Model/AdvT34.lean, Model/Auth.lean, Model/Tlv.lean, Model/FnTagCmdRef.lean (C16, C08, C01, C02, C03)

Every method of the tag classes talks to the tag through `self.transceive` / `self.clf.exchange`; what is translated
are the pure statement ranges in front of that call (the command octets) and behind it (the response checks).  The
call itself, its retry loop (C16, Model/Retry.lean) and the float timeout arithmetic are cut."""
from translate_fn import Spec, INT, BOOL, BYTES, LIST, SET, TUP, OPT, ANY

GROUP = "TagCmd"
ORDER = 60
T1, T2, T3 = "tag/tt1.py", "tag/tt2.py", "tag/tt3.py"
_UID = [("self.uid", "uid", BYTES)]
_IDM = [("self.idm", "idm", BYTES)]

SPECS = [
    # ---- Type 1 Tag commands
    Spec(GROUP, "t1_read_id_cmd", T1, "Type1Tag.read_id", [], stmts=(0, 2), result=["cmd"],
         note="cut: the RID command handed to `self.transceive`"),
    Spec(GROUP, "t1_read_all_cmd", T1, "Type1Tag.read_all", [], binds=_UID, stmts=(0, 2), result=["cmd"],
         note="cut: the RALL command handed to `self.transceive`"),
    Spec(GROUP, "t1_read_byte_cmd", T1, "Type1Tag.read_byte", [("addr", INT)], binds=_UID, stmts=(0, 3), result=["cmd"],
         note="cut: address check and the READ command; `self.transceive(cmd)[-1]` is not translated"),
    Spec(GROUP, "t1_read_block_rsp", T1, "Type1Tag.read_block", [("rsp", BYTES)], stmts=(4, 6),
         note="cut: the statements after `rsp = self.transceive(cmd)`"),
    Spec(GROUP, "t1_read_segment_rsp", T1, "Type1Tag.read_segment", [("rsp", BYTES)], stmts=(4, 6),
         note="cut: the statements after `rsp = self.transceive(cmd)`"),
    Spec(GROUP, "t1_hdr_len", T1, "Type1Tag.NDEF._write_ndef_data", [("data", BYTES), ("offset", INT)], stmts=[7],
         result=["offset"], note="cut: `offset += 2 if len(data) < 255 else 4` (room for the NDEF TLV tag and length octets)"),
    # ---- Type 2 Tag commands
    Spec(GROUP, "t2_read_rsp", T2, "Type2Tag.read", [("data", BYTES)], stmts=(3, 5),
         note="cut: the length check after the NAK branch (the NAK branch re-senses the tag: not pure)"),
    Spec(GROUP, "t2_write_check", T2, "Type2Tag.write", [("page", INT), ("data", BYTES)], stmts=(0, 1),
         note="cut: the argument check in front of the WRITE command"),
    Spec(GROUP, "t2_write_rsp", T2, "Type2Tag.write", [("rsp", BYTES), ("data", BYTES)], stmts=(3, 6),
         note="cut: the statements after `rsp = self.transceive(..)`"),
    Spec(GROUP, "t2_hdr_len", T2, "Type2Tag.NDEF._write_ndef_data", [("data", BYTES), ("offset", INT)], stmts=[6],
         result=["offset"], note="cut: `offset += 2 if len(data) < 255 else 4`"),
    # ---- Type 3 Tag commands
    Spec(GROUP, "t3_service_code_pack", T3, "ServiceCode.pack", [],
         binds=[("self.number", "number", INT), ("self.attribute", "attr", INT)]),
    Spec(GROUP, "t3_frame", T3, "Type3Tag.send_cmd_recv_rsp",
         [("cmd_code", INT), ("cmd_data", BYTES), ("timeout", INT), ("send_idm", BOOL)], binds=_IDM,
         stmts=(0, 2), result=["cmd"], note="cut: the command frame handed to `self.clf.exchange`; `timeout` is unused here"),
    Spec(GROUP, "t3_polling_cmd", T3, "Type3Tag.polling", [("system_code", INT), ("request_code", INT), ("time_slots", INT)],
         stmts=[0, 1, 2, 4], result=["data"],
         note="cut: argument checks and the command data; the float `timeout` (statement 3) is not translated"),
    Spec(GROUP, "t3_polling_len", T3, "Type3Tag.polling", [("request_code", INT), ("data", BYTES)], stmts=[6],
         note="cut: the response length check after `send_cmd_recv_rsp`"),

    # ---- phase 2: cuts by sub-expression (`expr=`) and nested statements
    Spec(GROUP, "t1_uid", T1, "Type1Tag.__init__", [], binds=[("target.rid_res", "rid_res", BYTES)], whole=True, expr="target.rid_res[2:6]",
         note="cut: the UID echo taken from RID_RES"),
    Spec(GROUP, "t1_write_byte_cmd", T1, "Type1Tag.write_byte", [("addr", INT), ("data", INT), ("erase", BOOL)], binds=_UID,
         stmts=(0, 4), result=["cmd"], note="cut: address check and the WRITE-E / WRITE-NE command"),
    Spec(GROUP, "t1_write_block_cmd", T1, "Type1Tag.write_block", [("block", INT), ("data", BYTES), ("erase", BOOL)], binds=_UID,
         stmts=(0, 4), result=["cmd"], note="cut: block number check and the WRITE-E8 / WRITE-NE8 command"),
    Spec(GROUP, "t1_write_block_rsp", T1, "Type1Tag.write_block", [("rsp", BYTES), ("data", BYTES), ("erase", BOOL)], stmts=(5, 7),
         note="cut: the statements after `rsp = self.transceive(cmd)`"),
    Spec(GROUP, "t1_unit_size", T1, "Type1Tag.NDEF._write_ndef_data", [("hr0", INT)],
         whole=True, expr="8 if (hr0 >> 4 == 1 and hr0 & 0x0F != 1) else 1", note="cut: write unit of the tag (8-byte blocks on dynamic memory tags)"),
    Spec(GROUP, "t1_dynamic", T1, "Type1TagMemoryReader._write_to_tag", [("hr0", INT)], whole=True, expr="hr0 >> 4 == 1 and hr0 & 0x0F != 1",
         note="cut: the test that selects WRITE-E8 (blocks) instead of WRITE-E (bytes) in `synchronize()`"),
    Spec(GROUP, "t1_block_of", T1, "Type1TagMemoryReader._write_to_tag", [("i", INT)], expr="i//8",
         note="partial cut (not `whole`): first argument of the effectful call `self._tag.write_block(..)`; cut: block number of byte address `i` in the WRITE-E8 call"),
    Spec(GROUP, "t1_segment_of", T1, "Type1TagMemoryReader._read_from_tag", [], binds=[("len(self)", "n", INT)], expr="len(self) >> 7",
         note="partial cut (not `whole`): the argument of the effectful call `self._tag.read_segment(..)`; cut: segment number of the RSEG call; `len(self)` is the number of bytes read so far"),
    Spec(GROUP, "t1_area_end", T1, "Type1Tag.NDEF._read_ndef_data", [], binds=[("tag_memory[10]", "sz", INT)],
         whole=True, expr="(tag_memory[10] + 1) * 8", note="cut: tag memory size from CC byte 2"),
    Spec(GROUP, "t1_cc_magic", T1, "Type1Tag.NDEF._read_ndef_data", [], binds=[("tag_memory[8]", "b8", INT)], whole=True, expr="tag_memory[8] != 0xE1"),
    Spec(GROUP, "t1_cc_version", T1, "Type1Tag.NDEF._read_ndef_data", [], binds=[("tag_memory[9]", "b9", INT)], whole=True, expr="tag_memory[9] >> 4 != 1"),
    Spec(GROUP, "t1_cc_readable", T1, "Type1Tag.NDEF._read_ndef_data", [], binds=[("tag_memory[11]", "b11", INT)], whole=True, expr="bool(tag_memory[11] >> 4 == 0)"),
    Spec(GROUP, "t1_cc_writeable", T1, "Type1Tag.NDEF._read_ndef_data", [], binds=[("tag_memory[11]", "b11", INT)], whole=True, expr="bool(tag_memory[11] & 0xF == 0)"),
    Spec(GROUP, "t1_skip_end", T1, "Type1Tag.NDEF._read_ndef_data", [("tag_memory_size", INT)], whole=True, expr="120 if tag_memory_size == 120 else 128",
         note="cut: end of the static reserved range 104.."),
    Spec(GROUP, "t1_next_tlv", T1, "Type1Tag.NDEF._read_ndef_data", [("tlv_l", INT)], whole=True, expr="tlv_l + 1 + (1 if tlv_l < 255 else 3)",
         note="cut: distance to the next TLV"),
    Spec(GROUP, "t2_read_cmd", T2, "Type2Tag.read", [("page", INT)], expr="bytearray([0x30, page % 256])",
         note="partial cut (not `whole`): the complete first argument of `self.transceive(..)`; cut: the READ command handed to `self.transceive`"),
    Spec(GROUP, "t2_is_nak", T2, "Type2Tag.read", [("data", BYTES)], whole=True, expr="len(data) == 1 and data[0] & 0xFA == 0x00",
         note="cut: NAK recognition (the branch re-senses the tag)"),
    Spec(GROUP, "t2_write_cmd", T2, "Type2Tag.write", [("page", INT), ("data", BYTES)], expr="bytearray([0xA2, page % 256]) + data",
         note="partial cut (not `whole`): the complete argument of `self.transceive(..)`; cut: the WRITE command handed to `self.transceive`"),
    Spec(GROUP, "t2_sector_select_2", T2, "Type2Tag.sector_select", [("sector", INT)], whole=True, expr="pack('Bxxx', sector)",
         note="cut: SECTOR SELECT packet 2"),
    Spec(GROUP, "t2_sector_ack", T2, "Type2Tag.sector_select", [("rsp", BYTES)], whole=True, expr="len(rsp) == 1 and rsp[0] == 0x0A",
         note="cut: ACK recognition after SECTOR SELECT packet 1"),
    Spec(GROUP, "t2_sector_of", T2, "Type2TagMemoryReader._read_from_tag", [("index", INT)], expr="index >> 10",
         note="partial cut (not `whole`): the argument of the effectful call `self._tag.sector_select(..)`"),
    Spec(GROUP, "t2_page_of", T2, "Type2TagMemoryReader._read_from_tag", [("index", INT)], expr="index >> 2",
         note="partial cut (not `whole`): the argument of the effectful call `self._tag.read(..)`"),
    Spec(GROUP, "t2_read_start", T2, "Type2TagMemoryReader._read_from_tag", [], binds=[("len(self)", "n", INT)], whole=True, expr="(len(self) >> 4) << 4",
         note="cut: first byte address fetched by `_read_from_tag`; `len(self)` is the number of bytes read so far"),
    Spec(GROUP, "t2_area_end", T2, "Type2Tag.NDEF._write_ndef_data", [], binds=[("tag_memory[14]", "sz", INT)], expr="tag_memory[14] * 8 + 16",
         note="partial cut (not `whole`): right operand of the terminator test; the complete test is t2_term_cond and the whole statement is in t2_term"),
    Spec(GROUP, "t2_term_cond", T2, "Type2Tag.NDEF._write_ndef_data", [("offset", INT)], binds=[("tag_memory[14]", "sz", INT)],
         whole=True, expr="offset < tag_memory[14] * 8 + 16", note="cut: the complete test that decides whether a terminator TLV is written"),
    Spec(GROUP, "t2_cc_magic", T2, "Type2Tag.NDEF._read_capability_data", [], binds=[("tag_memory[12]", "b12", INT)], whole=True, expr="tag_memory[12] != 0xE1"),
    Spec(GROUP, "t2_cc_version", T2, "Type2Tag.NDEF._read_capability_data", [], binds=[("tag_memory[13]", "b13", INT)], whole=True, expr="tag_memory[13] >> 4 != 1"),
    Spec(GROUP, "t2_cc_readable", T2, "Type2Tag.NDEF._read_capability_data", [], binds=[("tag_memory[15]", "b15", INT)], whole=True, expr="bool(tag_memory[15] >> 4 == 0)"),
    Spec(GROUP, "t2_cc_writeable", T2, "Type2Tag.NDEF._read_capability_data", [], binds=[("tag_memory[15]", "b15", INT)], whole=True, expr="bool(tag_memory[15] & 0xF == 0)"),
    Spec(GROUP, "t2_next_tlv", T2, "Type2Tag.NDEF._read_ndef_data", [("tlv_l", INT)], whole=True, expr="tlv_l + 1 + (1 if tlv_l < 255 else 3)"),
    Spec(GROUP, "t2_ndef_head", T2, "Type2Tag.NDEF._read_ndef_data", [("offset", INT)], binds=[("tag_memory[offset + 1]", "l0", INT)],
         whole=True, expr="offset + (4 if tag_memory[offset+1] == 0xFF else 2)", note="cut: first value byte of the NDEF TLV"),
    Spec(GROUP, "t3_block_code_pack", T3, "BlockCode.pack", [],
         binds=[("self.number", "number", INT), ("self.access", "access", INT), ("self.service", "service", INT)]),
    Spec(GROUP, "t3_check_rsp", T3, "Type3Tag.send_cmd_recv_rsp",
         [("cmd_code", INT), ("send_idm", BOOL), ("check_status", BOOL), ("rsp", BYTES)], binds=_IDM,
         stmts=[6, 7, 8, 9, 10, 11, 12, 14],
         note="cut: the response checks after the retry loop; parameter `rsp` is the answer of `clf.exchange`; the final "
              "debug line with `time.time()` (statement 13) is left out"),
    Spec(GROUP, "t3_read_rsp", T3, "Type3Tag.read_without_encryption", [("block_list", LIST(INT)), ("data", BYTES)], stmts=(5, 7),
         note="cut: the statements after `data = self.send_cmd_recv_rsp(..)`; only the length of `block_list` is used"),
    Spec(GROUP, "t3_rw_nsvc", T3, "Type3Tag.read_without_encryption", [("service_list", LIST(INT))], expr="bytearray([len(service_list)])",
         note="partial cut (not `whole`): first summand of the command data (the joins of packed codes are comprehensions over objects); cut: the service count octet of the command data (the joins of packed codes are comprehensions)"),
    Spec(GROUP, "t3_rw_nblk", T3, "Type3Tag.read_without_encryption", [("block_list", LIST(INT))], expr="bytearray([len(block_list)])",
         note="partial cut (not `whole`): a summand of the command data (the joins of packed codes are comprehensions over objects); cut: the block count octet of the command data"),
    Spec(GROUP, "t3_last_block", T3, "Type3Tag.NDEF._read_ndef_data", [], binds=[("attributes['ln']", "ln", INT)],
         whole=True, expr="1 + (attributes['ln'] + 15) // 16"),
    Spec(GROUP, "t3_nbr", T3, "Type3Tag.NDEF._read_ndef_data", [], binds=[("attributes['nbr']", "nbr", INT)], whole=True, expr="min(attributes['nbr'], 15)"),
    Spec(GROUP, "t3_ln_too_big", T3, "Type3Tag.NDEF._read_ndef_data", [],
         binds=[("attributes['ln']", "ln", INT), ("attributes['nmaxb']", "nmaxb", INT)], whole=True, expr="attributes['ln'] > attributes['nmaxb'] * 16"),
    Spec(GROUP, "t3_chunk_end", T3, "Type3Tag.NDEF._read_ndef_data", [("i", INT), ("nbr", INT), ("last_block_number", INT)],
         whole=True, expr="min(i + nbr, last_block_number)"),
    Spec(GROUP, "t3_pad", T3, "Type3Tag.NDEF._write_ndef_data", [("data", BYTES)], whole=True, expr="data + bytearray(-len(data) % 16)",
         note="cut: the message padded to whole blocks"),
    Spec(GROUP, "t3_wr_last_block", T3, "Type3Tag.NDEF._write_ndef_data", [("data", BYTES)], whole=True, expr="1 + (len(data) + 15) // 16"),
    Spec(GROUP, "t3_wr_chunk", T3, "Type3Tag.NDEF._write_ndef_data", [("data", BYTES), ("i", INT), ("last_block", INT)],
         whole=True, expr="data[(i-1)*16:(last_block-1)*16]"),
    Spec(GROUP, "t3_sys", T3, "Type3Tag.__init__", [], binds=[("target.sensf_res", "sensf_res", BYTES)],
         whole=True, expr='unpack(">H", target.sensf_res[17:19])[0]', note="cut: system code from SENSF_RES (only evaluated when it has more than 17 octets)"),
    # ---- Type 1 memory reader: which commands fill the cache (`Adv.stageA`, `stageB`)
    Spec(GROUP, "t1_need_rall", T1, "Type1TagMemoryReader._read_from_tag", [], binds=[("len(self)", "n", INT)], whole=True, expr="len(self) < 120",
         note="cut: RALL is sent while fewer than 120 bytes are cached"),
    Spec(GROUP, "t1_need_block15", T1, "Type1TagMemoryReader._read_from_tag", [("stop", INT)], binds=[("len(self)", "n", INT)],
         whole=True, expr="stop > 120 and len(self) < 128", note="cut: READ8 of block 15 (lock / reserved bytes 120..127)"),
    Spec(GROUP, "t1_rall_short", T1, "Type1TagMemoryReader._read_from_tag", [("read_all_data_response", BYTES)],
         whole=True, expr="len(read_all_data_response) < 2"),
    Spec(GROUP, "t1_rall_hdr", T1, "Type1TagMemoryReader._read_from_tag", [("read_all_data_response", BYTES)],
         whole=True, expr="read_all_data_response[0:2]", note="cut: header ROM octets of the RALL answer"),
    Spec(GROUP, "t1_rall_mem", T1, "Type1TagMemoryReader._read_from_tag", [("read_all_data_response", BYTES)],
         whole=True, expr="read_all_data_response[2:]", note="cut: static memory octets of the RALL answer"),
    # ---- Type 2 `protect()`: lock control TLV fields and default dynamic lock bits (`Tlv.protWalk`, `defaultLocks`, `setLocks`)
    Spec(GROUP, "t2_lock_first", T2, "Type2Tag._protect", [("tlv_v", BYTES)], path=[(10, "body"), (3, "body")], stmts=[1, 2, 3, 4],
         result=["lock_byte_addr"], note="cut: first lock byte address from a Lock Control TLV value"),
    Spec(GROUP, "t2_lock_bits", T2, "Type2Tag._protect", [("tlv_v", BYTES)], whole=True, expr="tlv_v[1] if tlv_v[1] > 0 else 256",
         note="cut: number of lock bits (0 means 256)"),
    Spec(GROUP, "t2_lock_default_cond", T2, "Type2Tag._protect", [], binds=[("tag_memory[14]", "sz", INT), ("len(lock_control)", "nlock", INT)],
         whole=True, expr="tag_memory[14] > 6 and len(lock_control) == 0", note="cut: a dynamic memory tag without Lock Control TLV"),
    Spec(GROUP, "t2_lock_default_addr", T2, "Type2Tag._protect", [("data_area_size", INT)], whole=True, expr="16 + data_area_size"),
    Spec(GROUP, "t2_lock_default_bits", T2, "Type2Tag._protect", [("data_area_size", INT)], whole=True, expr="(data_area_size - 48 + 7)//8"),
    Spec(GROUP, "t2_lock_byte_size", T2, "Type2Tag._protect", [("lock_bits_size", INT)], whole=True, expr="(lock_bits_size + 7) // 8"),
    Spec(GROUP, "t2_lock_byte_index", T2, "Type2Tag._protect", [("lock_byte_addr", INT), ("i", INT)], nonneg=["i"], expr="lock_byte_addr+(i >> 3)",
         note="partial cut (not `whole`): the index of an augmented item assignment (not translatable as a statement)"),
    Spec(GROUP, "t2_lock_bit", T2, "Type2Tag._protect", [("i", INT)], nonneg=["i"], whole=True, expr="1 << (i & 7)"),
    # ---- NDEF writer: the 3-byte length field across write units (repair of the torn length field, C02)
    Spec(GROUP, "t2_len_pages", T2, "Type2Tag.NDEF._write_ndef_data", [("offset", INT)], whole=True, expr="[(offset + i) >> 2 for i in (1, 2, 3)]",
         note="cut: the pages that hold the three length octets"),
    Spec(GROUP, "t2_len_split", T2, "Type2Tag.NDEF._write_ndef_data", [("page", LIST(INT))], whole=True, expr="page[0] != page[1] and page[1] == page[2]",
         note="cut: `FF | hi lo` - the marker alone in the first page"),
    Spec(GROUP, "t2_nlen", T2, "Type2Tag.NDEF._write_ndef_data", [("data", BYTES)], whole=True, expr='bytearray(pack(">H", len(data)))',
         note="cut: the two length octets of the long format"),
    # ---- NDEF reader: one TLV with its value collected around the reserved bytes (C08, C01)
    Spec(GROUP, "t2_read_tlv", T2, "read_tlv", [("memory", BYTES), ("offset", INT), ("skip_bytes", SET)], ret=TUP(INT, INT, OPT(BYTES)),
         note="whole function; `memory` is the cached memory image as a bytearray (a Type2TagMemoryReader fetches missing "
              "bytes from the tag first: here IndexError / struct.error)"),
    # ---- NDEF writer: data placement around reserved bytes (C01)
    Spec(GROUP, "t1_place", T1, "Type1Tag.NDEF._write_ndef_data",
         [("tag_memory", BYTES), ("skip_bytes", SET), ("offset", INT), ("data", BYTES)], stmts=[8], result=["tag_memory", "offset"],
         note="cut: the copy loop of the message octets; `tag_memory` is the cached memory image as a bytearray "
              "(a Type1TagMemoryReader fetches missing bytes from the tag first: here IndexError)"),
    Spec(GROUP, "t1_term", T1, "Type1Tag.NDEF._write_ndef_data",
         [("tag_memory", BYTES), ("skip_bytes", SET), ("offset", INT), ("data", BYTES), ("tag_memory_size", INT)], stmts=[9, 10],
         result=["tag_memory"], note="cut: terminator TLV placement; `tag_memory` as in t1_place"),
    Spec(GROUP, "t2_place", T2, "Type2Tag.NDEF._write_ndef_data",
         [("tag_memory", BYTES), ("skip_bytes", SET), ("offset", INT), ("data", BYTES)], stmts=[7], result=["tag_memory", "offset"],
         note="cut: the copy loop of the message octets; `tag_memory` is the cached memory image as a bytearray"),
    Spec(GROUP, "t2_term", T2, "Type2Tag.NDEF._write_ndef_data",
         [("tag_memory", BYTES), ("skip_bytes", SET), ("offset", INT), ("data", BYTES)], stmts=[8, 9, 10], result=["tag_memory"],
         note="cut: terminator TLV placement; `tag_memory` is the cached memory image as a bytearray"),
    # ---- Type 3 Tag emulation (`Type3TagEmulation`, C07): parsing of the command and status / response framing
    Spec(GROUP, "t3e_cmd_bad_len", T3, "Type3TagEmulation._process_command", [("cmd", BYTES)], whole=True, expr="not cmd or len(cmd) != cmd[0]",
         note="cut: the length test in front of the command dispatch"),
    Spec(GROUP, "t3e_polling_rsp", T3, "Type3TagEmulation._process_command", [("rsp", BYTES)], whole=True, expr="bytearray([2 + len(rsp), 0x01]) + rsp"),
    Spec(GROUP, "t3e_read_rsp", T3, "Type3TagEmulation._process_command", [("rsp", BYTES)], binds=_IDM,
         whole=True, expr="bytearray([10 + len(rsp), 0x07]) + self.idm + rsp", note="cut: the response frame of Read Without Encryption"),
    Spec(GROUP, "t3e_write_rsp", T3, "Type3TagEmulation._process_command", [("rsp", BYTES)], binds=_IDM,
         whole=True, expr="bytearray([10 + len(rsp), 0x09]) + self.idm + rsp", note="cut: the response frame of Write Without Encryption"),
    Spec(GROUP, "t3e_idm_match", T3, "Type3TagEmulation._process_command", [("cmd", BYTES)], binds=_IDM, whole=True, expr="cmd[2:10] == self.idm"),
    Spec(GROUP, "t3e_polling", T3, "Type3TagEmulation.polling", [("cmd_data", BYTES)],
         binds=_IDM + [("self.pmm", "pmm", BYTES), ("self.sys", "sys", BYTES)]),
    Spec(GROUP, "t3e_rd_service_code", T3, "Type3TagEmulation.read_without_encryption", [("cmd_data", BYTES)], whole=True, expr="cmd_data[1] << 8 | cmd_data[0]",
         note="cut: little-endian service code at the head of the remaining command data"),
    Spec(GROUP, "t3e_rd_block_number", T3, "Type3TagEmulation.read_without_encryption", [("cmd_data", BYTES)], whole=True, expr="cmd_data[2] << 8 | cmd_data[1]",
         note="cut: block number of a 3-octet block list element"),
    Spec(GROUP, "t3e_rd_service_index", T3, "Type3TagEmulation.read_without_encryption", [("cmd_data", BYTES)], expr="cmd_data[0] & 0x0F",
         note="partial cut (not `whole`): the index into `service_list` (a list of lists, not translatable)"),
    Spec(GROUP, "t3e_rd_short_elem", T3, "Type3TagEmulation.read_without_encryption", [("cmd_data", BYTES)], whole=True, expr="cmd_data[0] >= 128",
         note="cut: the length bit of a block list element"),
    Spec(GROUP, "t3e_rd_status_a3", T3, "Type3TagEmulation.read_without_encryption", [("i", INT)], nonneg=["i"], whole=True, expr="bytearray([1 << (i % 8), 0xA3])",
         note="cut: status flags for an illegal service list index at block list position i (a loop index, >= 0)"),
    Spec(GROUP, "t3e_rd_status_a2", T3, "Type3TagEmulation.read_without_encryption", [("i", INT)], nonneg=["i"], whole=True, expr="bytearray([1 << (i % 8), 0xA2])",
         note="cut: status flags for a block that cannot be accessed at block list position i"),
    Spec(GROUP, "t3e_wr_service_code", T3, "Type3TagEmulation.write_without_encryption", [("cmd_data", BYTES)], whole=True, expr="cmd_data[1] << 8 | cmd_data[0]",
         note="cut: little-endian service code at the head of the remaining command data"),
    Spec(GROUP, "t3e_wr_block_number", T3, "Type3TagEmulation.write_without_encryption", [("cmd_data", BYTES)], whole=True, expr="cmd_data[2] << 8 | cmd_data[1]",
         note="cut: block number of a 3-octet block list element"),
    Spec(GROUP, "t3e_wr_service_index", T3, "Type3TagEmulation.write_without_encryption", [("cmd_data", BYTES)], expr="cmd_data[0] & 0x0F",
         note="partial cut (not `whole`): the index into `service_list` (a list of lists, not translatable)"),
    Spec(GROUP, "t3e_wr_short_elem", T3, "Type3TagEmulation.write_without_encryption", [("cmd_data", BYTES)], whole=True, expr="cmd_data[0] >= 128",
         note="cut: the length bit of a block list element"),
    Spec(GROUP, "t3e_wr_status_a3", T3, "Type3TagEmulation.write_without_encryption", [("i", INT)], nonneg=["i"], whole=True, expr="bytearray([1 << (i % 8), 0xA3])",
         note="cut: status flags for an illegal service list index at block list position i (a loop index, >= 0)"),
    Spec(GROUP, "t3e_wr_status_a2", T3, "Type3TagEmulation.write_without_encryption", [("i", INT)], nonneg=["i"], whole=True, expr="bytearray([1 << (i % 8), 0xA2])",
         note="cut: status flags for a block that cannot be accessed at block list position i"),
    Spec(GROUP, "t3e_wr_data_len", T3, "Type3TagEmulation.write_without_encryption", [("block_data", BYTES)], whole=True, expr="len(block_data) % 16 != 0"),
    Spec(GROUP, "t3e_wr_block", T3, "Type3TagEmulation.write_without_encryption", [("block_data", BYTES), ("i", INT)], nonneg=["i"],
         expr="block_data[i*16:(i+1)*16]", note="partial cut (not `whole`): an argument of the callback `write_func(..)`; cut: the data of the i-th block"),
    # ---- functions that needed int-list displays, slice assignment, tuples of different arity
    Spec(GROUP, "t1_read_block_cmd", T1, "Type1Tag.read_block", [("block", INT)], binds=_UID, stmts=(0, 3), result=["cmd"],
         note="cut: block number check and the READ8 command"),
    Spec(GROUP, "t1_read_segment_cmd", T1, "Type1Tag.read_segment", [("segment", INT)], binds=_UID, stmts=(0, 3), result=["cmd"],
         note="cut: segment number check and the RSEG command"),
    Spec(GROUP, "t3_polling_rsp", T3, "Type3Tag.polling", [("request_code", INT), ("data", BYTES)], stmts=(6, 8), ret=ANY,
         note="cut: the statements after `data = self.send_cmd_recv_rsp(..)`: length check and the result tuple"),
    Spec(GROUP, "t3_wr_attr", T3, "Type3Tag.NDEF._write_attribute_data", [],
         binds=[("attributes['%s']" % k, k, INT) for k in ("ver", "nbr", "nbw", "nmaxb", "writef", "rwflag", "ln")],
         stmts=(1, 10), result=["attribute_data"], note="cut: the 16 octets of the attribute block; the write command is not translated"),
    Spec(GROUP, "t3_fmt_attr", T3, "Type3Tag._format", [("version", INT), ("nbr", INT), ("nbw", INT), ("nmaxb", INT)],
         stmts=[13, 14, 15, 16], result=["attribute_data"], note="cut: the attribute block written by `format()`"),
    Spec(GROUP, "t3_rd_csum", T3, "Type3Tag.NDEF._read_attribute_data", [("data", BYTES)],
         whole=True, expr='sum(data[0:14]) != unpack(">H", data[14:16])[0]', note="cut: checksum test of the attribute block"),
    Spec(GROUP, "t3_rd_attr", T3, "Type3Tag.NDEF._read_attribute_data", [("data", BYTES)], stmts=[3, 4, 5],
         result=["ver", "nbr", "nbw", "nmaxb", "writef", "rwflag", "length"], note="cut: the attribute fields"),
    Spec(GROUP, "t3_rd_attr_none", T3, "Type3Tag.NDEF._read_attribute_data", [("data", OPT(BYTES))], whole=True, expr="data is None",
         note="cut: the test for an attribute block that `read_from_ndef_service` could not verify (None): no attributes"),
    Spec(GROUP, "t3_rd_block_step", T3, "Type3Tag.NDEF._read_ndef_data", [("data", BYTES), ("block_data", OPT(BYTES))],
         path=[(9, "body")], stmts=[3, 4], result=["data"], ret=OPT(BYTES),
         note="cut: one round of the block loop after `block_data = read_from_ndef_service(..)`: None ends the read with "
              "no data (the function returns None), otherwise the blocks are appended"),
]
P = "NfcVerif.FnBridge.TagCmd."
BRIDGE = {
    "module": "NfcVerif.Props.FnBridgeTagCmd",
    "theorems": [P + t for t in (
        "t1_read_id_cmd_bridge", "t1_read_all_cmd_bridge", "gen_stageA_cmd", "t1_read_byte_cmd_bridge",
        "gen_read_byte_cmd_spec", "t1_read_block_rsp_bridge", "t1_read_segment_rsp_bridge", "gen_segLoop_rsp",
        "t1_hdr_len_bridge", "t2_read_rsp_bridge", "t2_write_check_bridge", "t2_write_rsp_bridge",
        "gen_write_rsp_ok", "t2_hdr_len_bridge", "t3_service_code_pack_bridge", "t3_frame_bridge",
        "gen_frame_eq_t3Command", "gen_frame_eq_sendCmd3", "t3_polling_cmd_bridge", "gen_polling_cmd_model",
        "t3_polling_len_bridge", "t1_uid_bridge", "t1_write_byte_cmd_bridge", "gen_write_byte_cmd_spec",
        "t1_write_block_cmd_bridge", "t1_write_block_rsp_bridge", "t1_unit_size_bridge", "t1_dynamic_bridge",
        "gen_t1Cfg_unit", "t1_block_of_bridge", "gen_block_of_unit", "t1_segment_of_bridge", "gen_segLoop_segment",
        "t1_area_end_bridge", "t1_cc_magic_bridge", "t1_cc_version_bridge", "t1_cc_readable_bridge",
        "t1_cc_writeable_bridge", "t1_skip_end_bridge", "t1_next_tlv_bridge", "t2_read_cmd_bridge",
        "t2_is_nak_bridge", "gen_read2", "t2_write_cmd_bridge", "t2_sector_select_2_bridge", "t2_sector_ack_bridge",
        "t2_sector_of_bridge", "t2_page_of_bridge", "gen_page_in_sector", "t2_read_start_bridge",
        "t2_area_end_bridge", "t2_term_cond_bridge", "t2_cc_magic_bridge", "t2_cc_version_bridge",
        "t2_cc_readable_bridge", "t2_cc_writeable_bridge", "t2_next_tlv_bridge", "t2_ndef_head_bridge",
        "t3_block_code_pack_bridge", "gen_block_code_model", "t3_check_rsp_bridge", "gen_check_rsp_model",
        "gen_check_rsp_auth", "gen_check_rsp_safe", "t3_read_rsp_bridge", "t3_rw_nsvc_bridge", "t3_rw_nblk_bridge",
        "t3_last_block_bridge", "t3_nbr_bridge", "t3_ln_too_big_bridge", "t3_chunk_end_bridge",
        "t3_wr_last_block_bridge", "t3_pad_bridge", "t3_wr_chunk_bridge", "t3_sys_bridge",
        "t1_read_block_cmd_bridge", "t1_read_segment_cmd_bridge", "gen_segLoop", "gen_stageB_cmd",
        "t3_polling_rsp_bridge", "gen_polling_parts", "t3_wr_attr_bridge", "t3_fmt_attr_bridge", "t3_rd_attr_bridge",
        "t3_rd_attr_none_bridge", "t3_rd_block_step_bridge", "gen_rd_block_none", "t3_rd_csum_short",
        "t1_need_rall_bridge", "t1_need_block15_bridge", "t1_rall_short_bridge", "t1_rall_hdr_bridge",
        "t1_rall_mem_bridge", "gen_stageA", "gen_stageB_cond", "t2_lock_first_bridge", "t2_lock_bits_bridge",
        "t2_lock_default_cond_bridge", "t2_lock_default_addr_bridge", "t2_lock_default_bits_bridge",
        "gen_defaultLocks", "t2_lock_byte_size_bridge", "t2_lock_byte_index_bridge", "t2_lock_bit_bridge", "le16_at",
        "t3e_rd_service_code_bridge", "t3e_wr_service_code_bridge", "t3e_rd_block_number_bridge",
        "t3e_wr_block_number_bridge", "t3e_rd_service_index_bridge", "t3e_wr_service_index_bridge",
        "t3e_rd_short_elem_bridge", "t3e_wr_short_elem_bridge", "t3e_status", "t3e_rd_status_a3_bridge",
        "t3e_rd_status_a2_bridge", "t3e_wr_status_a3_bridge", "t3e_wr_status_a2_bridge", "gen_parseBlocks_step",
        "t3e_rsp_frame", "t3e_read_rsp_bridge", "t3e_write_rsp_bridge", "t3e_polling_rsp_bridge",
        "t3e_polling_bridge", "t3e_cmd_bad_len_bridge", "gen_cmd_len_model", "t3e_idm_match_bridge",
        "t3e_wr_data_len_bridge", "t3e_wr_block_bridge", "gen_frame_eq_T3Emu", "gen_block_code_T3Emu",
        "t1_place_bridge", "t1_term_bridge", "t2_term_bridge", "t2_place_bridge", "gen_t2_phase2",
        "t2_len_pages_bridge", "t2_len_split_bridge", "gen_phase3a_split", "t2_nlen_bridge", "t2_read_tlv_bridge",
        "readTlvRef_ok", "gen_t1_phase2")],
    "properties": ["C16", "C08", "C01", "C02", "C03", "C07"],
}


def _b(rng, n):
    return bytes(rng.choice([0, 1, 0x0A, 0xFF, rng.randrange(256)]) for _ in range(n))


def _t3_frame(rng, code, idm, check_status):
    """a Type 3 response frame, mostly well formed, with the usual defects mixed in"""
    body = _b(rng, rng.choice([0, 1, 2, 16, 17, 33]))
    s1 = rng.choice([0, 0, 0, 1, 0xA6, 0xFF])
    f = bytearray([0, (code + 1) % 256]) + idm + \
        (bytearray([s1, rng.randrange(256)]) if check_status or rng.random() < 0.5 else b"") + body
    f[0] = len(f) % 256
    k = rng.randrange(12)
    if k == 0:
        f[0] = (f[0] + rng.choice([1, 255])) % 256
    elif k == 1:
        f[1] = rng.randrange(256)
    elif k == 2 and len(f) > 5:
        f[rng.randrange(2, min(10, len(f)))] ^= 1 << rng.randrange(8)
    elif k == 3:
        f = f[:rng.randrange(0, len(f) + 1)]
        if f and rng.random() < 0.7:
            f[0] = len(f)
    return bytes(f)


def inputs(rng, sp):
    out = []
    n = sp.lean

    def uid():
        return [_b(rng, rng.choice([4, 4, 4, 0, 7]))]
    if n in ("t1_read_byte_cmd",):
        out += [([a], uid()) for a in (-1, 0, 1, 7, 8, 63, 64, 126, 127, 128, 129, 255, 256)]
        out += [([rng.randrange(-3, 140)], uid()) for _ in range(60)]
    if n == "t1_write_byte_cmd":
        for _ in range(120):
            out.append(([rng.choice([-1, 0, 11, 112, 127, 128, rng.randrange(0, 130)]),
                         rng.choice([-1, 0, 15, 255, 256, rng.randrange(256)]), rng.random() < 0.5], uid()))
    if n == "t1_write_block_cmd":
        for _ in range(120):
            out.append(([rng.choice([-1, 0, 14, 15, 16, 255, 256, rng.randrange(0, 260)]), _b(rng, rng.choice([8, 8, 8, 0, 7, 9])),
                         rng.random() < 0.5], uid()))
    if n == "t1_write_block_rsp":
        for _ in range(150):
            d = _b(rng, 8)
            r = bytes([rng.randrange(256)]) + (d if rng.random() < 0.6 else _b(rng, 8)) + _b(rng, rng.choice([0, 0, 1, 3]))
            r = r[:rng.choice([9, 9, 9, len(r), 8, 5, 0])]
            out.append(([r, d if rng.random() < 0.9 else _b(rng, rng.choice([0, 7, 9])), rng.random() < 0.6], []))
    if n == "t1_read_block_rsp":
        out += [([_b(rng, k)], []) for k in (0, 1, 7, 8, 9, 10, 11, 20) for _ in range(4)]
    if n == "t1_read_segment_rsp":
        out += [([_b(rng, k)], []) for k in (0, 1, 127, 128, 129, 130, 131, 200) for _ in range(4)]
    if n in ("t1_unit_size", "t1_dynamic"):
        out += [([h], []) for h in range(0, 0x40)] + [([h], []) for h in (0x100, 0x111, 0x112, 0x1F, 0x21, 0xFF)]
    if n in ("t1_segment_of", "t2_read_start", "t1_area_end", "t2_area_end"):
        out += [([], [v]) for v in (0, 1, 15, 16, 17, 119, 120, 127, 128, 129, 255, 256, 511, 512, 1023, 1024, 2047, 2048)]
    if n in ("t1_block_of", "t2_sector_of", "t2_page_of"):
        out += [([v], []) for v in (0, 1, 3, 4, 7, 8, 9, 15, 16, 1023, 1024, 1025, 2047, 2048, 4095, 4096, 65535, 65536)]
    if n in ("t1_cc_magic", "t1_cc_version", "t1_cc_readable", "t1_cc_writeable", "t2_cc_magic", "t2_cc_version",
             "t2_cc_readable", "t2_cc_writeable"):
        out += [([], [v]) for v in range(256)]
    if n in ("t1_next_tlv", "t2_next_tlv"):
        out += [([v], []) for v in (0, 1, 3, 253, 254, 255, 256, 257, 65535)]
    if n == "t1_skip_end":
        out += [([v], []) for v in (96, 112, 119, 120, 121, 128, 512, 2048)]
    if n == "t2_ndef_head":
        out += [([o], [v]) for o in (16, 17, 30, 100) for v in (0, 1, 254, 255, 256)]
    if n == "t2_read_rsp":
        out += [([_b(rng, k)], []) for k in (0, 1, 15, 16, 17, 32) for _ in range(4)]
    if n == "t2_write_rsp":
        out += [([bytes([v]), _b(rng, 4)], []) for v in range(256)] + [([_b(rng, k), _b(rng, 4)], []) for k in (0, 2, 3, 16)]
    if n in ("t2_is_nak", "t2_sector_ack"):
        out += [([bytes([v])], []) for v in range(256)] + [([_b(rng, k)], []) for k in (0, 2, 3, 16) for _ in range(3)]
    if n in ("t2_write_check", "t2_write_cmd"):
        out += [([rng.choice([0, 3, 4, 255, 256, 257, 1023, -1]), _b(rng, rng.choice([4, 4, 4, 3, 5, 0, 16]))], [])
                for _ in range(80)]
    if n == "t2_read_cmd":
        out += [([v], []) for v in (-257, -256, -1, 0, 1, 4, 255, 256, 257, 1023, 1024, 65535)]
    if n == "t2_sector_select_2":
        out += [([v], []) for v in (-1, 0, 1, 2, 15, 16, 254, 255, 256, 257)]
    if n == "t3_service_code_pack":
        out += [([], [a, b]) for a in (0, 1, 16, 80, 1023, 1024, 1025, 65535, -1) for b in (0, 9, 11, 63, 64, 65, 255, -1)]
    if n == "t3_block_code_pack":
        out += [([], [a, b, c]) for a in (-1, 0, 1, 5, 255, 256, 257, 0x1234, 65535, 65536) for b in (0, 1, 7, 8)
                for c in (0, 1, 15, 16)]
    if n == "t3_frame":
        for _ in range(150):
            out.append(([rng.choice([0, 4, 6, 8, 255, 256, -1, rng.randrange(256)]),
                         _b(rng, rng.choice([0, 4, 6, 22, 244, 245, 246, 253, 254, 300])), 0, rng.random() < 0.7],
                        [_b(rng, rng.choice([8, 8, 8, 0, 7]))]))
    if n == "t3_check_rsp":
        for _ in range(400):
            code = rng.choice([0, 4, 6, 8, 0x0A, 0x0C, rng.randrange(255)])
            idm = _b(rng, 8)
            send_idm = rng.random() < 0.75
            chk = rng.random() < 0.75
            f = _t3_frame(rng, code, idm if send_idm or rng.random() < 0.5 else b"", chk)
            out.append(([code, send_idm, chk, f], [idm]))
    if n == "t3_polling_cmd":
        out += [([s_, r, t], []) for s_ in (-1, 0, 0x12FC, 0xFFFF, 0x10000) for r in (-1, 0, 1, 2, 3)
                for t in (-1, 0, 1, 2, 3, 7, 8, 15, 16)]
    if n == "t3_polling_len":
        out += [([r, _b(rng, k)], []) for r in (-1, 0, 1, 2, 3) for k in (0, 15, 16, 17, 18, 19)]
    if n == "t3_read_rsp":
        for _ in range(100):
            k = rng.randrange(0, 6)
            out.append(([[rng.randrange(300) for _ in range(k)],
                         _b(rng, max(0, 1 + 16 * k + rng.choice([0, 0, 0, -1, 1, 16])))], []))
    if n in ("t3_rw_nsvc", "t3_rw_nblk"):
        out += [([[0] * k], []) for k in (0, 1, 2, 15, 255, 256, 257)]
    if n in ("t3_last_block",):
        out += [([], [v]) for v in (0, 1, 15, 16, 17, 31, 32, 33, 255, 256, 4096, 0xFFFFFF)]
    if n == "t3_nbr":
        out += [([], [v]) for v in (0, 1, 3, 4, 14, 15, 16, 255)]
    if n == "t3_ln_too_big":
        out += [([], [a, b]) for b in (0, 1, 13, 256) for a in (0, 16 * b - 1, 16 * b, 16 * b + 1, 0xFFFFFF)]
    if n == "t3_chunk_end":
        out += [([i, k, v], []) for i in (1, 2, 5, 13) for k in (1, 4, 12, 15) for v in (1, 2, 6, 14, 300)]
    if n == "t3_wr_chunk":
        for _ in range(60):
            d = _b(rng, 16 * rng.randrange(0, 8))
            i = rng.randrange(1, 8)
            out.append(([d, i, i + rng.randrange(0, 5)], []))
    if n in ("t3_pad", "t3_wr_last_block"):
        out += [([_b(rng, k)], []) for k in (0, 1, 15, 16, 17, 31, 32, 33, 47, 48)]
    if n == "t1_need_rall":
        out += [([], [v]) for v in (0, 1, 119, 120, 121, 127, 128, 512)]
    if n == "t1_need_block15":
        out += [([st], [v]) for st in (1, 120, 121, 128, 129, 512) for v in (0, 119, 120, 127, 128, 256)]
    if n in ("t1_rall_short", "t1_rall_hdr", "t1_rall_mem"):
        out += [([_b(rng, k)], []) for k in (0, 1, 2, 3, 122)]
    if n in ("t2_lock_first", "t2_lock_bits"):
        out += [([bytes([a, b, c])], []) for a in (0x00, 0x0F, 0xA0, 0xE8, 0xFF) for b in (0, 1, 16, 255) for c in (0x00, 0x33, 0x44, 0x0F, 0xFF)]
        out += [([_b(rng, k)], []) for k in (0, 1, 2)]
    if n == "t2_lock_default_cond":
        out += [([], [a, b]) for a in (0, 5, 6, 7, 18, 255) for b in (0, 1, 2)]
    if n in ("t2_lock_default_addr", "t2_lock_default_bits", "t2_lock_byte_size"):
        out += [([v], []) for v in (0, 1, 7, 8, 9, 40, 48, 49, 56, 57, 64, 144, 256, 2040)]
    if n == "t2_lock_byte_index":
        out += [([a, i], []) for a in (40, 160, 2056) for i in (0, 1, 7, 8, 9, 15, 16, 255)]
    if n == "t2_lock_bit":
        out += [([i], []) for i in range(0, 20)]
    if n == "t2_len_pages":
        out += [([v], []) for v in range(14, 40)]
    if n == "t2_len_split":
        out += [([[a, b, c]], []) for a in (4, 5) for b in (4, 5, 6) for c in (4, 5, 6, 7)] + [([[1, 2]], []), ([[]], [])]
    if n == "t2_nlen":
        out += [([_b(rng, k)], []) for k in (0, 1, 254, 255, 256, 300, 1000)]
    if n in ("t1_read_block_cmd", "t1_read_segment_cmd"):
        out += [([v], [_b(rng, rng.choice([4, 4, 0, 7]))]) for v in (-1, 0, 1, 14, 15, 16, 17, 127, 255, 256)]
    if n == "t3_polling_rsp":
        out += [([r, _b(rng, k)], []) for r in (-1, 0, 1, 2, 3) for k in (0, 15, 16, 17, 18, 19)]
    if n == "t3_wr_attr":
        for _ in range(80):
            out.append(([], [rng.choice([0x10, 0x11, 0, 255, 256]), rng.choice([0, 4, 15, 255, 256]), rng.choice([0, 1, 13, 255]),
                             rng.choice([0, 13, 255, 256, 65535, 65536]), rng.choice([0, 0x0F, 255, 256]), rng.choice([0, 1, 255]),
                             rng.choice([0, 1, 255, 256, 65535, 65536, 0xFFFFFF, 0x1000000, 2 ** 32 - 1, 2 ** 32])]))
    if n == "t3_fmt_attr":
        for _ in range(60):
            out.append(([rng.choice([0x10, 0x1F, 0, 255, 256]), rng.choice([0, 4, 15]), rng.choice([0, 1, 12, 13]),
                         rng.choice([0, 13, 255, 256, 65535, 65536])], []))
    if n in ("t3_rd_csum", "t3_rd_attr"):
        for _ in range(80):
            d = bytearray(_b(rng, 16))
            if rng.random() < 0.6:
                c = sum(d[0:14])
                d[14], d[15] = c >> 8, c & 255
            out.append(([bytes(d[:rng.choice([16, 16, 16, 15, 14, 11, 5, 0])])], []))
    if n == "t2_term_cond":
        out += [([o], [z]) for z in (0, 6, 18) for o in (15, 16, 17, 63, 64, 65, 159, 160, 161)]
    if n == "t2_read_tlv":
        for _ in range(150):
            size = rng.choice([48, 64, 96])
            mem = bytearray(_b(rng, size))
            off = rng.randrange(16, size - 8)
            ln = rng.choice([0, 1, 3, 3, 10, size - off - 3, size - off, 255])
            mem[off] = rng.choice([0, 1, 2, 3, 3, 3, 0xFE, 0xFD])
            mem[off + 1] = rng.choice([ln % 256, ln % 256, 0xFF])
            if mem[off + 1] == 0xFF and off + 3 < size:
                mem[off + 2], mem[off + 3] = 0, rng.choice([3, 10, 40])
            lo = rng.randrange(16, size)
            skip = set(range(lo, lo + rng.randrange(0, 10))) | set(rng.sample(range(16, size + 10), rng.randrange(0, 4)))
            out.append(([bytes(mem[:rng.choice([size, size, size, off + 1, off + 3, off])]), off, sorted(skip)], []))
    if n in ("t1_place", "t1_term", "t2_term", "t2_place"):
        for _ in range(120):
            size = rng.choice([48, 64, 96, 120])
            mem = bytearray(_b(rng, size + rng.choice([0, 0, 8, 16])))
            if n == "t2_term":
                mem[14] = (size - 16) // 8 + rng.choice([0, 0, 0, -1, 1])
            lo = rng.randrange(16, size)
            skip = set(range(lo, lo + rng.randrange(0, 12))) | set(rng.sample(range(16, size + 10), rng.randrange(0, 5)))
            data = _b(rng, rng.choice([0, 1, 3, 10, 30, size - 20, size]))
            off = rng.randrange(12, size)
            pv = [bytes(mem), sorted(skip), off, data]
            if n == "t1_term":
                pv.append(rng.choice([size, size, size - 8, size + 8]))
            out.append((pv, []))
    if n.startswith("t3e_") and n.endswith(("_service_code", "_block_number", "_service_index", "_short_elem")):
        out += [([bytes([a, b, c])], []) for a in (0x00, 0x01, 0x0F, 0x7F, 0x80, 0x81, 0xFF) for b in (0, 0x34, 0xFF) for c in (0, 0x12, 0xFF)]
        out += [([_b(rng, k)], []) for k in (0, 1, 2) for _ in range(3)]
    if n.startswith("t3e_") and "_status_" in n:
        out += [([i], []) for i in range(0, 20)]
    if n in ("t3e_polling_rsp", "t3e_read_rsp", "t3e_write_rsp"):
        out += [([_b(rng, k)] , [_b(rng, 8)] if n != "t3e_polling_rsp" else []) for k in (0, 1, 2, 18, 243, 244, 245, 246, 252, 253, 254, 300)]
    if n == "t3e_cmd_bad_len":
        for k in (0, 1, 2, 6, 16):
            d = bytearray(_b(rng, k))
            if d:
                d[0] = k
            out += [([bytes(d)], [])]
            if d:
                d[0] = (k + rng.choice([1, 255])) % 256
                out += [([bytes(d)], [])]
    if n == "t3e_idm_match":
        for _ in range(40):
            idm = _b(rng, 8)
            cmd = bytes([16, 6]) + (idm if rng.random() < 0.6 else _b(rng, 8)) + _b(rng, 6)
            out.append(([cmd[:rng.choice([16, 16, 10, 9, 5, 0])]], [idm]))
    if n == "t3e_polling":
        out += [([bytes([0x12, 0xFC, rc, 0])[:k]], [_b(rng, 8), _b(rng, 8), _b(rng, 2)]) for rc in (0, 1, 2) for k in (4, 3, 2, 0)]
    if n == "t3e_wr_data_len":
        out += [([_b(rng, k)], []) for k in (0, 1, 15, 16, 17, 32, 33)]
    if n == "t3e_wr_block":
        out += [([_b(rng, 16 * k + e), i], []) for k in (0, 1, 2, 3) for e in (0, 5) for i in (0, 1, 2, 3)]
    if n == "t3_sys":
        out += [([], [_b(rng, k)]) for k in (0, 16, 17, 18, 19, 20, 25) for _ in range(3)]
    return out


MUTATIONS = [
    ("t1_read_byte_cmd", "address bound", "addr > 127", "addr > 128"),
    ("t1_read_byte_cmd", "READ opcode", "bytearray([0x01, addr, 0x00])", "bytearray([0x02, addr, 0x00])"),
    ("t1_read_all_cmd", "RALL command length", 'b"\\x00\\x00\\x00" + self.uid', 'b"\\x00\\x00" + self.uid'),
    ("t1_read_block_rsp", "minimum answer length", "if len(rsp) < 9:", "if len(rsp) < 8:"),
    ("t1_read_block_rsp", "data position", "return rsp[1:9]", "return rsp[0:8]"),
    ("t1_read_segment_rsp", "segment size", "return rsp[1:129]", "return rsp[1:128]"),
    ("t1_write_byte_cmd", "erase opcode swapped", 'b"\\x53" if erase is True else b"\\x1A"', 'b"\\x1A" if erase is True else b"\\x53"'),
    ("t1_write_byte_cmd", "address bound", "addr >= 128", "addr > 128"),
    ("t1_write_block_cmd", "WRITE-E8 opcode", 'b"\\x54" if erase is True', 'b"\\x55" if erase is True'),
    ("t1_write_block_rsp", "echo check moved to the non-erasing write", "if erase is True and rsp[1:9] != data:",
     "if erase is False and rsp[1:9] != data:"),
    ("t1_unit_size", "static tag test", "hr0 & 0x0F != 1) else 1", "hr0 & 0x0F != 2) else 1"),
    ("t1_segment_of", "segment size", "len(self) >> 7", "len(self) >> 8"),
    ("t1_hdr_len", "length format threshold", "offset += 2 if len(data) < 255 else 4", "offset += 2 if len(data) < 256 else 4"),
    ("t1_skip_end", "reserved range of the 120 byte tag", "120 if tag_memory_size == 120 else 128",
     "128 if tag_memory_size == 120 else 120"),
    ("t2_read_cmd", "READ opcode", "bytearray([0x30, page % 256])", "bytearray([0x31, page % 256])"),
    ("t2_is_nak", "NAK mask", "data[0] & 0xFA == 0x00", "data[0] & 0xF0 == 0x00"),
    ("t2_read_rsp", "answer length", "if len(data) != 16:", "if len(data) < 16:"),
    ("t2_write_cmd", "WRITE opcode", "bytearray([0xA2, page % 256])", "bytearray([0xA0, page % 256])"),
    ("t2_write_rsp", "ACK value", "if rsp[0] != 0x0A:", "if rsp[0] & 0x0A != 0x0A:"),
    ("t2_sector_of", "sector size", "index >> 10", "index >> 9"),
    ("t2_page_of", "page size", "self._tag.read(index >> 2)", "self._tag.read(index >> 3)"),
    ("t2_read_start", "read alignment", "(len(self) >> 4) << 4", "(len(self) >> 3) << 3"),
    ("t2_hdr_len", "long header size", "offset += 2 if len(data) < 255 else 4", "offset += 2 if len(data) < 255 else 3"),
    ("t2_ndef_head", "long header marker", "4 if tag_memory[offset+1] == 0xFF else 2", "4 if tag_memory[offset+1] >= 0xFE else 2"),
    ("t3_service_code_pack", "attribute mask", "(sa & 0x3f)", "(sa & 0x1f)"),
    ("t3_block_code_pack", "length bit", "bool(bn < 256) << 7", "bool(bn <= 256) << 7"),
    ("t3_block_code_pack", "service index mask", "(sx & 0xf)", "(sx & 0x7)"),
    ("t3_frame", "length octet", "2+len(idm)+len(cmd_data)", "1+len(idm)+len(cmd_data)"),
    ("t3_check_rsp", "minimum length with status", "12 if check_status else 10", "11 if check_status else 10"),
    ("t3_check_rsp", "response code", "rsp[1] != cmd_code + 1", "rsp[1] != cmd_code"),
    ("t3_check_rsp", "IDm check shortened", "if send_idm and rsp[2:10] != self.idm:", "if send_idm and rsp[2:9] != self.idm[0:7]:"),
    ("t3_check_rsp", "status flag test", "if check_status and rsp[10] != 0:", "if check_status and rsp[11] != 0:"),
    ("t3_polling_cmd", "time slot values", "(0, 1, 3, 7, 15)", "(0, 1, 2, 3, 7, 15)"),
    ("t3_polling_len", "length for request code 0", "16 if request_code == 0 else 18", "16 if request_code <= 1 else 18"),
    ("t3_read_rsp", "size check", "1 + len(block_list) * 16", "len(block_list) * 16"),
    ("t3_pad", "padding", "bytearray(-len(data) % 16)", "bytearray(16 - len(data) % 16)"),
    ("t3_nbr", "block limit of one read", "min(attributes['nbr'], 15)", "min(attributes['nbr'], 16)"),
    ("t1_place", "reserved bytes not skipped", "while offset + i in skip_bytes:\n                    offset += 1\n                tag_memory[offset+i] = data[i]",
     "while offset + i + 1 in skip_bytes:\n                    offset += 1\n                tag_memory[offset+i] = data[i]"),
    ("t2_place", "octet written before the reserved bytes are skipped", "while offset + index in skip_bytes:\n                    offset += 1\n                tag_memory[offset+index] = octet",
     "tag_memory[offset+index] = octet\n                while offset + index in skip_bytes:\n                    offset += 1"),
    ("t2_read_tlv", "terminator TLV has a length", "if tlv_t in (0x00, 0xFE):", "if tlv_t in (0x00,):"),
    ("t2_read_tlv", "three octet length marker", "if tlv_l == 0xFF:", "if tlv_l >= 0xFE:"),
    ("t2_read_tlv", "long length byte order", 'unpack(">H", memory[offset:offset+2])[0], offset+2)', 'unpack("<H", memory[offset:offset+2])[0], offset+2)'),
    ("t2_read_tlv", "reserved bytes read as value", "while (offset + i) in skip_bytes:\n            offset += 1\n        tlv_v[i] = memory[offset+i]",
     "while (offset + i + 1) in skip_bytes:\n            offset += 1\n        tlv_v[i] = memory[offset+i]"),
    ("t1_need_block15", "block 15 read one byte early", "stop > 120 and len(self) < 128", "stop >= 120 and len(self) < 128"),
    ("t1_rall_mem", "header ROM counted as memory", "read_all_data_response[2:]", "read_all_data_response[1:]"),
    ("t2_lock_first", "page address shift", "page_addr = tlv_v[0] >> 4\n                byte_offs", "page_addr = tlv_v[0] >> 3\n                byte_offs"),
    ("t2_lock_bits", "zero means 256 lock bits", "tlv_v[1] if tlv_v[1] > 0 else 256", "tlv_v[1] if tlv_v[1] > 0 else 255"),
    ("t2_lock_default_bits", "default lock bits rounding", "(data_area_size - 48 + 7)//8", "(data_area_size - 48)//8"),
    ("t2_lock_default_cond", "static memory limit", "tag_memory[14] > 6 and len(lock_control) == 0", "tag_memory[14] >= 6 and len(lock_control) == 0"),
    ("t2_lock_bit", "bit position", "1 << (i & 7)", "1 << (i & 3)"),
    ("t2_len_pages", "page size of the length field test", "[(offset + i) >> 2 for i in (1, 2, 3)]", "[(offset + i) >> 3 for i in (1, 2, 3)]"),
    ("t2_len_split", "torn length field case", "page[0] != page[1] and page[1] == page[2]", "page[0] != page[1] and page[1] != page[2]"),
    ("t2_nlen", "length byte order", 'bytearray(pack(">H", len(data)))', 'bytearray(pack("<H", len(data)))'),
    ("t1_read_block_cmd", "READ8 padding length", "[0x00 for _ in range(8)]", "[0x00 for _ in range(7)]"),
    ("t1_read_segment_cmd", "segment nibble position", "segment << 4", "segment << 3"),
    ("t3_polling_rsp", "PMm slice", "data[8:16]) if len(data) == 16", "data[8:15]) if len(data) == 16"),
    ("t3_wr_attr", "checksum range", "sum(attribute_data[0:14])", "sum(attribute_data[0:13])"),
    ("t3_wr_attr", "Ln octets", "pack('>I', attributes['ln'])[1:4]", "pack('>I', attributes['ln'])[0:3]"),
    ("t3_fmt_attr", "RWFlag of a read-only tag", "0x01 if nbw > 0 else 0x00", "0x01 if nbw >= 0 else 0x00"),
    ("t3_rd_csum", "checksum position", 'unpack(">H", data[14:16])[0]:', 'unpack(">H", data[13:15])[0]:'),
    ("t3_rd_attr", "Ln position", 'b"\\x00" + data[11:14]', 'b"\\x00" + data[10:13]'),
    ("t1_term", "terminator beyond the data area", "while offset < tag_memory_size:", "while offset <= tag_memory_size:"),
    ("t1_term", "terminator value", "tag_memory[offset] = 0xFE\n                    break", "tag_memory[offset] = 0xFD\n                    break"),
    ("t2_term", "terminator at the end of the area", "if offset < tag_memory[14] * 8 + 16:", "if offset <= tag_memory[14] * 8 + 16:"),
    ("t2_term", "terminator inside a reserved range", "while offset in skip_bytes:\n                offset += 1\n            if offset <",
     "while offset + 1 in skip_bytes:\n                offset += 1\n            if offset <"),
    ("t3_polling_len", "length accepted regardless of the request code", "if len(data) != (16 if request_code == 0 else 18):",
     "if len(data) not in (16, 18):"),
    ("t3e_wr_block_number", "3-octet element parsed with a wrong precedence", "block_number = cmd_data[2] << 8 | cmd_data[1]",
     "block_number = cmd_data[1] | cmd_data[2] & 0xFF << 8"),
    ("t3e_rd_status_a3", "status flag bit not reduced modulo 8", "bytearray([1 << (i % 8), 0xA3])", "bytearray([1 << i, 0xA3])"),
    ("t3e_rd_status_a2", "status code of an unreadable block", "bytearray([1 << (i % 8), 0xA2])", "bytearray([1 << (i % 8), 0xA3])"),
    ("t3e_rd_service_code", "service code byte order", "service_code = cmd_data[1] << 8 | cmd_data[0]", "service_code = cmd_data[0] << 8 | cmd_data[1]"),
    ("t3e_wr_short_elem", "length bit test", "if cmd_data[0] >= 128:", "if cmd_data[0] > 128:"),
    ("t3e_read_rsp", "response code of read", "bytearray([10 + len(rsp), 0x07])", "bytearray([10 + len(rsp), 0x09])"),
    ("t3e_polling", "request code that appends the system code", "if cmd_data[2] == 1:", "if cmd_data[2] >= 1:"),
    ("t3e_cmd_bad_len", "length octet test", "len(cmd) != cmd[0]", "len(cmd) < cmd[0]"),
    ("t2_is_nak", "condition gains an operand", "if len(data) == 1 and data[0] & 0xFA == 0x00:", "if len(data) == 1 and data[0] & 0xFA == 0x00 or len(data) == 2:"),
    ("t1_need_block15", "condition gains an operand", "if stop > 120 and len(self) < 128:", "if stop > 120 and len(self) < 128 and stop < 512:"),
    ("t3e_wr_data_len", "condition gains an operand", "if len(block_data) % 16 != 0:", "if len(block_data) % 16 != 0 and len(block_data) > 16:"),
    ("t2_sector_ack", "truthiness test added", "if len(rsp) == 1 and rsp[0] == 0x0A:", "if rsp[0:1] and len(rsp) == 1 and rsp[0] == 0x0A:"),
    ("t2_term_cond", "condition gains an operand", "if offset < tag_memory[14] * 8 + 16:", "if offset < tag_memory[14] * 8 + 16 or not skip_bytes:"),
    ("t1_cc_magic", "condition gains an operand", "if tag_memory[8] != 0xE1:", "if tag_memory[8] != 0xE1 and tag_memory[8] != 0xE0:"),
    ("t3_rd_attr_none", "condition gains an operand", "if data is None:", "if data is None or len(data) > 16:"),
    ("t3_rd_block_step", "unverified blocks end the loop but keep the data", "                    return None\n                data += block_data",
     "                    break\n                data += block_data"),
    ("t3_check_rsp", "NEUTRAL log text", '"incorrect response length {0}"', '"bad response length {0}"'),
]
