"""group Pdu: nfc/llcp/pdu.py -> Model/Pdu.lean (C11, C10, C07)"""
from translate_fn import Spec, INT, BYTES, ANY, OPT, TUP, REC, LIST

GROUP = "Pdu"
ORDER = 40
F = "llcp/pdu.py"
_HDR = [("self.ptype", "ptype", INT), ("self.dsap", "dsap", INT), ("self.ssap", "ssap", INT)]
_NHDR = _HDR + [("self.ns", "ns", INT), ("self.nr", "nr", INT)]
_DEC = [("data", BYTES), ("offset", INT), ("size", INT)]
_DH = {"cls.decode_header": "pdu_decode_header"}
_DHN = {"cls.decode_header": "pdu_decode_header_n"}
_EH = {"self.encode_header": "pdu_encode_header"}
_EHN = {"self.encode_header": "pdu_encode_header_n"}
_PD = {"Parameter.decode": "pdu_param_decode"}
_PE = {"Parameter.encode": ["pdu_param_encode_int", "pdu_param_encode_bytes", "pdu_param_encode_sdreq",
                            "pdu_param_encode_sdres"]}

SPECS = [
    Spec(GROUP, "pdu_param_decode", F, "Parameter.decode", [("data", BYTES), ("offset", INT)], ret=TUP(INT, INT, ANY)),
    Spec(GROUP, "pdu_param_encode_int", F, "Parameter.encode", [("T", INT), ("V", INT)],
         note="instance of `Parameter.encode` for an int value"),
    Spec(GROUP, "pdu_param_encode_bytes", F, "Parameter.encode", [("T", INT), ("V", BYTES)],
         note="instance of `Parameter.encode` for an octet string value"),
    Spec(GROUP, "pdu_param_encode_sdreq", F, "Parameter.encode", [("T", INT), ("V", TUP(INT, BYTES))],
         note="instance of `Parameter.encode` for a (tid, service name) value"),
    Spec(GROUP, "pdu_param_encode_sdres", F, "Parameter.encode", [("T", INT), ("V", TUP(INT, INT))],
         note="instance of `Parameter.encode` for a (tid, sap) value"),
    Spec(GROUP, "pdu_decode_header", F, "ProtocolDataUnit.decode_header",
         [("data", BYTES), ("offset", INT), ("size", OPT(INT))]),
    Spec(GROUP, "pdu_decode_header_n", F, "NumberedProtocolDataUnit.decode_header",
         [("data", BYTES), ("offset", INT), ("size", OPT(INT))]),
    Spec(GROUP, "pdu_encode_header", F, "ProtocolDataUnit.encode_header", [], binds=_HDR),
    Spec(GROUP, "pdu_encode_header_n", F, "NumberedProtocolDataUnit.encode_header", [], binds=_NHDR,
         calls={"super(NumberedProtocolDataUnit, self).encode_header": "pdu_encode_header"}),
    # SYMM
    Spec(GROUP, "pdu_symm_decode", F, "Symmetry.decode", _DEC, calls=_DH, records={"Symmetry": {"dsap": INT, "ssap": INT}}),
    Spec(GROUP, "pdu_symm_encode", F, "Symmetry.encode", [], binds=_HDR, calls=_EH),
    # DISC
    Spec(GROUP, "pdu_disc_decode", F, "Disconnect.decode", _DEC, calls=_DH, records={"Disconnect": {"dsap": INT, "ssap": INT}}),
    Spec(GROUP, "pdu_disc_encode", F, "Disconnect.encode", [], binds=_HDR, calls=_EH),
    # DM
    Spec(GROUP, "pdu_dm_decode", F, "DisconnectedMode.decode", _DEC, calls=_DH,
         records={"DisconnectedMode": {"dsap": INT, "ssap": INT, "reason": INT}}),
    Spec(GROUP, "pdu_dm_encode", F, "DisconnectedMode.encode", [], binds=_HDR + [("self.reason", "reason", INT)], calls=_EH),
    # FRMR
    Spec(GROUP, "pdu_frmr_decode", F, "FrameReject.decode", _DEC, calls=_DH,
         records={"FrameReject": {k: INT for k in ("dsap", "ssap", "flags", "ptype", "ns", "nr", "vs", "vr", "vsa", "vra")}}),
    Spec(GROUP, "pdu_frmr_encode", F, "FrameReject.encode", [], calls=_EH,
         binds=_HDR + [("self." + a, a, INT) for a in ("rej_flags", "rej_ptype", "ns", "nr", "vs", "vr", "vsa", "vra")]),
    # UI
    Spec(GROUP, "pdu_ui_decode", F, "UnnumberedInformation.decode", _DEC, calls=_DH,
         records={"UnnumberedInformation": {"dsap": INT, "ssap": INT, "data": OPT(BYTES)}}),
    Spec(GROUP, "pdu_ui_encode", F, "UnnumberedInformation.encode", [], binds=_HDR + [("self.data", "data", BYTES)], calls=_EH),
    Spec(GROUP, "pdu_ui_len", F, "UnnumberedInformation.__len__", [], binds=[("self.data", "data", BYTES)]),
    # I
    Spec(GROUP, "pdu_i_decode", F, "Information.decode", _DEC, calls=_DHN,
         records={"Information": {"dsap": INT, "ssap": INT, "ns": OPT(INT), "nr": OPT(INT), "data": OPT(BYTES)}}),
    Spec(GROUP, "pdu_i_encode", F, "Information.encode", [], binds=_NHDR + [("self.data", "data", BYTES)], calls=_EHN),
    Spec(GROUP, "pdu_i_len", F, "Information.__len__", [], binds=[("self.data", "data", BYTES)]),
    # RR / RNR
    Spec(GROUP, "pdu_rr_decode", F, "ReceiveReady.decode", _DEC, calls=_DHN,
         records={"ReceiveReady": {"dsap": INT, "ssap": INT, "nr": OPT(INT)}}),
    Spec(GROUP, "pdu_rr_encode", F, "ReceiveReady.encode", [], binds=_NHDR, calls=_EHN),
    Spec(GROUP, "pdu_rnr_decode", F, "ReceiveNotReady.decode", _DEC, calls=_DHN,
         records={"ReceiveNotReady": {"dsap": INT, "ssap": INT, "nr": INT}}),
    Spec(GROUP, "pdu_rnr_encode", F, "ReceiveNotReady.encode", [], binds=_NHDR, calls=_EHN),
    # PAX / CONNECT / CC / SNL / DPS / AGF: encode and __len__
    Spec(GROUP, "pdu_pax_encode", F, "ParameterExchange.encode", [], calls=dict(_EH, **_PE),
         binds=_HDR + [("self._" + a, a, OPT(INT)) for a in ("version", "miux", "wks", "lto", "opt")]),
    Spec(GROUP, "pdu_pax_len", F, "ParameterExchange.__len__", [],
         binds=[("self._" + a, a, OPT(INT)) for a in ("version", "miux", "wks", "lto", "opt")]),
    Spec(GROUP, "pdu_connect_encode", F, "Connect.encode", [], calls=dict(_EH, **_PE),
         binds=_HDR + [("self.miu", "miu", INT), ("self.rw", "rw", INT), ("self.sn", "sn", OPT(BYTES))]),
    Spec(GROUP, "pdu_connect_len", F, "Connect.__len__", [],
         binds=[("self.miu", "miu", INT), ("self.rw", "rw", INT), ("self.sn", "sn", OPT(BYTES))]),
    Spec(GROUP, "pdu_cc_encode", F, "ConnectionComplete.encode", [], calls=dict(_EH, **_PE),
         binds=_HDR + [("self.miu", "miu", INT), ("self.rw", "rw", INT)]),
    Spec(GROUP, "pdu_cc_len", F, "ConnectionComplete.__len__", [], binds=[("self.miu", "miu", INT), ("self.rw", "rw", INT)]),
    Spec(GROUP, "pdu_snl_encode", F, "ServiceNameLookup.encode", [], calls=dict(_EH, **_PE),
         binds=_HDR + [("self.sdreq", "sdreq", LIST(TUP(INT, BYTES))), ("self.sdres", "sdres", LIST(TUP(INT, INT)))]),
    Spec(GROUP, "pdu_snl_len", F, "ServiceNameLookup.__len__", [],
         binds=[("self.sdreq", "sdreq", LIST(TUP(INT, BYTES))), ("self.sdres", "sdres", LIST(TUP(INT, INT)))]),
    Spec(GROUP, "pdu_dps_encode", F, "DataProtectionSetup.encode", [], calls=dict(_EH, **_PE),
         binds=_HDR + [("self.ecpk", "ecpk", OPT(BYTES)), ("self.rn", "rn", OPT(BYTES))]),
    Spec(GROUP, "pdu_dps_len", F, "DataProtectionSetup.__len__", [],
         binds=[("self.ecpk", "ecpk", OPT(BYTES)), ("self.rn", "rn", OPT(BYTES))]),
    Spec(GROUP, "pdu_pax_decode", F, "ParameterExchange.decode", _DEC, calls=dict(_DH, **_PD),
         records={"ParameterExchange": {"dsap": INT, "ssap": INT, "version": ANY, "miux": ANY, "wks": ANY, "lto": ANY, "opt": ANY}}),
    Spec(GROUP, "pdu_connect_decode", F, "Connect.decode", _DEC, calls=dict(_DH, **_PD),
         records={"Connect": {"dsap": INT, "ssap": INT, "miu": INT, "rw": ANY, "sn": ANY}}),
    Spec(GROUP, "pdu_cc_decode", F, "ConnectionComplete.decode", _DEC, calls=dict(_DH, **_PD),
         records={"ConnectionComplete": {"dsap": INT, "ssap": INT, "miu": INT, "rw": ANY}}),
    Spec(GROUP, "pdu_dps_decode", F, "DataProtectionSetup.decode", _DEC, calls=dict(_DH, **_PD),
         records={"DataProtectionSetup": {"dsap": INT, "ssap": INT, "ecpk": ANY, "rn": ANY}}),
    Spec(GROUP, "pdu_agf_encode", F, "AggregatedFrame.encode", [], calls=_EH,
         binds=_HDR + [("[pdu.encode() for pdu in self._aggregate]", "encoded", LIST(BYTES))],
         note="cut: the encodings of the aggregated PDUs (`[pdu.encode() for pdu in self._aggregate]`) are the parameter `encoded`"),
    # unknown
    Spec(GROUP, "pdu_unknown_decode", F, "UnknownProtocolDataUnit.decode", _DEC, calls=_DH,
         records={"UnknownProtocolDataUnit": {"ptype": INT, "dsap": INT, "ssap": INT, "payload": BYTES}}),
    Spec(GROUP, "pdu_unknown_encode", F, "UnknownProtocolDataUnit.encode", [], binds=_HDR + [("self.payload", "payload", BYTES)], calls=_EH),
]
P = "NfcVerif.FnBridge.Pdu."
BRIDGE = {
    "module": "NfcVerif.Props.FnBridgePdu",
    "theorems": [P + t for t in (
        "param_decode_bridge", "param_encode_int_B", "param_encode_int_H", "param_encode_bytes_S",
        "param_encode_sdreq_bridge", "param_encode_sdres_bridge",
        "decode_header_bridge", "decode_header_n_bridge", "encode_header_bridge", "encode_header_n_bridge",
        "symm_decode_bridge", "symm_encode_bridge", "disc_decode_bridge", "disc_encode_bridge",
        "dm_decode_bridge", "dm_encode_bridge", "frmr_decode_bridge", "frmr_encode_bridge",
        "ui_decode_bridge", "ui_encode_bridge", "ui_len_bridge", "i_decode_bridge", "i_encode_bridge", "i_len_bridge",
        "rr_decode_bridge", "rr_encode_bridge", "rnr_decode_bridge", "rnr_encode_bridge",
        "unknown_decode_bridge", "unknown_encode_bridge", "gen_param_decode_total", "gen_header_roundtrip",
        # extension: PAX / CONNECT / CC / SNL / DPS / AGF
        "pax_encode_bridge", "pax_len_bridge", "connect_encode_bridge", "connect_len_bridge", "cc_encode_bridge",
        "cc_len_bridge", "dps_encode_bridge", "dps_len_bridge", "snl_encode_bridge", "snl_len_bridge",
        "agf_encode_bridge", "agf_encode_model", "tlv_sim", "paramDecode_wt", "pax_decode_bridge",
        "connect_decode_bridge", "cc_decode_bridge", "dps_decode_bridge")],
    "properties": ["C11", "C10", "C07"],
}

def _swap_snl_loops(seg):
    l = seg.split("\n")
    i = [k for k, x in enumerate(l) if "for sdreq in self.sdreq:" in x][0]
    j = [k for k, x in enumerate(l) if "for sdres in self.sdres:" in x][0]
    return "\n".join(l[:i] + l[j:j + 2] + l[i:i + 2] + l[j + 2:])


MUTATIONS = [
    ("pdu_param_decode", "MIUX reserved-bit mask", "V = V & 0x07FF", "V = V & 0x0FFF"),
    ("pdu_param_decode", "RW length check", 'raise DecodeError("RW TLV length error")', 'pass'),
    ("pdu_param_decode", "value offset", "offset+2)[0]", "offset+1)[0]"),
    ("pdu_param_decode", "OPT mask", "V = V & 0x07", "V = V & 0x0F"),
    ("pdu_param_decode", "SDREQ zero length accepted", "if L == 0:\n                raise DecodeError(\"SDREQ TLV length error\")", "if L == 300:\n                raise DecodeError(\"SDREQ TLV length error\")"),
    ("pdu_param_encode_int", "MIUX packed as one octet", "struct.pack('>BBH', T, 2, V)", "struct.pack('>BBB', T, 2, V)"),
    ("pdu_param_encode_bytes", "length limit", "if len(V) > 255:", "if len(V) > 256:"),
    ("pdu_param_encode_sdreq", "length octet", "1+len(sn), tid", "len(sn), tid"),
    ("pdu_decode_header", "dsap shift", "dsap >> 2", "dsap >> 1"),
    ("pdu_decode_header", "minimum size", "size < cls.header_size", "size <= cls.header_size"),
    ("pdu_decode_header_n", "sequence split", "sequence >> 4, sequence & 15", "sequence & 15, sequence >> 4"),
    ("pdu_encode_header", "ptype position", "self.ptype << 6", "self.ptype << 5"),
    ("pdu_encode_header", "upper bound", "self.dsap > 63 or self.ssap > 63", "self.dsap > 64 or self.ssap > 63"),
    ("pdu_encode_header_n", "ns/nr order", "self.ns << 4 | self.nr", "self.nr << 4 | self.ns"),
    ("pdu_symm_decode", "payload check dropped", "if size >= 3:", "if size >= 300:"),
    ("pdu_dm_decode", "size check", "if size != 3:", "if size < 3:"),
    ("pdu_frmr_decode", "field order", "vs, vr = b2 >> 4, b2 & 15", "vr, vs = b2 >> 4, b2 & 15"),
    ("pdu_frmr_encode", "field order", "self.vsa << 4 | self.vra", "self.vra << 4 | self.vsa"),
    ("pdu_ui_decode", "payload start", "data[offset+2:offset+size]", "data[offset+3:offset+size]"),
    ("pdu_i_decode", "payload end", "data[offset+3:offset+size]", "data[offset+3:offset+size+1]"),
    ("pdu_unknown_decode", "ptype extraction", "data[offset+1] >> 6", "data[offset+1] >> 5"),
    ("pdu_i_len", "header size", "return 3 + len(self.data)", "return 2 + len(self.data)"),
    ("pdu_pax_encode", "seeded: LTO TLV omitted for the default value", "if self._lto is not None:", "if self._lto is not None and self._lto != 10:"),
    ("pdu_encode_header_n", "seeded: packed sequence octet cached on the object",
     "return data + struct.pack('!B', self.ns << 4 | self.nr)",
     "if getattr(self, '_sequence', None) is None:\n            self._sequence = struct.pack('!B', self.ns << 4 | self.nr)\n        return data + self._sequence"),
    ("pdu_pax_len", "WKS TLV length", "(4 if self._wks is not None else 0)", "(3 if self._wks is not None else 0)"),
    ("pdu_connect_encode", "MIUX offset", "self.miu - 128", "self.miu - 127"),
    ("pdu_connect_encode", "RW default not skipped", "self.rw != 1", "self.rw != 0"),
    ("pdu_connect_len", "service name TLV header", "(2 + len(self.sn) if self.sn else 0)", "(1 + len(self.sn) if self.sn else 0)"),
    ("pdu_cc_encode", "TLV type of RW", "Parameter.encode(Parameter.RW, self.rw)", "Parameter.encode(Parameter.LTO, self.rw)"),
    ("pdu_snl_encode", "SDRES before SDREQ", _swap_snl_loops, None),
    ("pdu_snl_len", "SDRES TLV size", "len(self.sdres) * 4", "len(self.sdres) * 3"),
    ("pdu_dps_encode", "RN TLV type", "Parameter.encode(Parameter.RN, self.rn)", "Parameter.encode(Parameter.ECPK, self.rn)"),
    ("pdu_agf_encode", "length field byte order", "struct.pack('!H', len(encoded_pdu))", "struct.pack('<H', len(encoded_pdu))"),
    ("pdu_connect_decode", "MIU base", "connect_pdu.miu = 128 + V", "connect_pdu.miu = 127 + V"),
    ("pdu_connect_decode", "loop advance", "offset, size = offset + 2 + L, size - 2 - L", "offset, size = offset + 2 + L, size - 1 - L"),
    ("pdu_cc_decode", "RW TLV ignored", "elif T == Parameter.RW:", "elif T == Parameter.LTO:"),
    ("pdu_pax_decode", "loop condition", "while size >= 2:", "while size >= 3:"),
    ("pdu_pax_decode", "OPT stored as LTO", "pax_pdu._opt = V", "pax_pdu._lto = V"),
    ("pdu_dps_decode", "address check dropped", "if dsap != 0 or ssap != 0:", "if dsap != 0 and ssap != 0:"),
    ("pdu_rr_decode", "NEUTRAL nothing observable (log text)", '"reserved bits set in sequence field"', '"reserved bits are set"'),
]



def _tlv(rng):
    t = rng.choice([1, 2, 3, 4, 5, 6, 7, 8, 9, 10, 11, rng.randrange(256)])
    good = {1: 1, 2: 2, 3: 2, 4: 1, 5: 1, 7: 1, 9: 2}.get(t, rng.randrange(0, 6))
    l = good if rng.random() < 0.8 else rng.randrange(0, 5)
    v = bytes(rng.choice([0, 0xFF, rng.randrange(256)]) for _ in range(l if rng.random() < 0.9 else rng.randrange(0, 5)))
    return bytes([t, l]) + v


def inputs(rng, sp):
    out = []
    if sp.lean == "pdu_param_decode":
        for _ in range(200):
            pre = bytes(rng.randrange(256) for _ in range(rng.randrange(0, 3)))
            d = pre + _tlv(rng) + bytes(rng.randrange(256) for _ in range(rng.randrange(0, 3)))
            out.append(([d, len(pre) if rng.random() < 0.9 else rng.randrange(-4, len(d) + 2)], []))
    if sp.lean.startswith("pdu_param_encode"):
        for _ in range(150):
            t = rng.choice([1, 2, 3, 4, 5, 6, 7, 8, 9, 10, 11, 0, 12, rng.randrange(-3, 300)])
            if sp.lean.endswith("_int"):
                v = rng.choice([0, 1, 15, 255, 256, 65535, 65536, -1, rng.randrange(70000)])
            elif sp.lean.endswith("_bytes"):
                v = bytes(rng.randrange(256) for _ in range(rng.choice([0, 1, 5, 254, 255, 256, 300])))
            elif sp.lean.endswith("_sdreq"):
                v = (rng.choice([0, 1, 255, 256, -1]), bytes(rng.randrange(256) for _ in range(rng.choice([0, 3, 253, 254, 255, 256]))))
            else:
                v = (rng.choice([0, 1, 255, 256, -1]), rng.choice([0, 1, 63, 255, 256, -1]))
            out.append(([t, v], []))
    if sp.lean.endswith("_decode") and sp.lean != "pdu_param_decode":
        for _ in range(150):
            pre = bytes(rng.randrange(256) for _ in range(rng.randrange(0, 3)))
            body = bytes([rng.choice([0, 4, 0x41, rng.randrange(256)]), rng.choice([0, 1, 0x40, rng.randrange(256)])]) + \
                bytes(rng.randrange(256) for _ in range(rng.choice([0, 1, 2, 3, 4, 5, 10])))
            d = pre + body + bytes(rng.randrange(256) for _ in range(rng.randrange(0, 3)))
            size = len(body) if rng.random() < 0.8 else rng.randrange(-2, 12)
            out.append(([d, len(pre) if rng.random() < 0.9 else rng.randrange(-3, len(d) + 2), size], []))
    if sp.lean in ("pdu_pax_decode", "pdu_connect_decode", "pdu_cc_decode", "pdu_dps_decode"):
        hdr = {"pdu_pax_decode": b"\x00\x40", "pdu_connect_decode": b"\x11\x20", "pdu_cc_decode": b"\x81\x90",
               "pdu_dps_decode": b"\x02\x80"}[sp.lean]
        for _ in range(200):
            pre = bytes(rng.randrange(256) for _ in range(rng.randrange(0, 3)))
            h = hdr if rng.random() < 0.9 else bytes([rng.randrange(256), rng.randrange(256)])
            body = h + b"".join(_tlv(rng) for _ in range(rng.randrange(0, 5)))
            if rng.random() < 0.15:
                body = body[:rng.randrange(0, len(body) + 1)]
            d = pre + body + bytes(rng.randrange(256) for _ in range(rng.randrange(0, 3)))
            size = len(body) if rng.random() < 0.85 else rng.randrange(-2, len(d) + 3)
            out.append(([d, len(pre) if rng.random() < 0.9 else rng.randrange(-3, len(d) + 2), size], []))
        return out
    if sp.lean.endswith("_len") and sp.lean not in ("pdu_ui_len", "pdu_i_len") or sp.lean in (
            "pdu_pax_encode", "pdu_connect_encode", "pdu_cc_encode", "pdu_snl_encode", "pdu_dps_encode", "pdu_agf_encode"):
        def val(name, ty):
            if ty == ("opt", "int"):
                return None if rng.random() < 0.4 else rng.choice([0, 1, 10, 255, 256, 2047, 65535, 65536, rng.randrange(300)])
            if ty == ("opt", "bytes"):
                return None if rng.random() < 0.3 else bytes(rng.randrange(256) for _ in range(rng.choice([0, 1, 5, 254, 255, 256])))
            if ty == ("list", ("tuple", "int", "bytes")):
                return [(rng.choice([0, 1, 255, 256]), bytes(rng.randrange(256) for _ in range(rng.choice([0, 3, 254, 255]))))
                        for _ in range(rng.randrange(0, 4))]
            if ty == ("list", ("tuple", "int", "int")):
                return [(rng.choice([0, 1, 255, 256]), rng.choice([0, 16, 63, 255, 256])) for _ in range(rng.randrange(0, 4))]
            if ty == ("list", "bytes"):
                return [bytes(rng.randrange(256) for _ in range(rng.choice([0, 2, 7, 300]))) for _ in range(rng.randrange(0, 4))]
            if name in ("dsap", "ssap"):
                return rng.choice([0, 0, 0, 1, 32, 63, 64])
            if name == "ptype":
                return {"pdu_pax_encode": 1, "pdu_connect_encode": 4, "pdu_cc_encode": 6, "pdu_snl_encode": 9,
                        "pdu_dps_encode": 10, "pdu_agf_encode": 2}.get(sp.lean, 0)
            if name == "miu":
                return rng.choice([0, 1, 128, 129, 2175, 2176, 65663, 65664])
            return rng.choice([0, 1, 2, 15, 16, 255, 256])
        for _ in range(200):
            out.append(([], [val(name, ty) for (src, name, ty) in sp.binds]))
        return out
    if sp.lean.endswith("_encode") or sp.lean.startswith("pdu_encode_header"):
        for _ in range(150):
            bv = []
            for (src, name, ty) in sp.binds:
                if ty == "bytes":
                    bv.append(bytes(rng.randrange(256) for _ in range(rng.randrange(0, 10))))
                elif name in ("dsap", "ssap"):
                    bv.append(rng.choice([0, 1, 32, 63, 64, -1, rng.randrange(64)]))
                elif name == "ptype":
                    bv.append(rng.choice([0, 1, 3, 7, 12, 15, 16, rng.randrange(16)]))
                else:
                    bv.append(rng.choice([0, 1, 15, 16, 255, 256, -1, rng.randrange(16)]))
            out.append(([], bv))
    return out
