"""group Rcs380Rf: target discovery, listening and data exchange of the RC-S380 driver -> Model/FnRcs380RfRef.lean
(C13, C14, C18, C19)

`nfc/clf/rcs380.py` beyond group Rcs380 (frame codec, status words): `Chipset.in_comm_rf` timeout conversion and command
data, `in_set_protocol` / `tg_set_protocol` argument packing, `Device.sense_tta/ttb/ttf/dep`, `listen_tta/ttf/dep`
(activation frame checks, which first command is accepted as which target type, ATR_REQ length check, PSL), the Type 2
Tag CRC handling of `_tt2_send_cmd_recv_rsp`, timeout arithmetic of `_send_cmd_recv_rsp` / `send_rsp_recv_cmd`,
`get_max_send/recv_data_size`.  Every method interleaves chipset commands (host-link I/O) with pure evaluation of what
the chip answered; translated are the pure slices between the I/O calls (statement ranges, `expr=` cuts of whole
conditions / values).  The parameter of a response cut is the value the preceding chipset call returned.

Not translated (cuts, see the notes): the settings dictionaries of `in_set_rf` / `tg_set_rf` (dict of tuples indexed by
str), the `**kwargs` loops of `in_set_protocol` / `tg_set_protocol` (`sorted(kwargs.items())`, `KEYS.index(key)` on a
tuple of str: the element appended per key is the cut `rrf_set_protocol_item`), `struct.pack("<HH?6s18s??H", ..)` of
`tg_comm_rf` (format `?`), the constructors `nfc.clf.RemoteTarget(..)` / `LocalTarget(..)` (keyword arguments; the
attribute VALUES they receive are the cuts), the clock driven `while recv_timeout > 0` loops, `zip(..)` /
`reduce(operator.xor, ..)` in the SEL_REQ loop (the BCC is a parameter), TA/TB/TC extraction of `listen_tta_tt4`
(`pop` inside a conditional expression), the exception mapping `error == "RF_OFF_ERROR"` .. (groups Rcs380 / ErrMap:
`comm_err_eq_bridge`, `Props/FnBridgeErrMap.lean`).
"""
from translate_fn import Spec, INT, BOOL, BYTES, OPT, STR, TUP, NONE, LIST

GROUP = "Rcs380Rf"
ORDER = 69
F = "clf/rcs380.py"
_BRTY = [("target.brty", "brty", STR)]
_EX = {"StatusError": "rcsStatus", "CommunicationError": "rcsComm"}

SPECS = [
    # ---- Chipset
    Spec(GROUP, "rrf_in_comm_timeout", F, "Chipset.in_comm_rf", [("timeout", INT)], stmts=(0, 1), result=["timeout"],
         note="cut: the InCommRF timeout value: (timeout + 1) * 10 for timeout > 0 (unit 100 us, one ms added), 0 for 0, "
              "clamped to FFFFh"),
    Spec(GROUP, "rrf_in_comm_cmd", F, "Chipset.in_comm_rf", [("data", BYTES), ("timeout", INT)],
         expr='struct.pack("<H", timeout) + bytes(data)',
         note="cut: the InCommRF command data handed to `self.send_command(0x04, ..)`: timeout (little endian) + frame; "
              "`timeout` is the converted value of statement 0"),
    Spec(GROUP, "rrf_set_protocol_data", F, "Chipset.in_set_protocol", [("data", OPT(BYTES))], stmts=(0, 1), result=["data"],
         note="cut: the initial setting list: empty for None, else a copy of `data`"),
    Spec(GROUP, "rrf_set_protocol_item", F, "Chipset.in_set_protocol", [("value", INT)],
         binds=[("KEYS.index(key)", "k", INT)], expr="bytearray([KEYS.index(key), int(value)])",
         note="cut: the two octets appended per keyword setting; `KEYS.index(key)` (tuple of str) is the parameter `k`"),
    Spec(GROUP, "rrf_set_protocol_send", F, "Chipset.in_set_protocol", [("data", BYTES)], expr="len(data) > 0", whole=True,
         note="cut: the test `anything to set` in front of `self.send_command(0x02, data)`"),
    Spec(GROUP, "rrf_tg_set_protocol_data", F, "Chipset.tg_set_protocol", [("data", OPT(BYTES))], stmts=(0, 1), result=["data"],
         note="cut: the initial setting list: empty for None, else a copy of `data`"),
    Spec(GROUP, "rrf_tg_set_protocol_item", F, "Chipset.tg_set_protocol", [("value", INT)],
         binds=[("KEYS.index(key)", "k", INT)], expr="bytearray([KEYS.index(key), int(value)])",
         note="cut: the two octets appended per keyword setting; `KEYS.index(key)` is the parameter `k`"),
    Spec(GROUP, "rrf_tg_comm_transmit", F, "Chipset.tg_comm_rf", [("data", BYTES), ("transmit_data", OPT(BYTES))],
         stmts=(1, 2), result=["data"],
         note="cut: the transmit data appended to the packed TgCommRF parameters; parameter `data` is the value of "
              "`struct.pack('<HH?6s18s??H', ..)` (statement 0, not translated: format `?`)"),
    Spec(GROUP, "rrf_reset_arg", F, "Chipset.reset_device", [("startup_delay", INT)], expr='struct.pack("<H", startup_delay)',
         note="cut: the ResetDevice command data"),
    # ---- frame size limits
    Spec(GROUP, "rrf_max_send", F, "Device.get_max_send_data_size", [("target", INT)]),
    Spec(GROUP, "rrf_max_recv", F, "Device.get_max_recv_data_size", [("target", INT)]),
    # ---- sense_tta
    Spec(GROUP, "rrf_tta_brty_bad", F, "Device.sense_tta", [], binds=_BRTY, expr='target.brty not in ("106A", "212A", "424A")', whole=True,
         note="cut: the test that raises UnsupportedTargetError"),
    Spec(GROUP, "rrf_tta_sens_req", F, "Device.sense_tta", [], binds=[("target.sens_req", "sens_req", OPT(BYTES))],
         stmts=(5, 6), result=["sens_req"], note="cut: SENS_REQ: `target.sens_req` or the default 26h"),
    Spec(GROUP, "rrf_tta_sens_bad", F, "Device.sense_tta", [("sens_res", BYTES)], expr="len(sens_res) != 2", whole=True,
         note="cut: the test on the SENS_RES length behind `sens_res = self.chipset.in_comm_rf(sens_req, 30)` (a byte string; "
              "None - empty chip answer - is a TypeError here, not modelled)"),
    Spec(GROUP, "rrf_tta_is_tt1", F, "Device.sense_tta", [("sens_res", BYTES)], expr="sens_res[0] & 0x1F == 0", whole=True,
         note="cut: the test `no bit frame anticollision bits` = Type 1 Tag platform"),
    Spec(GROUP, "rrf_tta_tt1_rid", F, "Device.sense_tta", [("sens_res", BYTES)], expr="sens_res[1] & 0x0F == 0b1100", whole=True,
         note="cut: the test on SENS_RES octet 2 (platform configuration 1100b) for sending RID"),
    Spec(GROUP, "rrf_tta_rid_cmd", F, "Device.sense_tta", [], path=[(8, "body"), (3, "body")], stmts=(0, 1), result=["rid_cmd"],
         note="cut: the RID command (the chip appends CRC_B)"),
    Spec(GROUP, "rrf_tta_uid", F, "Device.sense_tta", [], binds=[("target.sel_req", "sel_req", BYTES)],
         path=[(9, "body"), (1, "body")], stmts=(0, 3), result=["uid"],
         note="cut: inside `if target.sel_req:` the cascade tag insertion for a 7 / 10 octet UID"),
    Spec(GROUP, "rrf_tta_sel_req", F, "Device.sense_tta", [("uid", BYTES), ("i", INT), ("sel_cmd", INT)],
         binds=[("reduce(operator.xor, sel_req[2:6])", "bcc", INT)],
         path=[(9, "body"), (1, "body"), (4, "body")], stmts=(0, 2), result=["sel_req"],
         note="cut: inside the SEL_REQ loop (`zip(range(0, len(uid), 4), b'\\x93\\x95\\x97')` not translated) the select command "
              "for one cascade level; `reduce(operator.xor, sel_req[2:6])` (BCC) is the parameter `bcc`"),
    Spec(GROUP, "rrf_tta_sdd_req", F, "Device.sense_tta", [("sel_cmd", INT)], expr="bytearray([sel_cmd, 0x20])",
         note="cut: SDD_REQ of one cascade level"),
    Spec(GROUP, "rrf_tta_sdd_sel_req", F, "Device.sense_tta", [("sel_cmd", INT), ("sdd_res", BYTES)], expr="bytearray([sel_cmd, 0x70]) + sdd_res",
         note="cut: SEL_REQ built from the SDD_RES (UID CLn + BCC) of one cascade level"),
    Spec(GROUP, "rrf_tta_cascade", F, "Device.sense_tta", [("sel_res", BYTES)], expr="sel_res[0] & 0b00000100", whole=True, ret=BOOL,
         note="cut: the cascade bit test of SEL_RES inside the SDD loop (UID not complete)"),
    Spec(GROUP, "rrf_tta_uid_part", F, "Device.sense_tta", [("uid", BYTES), ("sdd_res", BYTES)], expr="uid + sdd_res[1:4]",
         note="cut: UID extended by a cascade level that starts with the cascade tag"),
    Spec(GROUP, "rrf_tta_uid_last", F, "Device.sense_tta", [("uid", BYTES), ("sdd_res", BYTES)], expr="uid + sdd_res[0:4]",
         note="cut: UID extended by the last cascade level"),
    Spec(GROUP, "rrf_tta_complete", F, "Device.sense_tta", [("sel_res", BYTES)], expr="sel_res[0] & 0b00000100 == 0", whole=True,
         note="cut: the test `UID complete` that guards the returned RemoteTarget"),
    # ---- sense_ttb
    Spec(GROUP, "rrf_ttb_brty_bad", F, "Device.sense_ttb", [], binds=_BRTY, expr='target.brty not in ("106B", "212B", "424B")', whole=True,
         note="cut: the test that raises UnsupportedTargetError"),
    Spec(GROUP, "rrf_ttb_req", F, "Device.sense_ttb", [], binds=[("target.sensb_req", "sensb_req", OPT(BYTES))],
         stmts=(5, 6), result=["sensb_req"], note="cut: SENSB_REQ: `target.sensb_req` or the default 05 00 10"),
    Spec(GROUP, "rrf_ttb_res_ok", F, "Device.sense_ttb", [("sensb_res", BYTES)], expr="len(sensb_res) >= 12 and sensb_res[0] == 0x50",
         whole=True, ret=BOOL, note="cut: the test on SENSB_RES (at least 12 octets, response code 50h) that guards the returned RemoteTarget"),
    # ---- sense_ttf
    Spec(GROUP, "rrf_ttf_brty_bad", F, "Device.sense_ttf", [], binds=_BRTY, expr='target.brty not in ("212F", "424F")', whole=True,
         note="cut: the test that raises UnsupportedTargetError"),
    Spec(GROUP, "rrf_ttf_req", F, "Device.sense_ttf", [], binds=[("target.sensf_req", "sensf_req", OPT(BYTES))],
         stmts=(5, 6), result=["sensf_req"], note="cut: SENSF_REQ: `target.sensf_req` or the default 00 FFFF 01 00"),
    Spec(GROUP, "rrf_ttf_frame", F, "Device.sense_ttf", [("sensf_req", BYTES)], expr="bytearray([len(sensf_req)+1]) + sensf_req",
         note="cut: the frame handed to InCommRF (length octet + SENSF_REQ)"),
    Spec(GROUP, "rrf_ttf_res_code", F, "Device.sense_ttf", [("frame", BYTES)], expr="frame[1] == 1",
         note="cut: last operand of `18 <= len(frame) == frame[0] and frame[1] == 1` (response code 01); the chained comparison in front "
              "(at least 18 octets, length octet = number of octets) is refused by the translator (effect in a later operand) and stated in the "
              "reference `ttfResOk` only"),
    Spec(GROUP, "rrf_ttf_res", F, "Device.sense_ttf", [("frame", BYTES)], expr="frame[1:]", nth=1,
         note="cut: SENSF_RES of the returned RemoteTarget: the answer without the length octet"),
]

# ---- listen_tta
_TAO = [("target.sens_res", "sens_res", OPT(BYTES)), ("target.sdd_res", "sdd_res", OPT(BYTES)), ("target.sel_res", "sel_res", OPT(BYTES))]
_TAB = [("target.sens_res", "sens_res", BYTES), ("target.sdd_res", "sdd_res", BYTES), ("target.sel_res", "sel_res", BYTES)]
_SEL = [("target.sel_res", "sel_res", BYTES)]
TT2, TT4 = "Device.listen_tta.listen_tta_tt2", "Device.listen_tta.listen_tta_tt4"
SPECS += [
    Spec(GROUP, "rrf_lta_checks", F, "Device.listen_tta", [], binds=_BRTY + [("target.rid_res", "rid_res", OPT(BYTES))] + _TAO,
         stmts=(0, 10), result=["nfca_params"], drop=["info ="],
         note="cut: the argument checks (106A only, no Type 1 Tag, SENS_RES 2 / SDD_RES 4 / SEL_RES 1 octets present, SDD_RES starts "
              "with 08h) and the TgCommRF parameter `nfca_params` = SENS_RES + NFCID1 octets 1..3 + SEL_RES; the `info = ..` strings are dropped"),
    Spec(GROUP, "rrf_lta_recv_timeout", F, "Device.listen_tta", [], binds=[("int(1000 * timeout)", "ms", INT)],
         expr="min(int(1000 * timeout), 0xFFFF)", note="cut: the receive timeout in ms, clamped to FFFFh; `int(1000 * timeout)` (float) is the parameter `ms`"),
    Spec(GROUP, "rrf_lta_is_tt2", F, "Device.listen_tta", [], binds=_SEL, expr="target.sel_res[0] & 0x60 == 0x00", whole=True,
         note="cut: first arm of the dispatch: SEL_RES says Type 2 Tag"),
    Spec(GROUP, "rrf_lta_is_tt4", F, "Device.listen_tta", [], binds=_SEL, expr="target.sel_res[0] & 0x20 == 0x20", whole=True,
         note="cut: second arm of the dispatch: SEL_RES says Type 4A Tag (else UnsupportedTargetError)"),
    Spec(GROUP, "rrf_lta2_brty_index", F, TT2, [("data", BYTES)], expr="data[0]-11",
         note="cut: the index into ('106A', '212F', '424F') (tuple of str, not translated) from the first octet of the TgCommRF answer"),
    Spec(GROUP, "rrf_lta2_accept", F, TT2, [("brty", STR), ("data", BYTES)], expr='brty == "106A" and data[2] & 0x03 == 3', whole=True, ret=BOOL,
         note="cut: the test that takes the received frame as first Type 2 Tag command (106A, activated: both mdaa status bits set)"),
    Spec(GROUP, "rrf_lta2_cmd", F, TT2, [("data", BYTES)], expr="data[7:]", note="cut: `tt2_cmd` of the returned LocalTarget"),
    Spec(GROUP, "rrf_lta_sens_res", F, TT2, [("nfca_params", BYTES)], expr="nfca_params[0:2]", note="cut: `sens_res` of the returned LocalTarget"),
    Spec(GROUP, "rrf_lta_sdd_res", F, TT2, [("nfca_params", BYTES)], expr="b'\\x08'+nfca_params[2:5]", note="cut: `sdd_res` of the returned LocalTarget"),
    Spec(GROUP, "rrf_lta_sel_res", F, TT2, [("nfca_params", BYTES)], expr="nfca_params[5:6]", note="cut: `sel_res` of the returned LocalTarget"),
    Spec(GROUP, "rrf_lta4_is_rats", F, TT4, [("brty", STR), ("data", BYTES)], expr='brty == "106A" and data[2] == 3 and data[7] == 0xE0', whole=True, ret=BOOL,
         note="cut: the test for RATS as first command behind the activation"),
    Spec(GROUP, "rrf_lta4_rats", F, TT4, [("data", BYTES)], binds=[("target.rats_res", "t_rats_res", OPT(BYTES))],
         path=[(2, "body"), (1, "orelse"), (2, "body")], stmts=(0, 3), result=["rats_cmd", "rats_res"],
         note="cut: inside the RATS arm: the RATS command and the answer to send (`target.rats_res` or the default 05 78 80 70 02)"),
    Spec(GROUP, "rrf_lta4_is_cmd", F, TT4, [("brty", STR), ("data", BYTES), ("rats_cmd", OPT(BYTES))],
         expr='brty == "106A" and data[7] != 0xF0 and rats_cmd', whole=True, ret=BOOL,
         note="cut: the test for a command behind RATS (not an ATR_REQ start byte)"),
    Spec(GROUP, "rrf_lta4_did", F, TT4, [("rats_cmd", BYTES)], expr="rats_cmd[1] & 0x0F", note="cut: the DID assigned by RATS"),
    Spec(GROUP, "rrf_lta4_did_supported", F, TT4, [("tc", OPT(INT))], nonneg=["tc"], expr="tc is None or bool(tc & 0x02)", ret=BOOL,
         note="cut: DID supported: no TC(1) in the ATS or TC(1) bit 2 set; `tc` (>= 0) is the result of the TA/TB/TC extraction (not translated)"),
    Spec(GROUP, "rrf_lta4_with_did", F, TT4, [("cmd", BYTES)], expr="bool(cmd[0] & 0x08)", note="cut: the block carries a DID (PCB bit 4)"),
    Spec(GROUP, "rrf_lta4_for_us", F, TT4, [("cmd_with_did", BOOL), ("did_supported", BOOL), ("cmd", BYTES), ("did", INT)],
         expr="(cmd_with_did and did_supported and cmd[1] == did) or (did == 0 and not cmd_with_did)", whole=True, ret=BOOL,
         note="cut: the test `block addressed to us`"),
    Spec(GROUP, "rrf_lta4_is_deselect", F, TT4, [("cmd", BYTES)], expr="cmd[0] in (0xC2, 0xCA)", whole=True,
         note="cut: the test for S(DESELECT) (answered, listening goes on)"),
]
# ---- listen_ttf
SPECS += [
    Spec(GROUP, "rrf_ltf_checks", F, "Device.listen_ttf", [], binds=_BRTY + [("target.sensf_res", "sensf_res", OPT(BYTES))], stmts=(0, 3),
         drop=["info ="], note="cut: the argument checks (212F / 424F, SENSF_RES of 19 octets present)"),
    Spec(GROUP, "rrf_ltf_recv_timeout", F, "Device.listen_ttf", [], binds=[("int(1000 * timeout)", "ms", INT)],
         expr="min(int(1000 * timeout), 0xFFFF)", note="cut: the receive timeout in ms, clamped to FFFFh; `int(1000 * timeout)` is the parameter `ms`"),
    Spec(GROUP, "rrf_ltf_brty_index", F, "Device.listen_ttf", [("data", BYTES)], expr="data[0]-11",
         note="cut: the index into ('106A', '212F', '424F') of the `assert` on the bit rate of the answer"),
    Spec(GROUP, "rrf_ltf_len_ok", F, "Device.listen_ttf", [("data", BYTES)], expr="len(data) > 7 and len(data)-7 == data[7]", whole=True, ret=BOOL,
         note="cut: the test that the received frame is one FeliCa frame (length octet = number of octets behind the 7 status octets)"),
    Spec(GROUP, "rrf_ltf_for_us", F, "Device.listen_ttf", [("sensf_req", OPT(BYTES)), ("data", BYTES)], binds=[("target.sensf_res", "sensf_res", BYTES)],
         expr="sensf_req and data[9:17] == target.sensf_res[1:9]", whole=True, ret=BOOL,
         note="cut: the test that a polling command was seen before and the command carries our IDm"),
    Spec(GROUP, "rrf_ltf_tt3_cmd", F, "Device.listen_ttf", [("data", BYTES)], expr="data[8:]", note="cut: `tt3_cmd` of the returned LocalTarget"),
    Spec(GROUP, "rrf_ltf_is_polling", F, "Device.listen_ttf", [("data", BYTES)], expr="len(data) == 13 and data[7] == 6 and data[8] == 0", whole=True, ret=BOOL,
         note="cut: the test for SENSF_REQ (6 octets, command code 00)"),
    Spec(GROUP, "rrf_ltf_sc_match", F, "Device.listen_ttf", [("sensf_req", BYTES), ("sensf_res", BYTES)],
         expr="(sensf_req[1] == 255 or sensf_req[1] == sensf_res[17]) and (sensf_req[2] == 255 or sensf_req[2] == sensf_res[18])", whole=True, ret=BOOL,
         note="cut: the system code match (FFh is a wildcard per octet)"),
    Spec(GROUP, "rrf_ltf_sensf_res", F, "Device.listen_ttf", [("sensf_req", BYTES), ("sensf_res", BYTES)], binds=_BRTY,
         path=[(9, "body"), (6, "body"), (1, "body")], result=["transmit_data"],
         note="cut: inside the system code test: the SENSF_RES frame to transmit (17 octets, + system code for RC 1, + 00 and the "
              "bit rate capability for RC 2, length octet in front)"),
]
# ---- listen_dep
_DEPB = [("target.sens_res", "sens_res", BYTES), ("target.sel_res", "sel_res", BYTES), ("target.sdd_res", "sdd_res", BYTES),
         ("target.sensf_res", "sensf_res", BYTES), ("target.atr_res", "atr_res", BYTES)]
LD = "Device.listen_dep"
SPECS += [
    Spec(GROUP, "rrf_ldep_params", F, LD, [], binds=_DEPB, stmts=[1, 2, 3, 4, 5, 6, 7], result=["nfca_params", "nfcf_params"],
         note="cut: the argument checks (SENS_RES 2, SEL_RES 1, SDD_RES 4, SENSF_RES >= 19, ATR_RES >= 17 octets) and the TgCommRF "
              "parameters; the attributes are byte strings here (None, which fails the checks like the empty string, is not modelled)"),
    Spec(GROUP, "rrf_ldep_recv_timeout", F, LD, [], binds=[("int(1000 * timeout)", "ms", INT)],
         expr="min(int(1000 * timeout), 0xFFFF)", note="cut: the receive timeout in ms, clamped to FFFFh"),
    Spec(GROUP, "rrf_ldep_brty_index", F, LD, [("data", BYTES)], expr="data[0]-11", note="cut: the index into ('106A', '212F', '424F')"),
    Spec(GROUP, "rrf_ldep_activated", F, LD, [("data", BYTES)], expr="data[2] & 0x03 == 3", whole=True,
         note="cut: the test `passive mode activation complete` on the TgCommRF answer"),
    Spec(GROUP, "rrf_ldep_frame", F, LD, [("data", BYTES)], expr="data[7:]", note="cut: the received frame behind the 7 status octets"),
    Spec(GROUP, "rrf_ldep_is_tag_cmd", F, LD, [("brty", STR), ("data", BYTES)], expr='brty == "106A" and len(data) > 1 and data[0] != 0xF0', whole=True, ret=BOOL,
         note="cut: the test `Type A card command, not NFC-DEP` (returned as tt2_cmd)"),
    Spec(GROUP, "rrf_ldep_offset", F, LD + ".verify_frame", [("brty", STR), ("data", BYTES), ("cmd_set", LIST(INT))], stmts=(0, 1), result=["offset"],
         note="cut: 106A frames carry the start byte F0h in front of the length octet"),
    Spec(GROUP, "rrf_ldep_verify", F, LD + ".verify_frame", [("brty", STR), ("data", BYTES), ("cmd_set", LIST(INT)), ("offset", INT)], path=[(1, "body")], ret=OPT(BYTES),
         note="cut: inside the `try:` the frame checks (start byte, length octet, D4h, command code in `cmd_set`): the frame behind the "
              "length octet or None; `offset` is the parameter (cut rrf_ldep_offset); the handler `except IndexError: log` (None) is not "
              "translated, the reference says it"),
    Spec(GROUP, "rrf_ldep_tx_frame", F, LD + ".send_res_recv_req", [("brty", STR), ("data", BYTES), ("timeout", INT)], path=[(0, "body")], result=["data"],
         note="cut: inside `if data:` the frame to transmit: start byte F0h at 106A, length octet, data"),
    Spec(GROUP, "rrf_ldep_atr_len_ok", F, LD, [("atr_req", BYTES)], expr="16 <= len(atr_req) <= 64", whole=True,
         note="cut: the ATR_REQ length check (ATR_RES is sent only then)"),
    Spec(GROUP, "rrf_ldep_is_atr", F, LD, [("data", BYTES)], expr="data and data[1] == 0", whole=True, ret=BOOL,
         note="cut: the loop test `verified frame is an ATR_REQ`; `data` a byte string (None - frame not verified - fails the test like the empty string, not modelled)"),
    Spec(GROUP, "rrf_ldep_is_req", F, LD, [("data", BYTES)], expr="data and data[1] in (4, 6, 8, 10)", whole=True, ret=BOOL,
         note="cut: the loop test `verified frame is PSL_REQ, DEP_REQ, DSL_REQ or RLS_REQ`; `data` a byte string (None not modelled)"),
    Spec(GROUP, "rrf_ldep_did", F, LD, [("atr_req", BYTES)], expr="atr_req[12] if atr_req[12] > 0 else None", ret=OPT(INT),
         note="cut: the DID of the ATR_REQ (None for 0)"),
    Spec(GROUP, "rrf_ldep_dep_did", F, LD, [("data", BYTES)], expr="data[3] if data[2] >> 2 & 1 else None", ret=OPT(INT),
         note="cut: the DID of a DEP_REQ (PFB bit 2 set: DID octet present)"),
    Spec(GROUP, "rrf_ldep_dsl_did", F, LD, [("data", BYTES)], expr="data[2] if len(data) > 2 else None", ret=OPT(INT),
         note="cut: the DID of a DSL_REQ / RLS_REQ (optional third octet)"),
    Spec(GROUP, "rrf_ldep_psl_did", F, LD, [("data", BYTES)], expr="data[2] if data[2] > 0 else None", ret=OPT(INT),
         note="cut: the DID of a PSL_REQ (None for 0)"),
    Spec(GROUP, "rrf_ldep_psl", F, LD + ".send_psl_res", [("brty", STR), ("data", BYTES)], stmts=(0, 2), result=["dsi"], excs={"CommunicationError": ("rcsComm", "rcs380_comm_err_init")},
         note="cut: DSI / DRI of PSL_REQ (BRS bits 3..5 / 0..2); different values are a CommunicationError; result: `dsi`, the index into "
              "('106A', '212F', '424F') of the new bit rate"),
    Spec(GROUP, "rrf_ldep_psl_res", F, LD + ".send_psl_res", [("data", BYTES)], expr='b"\\xD5\\x05" + data[2:3]', note="cut: PSL_RES"),
    Spec(GROUP, "rrf_ldep_dsl_res", F, LD + ".send_dsl_res", [("data", BYTES)], expr='b"\\xD5\\x09" + data[2:3]', note="cut: DSL_RES"),
    Spec(GROUP, "rrf_ldep_rls_res", F, LD + ".send_rls_res", [("data", BYTES)], expr='b"\\xD5\\x0B" + data[2:3]', note="cut: RLS_RES"),
    Spec(GROUP, "rrf_ldep_sensf_res", F, LD, [("nfcf_params", BYTES)], expr='b"\\x01" + nfcf_params', note="cut: `sensf_res` of the returned LocalTarget"),
]
# ---- data exchange
SR = "Device._send_cmd_recv_rsp"
SPECS += [
    Spec(GROUP, "rrf_timeout_msec", F, SR, [("timeout", INT)], binds=[("int(timeout * 1000)", "ms", INT)], stmts=(0, 1), result=["timeout_msec"],
         note="cut: the InCommRF timeout in ms: 0 (no response expected) for a false `timeout`, else clamped to 1..FFFFh; "
              "`int(timeout * 1000)` (float) is the parameter `ms`, `timeout` stands for its truth value"),
    Spec(GROUP, "rrf_route_tt2", F, SR, [], binds=_BRTY + [("target.sel_res", "sel_res", BYTES)],
         expr="target.brty == '106A' and target.sel_res and target.sel_res[0] & 0x60 == 0x00", whole=True, ret=BOOL,
         note="cut: the test that routes a command through `_tt2_send_cmd_recv_rsp` (CRC checked by the driver); `target.sel_res` a byte string (None fails the test like the empty string, not modelled)"),
    Spec(GROUP, "rrf_tt2_crc", F, "Device._tt2_send_cmd_recv_rsp", [("data", BYTES)], stmts=(1, 3), calls={"self.check_crc_a": "check_crc_a"},
         note="cut: the statements behind `data = self.chipset.in_comm_rf(data, timeout_msec)`: CRC_A check and removal for answers longer "
              "than 2 octets (shorter: ACK / NAK, returned as is); parameter `data` is that value (a byte string; None is a TypeError, not modelled)"),
    Spec(GROUP, "rrf_tgt_recv_timeout", F, "Device.send_rsp_recv_cmd", [("timeout", OPT(INT))], binds=[("int(timeout * 1000.0)", "ms", INT)],
         expr="0xFFFF if timeout is None else int(timeout*1E3)",
         note="cut: the TgCommRF receive timeout: FFFFh for None, else ms (NOT clamped); `int(timeout*1E3)` is the parameter `ms`"),
]
P = "NfcVerif.FnBridge.Rcs380Rf."
BRIDGE = {
    "module": "NfcVerif.Props.FnBridgeRcs380Rf",
    "theorems": [P + t for t in (
        "in_comm_timeout_bridge",
        "in_comm_timeout_neg",
        "in_comm_cmd_bridge",
        "set_protocol_data_bridge",
        "tg_set_protocol_data_bridge",
        "set_item_aux",
        "set_protocol_item_bridge",
        "tg_set_protocol_item_bridge",
        "set_protocol_send_bridge",
        "tg_comm_transmit_bridge",
        "reset_arg_bridge",
        "max_send_bridge",
        "max_recv_bridge",
        "tta_brty_bad_bridge",
        "ttb_brty_bad_bridge",
        "ttf_brty_bad_bridge",
        "or_default_aux",
        "tta_sens_req_bridge",
        "ttb_req_bridge",
        "ttf_req_bridge",
        "tta_sens_bad_bridge",
        "tta_is_tt1_bridge",
        "tta_tt1_rid_bridge",
        "tta_rid_cmd_bridge",
        "tta_uid_bridge",
        "tta_sel_req_bridge",
        "tta_sdd_req_bridge",
        "tta_sdd_sel_req_bridge",
        "tta_cascade_bridge",
        "tta_complete_bridge",
        "tta_uid_part_bridge",
        "tta_uid_last_bridge",
        "ttb_res_ok_bridge",
        "len_frame_aux",
        "ttf_frame_bridge",
        "ttf_res_code_bridge",
        "ttf_res_bridge",
        "lta_checks_core",
        "lta_checks_bridge",
        "lta_recv_timeout_bridge",
        "ltf_recv_timeout_bridge",
        "ldep_recv_timeout_bridge",
        "lta_is_tt2_bridge",
        "lta_is_tt4_bridge",
        "brty_index_aux",
        "lta2_brty_index_bridge",
        "ltf_brty_index_bridge",
        "ldep_brty_index_bridge",
        "ldep_activated_bridge",
        "lta2_accept_bridge",
        "lta2_cmd_bridge",
        "ldep_frame_bridge",
        "lta_sens_res_bridge",
        "lta_sdd_res_bridge",
        "lta_sel_res_bridge",
        "lta4_is_rats_bridge",
        "lta4_rats_bridge",
        "lta4_is_cmd_bridge",
        "lta4_did_bridge",
        "lta4_did_supported_bridge",
        "lta4_with_did_bridge",
        "lta4_for_us_bridge",
        "lta4_is_deselect_bridge",
        "ltf_checks_bridge",
        "ltf_len_ok_bridge",
        "ltf_for_us_bridge",
        "ltf_tt3_cmd_bridge",
        "ltf_is_polling_bridge",
        "ltf_sc_match_bridge",
        "ldep_params_bridge",
        "ldep_is_tag_cmd_bridge",
        "ldep_offset_bridge",
        "ldep_tx_frame_bridge",
        "ldep_atr_len_ok_bridge",
        "ldep_is_atr_bridge",
        "ldep_is_req_bridge",
        "did_of_aux",
        "ldep_did_bridge",
        "ldep_psl_did_bridge",
        "ldep_dsl_did_bridge",
        "ldep_dep_did_bridge",
        "ldep_psl_res_bridge",
        "ldep_dsl_res_bridge",
        "ldep_rls_res_bridge",
        "ldep_sensf_res_bridge",
        "timeout_msec_bridge",
        "route_tt2_bridge",
        "tgt_recv_timeout_bridge",
        "ldep_psl_bridge",
        "sliceTo_neg_two",
        "tt2_crc_bridge",
        "tta_uid_agrees",
        "lta_is_tt2_agrees",
        "lta_fields_agree",
        "defaults_agree",
        "gen_exchange_timeout_fits",
        "tgt_recv_timeout_overflow",
        "gen_listen_timeout_fits",
        "gen_lta_params_len",
        "gen_ldep_params_len",
        "gen_lengths",
        "gen_tt2_crc_accepts",
        "gen_tt2_crc_sound",)],
    "properties": ["C13", "C14", "C18", "C19"],
}
# translated and differentially tested, no bridge theorem (no reference counterpart proved in this round):
# rrf_ltf_sensf_res (reference `sensfResFrame` written, bridge open), rrf_ldep_verify (reference `verifyFrame` written, bridge open)
SMALL_INT = ("rrf_max_send", "rrf_max_recv")


def _b(rng, n):
    return bytes(rng.randrange(256) for _ in range(n))


def inputs(rng, sp):
    out = []
    L = sp.lean
    if L in ("rrf_in_comm_timeout", "rrf_reset_arg"):
        for t in (0, 1, 2, 30, 6551, 6552, 6553, 6554, 65535, 65536, 10 ** 6, -1, -7000):
            out.append(([t], []))
    if L == "rrf_in_comm_cmd":
        for t in (0, 10, 310, 65535, 65536, -10):
            out.append(([_b(rng, rng.randrange(0, 8)), t], []))
    if L in ("rrf_set_protocol_item", "rrf_tg_set_protocol_item"):
        for v in (0, 1, 7, 255, 256, -1):
            for k in (0, 2, 19, 255, 256, -1):
                out.append(([v], [k]))
    if L in ("rrf_tta_brty_bad", "rrf_ttb_brty_bad", "rrf_ttf_brty_bad"):
        for b in ("106A", "212A", "424A", "106B", "212B", "424B", "212F", "424F", "848A", ""):
            out.append(([], [b]))
    if L in ("rrf_tta_sens_req", "rrf_ttb_req", "rrf_ttf_req"):
        for v in (None, b"", b"\x52", b"\x05\x00\x00", b"\x00\x12\xfc\x01\x03"):
            out.append(([], [v]))
    if L in ("rrf_tta_sens_bad", "rrf_tta_is_tt1", "rrf_tta_tt1_rid"):
        for v in (b"", b"\x00", b"\x00\x0c", b"\x44\x00", b"\x20\x0c", b"\x00\x1c", b"\x04\x00\x00", b"\x1f\x0f"):
            out.append(([v], []))
    if L == "rrf_tta_uid":
        for n in (1, 3, 4, 5, 7, 8, 10, 11):
            out.append(([], [_b(rng, n)]))
    if L == "rrf_tta_sel_req":
        for n in (4, 8, 12, 5):
            for i in (0, 4, 8):
                out.append(([_b(rng, n), i, rng.choice([0x93, 0x95, 0x97, 256])], [rng.choice([0, 255, 256, rng.randrange(256)])]))
    if L in ("rrf_tta_cascade", "rrf_tta_complete", "rrf_lta_is_tt2", "rrf_lta_is_tt4"):
        for v in (0x00, 0x04, 0x20, 0x24, 0x40, 0x60, 0x08, 0xFF, 0xFB):
            (out.append(([bytes([v])], [])) if sp.params else out.append(([], [bytes([v])])))
        (out.append(([b""], [])) if sp.params else out.append(([], [b""])))
    if L == "rrf_ttb_res_ok":
        for n in (0, 1, 11, 12, 13):
            out.append(([b"\x50" + _b(rng, n)], []))
            out.append(([b"\x51" + _b(rng, n)], []))
    if L in ("rrf_ttf_res_code", "rrf_ttf_res"):
        for v in (b"", b"\x12", b"\x12\x01", b"\x12\x00" + _b(rng, 16), b"\x12\x01" + _b(rng, 16)):
            out.append(([v], []))
    if L == "rrf_lta_checks":
        for brty in ("106A", "212F"):
            for rid in (None, b"", b"\x11\x48"):
                for a, b, c, f in ((2, 4, 1, 8), (2, 4, 1, 4), (1, 4, 1, 8), (2, 7, 1, 8), (2, 4, 2, 8), (2, 0, 1, 8), (None, 4, 1, 8), (2, None, 1, 8), (2, 4, None, 8)):
                    sdd = None if b is None else (bytes([f]) + _b(rng, b))[:b]
                    out.append(([], [brty, rid, None if a is None else _b(rng, a), sdd, None if c is None else _b(rng, c)]))
    if L.endswith("_recv_timeout") and L != "rrf_tgt_recv_timeout":
        for v in (0, 1, 65534, 65535, 65536, 10 ** 7, -5):
            out.append(([], [v]))
    if L == "rrf_tgt_recv_timeout":
        for t in (None, 0, 1, 66):
            for ms in (0, 1000, 65535, 66000):
                out.append(([t], [ms]))
    if L in ("rrf_lta2_brty_index", "rrf_ltf_brty_index", "rrf_ldep_brty_index", "rrf_ldep_activated"):
        for v in (11, 12, 13, 10, 14, 0):
            out.append(([bytes([v, 0, rng.choice([0, 1, 2, 3, 7])]) + _b(rng, 5)], []))
        out.append(([b""], []))
        out.append(([b"\x0b\x00"], []))
    if L in ("rrf_lta2_accept", "rrf_lta4_is_rats", "rrf_ldep_is_tag_cmd"):
        for brty in ("106A", "212F", "424F"):
            for st in (0, 1, 2, 3, 7):
                for c in (0xE0, 0xF0, 0x30, 0x00):
                    if L == "rrf_ldep_is_tag_cmd":
                        out.append(([brty, bytes([c]) + _b(rng, rng.randrange(0, 3))], []))
                    else:
                        out.append(([brty, bytes([11, 0, st, 0, 0, 0, 0, c]) + _b(rng, 2)], []))
            out.append(([brty, b"\x0b\x00"], []))
            out.append(([brty, b""], []))
    if L == "rrf_lta4_is_cmd":
        for brty in ("106A", "212F"):
            for c in (0xF0, 0x02, 0xC2):
                for r in (None, b"", b"\xe0\x80"):
                    out.append(([brty, bytes([11, 0, 3, 0, 0, 0, 0, c]), r], []))
            out.append(([brty, b"\x0b", b"\xe0\x80"], []))
    if L == "rrf_lta4_rats":
        for r in (None, b"", b"\x02\x00", b"\x05\x78\x80\x70\x02"):
            out.append(([_b(rng, rng.randrange(0, 12))], [r]))
    if L == "rrf_lta4_did_supported":
        for v in (None, 0, 1, 2, 3, 0xFF, 0xFD):
            out.append(([v], []))
    if L == "rrf_lta4_for_us":
        for w in (False, True):
            for s_ in (False, True):
                for did in (0, 1, 14):
                    for c in (b"\x0a\x01", b"\x0a\x00", b"\x02", b"\x0a\x0e", b""):
                        out.append(([w, s_, c, did], []))
    if L in ("rrf_lta4_did", "rrf_lta4_with_did", "rrf_lta4_is_deselect"):
        for v in (b"", b"\xe0", b"\xe0\x81", b"\xc2", b"\xca\x01", b"\x0a\x01", b"\x02", b"\xe0\x7f"):
            out.append(([v], []))
    if L == "rrf_ltf_checks":
        for brty in ("212F", "424F", "106A"):
            for v in (None, b"", _b(rng, 18), _b(rng, 19), _b(rng, 20)):
                out.append(([], [brty, v]))
    if L in ("rrf_ltf_len_ok", "rrf_ltf_is_polling", "rrf_ltf_tt3_cmd"):
        for n in (0, 6, 7, 8, 12, 13, 14):
            d = _b(rng, n)
            out.append(([d], []))
            if n > 7:
                out.append(([d[:7] + bytes([n - 7]) + d[8:]], []))
                out.append(([d[:7] + bytes([n - 7, 0]) + d[9:]], []))
    if L == "rrf_ltf_for_us":
        for _ in range(12):
            res = _b(rng, 19)
            d = _b(rng, 9) + res[1:9] + _b(rng, 3)
            for q in (None, b"", b"\x00\xff\xff\x00\x00"):
                out.append(([q, d], [res]))
                out.append(([q, d[:16] + bytes([d[16] ^ 1])], [res]))
    if L in ("rrf_ltf_sc_match", "rrf_ltf_sensf_res"):
        for _ in range(10):
            res = _b(rng, 19)
            for sc in (b"\xff\xff", res[17:19], bytes([res[17], 255]), bytes([255, res[18] ^ 1]), bytes([res[17] ^ 1, res[18]])):
                for rc in (0, 1, 2, 3):
                    req = b"\x00" + sc + bytes([rc, 0])
                    out.append(([req, res], ["424F" if rng.randrange(2) else "212F"] if L == "rrf_ltf_sensf_res" else []))
            out.append(([b"\x00\xff", res], ["212F"] if L == "rrf_ltf_sensf_res" else []))
            out.append(([b"\x00\x12\xfc\x01\x00", res[:17]], ["212F"] if L == "rrf_ltf_sensf_res" else []))
    if L == "rrf_ldep_params":
        for a, b, c, f, t in ((2, 1, 4, 19, 17), (2, 1, 4, 18, 17), (2, 1, 3, 19, 17), (1, 1, 4, 19, 17), (2, 0, 4, 19, 17), (2, 1, 4, 25, 30), (2, 1, 4, 19, 16), (2, 1, 4, 0, 17), (2, 1, 4, 19, 0)):
            out.append(([], [_b(rng, a), _b(rng, b), _b(rng, c), _b(rng, f), _b(rng, t)]))
    if L in ("rrf_ldep_offset", "rrf_ldep_verify"):
        for brty in ("106A", "212F"):
            off = 1 if brty == "106A" else 0
            for cmds in ([0], [0, 4, 6, 8, 10]):
                for n in (0, 1, 14, 30):
                    body = b"\xd4" + bytes([rng.choice([0, 4, 6, 7, 10])]) + _b(rng, n)
                    for ln in (len(body) + 1, len(body), len(body) + 2):
                        f = (b"\xf0" if off else b"") + bytes([ln & 255]) + body
                        out.append(([brty, f, cmds] + ([off] if L == "rrf_ldep_verify" else []), []))
                        out.append(([brty, b"\x30" + f[1:], cmds] + ([off] if L == "rrf_ldep_verify" else []), []))
                for f in (b"", b"\xf0", b"\xf0\x02", b"\x03\xd4", b"\xf0\x03\xd4"):
                    out.append(([brty, f, cmds] + ([off] if L == "rrf_ldep_verify" else []), []))
    if L == "rrf_ldep_tx_frame":
        for brty in ("106A", "212F"):
            for n in (1, 3, 17, 64, 254, 255):
                out.append(([brty, _b(rng, n), 1000], []))
    if L == "rrf_ldep_atr_len_ok":
        for n in (0, 15, 16, 17, 63, 64, 65):
            out.append(([_b(rng, n)], []))
    if L in ("rrf_ldep_is_atr", "rrf_ldep_is_req"):
        for v in (b"", b"\xd4", b"\xd4\x00", b"\xd4\x04\x00", b"\xd4\x06", b"\xd4\x08", b"\xd4\x0a", b"\xd4\x02", b"\xd4\x05"):
            out.append(([v], []))
    if L in ("rrf_ldep_did", "rrf_ldep_dep_did", "rrf_ldep_dsl_did", "rrf_ldep_psl_did", "rrf_ldep_psl_res", "rrf_ldep_dsl_res", "rrf_ldep_rls_res"):
        for d in (0, 1, 14):
            out.append(([_b(rng, 2) + bytes([d]) + _b(rng, 9) + bytes([d]) + _b(rng, 4)], []))
        for v in (b"", b"\xd4\x06", b"\xd4\x06\x04", b"\xd4\x06\x04\x07", b"\xd4\x06\x00\x07", b"\xd4\x08\x00", b"\xd4\x08\x03"):
            out.append(([v], []))
    if L == "rrf_ldep_psl":
        for brs in range(64):
            out.append((["106A", b"\xd4\x04\x00" + bytes([brs]) + b"\x03"], []))
        out.append((["106A", b"\xd4\x04\x00"], []))
    if L == "rrf_timeout_msec":
        for t in (0, 1):
            for ms in (-5, 0, 1, 2, 65534, 65535, 65536, 10 ** 7):
                out.append(([t], [ms]))
    if L == "rrf_route_tt2":
        for brty in ("106A", "212F"):
            for v in (b"", b"\x00", b"\x20", b"\x40", b"\x60", b"\x9f"):
                out.append(([], [brty, v]))
    if L == "rrf_tt2_crc":
        import nfc.clf.device as dev
        for _ in range(30):
            d = bytearray(_b(rng, rng.randrange(1, 10)))
            good = bytes(dev.Device.add_crc_a(d))
            out.append(([good], []))
            i = rng.randrange(len(good))
            out.append(([good[:i] + bytes([good[i] ^ (1 << rng.randrange(8))]) + good[i + 1:]], []))
        for v in (b"", b"\x0a", b"\x00\x00", b"\x0a\x00\x00"):
            out.append(([v], []))
    if L == "rrf_tg_comm_transmit":
        for tx in (None, b"", b"\x01\x02"):
            out.append(([_b(rng, 33), tx], []))
    return out


MUTATIONS = [
    ("rrf_in_comm_timeout", "extra millisecond dropped", "(timeout + (1 if timeout > 0 else 0)) * 10", "timeout * 10"),
    ("rrf_in_comm_timeout", "clamp removed", "min((timeout + (1 if timeout > 0 else 0)) * 10, 0xFFFF)", "(timeout + (1 if timeout > 0 else 0)) * 10"),
    ("rrf_in_comm_cmd", "byte order of the timeout", 'struct.pack("<H", timeout) + bytes(data)', 'struct.pack(">H", timeout) + bytes(data)'),
    ("rrf_tta_sens_bad", "SENS_RES length", "if len(sens_res) != 2:", "if len(sens_res) < 2:"),
    ("rrf_tta_is_tt1", "SDD mask", "sens_res[0] & 0x1F == 0", "sens_res[0] & 0x0F == 0"),
    ("rrf_tta_uid", "cascade threshold", "if len(uid) > 4:", "if len(uid) > 5:"),
    ("rrf_tta_uid", "second cascade tag position", 'uid = uid[0:4] + b"\\x88" + uid[4:]', 'uid = uid[0:5] + b"\\x88" + uid[5:]'),
    ("rrf_tta_sel_req", "SEL_PAR", "bytearray([sel_cmd, 0x70]) + uid[i:i+4]", "bytearray([sel_cmd, 0x20]) + uid[i:i+4]"),
    ("rrf_tta_cascade", "cascade bit", "if sel_res[0] & 0b00000100:", "if sel_res[0] & 0b00100000:"),
    ("rrf_tta_uid_part", "cascade tag kept in the UID", "uid = uid + sdd_res[1:4]", "uid = uid + sdd_res[0:4]"),
    ("rrf_tta_complete", "final cascade test inverted mask", "if sel_res[0] & 0b00000100 == 0:", "if sel_res[0] & 0b00000110 == 0:"),
    ("rrf_ttb_res_ok", "minimum SENSB_RES length", "len(sensb_res) >= 12", "len(sensb_res) >= 11"),
    ("rrf_ttf_res_code", "response code", "frame[1] == 1:", "frame[1] == 0:"),
    ("rrf_ttf_req", "default polling frame", '"00FFFF0100"', '"00FFFF0000"'),
    ("rrf_lta_checks", "cascade tag octet", "if target.sdd_res[0] != 0x08:", "if target.sdd_res[0] != 0x88:"),
    ("rrf_lta_checks", "NFCID1 part of the activation parameters", "target.sens_res + target.sdd_res[1:4] + target.sel_res", "target.sens_res + target.sdd_res[0:3] + target.sel_res"),
    ("rrf_lta_recv_timeout", "clamp removed", "min(int(1000 * timeout), 0xFFFF)", "int(1000 * timeout)"),
    ("rrf_lta2_accept", "activation status mask", "data[2] & 0x03 == 3", "data[2] & 0x01 == 1"),
    ("rrf_lta2_accept", "accept test gains an operand", 'if brty == "106A" and data[2] & 0x03 == 3:', 'if (brty == "106A" and data[2] & 0x03 == 3) or len(data) > 9:'),
    ("rrf_lta4_is_rats", "RATS code", "data[7] == 0xE0", "data[7] == 0xE1"),
    ("rrf_lta4_for_us", "DID 0 rule dropped", "or (did == 0 and not cmd_with_did)", "or (not cmd_with_did)"),
    ("rrf_lta4_is_deselect", "S(DESELECT) with DID missing", "cmd[0] in (0xC2, 0xCA)", "cmd[0] in (0xC2,)"),
    ("rrf_ltf_checks", "SENSF_RES length", "len(target.sensf_res) != 19", "len(target.sensf_res) < 19"),
    ("rrf_ltf_for_us", "IDm compared over 7 octets", "data[9:17] == target.sensf_res[1:9]", "data[9:16] == target.sensf_res[1:8]"),
    ("rrf_ltf_sc_match", "wildcard only for both octets", "(sensf_req[1] == 255 or sensf_req[1] == sensf_res[17]) and", "(sensf_req[1] == sensf_res[17]) and"),
    ("rrf_ldep_params", "minimum ATR_RES length", "len(target.atr_res) < 17", "len(target.atr_res) < 16"),
    ("rrf_ldep_atr_len_ok", "maximum ATR_REQ length", "16 <= len(atr_req) <= 64", "16 <= len(atr_req) <= 65"),
    ("rrf_ldep_dep_did", "DID flag bit", "data[2] >> 2 & 1", "data[2] >> 3 & 1"),
    ("rrf_ldep_psl", "DSI shift", "data[3] >> 3 & 7, data[3] & 7", "data[3] >> 4 & 7, data[3] & 7"),
    ("rrf_ldep_tx_frame", "length octet without itself", "bytes([len(data)+1]) + data", "bytes([len(data)]) + data"),
    ("rrf_timeout_msec", "lower clamp dropped", "max(min(int(timeout * 1000), 0xFFFF), 1)", "min(int(timeout * 1000), 0xFFFF)"),
    ("rrf_route_tt2", "platform mask", "target.sel_res[0] & 0x60 == 0x00", "target.sel_res[0] & 0x20 == 0x00"),
    ("rrf_tt2_crc", "CRC check skipped for short answers", "if len(data) > 2 and self.check_crc_a(data) is False:", "if len(data) > 4 and self.check_crc_a(data) is False:"),
    ("rrf_tt2_crc", "CRC kept in the answer", "return data[:-2] if len(data) > 2 else data", "return data[:-1] if len(data) > 2 else data"),
    ("rrf_max_send", "frame size limit", "return 290", "return 291"),
    ("rrf_tta_is_tt1", "NEUTRAL hex spelling", "sens_res[0] & 0x1F == 0", "sens_res[0] & 31 == 0"),
]
