"""group IsoSm: the protocol decisions of the ISO-DEP initiator and of the Type 4 Tag NDEF procedures in nfc/tag/tt4.py
-> Model/IsoDep.lean (C12), Model/T4.lean (C01/C02/C03 part t34), Model/AdvT34.lean (C08), Model/FnIsoSmRef.lean.

The byte level of `tt4.py` (APDU build / status, FSCI / FWI, capability container, READ / UPDATE BINARY arguments) is the
group T4.  This group cuts what is interleaved with I/O in `IsoDepInitiator` and in the NDEF read / write loops:

* `_exchange`: the S(WTX) test and the granted waiting time (`self.fwt`, a float in the source, is an integer here);
* `exchange`: the error latch `self.errno` (test and store);
* `_exchange_command`: the presence check block, the offsets of the command chain, the I-block of one offset (`more`,
  PCB, block), inside the two `for i in itertools.count(start=1)` retry loops the empty-answer test, the
  retransmit-after-ACK test and block, EVERY `except` handler (retry budget `i <= self.n_retry_nak|ack`, the R(NAK) /
  R(ACK) block, the `Type4TagCommandError` reason), behind them the block number check, the R(ACK) / I-block decision
  with the block number toggle, the chaining test, the accumulation of the response;
* `Type4Tag.NDEF`: application selection table and stop rule, P2 of SELECT FILE, the surplus check of `_read_binary`,
  the chunk of `_update_binary`, the remaining checks of `_discover_ndef` (in front of the capability container), the
  NLEN checks and the loop arithmetic of `_read_ndef_data`, the layout decision and the loop arithmetic of
  `_write_ndef_data` (`self._read_binary` / `self._update_binary` are function parameters of the call-site cuts).

`Lemmas/FnBridgeIsoSm.lean` rebuilds `xchgW`, `blockLoop` (both copies), `sendChunks`, `recvChain`, `exchangeCmd`,
`exchange`, `presence`, `sendApdu` of `Model/IsoDep.lean`, `readLoop4` / the NLEN checks of `Model/AdvT34.lean` and
`chunkCmds` / `planWrite` of `Model/T4.lean` from regenerated pieces; `Props/FnBridgeIsoSm.lean` proves them equal.
Hand-written remain: which exception class enters which handler (`Rx.timeout` -> `except TimeoutError`, ..), `clf.exchange`
(`World.xchg`), the order of the pieces.

Not translated: `timeout = self.fwt + self.delta_fwt`, `n_retry_ack = min(int(1/self.fwt), 5)` (floats; the model value
`IsoDep.deriveRetry` is tied by the differential run of C12), `_wipe_ndef_data`, `_dump_ndef_data`, `_is_present`,
`_select_ndef_application` / `_select_fid` control flow (try / except around `send_apdu`).
"""
from translate_fn import Spec, INT, BOOL, BYTES, OPT, TUP

GROUP = "IsoSm"
ORDER = 52
F = "tag/tt4.py"
D = "IsoDepInitiator."
N = "Type4Tag.NDEF."
_PNI = [("self.pni", "pni", INT)]
_MIU = [("self.miu", "miu", INT)]
_NAK = [("self.n_retry_nak", "n_retry_nak", INT)]
_ACK = [("self.n_retry_ack", "n_retry_ack", INT)]
_NLS = [("self._nlen_size", "nlen_size", INT)]
_CMD_TRY = [(2, "body"), (3, "body"), (0, "body")]
_RSP_TRY = [(3, "body"), (1, "body"), (0, "body")]
XC = D + "_exchange_command"
_C = "command phase (loop over the command blocks), "
_R = "response phase (`while data[0] & 0x10`), "


def _cmd_h(i):
    return [(2, "body"), (3, "body"), (0, ("handlers", i))]


def _rsp_h(i):
    return [(3, "body"), (1, "body"), (0, ("handlers", i))]


SPECS = [
    # ---- IsoDepInitiator._exchange, exchange
    Spec(GROUP, "iso_wtx_test", F, D + "_exchange", [("data", BYTES)], stmts=[1],
         expr="len(data) > 1 and data[0] & 0b11111110 == 0b11110010", note="cut: the loop condition of `_exchange` (answer is an S(WTX) request)"),
    Spec(GROUP, "iso_wtx_time", F, D + "_exchange", [("data", BYTES)], binds=[("self.fwt", "fwt", INT)], stmts=[1],
         expr="(data[1] & 0x3F) * self.fwt", note="cut: the waiting time granted with the S(WTX) response; `self.fwt` (a float) is an integer here"),
    Spec(GROUP, "iso_latch_chk", F, D + "exchange", [("command", OPT(BYTES))],
         binds=[("self.errno is not None", "latched", BOOL), ("self.errno", "errno", INT)], stmts=[0],
         note="cut: `if command is not None and self.errno is not None: raise Type4TagCommandError(self.errno)`; the test "
              "`self.errno is not None` is the Bool parameter `latched`, `self.errno` then the integer `errno`"),
    Spec(GROUP, "iso_latch_set", F, D + "exchange", [], binds=[("error.errno", "err", INT)], path=[(1, ("handlers", 0))], stmts=[0],
         stores=["self.errno"], result=["self.errno"], note="cut: `self.errno = error.errno` in the handler of Type4TagCommandError"),
    Spec(GROUP, "iso_init", F, D + "__init__", [("fsc", INT)], stmts=[1, 2, 7], stores=["self.pni", "self.miu", "self.errno"],
         result=["self.pni", "self.miu", "self.errno"],
         note="cut: `self.pni = 0`, `self.miu = fsc - 3`, `self.errno = None` (the float statements are not translated)"),
    # ---- _exchange_command
    Spec(GROUP, "iso_presence_blk", F, XC, [], binds=_PNI, path=[(1, "body")], stmts=[0], result=["data"],
         note="cut: presence check (`command is None`), the R(NAK) block"),
    Spec(GROUP, "iso_offsets", F, XC, [("command", BYTES)], binds=_MIU, stmts=[2], expr="range(0, len(command), self.miu)",
         note="cut: the offsets of the command blocks"),
    Spec(GROUP, "iso_iblock", F, XC, [("command", BYTES), ("offset", INT)], binds=_MIU + _PNI, path=[(2, "body")], stmts=(0, 3),
         result=["more", "pfb", "data"], note="cut: " + _C + "the first three statements: chaining flag, PCB, I-block"),
    Spec(GROUP, "iso_empty_chk", F, XC, [("data", BYTES)], path=_CMD_TRY, stmts=[1],
         note="cut: " + _C + "inside `try`: an empty answer is a TransmissionError"),
    Spec(GROUP, "iso_resend_test", F, XC, [("data", BYTES)], binds=_PNI, path=_CMD_TRY, stmts=[2],
         expr="data[0] == 0xA2 | (~self.pni & 1)", note="cut: " + _C + "inside `try`: R(ACK) with the other block number -> retransmit"),
    Spec(GROUP, "iso_resend_blk", F, XC, [("pfb", BYTES), ("command", BYTES), ("offset", INT)], binds=_MIU,
         path=_CMD_TRY + [(2, "body")], stmts=[1], result=["data"], note="cut: " + _C + "the retransmitted I-block"),
    Spec(GROUP, "iso_nak_on_transmission", F, XC, [("i", INT)], binds=_NAK + _PNI, path=_cmd_h(0), stmts=[0], result=["data"],
         note="cut: " + _C + "`except TransmissionError`: R(NAK) while `i <= self.n_retry_nak`, else RECEIVE_ERROR"),
    Spec(GROUP, "iso_nak_on_timeout", F, XC, [("i", INT)], binds=_NAK + _PNI, path=_cmd_h(1), stmts=[0], result=["data"],
         note="cut: " + _C + "`except TimeoutError`: R(NAK) while `i <= self.n_retry_nak`, else TIMEOUT_ERROR"),
    Spec(GROUP, "iso_cmd_on_protocol", F, XC, [], path=_cmd_h(2), stmts=[0, 1], note="cut: " + _C + "`except ProtocolError`"),
    Spec(GROUP, "iso_cmd_on_other", F, XC, [], path=_cmd_h(3), stmts=[1],
         note="cut: " + _C + "`except CommunicationError` (any other class): the `raise` (the `log.error` with `%r` of the "
                             "exception object in front of it is left out)"),
    Spec(GROUP, "iso_bn_chk_cmd", F, XC, [("data", BYTES)], binds=_PNI, path=[(2, "body")], stmts=[4],
         note="cut: " + _C + "the block number check behind the retry loop"),
    Spec(GROUP, "iso_ack_step", F, XC, [("data", BYTES)], binds=_PNI, path=[(2, "body"), (5, "body")], stmts=[0],
         stores=["self.pni"], result=["self.pni"], note="cut: " + _C + "`if more:` branch: R(ACK) expected, block number toggled"),
    Spec(GROUP, "iso_inf_step", F, XC, [("data", BYTES)], binds=_PNI, path=[(2, "body"), (5, "orelse")], stmts=[0],
         stores=["self.pni"], result=["self.pni", "response"],
         note="cut: " + _C + "`else` branch (last block): I-block expected, block number toggled, `response = data[1:]`"),
    Spec(GROUP, "iso_chain_test", F, XC, [("data", BYTES)], stmts=[3], expr="bool(data[0] & 0b00010000)",
         note="cut: the condition of the response chaining loop"),
    Spec(GROUP, "iso_ack_blk", F, XC, [], binds=_PNI, path=[(3, "body")], stmts=[0], result=["data"], note="cut: " + _R + "the R(ACK) block"),
    Spec(GROUP, "iso_empty_chk_r", F, XC, [("data", BYTES)], path=_RSP_TRY, stmts=[1],
         note="cut: " + _R + "inside `try`: an empty answer is a TransmissionError"),
    Spec(GROUP, "iso_ack_on_transmission", F, XC, [("i", INT)], binds=_ACK + _PNI, path=_rsp_h(0), stmts=[0], result=["data"],
         note="cut: " + _R + "`except TransmissionError`: R(ACK) again while `i <= self.n_retry_ack`, else RECEIVE_ERROR"),
    Spec(GROUP, "iso_ack_on_timeout", F, XC, [("i", INT)], binds=_ACK + _PNI, path=_rsp_h(1), stmts=[0], result=["data"],
         note="cut: " + _R + "`except TimeoutError`: R(ACK) again while `i <= self.n_retry_ack`, else TIMEOUT_ERROR"),
    Spec(GROUP, "iso_rsp_on_protocol", F, XC, [], path=_rsp_h(2), stmts=[0, 1], note="cut: " + _R + "`except ProtocolError`"),
    Spec(GROUP, "iso_rsp_on_other", F, XC, [], path=_rsp_h(3), stmts=[1],
         note="cut: " + _R + "`except CommunicationError` (any other class): the `raise`"),
    Spec(GROUP, "iso_bn_chk_rsp", F, XC, [("data", BYTES)], binds=_PNI, path=[(3, "body")], stmts=[2],
         note="cut: " + _R + "the block number check behind the retry loop"),
    Spec(GROUP, "iso_chain_acc", F, XC, [("response", BYTES), ("data", BYTES)], binds=_PNI, path=[(3, "body")], stmts=[3, 4],
         stores=["self.pni"], result=["response", "self.pni"], note="cut: " + _R + "`response = response + data[1:]`, block number toggled"),
    # ---- Type4Tag.NDEF
    Spec(GROUP, "iso_sel_app_table", F, N + "_select_ndef_application", [], expr="((ndef_aid_v2, 256), (ndef_aid_v1, 0))",
         note="cut: the (AID, Le) pairs tried in order"),
    Spec(GROUP, "iso_sel_app_stop", F, N + "_select_ndef_application", [], binds=[("error.errno", "err", INT)], expr="error.errno <= 0",
         note="cut: a transport error (errno <= 0) ends the search, a status word lets it go on"),
    Spec(GROUP, "iso_sel_fid_p2", F, N + "_select_fid", [], binds=[("self._aid", "aid", BYTES)], stmts=[0], result=["p2"],
         note="cut: P2 of SELECT FILE (mapping version 1.0: 00h, else 0Ch)"),
    Spec(GROUP, "iso_read_surplus", F, N + "_read_binary", [("data", BYTES), ("max_data", INT)], stmts=[4],
         note="cut: more data than requested is a PROTOCOL_ERROR"),
    Spec(GROUP, "iso_update_chunk", F, N + "_update_binary", [("data", BYTES), ("max_data", INT)], expr="data[:max_data]",
         note="cut: the data field of UPDATE BINARY"),
    Spec(GROUP, "iso_disc_init", F, N + "_discover_ndef", [], stmts=[0, 1], stores=["self._max_lc", "self._max_le"],
         result=["self._max_lc", "self._max_le"], note="cut: the limits used until the capability container is read"),
    Spec(GROUP, "iso_disc_cclen_bad", F, N + "_discover_ndef", [("cclen", BYTES)], stmts=[8],
         expr="not (cclen and len(cclen) == 2)", ret=BOOL, note="cut: the CCLEN field must be two octets"),
    Spec(GROUP, "iso_disc_cclen", F, N + "_discover_ndef", [("cclen", BYTES)], stmts=[9], result=["cclen"],
         note="cut: `cclen = unpack('>H', cclen)[0]`"),
    Spec(GROUP, "iso_disc_cc_size", F, N + "_discover_ndef", [("cclen", INT)], stmts=[10], expr="min(cclen-2, 15)",
         note="cut: the number of capability octets requested"),
    Spec(GROUP, "iso_nlen_len_bad", F, N + "_read_ndef_data", [("nlen", BYTES)], binds=_NLS, path=[(1, "body")], stmts=[6],
         expr="len(nlen) != self._nlen_size", note="cut: the NLEN field must be complete"),
    Spec(GROUP, "iso_nlen_parse", F, N + "_read_ndef_data", [("nlen", BYTES)], binds=_NLS, path=[(1, "body")], stmts=[4, 7],
         result=["nlen"], note="cut: `lfmt = ..` and `nlen = unpack(lfmt, nlen)[0]`"),
    Spec(GROUP, "iso_nlen_limit", F, N + "_read_ndef_data", [("nlen", INT)], binds=[("self._capacity", "capacity", INT)] + _NLS,
         path=[(1, "body")], stmts=[9], expr="nlen > self._capacity or self._nlen_size + nlen > 0x10000",
         note="cut: NLEN beyond the file or beyond the 16 bit file offset"),
    Spec(GROUP, "iso_read_init", F, N + "_read_ndef_data", [], path=[(1, "body")], stmts=[10], result=["data"], note="cut: `data = bytearray()`"),
    Spec(GROUP, "iso_read_more", F, N + "_read_ndef_data", [("data", BYTES), ("nlen", INT)], path=[(1, "body")], stmts=[11],
         expr="len(data) < nlen", note="cut: the condition of the read loop"),
    Spec(GROUP, "iso_read_args", F, N + "_read_ndef_data", [("data", BYTES), ("nlen", INT)], binds=_NLS,
         path=[(1, "body"), (11, "body")], stmts=[0, 1], opaque={"self._read_binary": ("rb", [INT, INT], TUP(INT, INT), False)},
         result=["more"], note="cut: read loop, `offset = ..; more = self._read_binary(offset, nlen - len(data))`; "
                               "`self._read_binary` is the function parameter `rb`"),
    Spec(GROUP, "iso_read_stuck", F, N + "_read_ndef_data", [("more", BYTES)], path=[(1, "body"), (11, "body")], stmts=[2],
         expr="len(more) == 0", note="cut: read loop, an answer without data ends the read with None"),
    Spec(GROUP, "iso_read_acc", F, N + "_read_ndef_data", [("data", BYTES), ("more", BYTES)], path=[(1, "body"), (11, "body")],
         stmts=[3], result=["data"], note="cut: read loop, `data += more`"),
    Spec(GROUP, "iso_write_plan", F, N + "_write_ndef_data", [("data", BYTES)], binds=_NLS + [("self._max_lc", "max_lc", INT)],
         stmts=(1, 5), result=["data", "nlen", "offset"],
         note="cut: the statements in front of the update loops: the NLEN field `pack(lfmt, len(data))`, the layout decision "
              "(NLEN and message in one pass, `nlen = None`, or zeros first and NLEN last), `offset = 0`"),
    Spec(GROUP, "iso_write_more", F, N + "_write_ndef_data", [("offset", INT), ("data", BYTES)], stmts=[5], expr="offset < len(data)",
         note="cut: the condition of the first update loop"),
    Spec(GROUP, "iso_write_step", F, N + "_write_ndef_data", [("offset", INT), ("data", BYTES)], path=[(5, "body")], stmts=[0],
         opaque={"self._update_binary": ("ub", [INT, BYTES], INT, False)}, result=["offset"],
         note="cut: first update loop, `offset += self._update_binary(offset, data[offset:])`; `self._update_binary` is `ub`"),
    Spec(GROUP, "iso_write_nlen_test", F, N + "_write_ndef_data", [("nlen", OPT(BYTES))], stmts=[6], expr="nlen", nth=0, ret=BOOL,
         note="cut: the condition of `if nlen:` (NLEN still to be written)"),
    Spec(GROUP, "iso_write_nlen_more", F, N + "_write_ndef_data", [("offset", INT), ("nlen", BYTES)], path=[(6, "body")], stmts=[1],
         expr="offset < len(nlen)", note="cut: the condition of the NLEN update loop"),
    Spec(GROUP, "iso_write_nlen_step", F, N + "_write_ndef_data", [("offset", INT), ("nlen", BYTES)],
         path=[(6, "body"), (1, "body")], stmts=[0], opaque={"self._update_binary": ("ub", [INT, BYTES], INT, False)},
         result=["offset"], note="cut: NLEN update loop, `offset += self._update_binary(offset, nlen[offset:])`"),
]
P = "NfcVerif.FnBridge.IsoSm."
BRIDGE = {"module": "NfcVerif.Props.FnBridgeIsoSm", "theorems": [], "properties": ["C12", "C16", "C08", "C01"]}


def inputs(rng, sp):
    return []


MUTATIONS = []
