"""group Sony: control flow of the FeliCa vendor classes of nfc/tag/tt3_sony.py (FelicaLite, FelicaLiteS, FelicaStandard,
`activate`) around the arithmetic slices that group Vendor already has
-> Model/Auth.lean (`readWithMac`, `liteAuthenticate`, `liteSAuthenticate`, `liteProtectKeyWrite`: the decisions behind
the frame checks), Model/Mac.lean (`generateMac`), Model/AuthHist.lean (`authLite`, `extAuthS`, `protectLiteA/B`: order of
the attribute updates relative to the commands), Model/FnSonyRef.lean (reference semantics with the tag commands, the MAC
function and the cipher as uninterpreted functions; new)
(C20, C16, C02, C01)

Every tag command (`read_without_mac`, `write_without_mac`, `read_with_mac`, `write_with_mac`, `authenticate`) and
`generate_mac` where it is called are FUNCTION PARAMETERS of the regenerated definitions; what the pyDes cipher object
returns (`triple_des(..).encrypt(..)`), `os.urandom(16)` and the attribute dict of the generic Type 3 code are VALUE
parameters (bound by their source text): the text says which command is issued with which arguments in which order
relative to the checks and to the attribute updates, and what is returned.

Cuts (each also in the `note` of its spec):
* the function-valued attributes `read_from_ndef_service` / `write_to_ndef_service` hold TOKENS: `self.read_without_mac`,
  `self.write_without_mac`, `self.read_with_mac`, `self.write_with_mac` read as values are bound int parameters;
* `self._sk = self._iv = None` (`_authenticate`, line 593) and `mc[8:10] = mc[10:12] = protect_mask` (`FelicaLiteS._protect`)
  are chained assignments, which the translator refuses: the two statements are NOT translated (the first is tied by the
  C20 history run `forget`, the value of the second is Vendor `lites_mc_mask_wr`);
* `generate_mac`: the list comprehension that reverses the 8-octet groups and the pyDes call are not translated (the
  ciphertext is a parameter of `sony_mac_tail`, bound by the text `triple_des(key, CBC, bytes(iv)).encrypt(txt)`); the key
  flip in front of it is Vendor `lite_mac_key`;
* `password` of `_protect`: `if password and len(password) < 16` is translated for a byte string (`sony_protect_pwcheck`),
  the rest of the method for `Optional[bytes]` (for `None` the check is skipped by Python's `and`);
* `isinstance(key, (bytes, bytearray))` / `key.encode("ascii")` of `FelicaLiteS._protect` (str passwords), `type(block) is
  not int`, the float timeouts of the FelicaStandard commands, the list comprehensions that unpack the answers of
  `request_service` / `request_system_code`, `dump` (string formatting): not translated;
* `state is not None and state[0] == 0x01` (`FelicaLiteS.authenticate`) is translated for `state` a byte string; the
  `None` case (MAC failure of the state read) is the C20 finding `lite-s-auth-mac-failure-typeerror`;
* the `raise tt3.Type3TagCommandError(tt3.DATA_SIZE_ERROR)` behind the FelicaStandard length tests (a constant of another
  module read through the module object), the key sets `<Class>.IC_CODE_MAP.keys()` of `activate` are parameters.
"""
from translate_fn import Spec, INT, BOOL, BYTES, OPT, LIST, ANY

GROUP = "Sony"
ORDER = 64
SONY = "tag/tt3_sony.py"
TOK = OPT(BYTES)          # `Tag.ndef` as group TagBase sees it
A_PR = ("self.read_without_mac", "acc_plain_rd", INT)
A_PW = ("self.write_without_mac", "acc_plain_wr", INT)
A_MR = ("self.read_with_mac", "acc_mac_rd", INT)
A_MW = ("self.write_with_mac", "acc_mac_wr", INT)
WR = ("wr", [BYTES, INT], INT, True)          # write commands: the value (None) is never used
RD1 = ("rd", [INT], BYTES, True)
GM = ("gm", [BYTES, BYTES, BYTES], BYTES, True)
PRP = [("password", OPT(BYTES)), ("read_protect", BOOL), ("protect_from", INT)]
CLASSES = ["FelicaLite", "FelicaLiteS", "FelicaStandard", "FelicaMobile", "FelicaPlug"]

SPECS = [
    # ---------------------------------------------------------------- FelicaLite.generate_mac
    Spec(GROUP, "sony_mac_tail", SONY, "FelicaLite.generate_mac", [],
         binds=[("triple_des(key, CBC, bytes(iv)).encrypt(txt)", "ct", BYTES)], stmts=[3],
         note="cut: the last statement: the MAC is the last 8 octets of the ciphertext, reversed; the ciphertext "
              "`triple_des(key, CBC, bytes(iv)).encrypt(txt)` (cipher object built from the possibly flipped `key`, CBC, `iv`, "
              "applied to `txt`: fixed by the text) is a parameter; `txt` (8-octet groups reversed) is a comprehension, not translated"),
    # ---------------------------------------------------------------- FelicaLite.read_with_mac
    Spec(GROUP, "sony_rwm_guard", SONY, "FelicaLite.read_with_mac", [],
         binds=[("self._sk", "sk", OPT(BYTES)), ("self._iv", "iv", OPT(BYTES))], stmts=[1], ret=OPT(INT),
         note="cut: `RuntimeError` unless a session key and an initialisation vector are stored"),
    Spec(GROUP, "sony_rwm_blocks", SONY, "FelicaLite.read_with_mac", [("blocks", LIST(INT))], stmts=[3, 4], result=["block_list"],
         opaque={"tt3.BlockCode": ("bc", [INT], INT, False)},
         note="cut: the block list of the ONE read command: the requested blocks, then the MAC block 0x81 "
              "(`tt3.BlockCode` objects are tokens)"),
    Spec(GROUP, "sony_rwm_check", SONY, "FelicaLite.read_with_mac", [("data", BYTES)],
         binds=[("self._sk", "sk", BYTES), ("self._iv", "iv", BYTES)], stmts=[6, 7], ret=OPT(BYTES), opaque={"self.generate_mac": GM},
         note="cut: behind `read_without_encryption`: split of the answer, MAC comparison, `None` on mismatch; "
              "`generate_mac` is a parameter"),
    # ---------------------------------------------------------------- FelicaLite._authenticate
    Spec(GROUP, "sony_auth_reset", SONY, "FelicaLite._authenticate", [("password", BYTES)], binds=[A_PR, A_PW],
         stmts=[0, 1, 3, 5, 6],
         stores=["self._authenticated", "self.read_from_ndef_service", "self.write_to_ndef_service"],
         result=["key", "self._authenticated", "self.read_from_ndef_service", "self.write_to_ndef_service"],
         note="cut: everything in front of the first tag command except line 593 (chained assignment `self._sk = self._iv = "
              "None`): password check, key, `_authenticated = False`, both NDEF accessors back to the plain commands; no "
              "command is issued before"),
    Spec(GROUP, "sony_authenticate", SONY, "FelicaLite._authenticate", [("password", BYTES)],
         binds=[A_MR, ("os.urandom(16)", "rc", BYTES), ("self._sk", "sk0", OPT(BYTES)), ("self._iv", "iv0", OPT(BYTES)),
                ("self.read_from_ndef_service", "rfs0", INT), ("triple_des(key, CBC, b'\\x00' * 8).encrypt(rc)", "sk", BYTES)],
         stores=["self._authenticated", "self._sk", "self._iv", "self.read_from_ndef_service"],
         stmts=[0, 1, 3, 7, 10, 11, 14, 15],
         result=["self._authenticated", "self._sk", "self._iv", "self.read_from_ndef_service"],
         opaque={"self.write_without_mac": WR, "self.read_without_mac": ("rd", [INT, INT], BYTES, True),
                 "self.generate_mac": GM},
         note="cut: the body without the accessor resets (`sony_auth_reset`) and without line 593; `_sk`, `_iv`, "
              "`read_from_ndef_service` as they are when the challenge is drawn are parameters (sk0, iv0, rfs0); result "
              "(_authenticated, _sk, _iv, read_from_ndef_service); `os.urandom(16)`, the commands, the session key "
              "`triple_des(key, CBC, b'\\0'*8).encrypt(rc)` (a value: pyDes is not translated) and `generate_mac` are parameters"),
    # ---------------------------------------------------------------- FelicaLite._protect / FelicaLiteS._protect
    Spec(GROUP, "sony_protect_pwcheck", SONY, "FelicaLite._protect", [("password", BYTES)], stmts=[0], ret=OPT(INT),
         note="cut: the password length check, for a password that is a byte string"),
    Spec(GROUP, "sony_lite_protect", SONY, "FelicaLite._protect", PRP, binds=[("self.ndef", "ndef", TOK)], stmts=(1, 12),
         nonneg=["protect_from"], opaque={"self.write_without_mac": WR, "self.read_without_mac": RD1},
         note="cut: the body behind the password length check; `self.ndef` (property) is bound, the commands are parameters; "
              "`2**protect_from` is reached only behind `protect_from < 0: raise`"),
    Spec(GROUP, "sony_lites_protect_pwcheck", SONY, "FelicaLiteS._protect", [("password", BYTES)], stmts=[0], ret=OPT(INT),
         note="cut: the password length check, for a password that is a byte string"),
    Spec(GROUP, "sony_lites_protect_head", SONY, "FelicaLiteS._protect", PRP, stmts=(1, 3), result=["mc"],
         opaque={"self.read_without_mac": RD1}, note="cut: `protect_from` check and the read of the MC block"),
    Spec(GROUP, "sony_lites_protect_key", SONY, "FelicaLiteS._protect",
         [("password", BYTES), ("read_protect", BOOL), ("protect_from", INT), ("mc", BYTES)],
         binds=[("self._authenticated", "authenticated", BOOL)],
         path=[(3, "body")], stmts=[0, 1, 4, 5, 7, 8, 9, 10], result=["mc"], ret=ANY, nonneg=["protect_from"],
         opaque={"self.write_without_mac": WR, "self.read_without_mac": RD1, "self.authenticate": ("auth", [BYTES], BOOL, True)},
         note="cut: the body of `if password is not None:` without the `isinstance` / `encode` of str passwords: result "
              "the bool False = the method returned False, else the MC block with the read protection mask (`any`)"),
    Spec(GROUP, "sony_lites_protect_tail", SONY, "FelicaLiteS._protect", [("mc", BYTES), ("protect_from", INT)],
         binds=[("self.ndef", "ndef", TOK)], stmts=(5, 12), opaque={"self.write_without_mac": WR, "self.read_without_mac": RD1},
         note="cut: behind the write protection mask (a chained assignment, not translated): NDEF attribute block, lock of "
              "the system blocks, MC write"),
    # ---------------------------------------------------------------- FelicaLiteS.authenticate
    Spec(GROUP, "sony_lites_ext_auth", SONY, "FelicaLiteS.authenticate", [], binds=[A_PR, A_PW], path=[(0, "body")], stmts=(0, 5),
         stores=["self._authenticated", "self.read_from_ndef_service", "self.write_to_ndef_service"],
         result=["self._authenticated", "self.read_from_ndef_service", "self.write_to_ndef_service", "state"],
         opaque={"self.write_with_mac": ("wm", [BYTES, INT], INT, True), "self.read_with_mac": ("rm", [INT], OPT(BYTES), True)},
         note="cut: after the internal authentication: status and accessors reset, MAC'ed write of 01 to STATE (0x92), "
              "MAC'ed read of it; result (_authenticated, accessors, state)"),
    Spec(GROUP, "sony_lites_ext_cond", SONY, "FelicaLiteS.authenticate", [("state", BYTES)], whole=True,
         expr="state is not None and state[0] == 0x01", note="cut: the complete test on the state block, for a state that was read (not None)"),
    Spec(GROUP, "sony_lites_ext_ok", SONY, "FelicaLiteS.authenticate", [], binds=[A_MR, A_MW], path=[(0, "body"), (5, "body")],
         stores=["self._authenticated", "self.read_from_ndef_service", "self.write_to_ndef_service"],
         result=["self._authenticated", "self.read_from_ndef_service", "self.write_to_ndef_service"],
         note="cut: the branch taken when EXT_AUTH is 01: both accessors switch to the MAC'ed commands"),
    # ---------------------------------------------------------------- FelicaLiteS.write_with_mac / write_without_mac
    Spec(GROUP, "sony_wwm_guard", SONY, "FelicaLiteS.write_with_mac", [("data", BYTES), ("block", INT)],
         binds=[("self._sk", "sk", OPT(BYTES)), ("self._iv", "iv", OPT(BYTES))], stmts=[1, 3], ret=OPT(INT),
         note="cut: length and session checks (`type(block) is not int` is not translated)"),
    Spec(GROUP, "sony_wwm_body", SONY, "FelicaLiteS.write_with_mac", [("data", BYTES), ("block", INT)],
         binds=[("self._sk", "sk", BYTES), ("self._iv", "iv", BYTES)], stmts=[4, 7, 8], result=["data", "maca"],
         opaque={"self.read_without_mac": RD1, "flip": ("flip", [BYTES], BYTES, False), "self.generate_mac": GM},
         note="cut: WCNT read from the tag in every call, MAC input, MAC_A block; the nested `flip` (Vendor `lites_flip`) "
              "and `generate_mac` are parameters; result (data, maca)"),
    Spec(GROUP, "sony_wwm_payload", SONY, "FelicaLiteS.write_with_mac", [("data", BYTES), ("maca", BYTES)], expr="data[8:24] + maca",
         note="partial cut (not `whole`): third argument of `write_without_encryption`"),
    Spec(GROUP, "sony_wwm_blocks", SONY, "FelicaLiteS.write_with_mac", [("block", INT)], stmts=[10], result=["bc_list"],
         opaque={"tt3.BlockCode": ("bc", [INT], INT, False)}, note="cut: block list of the write: the block, then MAC_A (0x91)"),
    Spec(GROUP, "sony_wwom_assert", SONY, "FelicaLite.write_without_mac", [("data", BYTES), ("block", INT)], stmts=[0], ret=OPT(INT),
         note="cut: the assertion (`type(block) is int` is constant for an int)"),
    # ---------------------------------------------------------------- NDEF attribute data overrides
    Spec(GROUP, "sony_lite_attr_cond", SONY, "FelicaLite.NDEF._read_attribute_data", [("attributes", OPT(INT))],
         binds=[("self._tag.is_authenticated", "is_authenticated", BOOL)], ret=BOOL, whole=True,
         expr="attributes is not None and self._tag.is_authenticated",
         note="cut: when Nbr is reduced to make room for the MAC block (the attribute dict is a token)"),
    Spec(GROUP, "sony_lites_attr", SONY, "FelicaLiteS.NDEF._read_attribute_data", [],
         binds=[("self._tag._authenticated", "authenticated", BOOL), ("self._writeable", "writeable", BOOL),
                ("super(FelicaLiteS.NDEF, self)._read_attribute_data()", "base", OPT(INT))],
         stores=["self._writeable"], stmts=(1, 3), result=["attributes", "self._writeable"],
         opaque={"self._tag.read_without_mac": RD1},
         note="cut: the whole body; the attributes the generic Type 3 code returns (a dict or None: a token) are a parameter; "
              "result (attributes, _writeable): the ONLY attribute the override changes is "
              "`_writeable` (`_readable` stays what the generic Type 3 code derived from the attribute block)"),
    # ---------------------------------------------------------------- FelicaLite._format
    Spec(GROUP, "sony_format_compat", SONY, "FelicaLite._format", [("mc", BYTES)], stmts=[5], result=["mc"], ret=ANY,
         opaque={"self.write_without_mac": WR},
         note="cut: NDEF compatibility flag of the MC block: set (and written) only while the MC block is writeable, else "
              "the method returns False (`None`)"),
    Spec(GROUP, "sony_format_wipe", SONY, "FelicaLite._format", [("wipe", OPT(INT)), ("nmaxb", INT)], stmts=[13, 14],
         opaque={"self.write_without_mac": WR}, note="cut: the optional wipe of blocks 1..Nmaxb and the result"),
    # ---------------------------------------------------------------- FelicaStandard
    Spec(GROUP, "sony_request_response_chk", SONY, "FelicaStandard.request_response", [("data", BYTES)], whole=True,
         expr="len(data) != 1", note="cut: the response length test (exactly one octet, the mode) in front of `raise "
                                     "tt3.Type3TagCommandError(tt3.DATA_SIZE_ERROR)`"),
    Spec(GROUP, "sony_request_response_pmm", SONY, "FelicaStandard.request_response", [], binds=[("self.pmm", "pmm", BYTES)],
         stmts=[0], result=["a", "b", "e"], note="cut: timeout parameters from PMm[3] (the float arithmetic is not translated)"),
    Spec(GROUP, "sony_request_service_chk", SONY, "FelicaStandard.request_service", [("data", BYTES)],
         binds=[("len(service_list)", "nsvc", INT)], whole=True, expr="len(data) != 1 + len(service_list) * 2",
         note="cut: the response length test (1 + 2 octets per requested service) in front of the DATA_SIZE_ERROR"),
    Spec(GROUP, "sony_request_system_code_chk", SONY, "FelicaStandard.request_system_code", [("data", BYTES)], whole=True,
         expr="len(data) != 1 + data[0] * 2", note="cut: the response length test (count octet + 2 octets per system code)"),
    Spec(GROUP, "sony_search_service_code_cmd", SONY, "FelicaStandard.search_service_code", [("service_index", INT)],
         stmts=[3], result=["data"], note="cut: command data (index, little endian)"),
    Spec(GROUP, "sony_search_service_code_none", SONY, "FelicaStandard.search_service_code", [("data", BYTES)],
         whole=True, expr='data != b"\\xFF\\xFF"', note="cut: the test that separates `None` (FFFF: no such index)"),
    Spec(GROUP, "sony_search_service_code_fmt", SONY, "FelicaStandard.search_service_code", [("data", BYTES)],
         whole=True, expr='"<H" if len(data) == 2 else "<HH"', note="cut: one word (service) or two (area)"),
    # ---------------------------------------------------------------- activate
    Spec(GROUP, "sony_activate", SONY, "activate", [("clf", INT), ("target", INT)],
         binds=[("target.sensf_res", "sensf_res", BYTES)] + [("%s.IC_CODE_MAP.keys()" % c, "k%d" % i, LIST(INT)) for i, c in enumerate(CLASSES)],
         ret=OPT(INT), opaque={c: ("mk%d" % i, [INT, INT], INT, False) for i, c in enumerate(CLASSES)},
         note="the IC code is SENSF_RES octet 10; the key sets of the IC_CODE_MAP dicts and the class constructors are "
              "parameters (objects are tokens)"),
]
P = "NfcVerif.FnBridge.Sony."
R = "NfcVerif.SonyRef."
BRIDGE = {
    "module": "NfcVerif.Props.FnBridgeSony",
    "theorems": [P + t for t in (
        # read_with_mac, generate_mac
        "rwm_guard_bridge", "rwm_guard_model", "rwm_blocks_bridge", "rwm_check_bridge", "rwm_check_model",
        "gen_rwm_accept_iff", "gen_rwm_mismatch_none", "gen_mac_field_compared", "mac_tail_bridge",
        # _authenticate
        "auth_reset_bridge", "authenticate_bridge", "gen_authenticate_true_iff", "gen_authenticate_false",
        "gen_failed_auth_plain_accessor", "gen_authenticate_challenge_first", "authenticate_model",
        # _protect
        "protect_pwcheck_bridge", "lites_protect_pwcheck_bridge", "lite_protect_bridge", "gen_protect_writes_key",
        "gen_protect_empty_password", "gen_protect_none_no_key", "gen_protect_auth_same_key",
        "lites_protect_head_bridge", "lites_protect_key_bridge", "gen_lites_protect_writes_key", "lites_protect_tail_bridge",
        # FelicaLiteS.authenticate
        "lites_ext_auth_bridge", "lites_ext_cond_bridge", "lites_ext_ok_bridge", "ext_auth_assembled", "gen_ext_auth_accessors",
        # write_with_mac / write_without_mac
        "wwm_guard_bridge", "wwm_body_bridge", "gen_wwm_reads_counter", "wwm_payload_bridge", "wwm_blocks_bridge",
        "wwom_assert_bridge",
        # NDEF attribute overrides
        "lite_attr_cond_bridge", "lites_attr_bridge", "gen_lites_attr_passes_attributes", "gen_lites_attr_unauthenticated",
        # _format
        "format_compat_bridge", "format_wipe_none", "format_wipe_some",
        # FelicaStandard, activate
        "request_response_chk_bridge", "request_response_pmm_bridge", "request_service_chk_bridge",
        "request_system_code_chk_bridge", "gen_request_lengths", "search_service_code_cmd_bridge",
        "search_service_code_none_bridge", "search_service_code_fmt_bridge", "activate_bridge")] + [R + t for t in (
        # facts about the reference semantics Model/FnSonyRef.lean
        "macCheck_some_iff", "macCheck_none", "authenticate_true_iff", "authenticate_false", "authenticate_challenge_first",
        "liteProtect_writes_key", "liteProtect_empty_password", "liteProtect_none_no_key", "liteProtectTail_locks",
        "litesAttr_unauthenticated")],
    "properties": ["C20", "C16", "C02", "C01"],
}
SMALL_INT = ("sony_lite_protect", "sony_lites_protect_key", "sony_lites_protect_tail", "sony_lites_protect_head",
             "sony_format_wipe")      # 2**protect_from is materialised; range(1, nmaxb+1) is walked


def accept(sp, pv, bv):
    """preconditions of the cuts (said in their notes)"""
    if sp.lean == "sony_lites_protect_key":
        return pv[2] >= 0          # `protect_from < 0` raised in front of the cut
    if sp.lean == "sony_format_wipe":
        return pv[1] <= 64         # Nmaxb is at most 13
    return True


def _b(rng, n):
    return bytes(rng.choice([0, 1, 0x0F, 0x80, 0xFF, rng.randrange(256)]) for _ in range(n))


def _ob(rng, lens):
    return None if rng.random() < 0.25 else _b(rng, rng.choice(lens))


def inputs(rng, sp):
    out = []
    n = sp.lean
    PWL = (0, 1, 15, 16, 17, 24)
    if n in ("sony_rwm_guard",):
        out += [([], [a, b]) for a in (None, b"", b"\x01" * 16) for b in (None, b"", b"\x02" * 8)]
    if n == "sony_wwm_guard":
        out += [([_b(rng, k), blk], [a, b]) for k in (0, 15, 16, 17) for blk in (0, 0x92) for a in (None, b"\x01" * 16)
                for b in (None, b"\x02" * 8)]
    if n == "sony_rwm_blocks":
        out += [([l], []) for l in ([], [0], [1, 2, 3], [0x92], [5, 5], [255, 256, -1])]
    if n == "sony_rwm_check":
        for _ in range(80):
            out.append(([_b(rng, rng.choice([0, 8, 15, 16, 17, 24, 32, 48, 64]))], [_b(rng, 16), _b(rng, 8)]))
    if n == "sony_mac_tail":
        out += [([], [_b(rng, k)]) for k in (0, 7, 8, 9, 16, 24) for _ in range(4)]
    if n in ("sony_auth_reset", "sony_protect_pwcheck", "sony_lites_protect_pwcheck"):
        for k in PWL:
            for _ in range(4):
                out.append(([_b(rng, k)], [7, 8] if n == "sony_auth_reset" else []))
    if n == "sony_authenticate":
        for k in PWL:
            for _ in range(12):
                out.append(([_b(rng, k)], [9, _b(rng, rng.choice([16, 16, 16, 8, 0])), _ob(rng, (16,)), _ob(rng, (8,)), 7, _b(rng, 16)]))
    if n == "sony_lite_protect":
        for _ in range(200):
            out.append(([_ob(rng, PWL[:1] + PWL[3:]), rng.random() < 0.2, rng.choice([-1, 0, 0, 1, 5, 13, 14, 15, 20])], [_ob(rng, (0, 3))]))
    if n == "sony_lites_protect_head":
        out += [([_ob(rng, (0, 16)), rng.random() < 0.5, pf], []) for pf in (-2, -1, 0, 1, 14) for _ in range(4)]
    if n == "sony_lites_protect_key":
        for _ in range(200):
            mc = bytearray(_b(rng, rng.choice([16, 16, 16, 6, 3, 2, 0])))
            if len(mc) > 5 and rng.random() < 0.7:
                mc[2] = rng.choice([0xFF, 0xFF, 0x00])
                mc[5] = rng.choice([0, 1, 1, 3])
            out.append(([_b(rng, rng.choice((0, 16, 20))), rng.random() < 0.5, rng.choice([0, 1, 5, 13, 14, 15]), bytes(mc)],
                        [rng.random() < 0.6]))
    if n == "sony_lites_protect_tail":
        for _ in range(80):
            out.append(([_b(rng, rng.choice([16, 16, 6, 5, 3, 2, 0])), rng.choice([0, 0, 1, 14])], [_ob(rng, (0, 3))]))
    if n in ("sony_lites_ext_auth", "sony_lites_ext_ok"):
        out += [([], [a, b]) for a in (1, 2) for b in (3, 4)]
    if n == "sony_lites_ext_cond":
        out += [([v], []) for v in (b"", b"\x01", b"\x00", b"\x01" + b"\0" * 15, b"\x02\x01", b"\xff")]
    if n == "sony_wwm_body":
        for _ in range(60):
            out.append(([_b(rng, rng.choice([16, 16, 0, 15])), rng.choice([0, 5, 0x92, 255, 256, -1])], [_b(rng, 16), _b(rng, 8)]))
    if n == "sony_wwm_payload":
        out += [([_b(rng, k), _b(rng, 16)], []) for k in (0, 8, 9, 23, 24, 25, 40)]
    if n == "sony_wwm_blocks":
        out += [([v], []) for v in (0, 5, 0x92, 255, 256)]
    if n == "sony_wwom_assert":
        out += [([_b(rng, k), 5], []) for k in (0, 15, 16, 17)]
    if n == "sony_lite_attr_cond":
        out += [([a], [b]) for a in (None, 0, 7) for b in (False, True)]
    if n == "sony_lites_attr":
        out += [([], [a, w, t]) for a in (False, True) for w in (False, True) for t in (None, 0, 1, 2, 3, 4, 5, 6, 7, 8, 9, 10)]
    if n == "sony_format_compat":
        for _ in range(80):
            mc = bytearray(_b(rng, rng.choice([16, 16, 16, 4, 3, 2, 0])))
            if len(mc) > 3:
                mc[2] = rng.choice([0xFF, 0xFF, 0x00, mc[2]])
                mc[3] = rng.choice([0, 1, 2, 3, 0xFE, 0xFF])
            out.append(([bytes(mc)], []))
    if n == "sony_format_wipe":
        out += [([w, m], []) for w in (None, 0, 0x5A, 255, 256, -1) for m in (-1, 0, 1, 4, 13)]
    if n == "sony_request_response_chk":
        out += [([_b(rng, k)], []) for k in (0, 1, 1, 2, 5)]
    if n == "sony_request_response_pmm":
        out += [([], [_b(rng, k)]) for k in (0, 3, 4, 8, 8, 8)]
    if n == "sony_request_service_chk":
        out += [([_b(rng, k)], [m]) for k in (0, 1, 3, 5, 6) for m in (0, 1, 2, 3)]
    if n == "sony_request_system_code_chk":
        out += [([bytes([c]) + _b(rng, k)], []) for c in (0, 1, 2, 3) for k in (0, 2, 3, 4, 6)] + [([b""], [])]
    if n == "sony_search_service_code_cmd":
        out += [([v], []) for v in (-1, 0, 1, 255, 256, 65535, 65536)]
    if n in ("sony_search_service_code_none", "sony_search_service_code_fmt"):
        out += [([v], []) for v in (b"", b"\xff", b"\xff\xff", b"\xff\xfe", b"\x09\x00", b"\x00\x00\xff\x03", b"\xff\xff\xff\xff")]
    if n == "sony_activate":
        ks = [[0xF0], [0xF1, 0xF2], [0x00, 0x01, 0x02, 0x08, 0x09, 0x0B, 0x0C, 0x0D, 0x20, 0x32, 0x35], [0x06, 0x07, 0x10, 0x11, 0x1F],
              [0xE0, 0xE1]]
        for ic in (0xF0, 0xF1, 0xF2, 0x00, 0x01, 0x35, 0x06, 0x1F, 0xE0, 0xE1, 0x55, 0xFF):
            out.append(([1, 2], [bytes(10) + bytes([ic]) + bytes(7)] + ks))
        out.append(([1, 2], [bytes(10)] + ks))
        out.append(([1, 2], [bytes(11), [0], [0], [0], [0], [0]]))      # overlapping key sets: the first class wins
    return out


MUTATIONS = [
    # ---- read_with_mac
    ("sony_rwm_check", "only seven MAC octets are compared", "data[0:-16], data[-16:-8]", "data[0:-16], data[-16:-9]"),
    ("sony_rwm_check", "MAC computed over a prefix of the returned data", "self.generate_mac(data, self._sk, self._iv)",
     "self.generate_mac(data[0:16], self._sk, self._iv)"),
    ("sony_rwm_check", "data returned on mismatch as well", '            log.warning("mac verification failed")\n        else:\n            return data',
     '            log.warning("mac verification failed")\n        return data'),
    ("sony_rwm_check", "seeded C20-m1 / r5m2: comparison through a helper that looks at the last octet only",
     "if mac != self.generate_mac(data, self._sk, self._iv):", "if mac[-1:] != self.generate_mac(data, self._sk, self._iv)[-1:]:"),
    ("sony_rwm_blocks", "MAC block number", "block_list.append(tt3.BlockCode(0x81))", "block_list.append(tt3.BlockCode(0x91))"),
    ("sony_rwm_blocks", "seeded C20-r2m2 (kind): MAC block in front of the data blocks",
     "        block_list = [tt3.BlockCode(n) for n in blocks]\n        block_list.append(tt3.BlockCode(0x81))",
     "        block_list = [tt3.BlockCode(0x81)]\n        block_list.extend([tt3.BlockCode(n) for n in blocks])"),
    ("sony_rwm_guard", "session guard needs both attributes missing", "if self._sk is None or self._iv is None:", "if self._sk is None and self._iv is None:"),
    ("sony_mac_tail", "MAC not reversed", "encrypt(txt)[:-9:-1])", "encrypt(txt)[-8:])"),
    # ---- _authenticate
    ("sony_auth_reset", "seeded C20-r3m1: the resets happen only on the failure path",
     "        self._authenticated = False\n        self._sk = self._iv = None\n        self.read_from_ndef_service = self.read_without_mac\n        self.write_to_ndef_service = self.write_without_mac\n\n        # Internal",
     "\n        # Internal"),
    ("sony_auth_reset", "seeded C16-r5m4: the accessor resets are dropped in front of the commands",
     "        self.read_from_ndef_service = self.read_without_mac\n        self.write_to_ndef_service = self.write_without_mac\n\n        # Internal",
     "\n        # Internal"),
    ("sony_auth_reset", "seeded C20-r3m4: the key is not cut to 16 octets", 'key = b"\\0" * 16 if not password else password[0:16]', 'key = password or b"\\0" * 16'),
    ("sony_auth_reset", "write accessor reset to the MAC'ed write", "self.write_to_ndef_service = self.write_without_mac\n\n        # Internal",
     "self.write_to_ndef_service = self.write_with_mac\n\n        # Internal"),
    ("sony_authenticate", "only seven MAC octets decide", "if data[-16:-8] == self.generate_mac(data[0:-16], sk, iv=rc[0:8]):",
     "if data[-16:-9] == self.generate_mac(data[0:-16], sk, iv=rc[0:8])[0:7]:"),
    ("sony_authenticate", "stored start value is the second challenge half", "self._iv = rc[0:8]", "self._iv = rc[8:16]"),
    ("sony_authenticate", "seeded C20-r2m1: the challenge is drawn once per object",
     "        rc = os.urandom(16)\n", "        if getattr(self, '_rc', None) is None:\n            self._rc = os.urandom(16)\n        rc = self._rc\n"),
    ("sony_authenticate", "session key stored before the MAC was checked",
     "        data = self.read_without_mac(0x82, 0x81)\n", "        self._sk = sk\n        data = self.read_without_mac(0x82, 0x81)\n"),
    ("sony_authenticate", "MAC block read in front of the ID block", "self.read_without_mac(0x82, 0x81)", "self.read_without_mac(0x81, 0x82)"),
    # ---- _protect
    ("sony_lite_protect", "seeded C20-m2 / r3m2: the empty password no longer writes the key", "if password is not None:", "if password:"),
    ("sony_lite_protect", "seeded C20-r5m3: the key block is written only for a non-empty password",
     '            key = password[0:16] if password else b"\\0"*16\n\n            log.debug("protect with key %s", hexlify(key).decode())\n            self.write_without_mac(key[7::-1] + key[15:7:-1], 0x87)',
     '            if password:\n                key = password[0:16]\n                self.write_without_mac(key[7::-1] + key[15:7:-1], 0x87)'),
    ("sony_lite_protect", "system blocks not locked", "mc[2] = 0x00  # set system blocks", "mc[2] = 0xFF  # set system blocks"),
    ("sony_lite_protect", "key written although the system blocks are locked", "if mc[2] != 0xFF:", "if mc[2] == 0x00:"),
    ("sony_lite_protect", "key block number", "key[15:7:-1], 0x87)", "key[15:7:-1], 0x86)"),
    ("sony_lites_protect_key", "authentication with the password instead of the key", "if not self.authenticate(key):", "if not self.authenticate(password):"),
    ("sony_lites_protect_key", "key change allowed without authentication", "if self._authenticated is False:", "if False:"),
    ("sony_lites_protect_tail", "CK/CKV write permission bit", "mc[5] = 0x01", "mc[5] = 0x00"),
    # ---- FelicaLiteS.authenticate
    ("sony_lites_ext_cond", "seeded C20-m4: any state except a wrong EXT_AUTH counts as authenticated",
     "if state is not None and state[0] == 0x01:", "if not (state and state[0] != 0x01):"),
    ("sony_lites_ext_ok", "write accessor stays plain after mutual authentication", "self.write_to_ndef_service = self.write_with_mac", "self.write_to_ndef_service = self.write_without_mac"),
    ("sony_lites_ext_auth", "state block number", "state = self.read_with_mac(0x92)", "state = self.read_with_mac(0x90)"),
    ("sony_lites_ext_auth", "status not reset before the external authentication", "            self._authenticated = False\n            self.read_from", "            self.read_from"),
    # ---- write_with_mac
    ("sony_wwm_body", "seeded C20-r2m3: WCNT cached in the tag object",
     "        wcnt = self.read_without_mac(0x90)[0:3]\n", "        if getattr(self, '_wcnt', None) is None:\n            self._wcnt = self.read_without_mac(0x90)[0:3]\n        wcnt = self._wcnt\n"),
    ("sony_wwm_body", "MAC_A padding", "+ wcnt+5*b\"\\0\"", "+ wcnt+4*b\"\\0\""),
    ("sony_wwm_payload", "data slice of the write", "data[8:24] + maca", "data[8:23] + maca"),
    ("sony_wwm_blocks", "MAC_A block number", "tt3.BlockCode(block), tt3.BlockCode(0x91)", "tt3.BlockCode(block), tt3.BlockCode(0x90)"),
    ("sony_wwm_guard", "length check", "if len(data) != 16:", "if len(data) > 16:"),
    # ---- NDEF attribute overrides
    ("sony_lites_attr", "seeded C02-r4m3: the override also sets the readable flag",
     "                self._writeable = bool(rw_bits & 0x3ff == 0x3ff)\n", "                self._writeable = bool(rw_bits & 0x3ff == 0x3ff)\n                self._readable = bool(attributes['nbr'] > 0)\n"),
    ("sony_lites_attr", "writeable although not authenticated", "if attributes is not None and self._tag._authenticated:", "if attributes is not None:"),
    ("sony_lite_attr_cond", "Nbr reduced without authentication", "if attributes is not None and self._tag.is_authenticated:", "if attributes is not None or self._tag.is_authenticated:"),
    # ---- _format, FelicaStandard, activate
    ("sony_format_compat", "flag set although the MC block is locked", "if mc[2] == 0xFF:  # mc block is writeable", "if mc[2] != 0x00:  # mc block is writeable"),
    ("sony_format_wipe", "wipe starts at the attribute block", "for block in range(1, nmaxb+1):", "for block in range(0, nmaxb+1):"),
    ("sony_request_response_chk", "longer answers accepted", "if len(data) != 1:", "if len(data) < 1:"),
    ("sony_request_service_chk", "length check off by the count octet", "if len(data) != 1 + len(service_list) * 2:", "if len(data) != len(service_list) * 2:"),
    ("sony_request_system_code_chk", "length check ignores odd tails", "if len(data) != 1 + data[0] * 2:", "if len(data) < 1 + data[0] * 2:"),
    ("sony_search_service_code_none", "NEUTRAL: literal written in lower case", 'if data != b"\\xFF\\xFF":', 'if data != b"\\xff\\xff":'),
    ("sony_activate", "IC code position", "target.sensf_res[10]", "target.sensf_res[9]"),
    ("sony_activate", "Lite-S tested in front of Lite",
     "    if ic_code in FelicaLite.IC_CODE_MAP.keys():\n        return FelicaLite(clf, target)\n    if ic_code in FelicaLiteS.IC_CODE_MAP.keys():\n        return FelicaLiteS(clf, target)\n",
     "    if ic_code in FelicaLiteS.IC_CODE_MAP.keys():\n        return FelicaLiteS(clf, target)\n    if ic_code in FelicaLite.IC_CODE_MAP.keys():\n        return FelicaLite(clf, target)\n"),
]
