"""group ErrMap: the status-to-exception decisions of the drivers' exchange functions -> Model/ErrMap.lean (C13)

Every function here is the body of one `except` handler (or one raising `if`) of `send_cmd_recv_rsp` /
`send_rsp_recv_cmd` of pn53x (shared by pn531, pn532, pn533, rcs956, acr122, arygon), rcs380 and udp, cut out
with `path=`: a function from the caught exception's `errno` (a parameter, bound to `error.errno`) to the
exception class that leaves the driver.  Which handler catches what (the `try`/`except` structure itself) is
the business of the exception-flow translator (`harness/translate_exc.py`), not of this group.
"""
from translate_fn import Spec, INT, BOOL, BYTES, OPT

GROUP = "ErrMap"
ORDER = 66
F = "clf/pn53x.py"
R = "clf/rcs380.py"
U = "clf/udp.py"
_ERRNO = [("error.errno", "errno", INT)]
SPECS = [
    Spec(GROUP, "pn53x_ini_chip_error", F, "Device._send_cmd_recv_rsp", [], binds=_ERRNO, path=[(19, ("handlers", 0))],
         note="cut: body of `except Chipset.Error as error` of the RF exchange; `error.errno` is the parameter"),
    Spec(GROUP, "pn53x_ini_io_error", F, "Device._send_cmd_recv_rsp", [], binds=_ERRNO, path=[(19, ("handlers", 1))],
         reraise={"error": "(Exc.io errno.toNat)"}, nonneg=["errno"],
         note="cut: body of `except IOError as error` of the RF exchange; `raise error` re-raises IOError(error.errno) "
              "(errno >= 0)"),
    Spec(GROUP, "pn53x_tgt_chip_error", F, "Device.send_rsp_recv_cmd", [], binds=_ERRNO, path=[(1, ("handlers", 0))],
         note="cut: body of `except Chipset.Error as error` around TgResponseToInitiator/TgGetInitiatorCommand"),
    Spec(GROUP, "pn53x_tgt_io_error", F, "Device.send_rsp_recv_cmd", [("timeout", INT)], binds=_ERRNO,
         path=[(1, ("handlers", 1))], reraise={"error": "(Exc.io errno.toNat)"}, nonneg=["errno"],
         note="cut: body of `except IOError as error` around TgResponseToInitiator/TgGetInitiatorCommand; `timeout` "
              "(a float in the source) only feeds a log message"),
    Spec(GROUP, "pn53x_guard_chip", F, "Device.send_cmd_recv_rsp", [], binds=_ERRNO, path=[(0, ("handlers", 0))],
         note="cut: body of `except Chipset.Error` around `_send_cmd_recv_rsp` (register set-up included)"),
    Spec(GROUP, "pn53x_tt3_guard_chip", F, "Device.send_rsp_recv_cmd", [], binds=_ERRNO, path=[(0, "body"), (0, ("handlers", 0))],
         note="cut: body of `except Chipset.Error` around `_tt3_send_rsp_recv_cmd`"),
    Spec(GROUP, "rcs380_guard_status", R, "Device.send_cmd_recv_rsp", [], binds=_ERRNO, path=[(0, ("handlers", 0))],
         note="cut: body of `except StatusError` around `_send_cmd_recv_rsp`"),
    Spec(GROUP, "udp_rfoff", U, "Device._recv_data", [("data", BYTES)], path=[(1, "body"), (1, "body")], stmts=(2, 3),
         note="cut: the RFOFF test on a received datagram (inside the receive loop)"),
    Spec(GROUP, "udp_parse_error", U, "Device._recv_data", [], path=[(1, "body"), (1, "body"), (3, ("handlers", 0))],
         note="cut: body of `except ValueError` around split / decode / unhexlify of a datagram"),
    Spec(GROUP, "udp_send_check", U, "Device._send_data", [("ret", INT), ("data", BYTES)], stmts=(3, 4),
         note="cut: the statement behind `ret = self.socket.sendto(data, addr)`; `ret` is that value"),
    Spec(GROUP, "udp_recv_timeout", U, "Device._recv_data", [], stmts=(2, 3),
         note="cut: the statement behind the receive loop"),
]
# the chipset functions of an RF exchange: the status evaluation behind `data = self.command(..)`
_CB = {"self.chipset_error": "pn53x_chipset_error_bytes"}
_CUT = "cut: the statements behind `data = self.command(..)`; parameter `data` is that value (a byte string; `None` - " \
       "returned for a non-positive timeout - is not modelled)"
SPECS += [
    Spec(GROUP, "pn53x_in_communicate_thru", F, "Chipset.in_communicate_thru", [("data", BYTES)], path=[(1, "body")],
         calls=_CB, ret=OPT(BYTES), note=_CUT + "; inside `if timeout > 0:`"),
    Spec(GROUP, "pn53x_tg_get_initiator_command", F, "Chipset.tg_get_initiator_command", [("data", BYTES)],
         path=[(1, "body")], calls=_CB, ret=OPT(BYTES), note=_CUT + "; inside `if timeout > 0:`"),
    Spec(GROUP, "pn53x_in_data_exchange", F, "Chipset.in_data_exchange", [("data", BYTES)], stmts=(1, 3),
         calls={"self.chipset_error": "pn53x_chipset_error_opt"}, note=_CUT),
    Spec(GROUP, "pn53x_tg_response_to_initiator", F, "Chipset.tg_response_to_initiator", [("data", BYTES)], stmts=(1, 2),
         calls=_CB, note=_CUT),
    Spec(GROUP, "pn533_read_register", "clf/pn533.py", "Chipset._read_register", [("data", BYTES)], stmts=(1, 3),
         calls=_CB, note=_CUT),
    Spec(GROUP, "pn533_write_register", "clf/pn533.py", "Chipset._write_register", [("data", BYTES)], stmts=(1, 2),
         calls=_CB, note=_CUT),
    Spec(GROUP, "rcs956_write_register", "clf/rcs956.py", "Chipset._write_register", [("status", BYTES)], stmts=(2, 3),
         calls={"self.chipset_error": "pn53x_chipset_error_int"},
         note="cut: the statement behind `status = self.command(0x08, data, timeout=0.25)`; parameter `status` is that value"),
    Spec(GROUP, "pn53x_tt2_crc", F, "Device._tt2_send_cmd_recv_rsp", [("data", BYTES)], stmts=(1, 3),
         calls={"self.check_crc_a": "check_crc_a"},
         note="cut: the statements behind `data = self.chipset.in_communicate_thru(data, timeout)`"),
    Spec(GROUP, "rcs380_tt2_crc", R, "Device._tt2_send_cmd_recv_rsp", [("data", BYTES)], stmts=(1, 3),
         calls={"self.check_crc_a": "check_crc_a"},
         note="cut: the statements behind `data = self.chipset.in_comm_rf(data, timeout_msec)` (`None` is not modelled)"),
]
# the Type 3 Tag target loop of pn53x (`_tt3_send_rsp_recv_cmd`): interrupt bits, FIFO length octet, timeout
SPECS += [
    Spec(GROUP, "pn53x_tt3_field_off", F, "Device._tt3_send_rsp_recv_cmd", [("divirq", INT)], path=[(5, "body")],
         stmts=(2, 3), nonneg=["divirq"],
         note="cut: inside the polling loop the test of CIU_DivIRq bit 0 (external field switched off); `divirq` is a "
              "register value (>= 0)"),
    Spec(GROUP, "pn53x_tt3_rx_irq", F, "Device._tt3_send_rsp_recv_cmd", [("commirq", INT)], expr="commirq & 32", whole=True,
         nonneg=["commirq"], note="cut: the condition `commirq & 0b00100000` (RxIRq) of the polling loop"),
    Spec(GROUP, "pn53x_tt3_fifo_check", F, "Device._tt3_send_rsp_recv_cmd", [("fifo_data", BYTES)],
         path=[(5, "body"), (3, "body")], stmts=(4, 6),
         note="cut: the statements behind `fifo_data = bytearray(self.chipset.read_register(*fifo_read))`"),
    Spec(GROUP, "pn53x_tt3_timeout", F, "Device._tt3_send_rsp_recv_cmd", [("timeout", INT)], stmts=(6, 7),
         note="cut: the statement behind the polling loop; `timeout` (a float in the source) is compared with 0 only"),
]
# rcs380: `except CommunicationError as error` - the comparisons `error == "<name>"` are `CommunicationError.__eq__`
# (group Rcs380: rcs380_comm_err_eq); here they are boolean parameters, the bridge theorems plug the two together
SPECS += [
    Spec(GROUP, "rcs380_ini_comm_error", R, "Device._send_cmd_recv_rsp", [],
         binds=[("error == 'RECEIVE_TIMEOUT_ERROR'", "is_timeout", BOOL)], path=[(6, ("handlers", 0))], stmts=(1, 3),
         note="cut: body of `except CommunicationError as error` of the RF exchange without the logging call; the "
              "comparison `error == 'RECEIVE_TIMEOUT_ERROR'` (CommunicationError.__eq__) is the parameter"),
    Spec(GROUP, "rcs380_tgt_comm_error", R, "Device.send_rsp_recv_cmd", [],
         binds=[("error == 'RF_OFF_ERROR'", "is_rfoff", BOOL), ("error == 'RECEIVE_TIMEOUT_ERROR'", "is_timeout", BOOL)] + _ERRNO,
         path=[(2, ("handlers", 0))], stmts=(1, 4),
         note="cut: body of `except CommunicationError as error` around TgCommRF without the logging call; the two "
              "comparisons are the parameters"),
]
P = "NfcVerif.FnBridge.ErrMap."
BRIDGE = {
    "module": "NfcVerif.Props.FnBridgeErrMap",
    "theorems": [P + t for t in (
        "ini_chip_error_bridge", "ini_io_error_bridge", "tgt_chip_error_bridge", "tgt_io_error_bridge", "guard_chip_bridge", "tt3_guard_chip_bridge",
        "guard_status_bridge", "udp_rfoff_bridge", "udp_parse_error_bridge", "udp_send_check_bridge",
        "udp_recv_timeout_bridge", "gen_handlers_documented",
        "in_communicate_thru_bridge", "tg_get_initiator_command_bridge", "in_data_exchange_bridge",
        "tg_response_to_initiator_bridge", "pn533_read_register_bridge", "pn533_write_register_bridge",
        "rcs956_write_register_bridge", "tt2_crc_bridge", "rcs380_tt2_crc_bridge", "gen_chip_functions_mid",
        "rcs_ini_comm_error_bridge", "rcs_tgt_comm_error_bridge", "gen_rcs_handlers_documented",
        "tt3_field_off_bridge", "tt3_rx_irq_bridge", "tt3_poll_step", "tt3_fifo_check_bridge", "tt3_timeout_bridge")],
    "properties": ["C13"],
}
SMALL_INT = ("pn53x_tt3_timeout", "pn53x_ini_io_error", "pn53x_tgt_io_error", "pn53x_ini_chip_error", "pn53x_tgt_chip_error", "pn53x_guard_chip", "pn53x_tt3_guard_chip",
             "rcs380_guard_status")


def inputs(rng, sp):
    out = []
    if sp.lean in ("pn53x_ini_chip_error", "pn53x_tgt_chip_error"):
        for e in list(range(0, 64)) + [0x7F, 0xFE, 0xFF]:
            out.append(([], [e]))
    if sp.lean == "pn53x_ini_io_error":
        for e in (0, 1, 5, 13, 19, 109, 110, 111, 2 ** 31):
            out.append(([], [e]))
    if sp.lean == "pn53x_tgt_io_error":
        for e in (0, 1, 5, 13, 19, 109, 110, 111, 2 ** 31):
            out.append(([rng.randrange(0, 5)], [e]))
    if sp.lean.startswith("pn53x_in_") or sp.lean.startswith("pn53x_tg_") or sp.lean.startswith("pn533_"):
        for d in (b"", b"\x00", b"\x01", b"\x00\xaa\xbb", b"\x40\x01", b"\x41", b"\x3f\x00", b"\x80\x07", b"\x27\x00"):
            out.append(([d], []))
    if sp.lean == "pn53x_tt3_fifo_check":
        for d in (b"", b"\x01", b"\x02", b"\x02\x00", b"\x03\x01\x02", b"\x04\x01\x02", b"\x00"):
            out.append(([d], []))
    if sp.lean in ("pn53x_tt3_field_off", "pn53x_tt3_rx_irq"):
        for v in range(0, 256, 1):
            out.append(([v], []))
    if sp.lean == "rcs956_write_register":
        for d in (b"", b"\x00", b"\x00\x00", b"\x01", b"\x00\x01\x00", b"\xff\x01"):
            out.append(([d], []))
    if sp.lean.endswith("tt2_crc"):
        import nfc.clf.device as dev
        for _ in range(40):
            d = bytearray(rng.randrange(256) for _ in range(rng.randrange(0, 8)))
            good = bytes(dev.Device.add_crc_a(d))
            out.append(([good], []))
            i = rng.randrange(len(good))
            out.append(([good[:i] + bytes([good[i] ^ (1 << rng.randrange(8))]) + good[i + 1:]], []))
    if sp.lean == "udp_rfoff":
        for d in (b"RFOFF", b"RFOF", b"RFOFF 00", b"rfoff", b" RFOFF", b"106A 00", b""):
            out.append(([d], []))
    if sp.lean == "udp_send_check":
        for _ in range(40):
            d = bytes(rng.randrange(256) for _ in range(rng.randrange(0, 12)))
            out.append(([len(d) + rng.choice([0, 0, 0, -1, 1, -len(d)]), d], []))
    return out


def _move_first_command_out_of_try(seg):
    """send_rsp_recv_cmd: `if data: tg_response_to_initiator(data)` moved in front of the `try:` (its Chipset.Error
    would then escape the handlers; for this group the cut `path=` no longer finds the handler where the spec says)"""
    l = seg.split("\n")
    i = [k for k, x in enumerate(l) if x.strip() == "if data:"][0]
    assert l[i - 1].strip() == "try:" and "tg_response_to_initiator" in l[i + 1]
    ind = len(l[i - 1]) - len(l[i - 1].lstrip())
    moved = [" " * ind + l[i].strip(), " " * (ind + 4) + l[i + 1].strip()]
    return "\n".join(l[:i - 1] + moved + [l[i - 1]] + l[i + 2:])


def _swap_rcs_tests(seg):
    """send_rsp_recv_cmd (rcs380): RECEIVE_TIMEOUT_ERROR tested in front of RF_OFF_ERROR (differs when both bits are set)"""
    l = seg.split("\n")
    i = [k for k, x in enumerate(l) if 'error == "RF_OFF_ERROR"' in x][0]
    j = [k for k, x in enumerate(l) if 'error == "RECEIVE_TIMEOUT_ERROR"' in x][0]
    return "\n".join(l[:i] + l[j:j + 2] + l[i:i + 2] + l[j + 2:])


MUTATIONS = [
    ("pn53x_ini_chip_error", "timeout status code", "error.errno == 1", "error.errno == 2"),
    ("pn53x_ini_chip_error", "branches swapped", "if error.errno == 1:", "if error.errno != 1:"),
    ("pn53x_ini_io_error", "errno of the host-link timeout", "errno.ETIMEDOUT", "errno.EIO"),
    ("pn53x_ini_io_error", "condition inverted", "if not error.errno == errno.ETIMEDOUT:", "if error.errno == errno.ETIMEDOUT:"),
    ("pn53x_tgt_io_error", "timeout reported as transmission error", "raise nfc.clf.TimeoutError(info)", "raise nfc.clf.TransmissionError(info)"),
    ("pn53x_tgt_chip_error", "dropped RF-off status", "(0x0A, 0x29, 0x31)", "(0x0A, 0x29)"),
    ("pn53x_tgt_chip_error", "wrong exception class", "raise nfc.clf.BrokenLinkError(str(error))", "raise nfc.clf.TimeoutError(str(error))"),
    ("pn53x_guard_chip", "errno of the host error", "errno.EIO, os.strerror(errno.EIO)", "errno.ETIMEDOUT, os.strerror(errno.ETIMEDOUT)"),
    ("rcs380_guard_status", "errno of the host error", "errno.EIO, os.strerror(errno.EIO)", "errno.ENODEV, os.strerror(errno.ENODEV)"),
    ("udp_rfoff", "marker string", 'b"RFOFF"', 'b"RFOF"'),
    ("udp_rfoff", "wrong exception class", 'raise nfc.clf.BrokenLinkError("RFOFF")', 'raise nfc.clf.TimeoutError("RFOFF")'),
    ("udp_parse_error", "wrong exception class", 'raise nfc.clf.TransmissionError("no data")', 'raise nfc.clf.ProtocolError("no data")'),
    ("udp_send_check", "comparison weakened", "if ret != len(data):", "if ret > len(data):"),
    ("udp_recv_timeout", "wrong exception class", 'raise nfc.clf.TimeoutError("no data received")', 'raise nfc.clf.TransmissionError("no data received")'),
    ("pn53x_tgt_chip_error", "first host command moved in front of the try", _move_first_command_out_of_try, None),
    ("rcs380_ini_comm_error", "timeout reported as transmission error", "raise nfc.clf.TimeoutError\n", "raise nfc.clf.TransmissionError\n"),
    ("rcs380_tgt_comm_error", "tests in the wrong order", _swap_rcs_tests, None),
    ("rcs380_tgt_comm_error", "RF-off reported as timeout", "raise nfc.clf.BrokenLinkError(str(error))", "raise nfc.clf.TimeoutError(str(error))"),
    ("pn53x_in_communicate_thru", "status test inverted", "if data and data[0] == 0:", "if data and data[0] != 0:"),
    ("pn53x_in_communicate_thru", "status octet kept in the result", "return data[1:]", "return data[0:]"),
    ("pn53x_in_data_exchange", "error mask", "data[0] & 0x3f != 0", "data[0] & 0x7f != 0"),
    ("pn53x_in_data_exchange", "errno not masked", "self.chipset_error(data[0] & 0x3f if data else None)", "self.chipset_error(data[0] if data else None)"),
    ("pn53x_tg_response_to_initiator", "status check dropped", "if data is None or data[0] != 0:", "if data is None:"),
    ("pn533_read_register", "status octet kept", "return data[1:]", "return data"),
    ("pn533_write_register", "status test inverted", "if data[0] != 0:", "if data[0] == 0:"),
    ("rcs956_write_register", "errno constant", "self.chipset_error(0xfe)", "self.chipset_error(0xff)"),
    ("pn53x_tt2_crc", "minimum length of a CRC protected response", "if len(data) > 2 and", "if len(data) > 3 and"),
    ("pn53x_tt2_crc", "CRC octets kept", "return data[:-2] if len(data) > 2 else data", "return data[:-1] if len(data) > 2 else data"),
    ("rcs380_tt2_crc", "CRC failure ignored", "self.check_crc_a(data) is False", "self.check_crc_a(data) is None"),
    ("pn53x_tt3_field_off", "wrong interrupt bit", "if divirq & 0b00000001:", "if divirq & 0b00000010:"),
    ("pn53x_tt3_rx_irq", "wrong interrupt bit", "if commirq & 0b00100000:", "if commirq & 0b01000000:"),
    ("pn53x_tt3_fifo_check", "length octet not counted", "fifo_data[0] != len(fifo_data)", "fifo_data[0] != len(fifo_data) - 1"),
    ("pn53x_tt3_fifo_check", "wrong exception class", 'raise nfc.clf.TransmissionError("frame length byte error")', 'raise nfc.clf.ProtocolError("frame length byte error")'),
    ("pn53x_tt3_timeout", "timeout also for a zero timeout", "if timeout > 0:", "if timeout >= 0:"),
    ("pn53x_tt3_rx_irq", "RxIRq test gains an operand", "if commirq & 0b00100000:", "if commirq & 0b00100000 or commirq & 0b00000001:"),
    ("pn53x_tt3_rx_irq", "RxIRq test gains a conjunct", "if commirq & 0b00100000:", "if commirq & 0b00100000 and not divirq & 0b00000010:"),
    ("rcs380_ini_comm_error", "timeout comparison gains an operand", 'if error == "RECEIVE_TIMEOUT_ERROR":', 'if error == "RECEIVE_TIMEOUT_ERROR" or error == "PROTOCOL_ERROR":'),
    ("pn53x_tgt_chip_error", "NEUTRAL tuple order", "(0x0A, 0x29, 0x31)", "(0x31, 0x29, 0x0A)"),
]
