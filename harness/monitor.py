"""T-tie for the condition-variable discipline of nfc/llcp/tco.py and llc.py ("no lost wake-up").

    import monitor
    monitor.run(ck)                      # inside harness/props/c05.py / c09.py : run(ck)

regenerates lean/NfcVerif/Gen/Monitor.lean from the source tree under test (harness/translate_mon.py, `ast` only),
rebuilds NfcVerif.Props.Monitor and audits the theorems.  A theorem that no longer checks is a *broken proof
obligation* of the calling check (`ck.lean_many(..., gen_dependent=True)`), reported with a diagnosis that names
the method, the attribute and the condition.  See docs/monitor.md.

The diagnosis (`diagnose`) is a Python mirror of the Lean checker `NfcVerif.Monitor.chk` that collects reasons
instead of stopping at the first one; it is a convenience, never the verdict.
"""
import os
import re
import sys

sys.path.insert(0, os.path.dirname(os.path.abspath(__file__)))
import translate_mon  # noqa: E402

VERIF = os.path.dirname(os.path.dirname(os.path.abspath(__file__)))
LEAN = os.path.join(VERIF, "lean")
GEN = os.path.join(LEAN, "NfcVerif", "Gen", "Monitor.lean")
MODULE = "NfcVerif.Props.Monitor"
PROPS = os.path.join(LEAN, "NfcVerif", "Props", "Monitor.lean")
NS = "NfcVerif.MonitorProps."

# proved once for all programs (Lemmas/Monitor.lean)
GENERIC = ["NfcVerif.Monitor." + t for t in (
    "chk_sound", "monitor_sound", "demo_check", "notify_two_waiters_lost", "notifyAll_two_waiters_woken")]
TCO = [NS + t for t in (
    "tco_facts", "guard_tables", "reach_tables", "tco_discipline_ok", "dlc_discipline_ok", "raw_discipline_ok",
    "ldl_discipline_ok", "tco_wait_sites", "tco_notify_sites", "tco_exemptions_used", "tco_no_lost_wakeup",
    "dlc_no_lost_wakeup", "dlc_send_waits_in_a_loop", "tco_strict_rule1_fails", "tco_strict_notify_fails",
    "dlc_wake_trace")]
LLC = [NS + t for t in (
    "llc_facts", "llc_discipline_ok", "llc_wait_sites", "llc_no_exemptions", "llc_no_lost_wakeup",
    "llc_single_trivial", "resolve_thread_runs", "shutdown_thread_runs", "resolve_wake_trace")]
BY_PROPERTY = {"C05": GENERIC + TCO, "C09": GENERIC + TCO + LLC}


def regenerate(repo, out=GEN):
    return translate_mon.emit(repo, out)


# ---------------------------------------------------------------------------------------------- exemption tables
def parse_tables(path=PROPS):
    """{program: {"write": {(meth, attr, cv)}, "wait": {(meth, cv, kind)}, "notify": {(meth, cv)}}} from Props/Monitor.lean"""
    text = open(path).read()
    out = {}
    for prog in ("Tco", "Llc"):
        t = {"write": set(), "wait": set(), "notify": set()}
        for kind, name in (("write", "writeExempt"), ("wait", "waitExempt"), ("notify", "notifyExempt")):
            m = re.search(r"def %s%s\b[^\n]*:=\s*\[(.*?)\]\n" % (prog.lower(), name[0].upper() + name[1:]), text, re.S)
            if not m:
                continue
            for item in re.findall(r"\(([^()]*)\)", re.sub(r"--[^\n]*", "", m.group(1))):
                parts = [x.strip().split(".")[-1] for x in item.split(",")]
                t[kind].add(tuple(parts))
        out[prog] = t
    return out


def _ids(p, res):
    attrs, cvs, locks = translate_mon.collect_tables(p, res)
    return ({a: "a_" + translate_mon.ident(a) for a in attrs}, {c: "cv_" + translate_mon.ident(c) for c in cvs},
            {"%s.%s" % k: "m_" + translate_mon.ident(("%s.%s" % k).replace("@", "_at_")) for k in p.order})


# ---------------------------------------------------------------------------------------------- diagnosis
class Diag:
    def __init__(self, p, res, tables, reach):
        self.p, self.res, self.t = p, res, tables
        self.aid, self.cid, self.mid = _ids(p, res)
        self.guards = {}                                   # cv -> set of attrs read by some guard
        for k in reach:
            for x in translate_mon.walk(res[k]):
                if x[0] == "wait":
                    self.guards.setdefault(x[2], set()).update(x[4])
        self.out = []

    def owed(self, m, a):
        return [cv for cv in sorted(self.p.cvs) if a in self.guards.get(cv, ()) and
                (self.mid[m], self.aid.get(a, a), self.cid[cv]) not in self.t["write"]]

    def say(self, entry, msg):
        if (entry, msg) not in self.out:
            self.out.append((entry, msg))

    def run(self, entry, t, d, st, stack):
        """st = (need: {cv: {(m, a)}}, ntf: set) ; returns (normal state | None, abort state | None)"""
        k = t[0]
        need, ntf = st
        if k == "skip":
            return st, None
        if k == "exit":
            return None, st
        if k == "other":
            self.say(entry, "untranslatable: %s" % t[1])
            return st, st
        if k == "write":
            o = self.owed(t[1], t[2])
            if o and d == 0:
                self.say(entry, "rule 2: %s writes `%s` outside the lock; guards of %s read it" % (t[1], t[2], ", ".join(o)))
                return st, None
            n = {c: set(v) for c, v in need.items()}
            for cv in o:
                if cv not in ntf:
                    n.setdefault(cv, set()).add((t[1], t[2]))
            return (n, ntf), None
        if k in ("notify", "notifyAll"):
            if d == 0:
                self.say(entry, "%s of %s in %s outside the lock" % (k, t[2], t[1]))
                return st, None
            if k == "notifyAll" or (self.mid[t[1]], self.cid[t[2]]) in self.t["notify"]:
                return ({c: v for c, v in need.items() if c != t[2]}, ntf | {t[2]}), None
            return st, None
        if k == "wait":
            _, m, cv, g, reads, to = t
            if d == 0:
                self.say(entry, "rule 1: %s waits on %s outside the lock" % (m, cv))
            if self.p.cvs.get(cv) != self.p.lock:
                self.say(entry, "rule 1: %s is not built on the object's lock" % cv)
            if g != "whileG" and (self.mid[m], self.cid[cv], g) not in self.t["wait"]:
                self.say(entry, "rule 1: wait on %s in %s is %s-guarded (reads %s), not in a while loop" % (
                    cv, m, g, list(reads)))
            self.release(entry, st, "waits (%s in %s)" % (cv, m))
            return ({}, frozenset()), None
        if k == "withLock":
            if t[1] != self.p.lock:
                self.say(entry, "foreign lock %s" % t[1])
            if d > 0 and not self.p.reentrant:
                self.say(entry, "nested acquisition of a non-reentrant lock")
            n, a = self.run(entry, t[2], d + 1, ({}, frozenset()) if d == 0 else st, stack)
            if d == 0:
                for x, how in ((n, "leaves the lock"), (a, "leaves the lock by an exception / early exit")):
                    if x is not None:
                        self.release(entry, x, how)
                e = ({}, frozenset())
                return (e if n is not None else None), (e if a is not None else None)
            return n, a
        if k == "seq":
            ab = None
            cur = st
            for x in t[1]:
                n, a = self.run(entry, x, d, cur, stack)
                ab = self.join(ab, a)
                if n is None:
                    return None, ab
                cur = n
            return cur, ab
        if k == "branch":
            n1, a1 = self.run(entry, t[1], d, st, stack)
            n2, a2 = self.run(entry, t[2], d, st, stack)
            return self.join(n1, n2), self.join(a1, a2)
        if k == "tryc":
            n1, a1 = self.run(entry, t[1], d, st, stack)
            if a1 is None:
                return n1, None
            n2, a2 = self.run(entry, t[2], d, a1, stack)
            return self.join(n1, n2), self.join(a1, a2)
        if k == "loop":
            n1, a1 = self.run(entry, t[1], d, st, stack)
            if n1 is None or self.le(n1, st):
                return st, a1
            inv = self.join(st, n1)
            n2, a2 = self.run(entry, t[1], d, inv, stack)
            if n2 is not None and not self.le(n2, inv):
                self.say(entry, "loop does not stabilise after one widening step")
            return inv, a2
        if k == "call":
            if t[1] in stack or len(stack) > 40:
                self.say(entry, "recursion through %s.%s" % t[1])
                return st, st
            return self.run(entry, self.res[t[1]], d, st, stack + [t[1]])
        if k == "reenter":
            if d != 0:
                self.say(entry, "recursive call of %s.%s under the lock" % t[1])
            e = ({}, frozenset())
            return e, e
        raise ValueError(k)

    def release(self, entry, st, how):
        for cv, why in sorted(st[0].items()):
            for m, a in sorted(why):
                self.say(entry, "rule 3: %s writes `%s` and %s without notify_all on %s" % (m, a, how, cv))

    @staticmethod
    def join(x, y):
        if x is None:
            return y
        if y is None:
            return x
        n = {c: set(v) for c, v in x[0].items()}
        for c, v in y[0].items():
            n.setdefault(c, set()).update(v)
        return n, x[1] & y[1]

    @staticmethod
    def le(x, y):
        return all(c in y[0] for c in x[0]) and y[1] <= x[1]


def diagnose(repo=None, progs=None, tables=None):
    """reasons why entry points fail the discipline: list of (program, entry, message)"""
    if progs is None:
        progs, _, _ = translate_mon.translate(repo or os.environ.get("NFCPY_REPO", "/repo"))
    tables = tables or parse_tables()
    out = []
    for name in ("Tco", "Llc"):
        p, res = progs[name]
        for short, cls, vis, reach in translate_mon.class_groups(p, res):
            if short == "Tco":
                continue            # the abstract base class is never instantiated
            dg = Diag(p, res, tables[name], reach)
            for key in vis:
                entry = "%s.%s" % key
                dg.run(entry, res[key], 0, ({}, frozenset()), [key])
            for e, m in dg.out:
                out.append((name + ":" + short, e, m))
        for k, v in sorted(p.facts.items()):
            if not v:
                out.append((name, "-", "source fact does not hold: " + k))
    return out


def run(ck):
    """regenerate, rebuild, audit; returns True when every theorem checks"""
    import common
    import shutil
    import tempfile
    tmp = tempfile.mkdtemp(prefix="mon-")     # the shared Gen/ file is rewritten by common.regen_all() under the lake
    try:                                       # lock; here only the translator's report is needed
        progs, report = regenerate(common.REPO, os.path.join(tmp, "Monitor.lean"))
    finally:
        shutil.rmtree(tmp, ignore_errors=True)
    ck.trusted.append("harness/translate_mon.py (ast: src/nfc/llcp/tco.py, llc.py -> Gen/Monitor.lean; validated against "
                      "CPython by harness/translate_mon_selftest.py), Python's ast module")
    ck.assumptions.append(
        "monitor discipline: CPython's threading.Condition/RLock behave as in Model/Monitor.lean (a wait releases the "
        "lock completely and re-acquires it, notify wakes one waiter, notify_all all, spurious wake-ups possible); "
        "exceptions inside a locked region come only from raise statements and from the mutating operations marked "
        "`may raise`; the exemption tables of Props/Monitor.lean (docs/monitor.md) list every write that need not "
        "notify, every wait that is not in a while loop and every plain notify (accepted for at most one waiter)")
    ck.assumptions.append(
        "monitor discipline, hypothesis `Single` of dlc_no_lost_wakeup / tco_no_lost_wakeup: at most one application "
        "thread per socket and direction (at most one thread waits on a condition that the link thread wakes with a "
        "plain notify(): recv_ready, send_ready, send_token); llc.py needs no such hypothesis (llc_single_trivial)")
    ck.notes.append(
        "monitor: with TWO application threads on one socket three interleavings on the real tco.py are documented "
        "observations, not findings (no message lost or duplicated, nothing blocks beyond link termination): "
        "(A) a second receiver makes a woken recv() return None/EPIPE on a live connection, (B) poll('recv') + recv(): "
        "notify() wakes the poller, the receiver stays blocked with a message queued, (C) two senders on a closed "
        "window: one acknowledgement for two PDUs wakes one; replay: harness/translate_mon_selftest.py --only witness "
        "(docs/monitor.md section 7)")
    n_wait = sum(1 for p, _ in progs.values() for s in p.sites if s[2] == "wait")
    n_other = sum(len(p.others) for p, _ in progs.values())
    ck.notes.append("monitor: %d methods translated, %d wait sites, %d untranslatable statements" % (
        sum(len(p.order) for p, _ in progs.values()), n_wait, n_other))
    theorems = BY_PROPERTY.get(ck.pid, GENERIC + TCO + LLC)
    ok = ck.lean_many([(MODULE, theorems)], gen_dependent=True)
    if not ok:
        try:
            diag = ["%s %s: %s" % d for d in diagnose(progs=progs)]
        except Exception as e:      # the diagnosis is a convenience, never the verdict
            diag = ["diagnosis failed: %r" % e]
        if diag:
            ck.lean_errors.append((MODULE + " (diagnosis)", diag[:12]))
    return ok


def doc_tables(progs):
    """markdown: per-method table of both programs"""
    L = []
    for name in ("Tco", "Llc"):
        p, res = progs[name]
        L.append("### %s (`%s`): lock `%s` (%s), conditions %s\n" % (
            name, p.cfg["file"], p.lock, "RLock" if p.reentrant else "Lock",
            ", ".join("`%s`(%s)" % (c, l) for c, l in sorted(p.cvs.items()))))
        L.append("| method | line | takes the lock | waits (condition, guard, reads) | notify | notify_all | writes | "
                 "calls (by reference) |")
        L.append("|---|---|---|---|---|---|---|---|")
        for key in p.order:
            if key[1] == "__init__":
                continue
            t = res[key]
            fn = p.methods[key][0]
            w, n, na, wr, calls, oth, lk = [], [], [], [], [], [], 0
            for x in translate_mon.walk(t):
                if x[0] == "wait":
                    w.append("`%s` %s [%s]%s" % (x[2], x[3], ", ".join(x[4]), " timeout" if x[5] else ""))
                elif x[0] == "notify":
                    n.append(x[2])
                elif x[0] == "notifyAll":
                    na.append(x[2])
                elif x[0] == "write":
                    wr.append(x[2])
                elif x[0] in ("call", "reenter"):
                    calls.append(("%s.%s" % x[1]).replace("TransmissionControlObject", "TCO").replace(
                        "DataLinkConnection", "DLC").replace("LogicalLinkController", "LLC").replace(
                        "ServiceAccessPoint", "SAP").replace("ServiceDiscovery", "SD") + (" (re-entry)" if x[0] == "reenter" else ""))
                elif x[0] == "other":
                    oth.append(x[1])
                elif x[0] == "withLock":
                    lk += 1
            if not (w or n or na or wr or lk or oth) and not calls:
                continue

            def u(l):
                out = []
                for i in l:
                    if i not in out:
                        out.append(i)
                return ", ".join(out) or "-"
            L.append("| `%s.%s` | %d | %s | %s | %s | %s | %s | %s |%s" % (
                key[0], key[1], fn.lineno, "%dx" % lk if lk else "-", "<br>".join(w) or "-", u(n), u(na), u(wr), u(calls),
                (" UNTRANSLATED: " + "; ".join(oth)) if oth else ""))
        L.append("")
    return "\n".join(L) + "\n"


if __name__ == "__main__":
    repo = os.environ.get("NFCPY_REPO", "/repo")
    args = [a for a in sys.argv[1:] if not a.startswith("-")]
    if args:
        repo = args[0]
    tables = parse_tables() if os.path.exists(PROPS) else {n: {"write": set(), "wait": set(), "notify": set()} for n in ("Tco", "Llc")}
    if "--strict" in sys.argv:
        tables = {n: {"write": set(), "wait": set(), "notify": set()} for n in ("Tco", "Llc")}
    if "--doc" in sys.argv:
        progs, _, _ = translate_mon.translate(repo)
        path = os.path.join(VERIF, "docs", "monitor.md")
        doc = open(path).read()
        a, b = "<!-- BEGIN GENERATED (harness/monitor.py --doc) -->", "<!-- END GENERATED -->"
        doc = doc[:doc.index(a) + len(a)] + "\n" + doc_tables(progs) + doc[doc.index(b):]
        open(path, "w").write(doc)
        print("docs/monitor.md tables regenerated")
    d = diagnose(repo, tables=tables)
    for x in d:
        print("%s %-48s %s" % x)
    print("%d findings on %s" % (len(d), repo))
