"""T-tie for pure byte-level functions: regenerate `lean/NfcVerif/Gen/Fn*.lean` from the source
(`translate_fn.py`, spec tables `fnspecs/*.py`) and re-prove the bridge theorems `Props/FnBridge*.lean`
(regenerated definition = model function, for all inputs).

    import fnbridge
    fnbridge.run(ck, "Crc")          # in harness/props/c14.py

A failed build of a bridge module is a *broken proof obligation* of the calling check (like
`Check.tables()`): the source no longer says what the model says.
"""
import os

import translate_fn


def _groups():
    g = {}
    for m in translate_fn.load_spec_modules():
        info = dict(m.BRIDGE)
        info["spec_file"] = "harness/fnspecs/%s.py" % m.__name__.replace("fnspecs_", "")
        g[m.GROUP] = info
    return g


GROUPS = _groups()     # group -> {"module", "theorems", "properties", "spec_file"}


def groups_of(pid):
    """the groups whose bridge belongs into the check of property `pid`"""
    return [g for g, info in GROUPS.items() if pid in info["properties"]]


def regenerate(repo=None, lean_dir=None):
    import common
    repo = repo or common.REPO
    lean_dir = lean_dir or common.LEAN
    return translate_fn.emit(repo, os.path.join(lean_dir, "NfcVerif", "Gen"))


def run(ck, *groups):
    """regenerate every Gen/Fn*.lean and build + audit the bridge modules of the named groups"""
    specs = regenerate()
    ck.trusted.append("harness/translate_fn.py + lean/NfcVerif/PyFn.lean (Python subset -> Lean, "
                      "docs/fn_translator.md; validated by harness/translate_fn_selftest.py)")
    ok = True
    for g in groups:
        info = GROUPS[g]
        for s in specs:
            if s.group == g and s.refused:
                ck.notes.append("translate_fn refused %s: %s" % (s.qual, s.refused))
        ok = ck.lean(info["module"], info["theorems"], gen_dependent=True) and ok
    return ok
