"""Translator (T-tie of C15): src/nfc/clf/__init__.py  ->  lean/NfcVerif/Gen/ClfLock.lean

Every method of `ContactlessFrontend` becomes a term of `NfcVerif.Lock.Stmt`.
The translation is deliberately narrow and conservative:

* `self.device.<m>(...)`, a bare load `self.device.<m>` (bound-method alias) and a
  call through a local name bound to such an alias  -> `dev "<m>"`
* `self.device = ...`                               -> `assignDev`
* `with self.lock:`                                 -> `withLock`
* `if self.device is None / is not None / self.device:` -> `ifDev`
* other `if`                                        -> `branch`; loops -> `loop (tryc body skip)`;
  `try/except` -> `tryc`; `raise/return/break/continue` -> `exit`
* calls of nested functions and of `self.<method>` are inlined (depth-limited)
* a call that is not on the allow-list of side-effect free helpers is `callback`
  when it occurs outside `with self.lock` (foreign code may re-enter the
  frontend) and `other` inside (the Lean checker rejects `other`)
* anything the translator does not understand is `other "<source>"`.

The Lean side proves `wellLocked program = true` on the generated term; a change
of the source that moves a driver call out of the lock, drops the device guard,
calls foreign code while holding the lock, or that the translator cannot
understand, breaks that theorem.
"""
import ast
import os
import sys

BENIGN_NAMES = {
    "isinstance", "max", "min", "len", "range", "bool", "str", "int", "tuple", "list", "dict", "filter",
    "bytearray", "bytes", "print_data", "IOError", "ValueError", "TypeError", "UnsupportedTargetError",
    "ProtocolError", "RemoteTarget", "LocalTarget", "all", "any", "eval", "type", "hexlify", "repr", "format",
    "AssertionError",
}
# method calls whose receiver chain starts at one of these names are side-effect free helpers
BENIGN_ROOTS = {"log", "time", "os", "errno", "target", "options", "info", "errmsg", "error", "device", "s",
                "path", "threading", "rdwr_options", "llcp_options", "card_options", "k", "brty"}
MAX_INLINE = 4


def is_self_attr(n, name=None):
    return (isinstance(n, ast.Attribute) and isinstance(n.value, ast.Name) and n.value.id == "self"
            and (name is None or n.attr == name))


def is_device(n):
    return is_self_attr(n, "device")


def lean_str(s):
    s = " ".join(s.split())[:80]
    return '"' + s.replace("\\", "\\\\").replace('"', '\\"') + '"'


class T:
    def __init__(self, cls, src):
        self.cls = cls
        self.src = src
        self.methods = {m.name: m for m in cls.body if isinstance(m, ast.FunctionDef)}
        self.sites = []      # (method, lineno, device method, locked syntactically)
        self.others = []     # (method, lineno, source)
        self.callbacks = []  # (method, lineno, source)
        self.reads = []      # benign reads of self.device

    # ---- constructors
    def seq(self, items):
        items = [i for i in items if i != "skip"]
        if not items:
            return "skip"
        r = items[-1]
        for i in reversed(items[:-1]):
            r = "(seq %s %s)" % (i, r)
        return r

    def other(self, node, ctx):
        src = ast.unparse(node) if not isinstance(node, str) else node
        self.others.append((ctx["fn"], getattr(node, "lineno", 0), src))
        return "(other %s)" % lean_str(src)

    # ---- expressions: ordered list of effects
    def effects(self, node, ctx):
        if node is None:
            return []
        out = []
        if isinstance(node, ast.Lambda):
            # a lambda defined here runs later, in an unknown lock context
            if any(is_device(x) for x in ast.walk(node)):
                out.append(self.other(node, ctx))
            return out
        if isinstance(node, ast.Call):
            f = node.func
            for a in node.args:
                out += self.effects(a.value if isinstance(a, ast.Starred) else a, ctx)
            for k in node.keywords:
                out += self.effects(k.value, ctx)
            if isinstance(f, ast.Attribute) and is_device(f.value):
                self.sites.append((ctx["fn"], node.lineno, f.attr, ctx["locked"]))
                out.append('(dev "%s")' % f.attr)
                return out
            if isinstance(f, ast.Name) and f.id in ctx["aliases"]:
                self.sites.append((ctx["fn"], node.lineno, ctx["aliases"][f.id] + " (via alias)", ctx["locked"]))
                out.append('(dev "%s")' % ctx["aliases"][f.id])
                return out
            if isinstance(f, ast.Name) and f.id in ctx["locals"]:
                out.append(self.inline(ctx["locals"][f.id], ctx, f.id))
                return out
            if is_self_attr(f) and f.attr in self.methods:
                out.append(self.inline(self.methods[f.attr], ctx, f.attr))
                return out
            if isinstance(f, ast.Name) and f.id in BENIGN_NAMES:
                return out
            out += self.effects(f.value, ctx) if isinstance(f, ast.Attribute) else []
            root = f
            while isinstance(root, (ast.Attribute, ast.Subscript, ast.Call)):
                root = root.value if not isinstance(root, ast.Call) else root.func
            if isinstance(f, ast.Attribute) and isinstance(root, ast.Name) and root.id == "device" \
                    and not ctx["locked"]:
                # nfc.clf.device.connect(path) probes hardware and initialises a driver: a driver call
                # that must be made under the frontend lock like any other
                out.append(self.other(node, ctx))
                return out
            if isinstance(f, ast.Attribute) and (isinstance(root, ast.Constant) or
                                                 (isinstance(root, ast.Name) and root.id in BENIGN_ROOTS)):
                # e.g. log.debug(...), "..".format(...), target.brty.endswith(..), options.get(..), device.connect(path)
                if not (isinstance(root, ast.Name) and root.id == "options" and isinstance(f, ast.Subscript)):
                    return out
            # unknown callee: foreign code
            if ctx["locked"]:
                out.append(self.other(node, ctx))
            else:
                self.callbacks.append((ctx["fn"], node.lineno, ast.unparse(node)[:60]))
                out.append("callback")
            return out
        if isinstance(node, ast.Attribute) and is_device(node.value):
            # bare load of a bound method: counts as a driver call at the point of the load
            self.sites.append((ctx["fn"], node.lineno, node.attr + " (bound method load)", ctx["locked"]))
            return ['(dev "%s")' % node.attr]
        if is_device(node):
            self.reads.append((ctx["fn"], node.lineno))
            return []
        if isinstance(node, (ast.ListComp, ast.GeneratorExp, ast.SetComp, ast.DictComp)):
            inner = []
            for g in node.generators:
                inner += self.effects(g.iter, ctx)
                for c in g.ifs:
                    inner += self.effects(c, ctx)
            inner += self.effects(getattr(node, "elt", None) or getattr(node, "value", None), ctx)
            if isinstance(node, ast.DictComp):
                inner += self.effects(node.key, ctx)
            return ["(loop %s)" % self.seq(inner)] if inner else []
        if isinstance(node, (ast.BoolOp,)):
            # short circuit: later operands may not be evaluated
            vals = [self.seq(self.effects(v, ctx)) for v in node.values]
            r = vals[0]
            for v in vals[1:]:
                if v != "skip":
                    r = self.seq([r, "(branch %s skip)" % v])
            return [r] if r != "skip" else []
        if isinstance(node, ast.IfExp):
            return self.effects(node.test, ctx) + ["(branch %s %s)" % (self.seq(self.effects(node.body, ctx)),
                                                                       self.seq(self.effects(node.orelse, ctx)))]
        for c in ast.iter_child_nodes(node):
            if isinstance(c, (ast.expr,)):
                out += self.effects(c, ctx)
            elif isinstance(c, ast.keyword):
                out += self.effects(c.value, ctx)
        return out

    def inline(self, fn, ctx, name):
        if ctx["depth"] >= MAX_INLINE or name in ctx["stack"]:
            return self.other("recursive or too deep call of %s" % name, ctx)
        sub = dict(ctx, depth=ctx["depth"] + 1, stack=ctx["stack"] + [name], locals=dict(ctx["locals"]),
                   aliases=dict(ctx["aliases"]))
        # `return`/`raise` inside the callee end the callee, not the caller
        return "(tryc %s skip)" % self.block(fn.body, sub)

    # ---- device tests
    def dev_test(self, test):
        """returns 'nonnone' / 'none' when `test` is a test of self.device, else None"""
        if isinstance(test, ast.Compare) and len(test.ops) == 1 and is_device(test.left) and \
                isinstance(test.comparators[0], ast.Constant) and test.comparators[0].value is None:
            if isinstance(test.ops[0], ast.Is):
                return "none"
            if isinstance(test.ops[0], ast.IsNot):
                return "nonnone"
        if is_device(test):
            return "nonnone"
        if isinstance(test, ast.UnaryOp) and isinstance(test.op, ast.Not) and is_device(test.operand):
            return "none"
        return None

    # ---- statements
    def block(self, stmts, ctx):
        return self.seq([self.stmt(s, ctx) for s in stmts])

    def stmt(self, s, ctx):
        if isinstance(s, ast.Expr):
            if isinstance(s.value, ast.Constant):
                return "skip"
            return self.seq(self.effects(s.value, ctx))
        if isinstance(s, ast.Pass):
            return "skip"
        if isinstance(s, ast.FunctionDef):
            ctx["locals"][s.name] = s
            return "skip"
        if isinstance(s, ast.With):
            if len(s.items) == 1 and is_self_attr(s.items[0].context_expr, "lock") and s.items[0].optional_vars is None:
                return "(withLock %s)" % self.block(s.body, dict(ctx, locked=True))
            return self.other(s, ctx)
        if isinstance(s, ast.If):
            k = self.dev_test(s.test)
            if k == "nonnone":
                return "(ifDev %s %s)" % (self.block(s.body, ctx), self.block(s.orelse, ctx))
            if k == "none":
                return "(ifDev %s %s)" % (self.block(s.orelse, ctx), self.block(s.body, ctx))
            if any(is_device(x) for x in ast.walk(s.test)) and not all(
                    isinstance(p, ast.Attribute) for p in []):
                pass
            return self.seq(self.effects(s.test, ctx) + ["(branch %s %s)" % (self.block(s.body, ctx), self.block(s.orelse, ctx))])
        if isinstance(s, (ast.For, ast.While)):
            head = self.effects(s.iter if isinstance(s, ast.For) else s.test, ctx)
            body = self.block(s.body, ctx)
            inner = self.seq(([] if isinstance(s, ast.For) else head) + [body])
            return self.seq(head + ["(loop (tryc %s skip))" % inner, self.block(s.orelse, ctx)])
        if isinstance(s, ast.Try):
            if s.finalbody:
                return self.other(s, ctx)
            body = self.seq([self.block(s.body, ctx), self.block(s.orelse, ctx)])
            hs = [self.block(h.body, ctx) for h in s.handlers]
            h = hs[0] if hs else "skip"
            for x in hs[1:]:
                h = "(branch %s %s)" % (h, x)
            return "(tryc %s %s)" % (body, h)
        if isinstance(s, ast.Return):
            return self.seq(self.effects(s.value, ctx) + ["exit"])
        if isinstance(s, ast.Raise):
            return self.seq(self.effects(s.exc, ctx) + self.effects(s.cause, ctx) + ["exit"])
        if isinstance(s, (ast.Break, ast.Continue)):
            return "exit"
        if isinstance(s, ast.Assert):
            return self.seq(self.effects(s.test, ctx) + self.effects(s.msg, ctx) + ["(branch skip exit)"])
        if isinstance(s, (ast.Assign, ast.AugAssign, ast.AnnAssign)):
            targets = s.targets if isinstance(s, ast.Assign) else [s.target]
            value = s.value
            eff = self.effects(value, ctx)
            for t in targets:
                if is_device(t):
                    eff.append("assignDev")
                elif isinstance(t, ast.Name) and isinstance(value, ast.Attribute) and is_device(value.value):
                    ctx["aliases"][t.id] = value.attr
                elif isinstance(t, ast.Name):
                    ctx["aliases"].pop(t.id, None)
                    if any(is_device(x) for x in ast.walk(value)) and not isinstance(value, ast.Call):
                        eff.append(self.other(s, ctx))
                elif any(is_device(x) for x in ast.walk(t)):
                    eff.append(self.other(s, ctx))
                else:
                    for c in ast.iter_child_nodes(t):
                        if isinstance(c, ast.expr) and not isinstance(c, ast.Name):
                            eff += self.effects(c, ctx)
            return self.seq(eff)
        if isinstance(s, (ast.Import, ast.ImportFrom, ast.Global, ast.Nonlocal)):
            return "skip"
        if isinstance(s, ast.Delete):
            return self.seq([e for t in s.targets for e in self.effects(t, ctx)])
        return self.other(s, ctx)

    def method(self, m):
        ctx = {"fn": m.name, "locked": False, "locals": {}, "aliases": {}, "depth": 0, "stack": [m.name]}
        body = list(m.body)
        if m.name == "__init__":
            # Until `self.lock` exists the object under construction is not shared: constant
            # initialisations before that assignment are not events. Anything else there is `other`.
            pre = []
            while body:
                s = body.pop(0)
                is_lock = isinstance(s, ast.Assign) and any(is_self_attr(t, "lock") for t in s.targets)
                const = isinstance(s, ast.Assign) and isinstance(s.value, ast.Constant) and \
                    all(is_self_attr(t) for t in s.targets)
                doc = isinstance(s, ast.Expr) and isinstance(s.value, ast.Constant)
                if is_lock:
                    break
                if not (const or doc):
                    pre.append(self.other(s, ctx))
            return self.seq(pre + [self.block(body, ctx)])
        return self.block(body, ctx)


def translate(repo):
    path = os.path.join(repo, "src", "nfc", "clf", "__init__.py")
    src = open(path).read()
    tree = ast.parse(src)
    cls = [n for n in tree.body if isinstance(n, ast.ClassDef) and n.name == "ContactlessFrontend"][0]
    t = T(cls, src)
    defs = []
    names = []
    for m in cls.body:
        if isinstance(m, ast.FunctionDef):
            term = t.method(m)
            ident = "m_" + m.name.strip("_") + ("_dunder" if m.name.startswith("__") else "")
            if ident in names:
                ident += "_%d" % m.lineno   # property getter/setter pairs
            names.append(ident)
            defs.append((ident, m.name, m.lineno, term))
    # facts outside the class that the discipline relies on
    facts = {}
    init = t.methods.get("__init__")
    lock_assigns = [n for n in ast.walk(cls) if isinstance(n, (ast.Assign, ast.AugAssign)) and
                    any(is_self_attr(x, "lock") for x in (n.targets if isinstance(n, ast.Assign) else [n.target]))]
    facts["lock_is_threading_Lock_assigned_once_in_init"] = (
        len(lock_assigns) == 1 and init is not None and lock_assigns[0] in list(ast.walk(init)) and
        ast.unparse(lock_assigns[0].value) == "threading.Lock()")
    # no manual acquire/release of the lock anywhere in the class
    facts["no_manual_acquire_release"] = not any(
        isinstance(n, ast.Attribute) and n.attr in ("acquire", "release") and is_self_attr(n.value, "lock")
        for n in ast.walk(cls))
    # self.lock only used as `with self.lock` (or assigned in __init__)
    with_items = {id(i.context_expr) for n in ast.walk(cls) if isinstance(n, ast.With) for i in n.items}
    lock_loads = [n for n in ast.walk(cls) if is_self_attr(n, "lock") and isinstance(n.ctx, ast.Load)]
    facts["lock_only_used_in_with"] = all(id(n) in with_items for n in lock_loads)
    # Device.__str__ / vendor_name / product_name / chipset_name / path are attribute reads only
    dpath = os.path.join(repo, "src", "nfc", "clf", "device.py")
    dtree = ast.parse(open(dpath).read())
    dcls = [n for n in dtree.body if isinstance(n, ast.ClassDef) and n.name == "Device"][0]
    pure = True
    for m in dcls.body:
        if isinstance(m, ast.FunctionDef) and m.name in ("__str__", "vendor_name", "product_name", "chipset_name", "path"):
            for n in ast.walk(m):
                if isinstance(n, ast.Call):
                    f = n.func
                    ok = (isinstance(f, ast.Name) and f.id in ("hasattr", "filter", "bool")) or \
                         (isinstance(f, ast.Attribute) and f.attr == "join")
                    pure = pure and ok
    facts["device_str_and_name_properties_do_no_io"] = pure
    # nobody outside clf/__init__.py reaches into `<frontend>.device.`
    leaks = []
    base = os.path.join(repo, "src", "nfc")
    for root, _, files in os.walk(base):
        for fn in files:
            if fn.endswith(".py"):
                p = os.path.join(root, fn)
                if os.path.relpath(p, base).startswith("clf"):
                    continue
                for i, line in enumerate(open(p), 1):
                    probe = line.replace("nfc.clf.device", "")
                    # str(clf.device) (pure, see device_str fact) is tolerated; attribute access is not
                    if "clf.device." in probe or (".device." in probe and "self.device" not in probe):
                        leaks.append("%s:%d" % (os.path.relpath(p, repo), i))
    facts["no_module_outside_clf_uses_frontend_device"] = not leaks
    # no module of nfc/clf defers work to another thread of control: no thread, timer, executor, event loop,
    # signal handler or exit hook is created anywhere in the frontend, the drivers or the transports
    # (a deferred driver action would touch the reader while no frontend operation holds the lock)
    spawns = []
    bad_modules = {"_thread", "thread", "concurrent", "multiprocessing", "asyncio", "sched", "atexit", "signal",
                   "subprocess", "socketserver"}
    bad_threading = {"Thread", "Timer", "_start_new_thread", "start_new_thread", "setprofile", "settrace"}
    clfdir = os.path.join(base, "clf")
    for fn in sorted(os.listdir(clfdir)):
        if not fn.endswith(".py"):
            continue
        p = os.path.join(clfdir, fn)
        mtree = ast.parse(open(p).read())
        for n in ast.walk(mtree):
            if isinstance(n, ast.Import):
                for a in n.names:
                    if a.name.split(".")[0] in bad_modules:
                        spawns.append("%s:%d import %s" % (fn, n.lineno, a.name))
            elif isinstance(n, ast.ImportFrom):
                mod = (n.module or "").split(".")[0]
                if mod in bad_modules:
                    spawns.append("%s:%d from %s import" % (fn, n.lineno, n.module))
                if mod == "threading" and any(a.name in bad_threading or a.name == "*" for a in n.names):
                    spawns.append("%s:%d from threading import %s" % (fn, n.lineno, ",".join(a.name for a in n.names)))
            elif isinstance(n, ast.Attribute) and n.attr in bad_threading:
                spawns.append("%s:%d %s" % (fn, n.lineno, ast.unparse(n)))
            elif isinstance(n, ast.Name) and n.id in ("Thread", "Timer"):
                spawns.append("%s:%d %s" % (fn, n.lineno, n.id))
    facts["no_clf_module_starts_threads_timers_or_hooks"] = not spawns
    leaks = leaks + spawns if spawns else leaks
    return defs, t, facts, leaks


def emit(repo, out_path):
    defs, t, facts, leaks = translate(repo)
    lines = ["import NfcVerif.Model.Lock",
             "/-! GENERATED by harness/translate_lock.py from src/nfc/clf/__init__.py - do not edit. -/",
             "namespace NfcVerif.Gen.ClfLock", "open NfcVerif.Lock NfcVerif.Lock.Stmt", ""]
    for ident, name, lineno, term in defs:
        lines.append("/-- `ContactlessFrontend.%s` (line %d) -/" % (name, lineno))
        lines.append("def %s : Stmt :=\n  %s\n" % (ident, term))
    lines.append("def program : List Stmt := [%s]\n" % ", ".join(d[0] for d in defs))
    lines.append("def methodNames : List String := [%s]\n" % ", ".join('"%s"' % d[1] for d in defs))
    lines.append("/-- source facts checked by the translator (true = holds) -/")
    lines.append("def facts : List (String × Bool) := [%s]\n" % ", ".join(
        '("%s", %s)' % (k, "true" if v else "false") for k, v in sorted(facts.items())))
    lines.append("end NfcVerif.Gen.ClfLock")
    text = "\n".join(lines) + "\n"
    old = open(out_path).read() if os.path.exists(out_path) else None
    if old != text:
        with open(out_path, "w") as f:
            f.write(text)
    return defs, t, facts, leaks


if __name__ == "__main__":
    repo = sys.argv[1] if len(sys.argv) > 1 else "/repo"
    out = sys.argv[2] if len(sys.argv) > 2 else os.path.join(os.path.dirname(os.path.dirname(os.path.abspath(__file__))),
                                                             "lean", "NfcVerif", "Gen", "ClfLock.lean")
    defs, t, facts, leaks = emit(repo, out)
    for s in t.sites:
        print("site", s)
    for o in t.others:
        print("OTHER", o)
    print("callbacks", len(t.callbacks), "reads", t.reads)
    print(facts, leaks[:5])
